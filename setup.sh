#!/bin/sh
# Builds the checker binary from the sources in /verif/checker, offline.
set -eu
HERE=$(cd "$(dirname "$0")" && pwd)
export PATH=/opt/veriftools/go1.26.8/bin:$PATH
export GOFLAGS=-mod=mod GOPROXY=off GOTOOLCHAIN=local GOWORK=off CGO_ENABLED=0
unset GOOS GOARCH || true
mkdir -p "$HERE/bin" "$HERE/evidence/violations"
cd "$HERE/checker"
go build -o "$HERE/bin/aghverif" ./cmd/aghverif
echo "built $HERE/bin/aghverif"
