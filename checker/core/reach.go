package core

import (
	"strings"

	"golang.org/x/tools/go/ssa"
)

// Unbound resolves a bound-method thunk (X$bound) to the method it calls.
func Unbound(fn *ssa.Function) *ssa.Function {
	if fn == nil || !strings.HasSuffix(fn.Name(), "$bound") {
		return fn
	}
	for _, call := range Calls(fn) {
		if sc := call.Common.StaticCallee(); sc != nil {
			return sc
		}
	}
	return fn
}

// StaticReach returns the module functions reachable from fn through static
// calls, immediately-invoked/deferred closures, and closures passed as
// arguments (conservatively: a MakeClosure created in a function is assumed
// callable from it), up to depth.
func StaticReach(fn *ssa.Function, depth int) map[*ssa.Function]bool {
	seen := map[*ssa.Function]bool{}
	var visit func(f *ssa.Function, d int)
	visit = func(f *ssa.Function, d int) {
		if f == nil || seen[f] || d > depth || f.Blocks == nil {
			return
		}
		seen[f] = true
		if impl := thinWrapperCallee(f); impl != nil && implAlias[impl] == f {
			// a thin wrapper is transparent: stepping through it costs no depth
			visit(impl, d)
			return
		}
		for _, b := range f.Blocks {
			for _, in := range b.Instrs {
				switch x := in.(type) {
				case ssa.CallInstruction:
					if callee := x.Common().StaticCallee(); callee != nil && InModule(callee) {
						visit(callee, d+1)
					}
				case *ssa.MakeClosure:
					if cf, ok := x.Fn.(*ssa.Function); ok && InModule(cf) {
						visit(Unbound(cf), d+1)
						visit(cf, d+1)
					}
				}
			}
		}
	}
	visit(fn, 0)
	return seen
}

// CallsAnyOf reports whether some function in set contains a call whose
// callee key is in keys; it returns the first witness.
func CallsAnyOf(set map[*ssa.Function]bool, keys ...string) (bool, string) {
	want := map[string]bool{}
	for _, k := range keys {
		want[k] = true
	}
	for f := range set {
		for _, call := range Calls(f) {
			if want[call.Key] {
				return true, FuncKey(f) + " -> " + call.Key
			}
		}
	}
	return false, ""
}
