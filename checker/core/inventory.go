package core

import (
	"bufio"
	"os"
	"sort"
	"strings"
	"sync"

	"golang.org/x/tools/go/ssa"
)

// The function inventory.
//
// Every rule was written, and its tables confirmed by hand, against the
// functions that exist in the verified tree; baseline_functions.txt lists
// them (all builds).  A named function that is not in that list cannot be
// named by any rule or table: it is new code, typically what an "extract
// function" or "merge duplicates into a helper" refactoring leaves behind,
// and the engines treat it as part of the functions that call it — sinks,
// effects and guards inside it are located at its call sites, values flow
// through its parameters and results, and what it writes is attributed to its
// callers.  That is the semantics of inlining it, which is always sound.  With
// no inventory file nothing is new and the engines behave as without it.

// BaselineFile is the inventory's path.
var BaselineFile = "/verif/baseline_functions.txt"

var (
	baselineOnce sync.Once
	baseline     map[string]bool
)

func loadBaseline() {
	if f := os.Getenv("AGHVERIF_BASELINE"); f != "" {
		BaselineFile = f
	}
	fh, err := os.Open(BaselineFile)
	if err != nil {
		return
	}
	defer fh.Close()
	baseline = map[string]bool{}
	sc := bufio.NewScanner(fh)
	for sc.Scan() {
		l := strings.TrimSpace(sc.Text())
		if l != "" && !strings.HasPrefix(l, "#") {
			baseline[l] = true
		}
	}
}

// rootOf returns the outermost enclosing declared function of fn, with
// instantiations mapped to their generic origin.
func rootOf(fn *ssa.Function) *ssa.Function {
	for fn.Parent() != nil {
		fn = fn.Parent()
	}
	if o := fn.Origin(); o != nil {
		fn = o
	}
	return fn
}

// InventoryKey is the key under which fn's declaration is listed.
func InventoryKey(fn *ssa.Function) string { return FuncKey(rootOf(fn)) }

// IsNew reports whether fn (or the declared function enclosing it) is a
// function of the module that the inventory does not list.
func IsNew(fn *ssa.Function) bool {
	baselineOnce.Do(loadBaseline)
	if fn == nil || len(baseline) == 0 || !InModule(fn) {
		return false
	}
	root := rootOf(fn)
	if root.Synthetic != "" && root.Origin() == nil {
		return false // bound-method closures, thunks, wrappers: not declarations
	}
	if root.Object() == nil {
		return false
	}
	return !baseline[FuncKey(root)]
}

// Transparent reports whether calls of h are to be looked through: h is new
// (see above) and has a body.
func Transparent(h *ssa.Function) bool {
	return h != nil && len(h.Blocks) > 0 && IsNew(h)
}

// Inventory lists the declared functions of the module in p.
func (p *Prog) Inventory() []string {
	set := map[string]bool{}
	for _, fn := range append(append([]*ssa.Function{}, p.ModFns...), p.Wrappers()...) {
		if fn.Parent() != nil || fn.Object() == nil {
			continue
		}
		if fn.Synthetic != "" && fn.Origin() == nil {
			continue
		}
		set[FuncKey(rootOf(fn))] = true
		set[strings.ReplaceAll(strings.ReplaceAll(rootOf(fn).String(), ModInternal, ""), ModPath+".", "main.")] = true
	}
	var out []string
	for k := range set {
		out = append(out, k)
	}
	sort.Strings(out)
	return out
}

// Owners returns the listed functions a new function belongs to: the
// functions of the inventory that call it statically, directly or through
// other new functions.  ok is false when fn is used in some other way than
// being called statically from module code (its effects cannot be attributed).
func (p *Prog) Owners(fn *ssa.Function) (owners []*ssa.Function, ok bool) {
	if !IsNew(fn) {
		return []*ssa.Function{fn}, true
	}
	ok = true
	seen := map[*ssa.Function]bool{}
	set := map[*ssa.Function]bool{}
	var walk func(f *ssa.Function, d int)
	walk = func(f *ssa.Function, d int) {
		f = rootOfKeepInst(f)
		if seen[f] {
			return
		}
		seen[f] = true
		if !IsNew(f) {
			set[f] = true
			return
		}
		sites := p.StaticCallers(f)
		if o := f.Origin(); o != nil {
			sites = append(sites, p.StaticCallers(o)...)
		}
		if len(sites) == 0 || d > 6 || p.addressTaken()[f] {
			ok = false
			return
		}
		for _, s := range sites {
			ci := p.CallInstr(s)
			if ci == nil {
				ok = false
				continue
			}
			walk(ci.Parent(), d+1)
		}
	}
	walk(fn, 0)
	for f := range set {
		owners = append(owners, f)
	}
	sort.Slice(owners, func(i, j int) bool { return FuncKey(owners[i]) < FuncKey(owners[j]) })
	return owners, ok && len(owners) > 0
}

func rootOfKeepInst(fn *ssa.Function) *ssa.Function {
	for fn.Parent() != nil {
		fn = fn.Parent()
	}
	return fn
}

// addressTaken is the set of module functions used as values (stored, passed,
// bound) rather than only called.
func (p *Prog) addressTaken() map[*ssa.Function]bool {
	p.addrOnce.Do(func() {
		p.addrTaken = map[*ssa.Function]bool{}
		for _, f := range append(append([]*ssa.Function{}, p.ModFns...), p.Wrappers()...) {
			for _, b := range f.Blocks {
				for _, in := range b.Instrs {
					var callee ssa.Value
					if ci, ok := in.(ssa.CallInstruction); ok && !ci.Common().IsInvoke() {
						callee = ci.Common().Value
					}
					for _, op := range in.Operands(nil) {
						if op == nil || *op == nil {
							continue
						}
						if g, ok := (*op).(*ssa.Function); ok && g.Parent() == nil {
							if callee == ssa.Value(g) && !isArgOf(in, g) {
								continue
							}
							p.addrTaken[g] = true
						}
					}
				}
			}
		}
	})
	return p.addrTaken
}

func isArgOf(in ssa.Instruction, g *ssa.Function) bool {
	ci, ok := in.(ssa.CallInstruction)
	if !ok {
		return false
	}
	for _, a := range ci.Common().Args {
		if a == ssa.Value(g) {
			return true
		}
	}
	return false
}
