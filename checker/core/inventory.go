package core

import (
	"bufio"
	"go/types"
	"os"
	"sort"
	"strings"
	"sync"

	"golang.org/x/tools/go/ssa"
)

// The function inventory.
//
// Every rule was written, and its tables confirmed by hand, against the
// functions that exist in the verified tree; baseline_functions.txt lists
// them (all builds).  A named function that is not in that list cannot be
// named by any rule or table: it is new code, typically what an "extract
// function" or "merge duplicates into a helper" refactoring leaves behind,
// and the engines treat it as part of the functions that call it — sinks,
// effects and guards inside it are located at its call sites, values flow
// through its parameters and results, and what it writes is attributed to its
// callers.  That is the semantics of inlining it, which is always sound.  With
// no inventory file nothing is new and the engines behave as without it.

// BaselineFile is the inventory's path.
var BaselineFile = "/verif/baseline_functions.txt"

var (
	baselineOnce sync.Once
	baseline     map[string]bool
	// baselineBuilds tells in which builds (GOOS) a listed function exists.
	baselineBuilds map[string]map[string]bool
	// baselineCallers lists, for an unexported listed function, the listed
	// functions that called it statically in the verified tree.
	baselineCallers = map[string][]string{}
	// baselineSigs holds the parameter and result types of a listed function.
	baselineSigs = map[string]string{}
	// renamed maps a function that took over the role of a listed function
	// (see DetectRenames) to the listed key.
	renamed = map[*ssa.Function]string{}
)

func loadBaseline() {
	if f := os.Getenv("AGHVERIF_BASELINE"); f != "" {
		BaselineFile = f
	}
	fh, err := os.Open(BaselineFile)
	if err != nil {
		return
	}
	defer fh.Close()
	baseline = map[string]bool{}
	baselineBuilds = map[string]map[string]bool{}
	sc := bufio.NewScanner(fh)
	sc.Buffer(make([]byte, 1<<20), 1<<20)
	for sc.Scan() {
		l := strings.TrimSpace(sc.Text())
		if l == "" || strings.HasPrefix(l, "#") {
			continue
		}
		cols := strings.Split(l, "\t")
		key := cols[0]
		baseline[key] = true
		baselineBuilds[key] = map[string]bool{}
		if len(cols) > 1 {
			for _, b := range strings.Split(cols[1], ",") {
				if b != "" {
					baselineBuilds[key][b] = true
				}
			}
		}
		if len(cols) > 2 && cols[2] != "" {
			baselineCallers[key] = strings.Split(cols[2], ";")
		}
		if len(cols) > 3 {
			baselineSigs[key] = cols[3]
		}
	}
}

// DetectRenames finds listed functions that are gone from this build while
// exactly one unlisted function of the same package, receiver and signature
// appeared: the listed name was given a new spelling.  The new function then
// stands for the listed one (its key, its place in every table), instead of
// being treated as new code.
func DetectRenames(goos string, fns []*ssa.Function) (pairs []string) {
	baselineOnce.Do(loadBaseline)
	if len(baseline) == 0 {
		return nil
	}
	renamed = map[*ssa.Function]string{}
	sigOf := func(fn *ssa.Function) string {
		pk := ""
		if fn.Pkg != nil {
			pk = fn.Pkg.Pkg.Path()
		}
		recv := ""
		if r := fn.Signature.Recv(); r != nil {
			recv = types.TypeString(r.Type(), nil)
		}
		ps := types.TypeString(types.NewSignatureType(nil, nil, nil, fn.Signature.Params(), fn.Signature.Results(), fn.Signature.Variadic()), nil)
		return pk + "|" + recv + "|" + ps
	}
	rawKey := func(fn *ssa.Function) string {
		return strings.ReplaceAll(strings.ReplaceAll(fn.String(), ModInternal, ""), ModPath+".", "main.")
	}
	present := map[string]bool{}
	newBySig := map[string][]*ssa.Function{}
	for _, fn := range fns {
		if fn.Parent() != nil || fn.Object() == nil || (fn.Synthetic != "" && fn.Origin() == nil) || fn.Origin() != nil {
			continue
		}
		k := rawKey(fn)
		present[k] = true
		if !baseline[k] {
			newBySig[sigOf(fn)] = append(newBySig[sigOf(fn)], fn)
		}
	}
	if len(newBySig) == 0 {
		return nil
	}
	// the listed functions of this build that are gone, by package|receiver prefix of their key
	type gone struct{ key, pkgRecv, name string }
	var missing []gone
	for k := range baseline {
		if present[k] || !baselineBuilds[k][goos] || strings.Contains(k, "[") {
			continue
		}
		i := strings.LastIndex(k, ".")
		if i < 0 {
			continue
		}
		missing = append(missing, gone{k, k[:i], k[i+1:]})
	}
	sort.Slice(missing, func(i, j int) bool { return missing[i].key < missing[j].key })
	for sig, cands := range newBySig {
		if len(cands) != 1 {
			continue
		}
		fn := cands[0]
		nk := rawKey(fn)
		i := strings.LastIndex(nk, ".")
		if i < 0 {
			continue
		}
		var match []gone
		for _, m := range missing {
			if m.pkgRecv == nk[:i] {
				match = append(match, m)
			}
		}
		if len(match) != 1 {
			continue
		}
		// the missing function had this very signature?  The inventory keeps names only, so the test is
		// structural: one function left, one arrived, same package and receiver, and no other new function of
		// that package/receiver competes.
		competitors := 0
		for s2, c2 := range newBySig {
			for _, f2 := range c2 {
				k2 := rawKey(f2)
				if j := strings.LastIndex(k2, "."); j >= 0 && k2[:j] == nk[:i] && (s2 != sig || f2 != fn) {
					competitors++
				}
			}
		}
		if competitors > 0 {
			continue
		}
		// a new spelling keeps the parameters and results; anything else is new code (expanded into its callers)
		if bs := baselineSigs[match[0].key]; bs != "" && bs != ParamSig(fn) {
			continue
		}
		renamed[fn] = match[0].key
		pairs = append(pairs, match[0].key+" -> "+nk)
	}
	sort.Strings(pairs)
	return pairs
}

// rootOf returns the outermost enclosing declared function of fn, with
// instantiations mapped to their generic origin.
func rootOf(fn *ssa.Function) *ssa.Function {
	for fn.Parent() != nil {
		fn = fn.Parent()
	}
	if o := fn.Origin(); o != nil {
		fn = o
	}
	return fn
}

// InventoryKey is the key under which fn's declaration is listed.
func InventoryKey(fn *ssa.Function) string { return FuncKey(rootOf(fn)) }

// IsNew reports whether fn (or the declared function enclosing it) is a
// function of the module that the inventory does not list.
func IsNew(fn *ssa.Function) bool {
	baselineOnce.Do(loadBaseline)
	if fn == nil || len(baseline) == 0 || !InModule(fn) {
		return false
	}
	root := rootOf(fn)
	if root.Synthetic != "" && root.Origin() == nil {
		return false // bound-method closures, thunks, wrappers: not declarations
	}
	if root.Object() == nil {
		return false
	}
	return !baseline[FuncKey(root)]
}

// Transparent reports whether calls of h are to be looked through: h is new
// (see above) and has a body.
func Transparent(h *ssa.Function) bool {
	return h != nil && len(h.Blocks) > 0 && IsNew(h)
}

// ParamSig renders the parameter and result types of fn (without the receiver).
func ParamSig(fn *ssa.Function) string {
	tuple := func(t *types.Tuple) string {
		var parts []string
		for i := 0; i < t.Len(); i++ {
			parts = append(parts, types.TypeString(t.At(i).Type(), nil))
		}
		return strings.Join(parts, ", ")
	}
	v := ""
	if fn.Signature.Variadic() {
		v = "..."
	}
	return "(" + tuple(fn.Signature.Params()) + v + ") (" + tuple(fn.Signature.Results()) + ")"
}

// InventorySigs returns ParamSig for every declared function of the module, under both of its keys.
func (p *Prog) InventorySigs() map[string]string {
	out := map[string]string{}
	for _, fn := range append(append([]*ssa.Function{}, p.ModFns...), p.Wrappers()...) {
		if fn.Parent() != nil || fn.Object() == nil || (fn.Synthetic != "" && fn.Origin() == nil) {
			continue
		}
		r := rootOf(fn)
		out[FuncKey(r)] = ParamSig(r)
		out[strings.ReplaceAll(strings.ReplaceAll(r.String(), ModInternal, ""), ModPath+".", "main.")] = ParamSig(r)
	}
	return out
}

// Inventory lists the declared functions of the module in p.
// InventoryCallers returns, for every unexported declared function of the
// module, the keys of the declared functions that call it statically.
func (p *Prog) InventoryCallers() map[string][]string {
	out := map[string]map[string]bool{}
	for _, fn := range append(append([]*ssa.Function{}, p.ModFns...), p.Wrappers()...) {
		if fn.Parent() != nil || fn.Object() == nil || fn.Object().Exported() || (fn.Synthetic != "" && fn.Origin() == nil) {
			continue
		}
		k := FuncKey(rootOf(fn))
		for _, cs := range p.StaticCallers(fn) {
			ci := p.CallInstr(cs)
			if ci == nil {
				continue
			}
			ck := FuncKey(rootOf(ci.Parent()))
			if ck == k {
				continue
			}
			if out[k] == nil {
				out[k] = map[string]bool{}
			}
			out[k][ck] = true
		}
	}
	res := map[string][]string{}
	for k, m := range out {
		for c := range m {
			res[k] = append(res[k], c)
		}
		sort.Strings(res[k])
	}
	return res
}

// FormerCaller returns, for a listed function that no longer exists, the one
// listed function that used to call it, if it still exists: a helper that was
// folded into its only caller lives on there.
func (p *Prog) FormerCaller(key string) *ssa.Function {
	baselineOnce.Do(loadBaseline)
	if !baseline[key] || p.byKey[key] != nil {
		return nil
	}
	cs := baselineCallers[key]
	if len(cs) != 1 {
		return nil
	}
	return p.byKey[cs[0]]
}

func (p *Prog) Inventory() []string {
	set := map[string]bool{}
	for _, fn := range append(append([]*ssa.Function{}, p.ModFns...), p.Wrappers()...) {
		if fn.Parent() != nil || fn.Object() == nil {
			continue
		}
		if fn.Synthetic != "" && fn.Origin() == nil {
			continue
		}
		set[FuncKey(rootOf(fn))] = true
		set[strings.ReplaceAll(strings.ReplaceAll(rootOf(fn).String(), ModInternal, ""), ModPath+".", "main.")] = true
	}
	var out []string
	for k := range set {
		out = append(out, k)
	}
	sort.Strings(out)
	return out
}

// Owners returns the listed functions a new function belongs to: the
// functions of the inventory that call it statically, directly or through
// other new functions.  ok is false when fn is used in some other way than
// being called statically from module code (its effects cannot be attributed).
func (p *Prog) Owners(fn *ssa.Function) (owners []*ssa.Function, ok bool) {
	if !IsNew(fn) {
		return []*ssa.Function{fn}, true
	}
	ok = true
	seen := map[*ssa.Function]bool{}
	set := map[*ssa.Function]bool{}
	var walk func(f *ssa.Function, d int)
	walk = func(f *ssa.Function, d int) {
		f = rootOfKeepInst(f)
		if seen[f] {
			return
		}
		seen[f] = true
		if !IsNew(f) {
			set[f] = true
			return
		}
		sites := p.StaticCallers(f)
		if o := f.Origin(); o != nil {
			sites = append(sites, p.StaticCallers(o)...)
		}
		if len(sites) == 0 || d > 6 || p.addressTaken()[f] {
			ok = false
			return
		}
		for _, s := range sites {
			ci := p.CallInstr(s)
			if ci == nil {
				ok = false
				continue
			}
			walk(ci.Parent(), d+1)
		}
	}
	walk(fn, 0)
	for f := range set {
		owners = append(owners, f)
	}
	sort.Slice(owners, func(i, j int) bool { return FuncKey(owners[i]) < FuncKey(owners[j]) })
	return owners, ok && len(owners) > 0
}

func rootOfKeepInst(fn *ssa.Function) *ssa.Function {
	for fn.Parent() != nil {
		fn = fn.Parent()
	}
	return fn
}

// addressTaken is the set of module functions used as values (stored, passed,
// bound) rather than only called.
func (p *Prog) addressTaken() map[*ssa.Function]bool {
	p.addrOnce.Do(func() {
		p.addrTaken = map[*ssa.Function]bool{}
		for _, f := range append(append([]*ssa.Function{}, p.ModFns...), p.Wrappers()...) {
			for _, b := range f.Blocks {
				for _, in := range b.Instrs {
					var callee ssa.Value
					if ci, ok := in.(ssa.CallInstruction); ok && !ci.Common().IsInvoke() {
						callee = ci.Common().Value
					}
					for _, op := range in.Operands(nil) {
						if op == nil || *op == nil {
							continue
						}
						if g, ok := (*op).(*ssa.Function); ok && g.Parent() == nil {
							if callee == ssa.Value(g) && !isArgOf(in, g) {
								continue
							}
							p.addrTaken[g] = true
						}
					}
				}
			}
		}
	})
	return p.addrTaken
}

func isArgOf(in ssa.Instruction, g *ssa.Function) bool {
	ci, ok := in.(ssa.CallInstruction)
	if !ok {
		return false
	}
	for _, a := range ci.Common().Args {
		if a == ssa.Value(g) {
			return true
		}
	}
	return false
}
