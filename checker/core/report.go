package core

import (
	"bufio"
	"encoding/json"
	"fmt"
	"os"
	"path/filepath"
	"sort"
	"strings"
	"time"
)

// VerifDir is where evidence and known findings live.
var VerifDir = "/verif"

// Ob is one obligation: a rule instance on a concrete construct.
type Ob struct {
	Rule   string   `json:"rule"`
	Key    string   `json:"key"`
	Pos    string   `json:"pos"`
	OK     bool     `json:"ok"`
	Msg    string   `json:"msg"`
	Detail []string `json:"detail,omitempty"`
	GOOS   string   `json:"goos,omitempty"`
}

// FullKey is rule + construct; the identity used by known findings.
func (o Ob) FullKey() string { return o.Rule + ":" + o.Key }

// Report accumulates obligations for one property run.
type Report struct {
	Prop string
	Tier string
	Seed int
	GOOS string

	Obs         []Ob
	Evals       int
	Explanation string
	RuleText    string
	Assumptions []string
	Trusted     []string
	Info        map[string]any
	Exhaustive  bool
	start       time.Time
}

// NewReport makes an empty report.
func NewReport(prop, tier string, seed int) *Report {
	return &Report{Prop: prop, Tier: tier, Seed: seed, Info: map[string]any{}, start: time.Now()}
}

func sanitizeKey(k string) string {
	k = strings.ReplaceAll(k, " ", "_")
	k = strings.ReplaceAll(k, "\t", "_")
	k = strings.ReplaceAll(k, "\n", "_")
	return k
}

// Ok records a discharged obligation.
func (r *Report) Ok(rule, key, pos, msg string) {
	r.Obs = append(r.Obs, Ob{Rule: rule, Key: sanitizeKey(key), Pos: pos, OK: true, Msg: msg, GOOS: r.GOOS})
}

// Fail records a violated obligation.
func (r *Report) Fail(rule, key, pos, msg string, detail ...string) {
	r.Obs = append(r.Obs, Ob{Rule: rule, Key: sanitizeKey(key), Pos: pos, OK: false, Msg: msg, Detail: detail, GOOS: r.GOOS})
}

// Check records an obligation whose verdict is cond.
func (r *Report) Check(cond bool, rule, key, pos, okMsg, failMsg string, detail ...string) bool {
	if cond {
		r.Ok(rule, key, pos, okMsg)
	} else {
		r.Fail(rule, key, pos, failMsg, detail...)
	}
	return cond
}

// Undecided records that a rule could not be decided; it counts as a
// violation (a static check that cannot see its subject must not pass).
func (r *Report) Undecided(rule, key, pos, reason string) {
	r.Fail(rule, "undecided:"+key, pos, "undecided: "+reason)
}

// Floor requires that at least want instances were found for a rule.
func (r *Report) Floor(rule, what string, got, want int) bool {
	return r.Check(got >= want, rule, "floor:"+what, "-",
		fmt.Sprintf("%s: %d instances (floor %d)", what, got, want),
		fmt.Sprintf("%s: only %d instances found, %d were confirmed by hand; the rule would pass vacuously", what, got, want))
}

// Eval counts inspected sites.
func (r *Report) Eval(n int) { r.Evals += n }

type knownEntry struct {
	status, prop, key, text string
}

func loadKnown() (ks []knownEntry, err error) {
	f, err := os.Open(filepath.Join(VerifDir, "known_findings.txt"))
	if err != nil {
		if os.IsNotExist(err) {
			return nil, nil
		}
		return nil, err
	}
	defer f.Close()
	sc := bufio.NewScanner(f)
	sc.Buffer(make([]byte, 1<<20), 1<<20)
	for sc.Scan() {
		line := strings.TrimSpace(sc.Text())
		if line == "" || strings.HasPrefix(line, "#") {
			continue
		}
		status, rest, ok := strings.Cut(line, ":")
		if !ok {
			continue
		}
		status = strings.TrimSpace(status)
		e := knownEntry{status: status}
		fields := strings.Fields(rest)
		var text []string
		for _, f := range fields {
			switch {
			case strings.HasPrefix(f, "property=") && e.prop == "":
				e.prop = strings.TrimPrefix(f, "property=")
			case strings.HasPrefix(f, "key=") && e.key == "":
				e.key = strings.TrimPrefix(f, "key=")
			default:
				text = append(text, f)
			}
		}
		e.text = strings.Join(text, " ")
		ks = append(ks, e)
	}
	return ks, sc.Err()
}

// Finish prints the verdict lines, writes evidence and replay files, and
// returns the process exit code.
func (r *Report) Finish() int {
	known, kerr := loadKnown()
	if kerr != nil {
		r.Fail("known-findings", "unreadable", "-", kerr.Error())
	}
	isKnown := func(o Ob) *knownEntry {
		for i := range known {
			k := &known[i]
			if k.status == "finding" && k.prop == r.Prop && k.key == o.FullKey() {
				return k
			}
		}
		return nil
	}

	// de-duplicate obligations across GOOS runs by full key + verdict
	type agg struct {
		ob   Ob
		goos []string
	}
	seen := map[string]*agg{}
	var order []string
	for _, o := range r.Obs {
		id := fmt.Sprintf("%s|%v", o.FullKey(), o.OK)
		if a, ok := seen[id]; ok {
			if o.GOOS != "" && !contains(a.goos, o.GOOS) {
				a.goos = append(a.goos, o.GOOS)
			}
			continue
		}
		a := &agg{ob: o}
		if o.GOOS != "" {
			a.goos = []string{o.GOOS}
		}
		seen[id] = a
		order = append(order, id)
	}

	var viol, knownHits, okCount int
	var samples []any
	var vioSamples []any
	_ = os.MkdirAll(filepath.Join(VerifDir, "evidence", "violations"), 0o755)
	// clear old replay files of this property
	old, _ := filepath.Glob(filepath.Join(VerifDir, "evidence", "violations", r.Prop+"-*.json"))
	for _, f := range old {
		_ = os.Remove(f)
	}
	rules := map[string]int{}
	for _, id := range order {
		a := seen[id]
		o := a.ob
		rules[o.Rule]++
		if o.OK {
			okCount++
			continue
		}
		if k := isKnown(o); k != nil {
			knownHits++
			fmt.Printf("KNOWN-FINDING: property=%s %s [%s at %s] %s\n", r.Prop, k.text, o.FullKey(), o.Pos, o.Msg)
			vioSamples = append(vioSamples, map[string]any{"known_finding": o.FullKey(), "pos": o.Pos, "msg": o.Msg})
			continue
		}
		viol++
		path := filepath.Join(VerifDir, "evidence", "violations", fmt.Sprintf("%s-%d.json", r.Prop, viol))
		b, _ := json.MarshalIndent(map[string]any{
			"property": r.Prop, "rule": o.Rule, "key": o.Key, "full_key": o.FullKey(),
			"pos": o.Pos, "msg": o.Msg, "detail": o.Detail, "goos": a.goos, "tier": r.Tier,
		}, "", " ")
		_ = os.WriteFile(path, b, 0o644)
		fmt.Printf("%s %s: %s\n", o.FullKey(), o.Pos, o.Msg)
		for _, d := range o.Detail {
			fmt.Printf("    %s\n", d)
		}
		fmt.Printf("VIOLATION property=%s replay=%s\n", r.Prop, path)
		vioSamples = append(vioSamples, map[string]any{"violation": o.FullKey(), "pos": o.Pos, "msg": o.Msg})
	}

	// samples: first of each rule, up to 40
	perRule := map[string]int{}
	for _, id := range order {
		o := seen[id].ob
		if !o.OK {
			continue
		}
		if perRule[o.Rule] >= 4 || len(samples) >= 60 {
			continue
		}
		perRule[o.Rule]++
		samples = append(samples, map[string]any{"rule": o.Rule, "construct": o.Key, "pos": o.Pos, "verdict": "holds", "why": o.Msg})
	}
	samples = append(vioSamples, samples...)
	if len(samples) == 0 {
		samples = []any{"no obligations generated"}
	}
	ruleNames := make([]string, 0, len(rules))
	for k := range rules {
		ruleNames = append(ruleNames, k)
	}
	sort.Strings(ruleNames)
	ruleCounts := map[string]int{}
	for _, k := range ruleNames {
		ruleCounts[k] = rules[k]
	}

	total := len(order)
	ev := map[string]any{
		"property_id": r.Prop,
		"tier":        r.Tier,
		"seed":        r.Seed,
		"level":       "other",
		"coverage": map[string]any{
			"explanation":         r.Explanation,
			"obligations":         total,
			"discharged":          okCount,
			"known_findings":      knownHits,
			"evaluations":         max(r.Evals, total),
			"distinct_nontrivial": total,
			"rule":                r.RuleText + " Distinct = distinct (rule, construct) obligations whose subject was found in the analysed program; evaluations = program sites (call sites, stores, CFG queries, lock acquisitions) inspected.",
			"samples":             samples,
			"exhaustive":          r.Exhaustive,
			"per_rule":            ruleCounts,
			"checker_cmd":         fmt.Sprintf("./check %s %s", r.Prop, r.Tier),
			"trusted_base":        r.Trusted,
			"info":                r.Info,
		},
		"assumptions": r.Assumptions,
		"wall_s":      time.Since(r.start).Seconds(),
		"violations":  viol,
	}
	b, _ := json.MarshalIndent(ev, "", " ")
	_ = os.MkdirAll(filepath.Join(VerifDir, "evidence"), 0o755)
	if err := os.WriteFile(filepath.Join(VerifDir, "evidence", r.Prop+".json"), b, 0o644); err != nil {
		fmt.Printf("cannot write evidence: %v\n", err)
		return 2
	}
	fmt.Printf("property=%s tier=%s obligations=%d discharged=%d known=%d violations=%d sites=%d wall=%.1fs\n",
		r.Prop, r.Tier, total, okCount, knownHits, viol, r.Evals, time.Since(r.start).Seconds())
	if viol > 0 {
		return 1
	}
	return 0
}

func contains(ss []string, s string) bool {
	for _, x := range ss {
		if x == s {
			return true
		}
	}
	return false
}
