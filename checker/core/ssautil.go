package core

import (
	"fmt"
	"go/constant"
	"go/token"
	"go/types"
	"strings"

	"golang.org/x/tools/go/ssa"
)

// Strip removes the module prefixes from a qualified name.
func Strip(s string) string {
	s = strings.ReplaceAll(s, ModInternal, "")
	s = strings.ReplaceAll(s, ModPath+".", "main.")
	return s
}

// CalleeKey returns the key of the function a call instruction invokes:
// the FuncKey for static callees (including bound methods and closures),
// "iface:(pkg.Type).Method" for interface method invocations and "" for
// other dynamic calls.
func CalleeKey(c *ssa.CallCommon) string {
	if c == nil {
		return ""
	}
	if c.IsInvoke() {
		recv := c.Value.Type()
		return "iface:(" + Strip(types.TypeString(recv, nil)) + ")." + c.Method.Name()
	}
	if fn := c.StaticCallee(); fn != nil {
		if o := fn.Origin(); o != nil {
			return FuncKey(o)
		}
		return FuncKey(fn)
	}
	return ""
}

// Call describes a call-like instruction (call, go, defer).
type Call struct {
	Instr  ssa.CallInstruction
	Common *ssa.CallCommon
	Key    string
	Fn     *ssa.Function // enclosing function
}

// Calls lists all call-like instructions of fn.
func Calls(fn *ssa.Function) (cs []Call) {
	for _, b := range fn.Blocks {
		for _, in := range b.Instrs {
			if ci, ok := in.(ssa.CallInstruction); ok {
				cs = append(cs, Call{Instr: ci, Common: ci.Common(), Key: CalleeKey(ci.Common()), Fn: fn})
			}
		}
	}
	return cs
}

// CallsTo lists calls in fn whose callee key is in keys.
func CallsTo(fn *ssa.Function, keys ...string) (cs []Call) {
	for _, c := range Calls(fn) {
		for _, k := range keys {
			if c.Key == k {
				cs = append(cs, c)
				break
			}
		}
	}
	return cs
}

// Arg returns the i-th argument of the call counting the receiver of a
// static method call as argument 0 (as SSA does) — for invoke calls the
// receiver is c.Value and Args are the remaining ones.
func (c Call) Arg(i int) ssa.Value {
	if i < len(c.Common.Args) {
		return c.Common.Args[i]
	}
	return nil
}

// AnonFuncs returns fn and all functions nested in it.
func WithAnon(fn *ssa.Function) []*ssa.Function {
	out := []*ssa.Function{fn}
	for _, a := range fn.AnonFuncs {
		out = append(out, WithAnon(a)...)
	}
	return out
}

// FieldRef identifies a struct field by named type and field name.
type FieldRef struct {
	Type  string // short, e.g. "dnsforward.Server"
	Field string
}

func (f FieldRef) String() string { return f.Type + "." + f.Field }

// structOf returns the named struct type key and the *types.Struct that t
// (a struct or pointer to struct) denotes.
func structOf(t types.Type) (string, *types.Struct) {
	t = types.Unalias(t)
	if p, ok := t.Underlying().(*types.Pointer); ok {
		t = types.Unalias(p.Elem())
	}
	st, ok := t.Underlying().(*types.Struct)
	if !ok {
		return "", nil
	}
	name := Strip(types.TypeString(t, nil))
	if _, isNamed := t.(*types.Named); !isNamed {
		name = "struct"
	}
	return name, st
}

// FieldOfAddr resolves a FieldAddr / Field value to its field reference.
func FieldOfAddr(v ssa.Value) (FieldRef, bool) {
	switch x := v.(type) {
	case *ssa.FieldAddr:
		name, st := structOf(x.X.Type())
		if st == nil {
			return FieldRef{}, false
		}
		return FieldRef{Type: name, Field: st.Field(x.Field).Name()}, true
	case *ssa.Field:
		name, st := structOf(x.X.Type())
		if st == nil {
			return FieldRef{}, false
		}
		return FieldRef{Type: name, Field: st.Field(x.Field).Name()}, true
	}
	return FieldRef{}, false
}

// LoadedField reports the field a value was loaded from: *(&x.f) or x.f.
func LoadedField(v ssa.Value) (FieldRef, ssa.Value, bool) {
	switch x := v.(type) {
	case *ssa.UnOp:
		if x.Op == token.MUL {
			if fr, ok := FieldOfAddr(x.X); ok {
				return fr, x.X.(*ssa.FieldAddr).X, true
			}
		}
	case *ssa.Field:
		fr, ok := FieldOfAddr(x)
		return fr, x.X, ok
	}
	return FieldRef{}, nil, false
}

// Atom is a normalised branch condition: Base compared with Const by Op,
// or plain truthiness of Base (Op == ILLEGAL).  Neg tells that the original
// condition is the negation of the atom.
type Atom struct {
	Base  ssa.Value
	Op    token.Token // EQL, NEQ, LSS, ... or ILLEGAL for truthiness
	Other ssa.Value   // the other operand (often *ssa.Const)
	Neg   bool
}

// Decompose strips negations from a condition value.
func Decompose(v ssa.Value) Atom {
	neg := false
	for {
		if u, ok := v.(*ssa.UnOp); ok && u.Op == token.NOT {
			neg = !neg
			v = u.X
			continue
		}
		break
	}
	if b, ok := v.(*ssa.BinOp); ok {
		switch b.Op {
		case token.EQL, token.NEQ, token.LSS, token.LEQ, token.GTR, token.GEQ:
			x, y := b.X, b.Y
			op := b.Op
			if _, xc := x.(*ssa.Const); xc {
				if _, yc := y.(*ssa.Const); !yc {
					x, y = y, x
					op = flipOp(op)
				}
			}
			// x != true / x == false normalisation
			if c, ok := y.(*ssa.Const); ok && c.Value != nil && c.Value.Kind() == constant.Bool && (op == token.EQL || op == token.NEQ) {
				bv := constant.BoolVal(c.Value)
				inner := Decompose(x)
				flip := (op == token.EQL) != bv
				if flip {
					inner.Neg = !inner.Neg
				}
				if neg {
					inner.Neg = !inner.Neg
				}
				return inner
			}
			return Atom{Base: x, Op: op, Other: y, Neg: neg}
		}
	}
	return Atom{Base: v, Op: token.ILLEGAL, Neg: neg}
}

func flipOp(op token.Token) token.Token {
	switch op {
	case token.LSS:
		return token.GTR
	case token.LEQ:
		return token.GEQ
	case token.GTR:
		return token.LSS
	case token.GEQ:
		return token.LEQ
	}
	return op
}

// IsNilConst reports whether v is the nil constant.
func IsNilConst(v ssa.Value) bool {
	c, ok := v.(*ssa.Const)
	return ok && c.IsNil()
}

// ConstString returns the string value of a constant.
func ConstString(v ssa.Value) (string, bool) {
	c, ok := v.(*ssa.Const)
	if !ok || c.Value == nil || c.Value.Kind() != constant.String {
		return "", false
	}
	return constant.StringVal(c.Value), true
}

// ConstInt returns the integer value of a constant.
func ConstInt(v ssa.Value) (int64, bool) {
	c, ok := v.(*ssa.Const)
	if !ok || c.Value == nil || c.Value.Kind() != constant.Int {
		return 0, false
	}
	i, exact := constant.Int64Val(c.Value)
	return i, exact
}

// ConstBool returns the bool value of a constant.
func ConstBool(v ssa.Value) (bool, bool) {
	c, ok := v.(*ssa.Const)
	if !ok || c.Value == nil || c.Value.Kind() != constant.Bool {
		return false, false
	}
	return constant.BoolVal(c.Value), true
}

// CallResult describes v as "result #Index of a call with key Key"
// (Index -1: the single result).
func CallResult(v ssa.Value) (call *ssa.Call, index int, ok bool) {
	v = ResolveLocalLoad(v)
	switch x := v.(type) {
	case *ssa.Call:
		return x, -1, true
	case *ssa.Extract:
		if c, ok := x.Tuple.(*ssa.Call); ok {
			return c, x.Index, true
		}
	}
	return nil, 0, false
}

// Edge is a CFG edge: successor number Succ of block From.
type Edge struct {
	From *ssa.BasicBlock
	Succ int
}

// CondEdges enumerates the If instructions of fn and, for each, asks match
// whether the atom is the guard looked for.  match returns (matched,
// passWhenAtomTrue): the guard is "passed" on the edge where the atom
// evaluates to passWhenAtomTrue.  The returned set contains the passing
// edges; n is the number of matching branch instructions.
func CondEdges(fn *ssa.Function, match func(a Atom) (bool, bool)) (edges map[Edge]bool, n int) {
	edges = map[Edge]bool{}
	for _, b := range fn.Blocks {
		if len(b.Instrs) == 0 {
			continue
		}
		ifi, ok := b.Instrs[len(b.Instrs)-1].(*ssa.If)
		if !ok {
			continue
		}
		a := Decompose(ifi.Cond)
		m, whenTrue := match(a)
		if !m {
			// the same condition with variables kept in local cells (the function has a defer or a closure)
			// replaced by the value stored last
			if rc := ResolveCellLoad(ifi.Cond); rc != ifi.Cond {
				a = Decompose(rc)
				m, whenTrue = match(a)
			}
			if !m {
				ra := Atom{Base: ResolveCellLoad(a.Base), Op: a.Op, Neg: a.Neg}
				if a.Other != nil {
					ra.Other = ResolveCellLoad(a.Other)
				}
				if ra.Base != a.Base || ra.Other != a.Other {
					a = ra
					m, whenTrue = match(a)
				}
			}
		}
		if !m {
			continue
		}
		n++
		// the condition is true on Succs[0]; atom value = cond value XOR Neg
		atomTrueSucc := 0
		if a.Neg {
			atomTrueSucc = 1
		}
		if whenTrue {
			edges[Edge{b, atomTrueSucc}] = true
		} else {
			edges[Edge{b, 1 - atomTrueSucc}] = true
		}
	}
	return edges, n
}

// Point is a position inside a function: instruction Idx of Block.
type Point struct {
	Block *ssa.BasicBlock
	Idx   int
}

// PointOf locates an instruction.
func PointOf(in ssa.Instruction) Point {
	b := in.Block()
	for i, x := range b.Instrs {
		if x == in {
			return Point{b, i}
		}
	}
	return Point{b, 0}
}

// Entry is the entry point of fn.
func Entry(fn *ssa.Function) Point { return Point{fn.Blocks[0], 0} }

// Query is a forward reachability question on the CFG of one function:
// starting at From (exclusive of instructions before it), is there a path to
// an instruction satisfying Target that avoids instructions satisfying Avoid
// and edges in AvoidEdges?
type Query struct {
	From       []Point
	Target     func(ssa.Instruction) bool
	Avoid      func(ssa.Instruction) bool
	AvoidEdges map[Edge]bool
}

// Reach answers the query; when a path exists it returns the block trace and
// the target instruction reached.
func Reach(q Query) (found bool, trace []*ssa.BasicBlock, hit ssa.Instruction) {
	type state struct {
		b    *ssa.BasicBlock
		from int
	}
	visited := map[*ssa.BasicBlock]bool{}
	parent := map[*ssa.BasicBlock]*ssa.BasicBlock{}
	var work []state
	for _, p := range q.From {
		work = append(work, state{p.Block, p.Idx})
	}
	startBlocks := map[*ssa.BasicBlock]bool{}
	for _, p := range q.From {
		startBlocks[p.Block] = true
	}
	for len(work) > 0 {
		s := work[0]
		work = work[1:]
		if s.from == 0 {
			if visited[s.b] {
				continue
			}
			visited[s.b] = true
		}
		blocked := false
		for i := s.from; i < len(s.b.Instrs); i++ {
			in := s.b.Instrs[i]
			if q.Target != nil && q.Target(in) {
				// build trace
				var tr []*ssa.BasicBlock
				inTrace := map[*ssa.BasicBlock]bool{}
				for b := s.b; b != nil && !inTrace[b]; b = parent[b] {
					inTrace[b] = true
					tr = append([]*ssa.BasicBlock{b}, tr...)
					if startBlocks[b] && (parent[b] == nil || b != s.b) {
						break
					}
				}
				return true, tr, in
			}
			if q.Avoid != nil && q.Avoid(in) {
				blocked = true
				break
			}
		}
		if blocked {
			continue
		}
		for i, succ := range s.b.Succs {
			if q.AvoidEdges != nil && q.AvoidEdges[Edge{s.b, i}] {
				continue
			}
			if !visited[succ] {
				if _, has := parent[succ]; !has {
					parent[succ] = s.b
				}
				work = append(work, state{succ, 0})
			}
		}
	}
	return false, nil, nil
}

// IsReturn matches normal return instructions.
func IsReturn(in ssa.Instruction) bool { _, ok := AsReturn(in); return ok }

// TraceString renders a block trace with the source lines of branch points.
func (p *Prog) TraceString(tr []*ssa.BasicBlock) string {
	var parts []string
	for _, b := range tr {
		pos := "-"
		for _, in := range b.Instrs {
			if in.Pos().IsValid() {
				pos = p.Pos(in.Pos())
				break
			}
		}
		parts = append(parts, fmt.Sprintf("b%d(%s)", b.Index, pos))
	}
	if len(parts) > 14 {
		parts = append(parts[:7], append([]string{"…"}, parts[len(parts)-6:]...)...)
	}
	return strings.Join(parts, " → ")
}

// IsCallTo returns a predicate matching call instructions (not go/defer
// unless includeDefer) to any of keys.
func IsCallTo(includeDefer bool, keys ...string) func(ssa.Instruction) bool {
	set := map[string]bool{}
	for _, k := range keys {
		set[k] = true
	}
	return func(in ssa.Instruction) bool {
		switch x := in.(type) {
		case *ssa.Call:
			return set[CalleeKey(x.Common())]
		case *ssa.Defer:
			return includeDefer && set[CalleeKey(x.Common())]
		}
		return false
	}
}

// IsStoreToField matches stores whose address is the given field.
func IsStoreToField(refs ...FieldRef) func(ssa.Instruction) bool {
	return func(in ssa.Instruction) bool {
		st, ok := in.(*ssa.Store)
		if !ok {
			return false
		}
		fr, ok := FieldOfAddr(st.Addr)
		if !ok {
			return false
		}
		for _, r := range refs {
			if r == fr {
				return true
			}
		}
		return false
	}
}

// MustPassEdge reports whether every path from entry to each instruction
// matching sink passes one of the guard edges.  It returns the offending
// sinks (reachable with all guard edges removed) with a witness trace.
type Offender struct {
	Instr ssa.Instruction
	Trace []*ssa.BasicBlock
}

// UnguardedSinks returns sinks reachable from the function entry without
// passing any edge of guards.
func UnguardedSinks(fn *ssa.Function, sink func(ssa.Instruction) bool, guards map[Edge]bool) (off []Offender, nSinks int) {
	if len(fn.Blocks) == 0 {
		return nil, 0
	}
	for _, b := range fn.Blocks {
		for _, in := range b.Instrs {
			if !sink(in) {
				continue
			}
			nSinks++
			target := in
			found, tr, _ := Reach(Query{
				From:       []Point{Entry(fn)},
				Target:     func(x ssa.Instruction) bool { return x == target },
				AvoidEdges: guards,
			})
			if found {
				off = append(off, Offender{Instr: in, Trace: tr})
			}
		}
	}
	return off, nSinks
}

// Referrers-based helper: all instructions using v.
func Users(v ssa.Value) []ssa.Instruction {
	r := v.Referrers()
	if r == nil {
		return nil
	}
	return *r
}

// ModFnsIn returns module functions whose package key is one of pkgs.
func (p *Prog) ModFnsIn(pkgs ...string) (out []*ssa.Function) {
	for _, fn := range p.ModFns {
		pk := PkgOf(fn)
		for _, want := range pkgs {
			if pk == want {
				out = append(out, fn)
				break
			}
		}
	}
	return out
}

// IsNextPkg reports whether fn is part of the unreleased internal/next tree
// or of scripts (not linked into the shipped binary).
func IsNextPkg(fn *ssa.Function) bool {
	pk := PkgOf(fn)
	return strings.HasPrefix(pk, "next/") || pk == "next" || strings.HasPrefix(pk, ModPath+"/scripts")
}

// ResolveLocalLoad looks through a load of a local cell (an Alloc, e.g. a
// named result spilled because a deferred closure captures it) when the
// value stored last before the load, in the same basic block, is known.
func ResolveLocalLoad(v ssa.Value) ssa.Value {
	for i := 0; i < 4; i++ {
		u, ok := v.(*ssa.UnOp)
		if !ok || u.Op != token.MUL {
			return v
		}
		if _, isAlloc := u.X.(*ssa.Alloc); !isAlloc {
			return v
		}
		b := u.Block()
		var last ssa.Value
		for _, in := range b.Instrs {
			if in == ssa.Instruction(u) {
				break
			}
			switch y := in.(type) {
			case *ssa.Store:
				if y.Addr == u.X {
					last = y.Val
				}
			case ssa.CallInstruction:
				// a call may write the cell through a captured reference
				if _, isDefer := in.(*ssa.Defer); !isDefer && last != nil && cellEscapes(u.X.(*ssa.Alloc)) {
					if cv, ok := in.(ssa.Value); !ok || !dependsOn(last, cv) {
						last = nil
					}
				}
			}
		}
		if last == nil {
			return v
		}
		v = last
	}
	return v
}

func dependsOn(v, on ssa.Value) bool {
	if v == on {
		return true
	}
	if e, ok := v.(*ssa.Extract); ok {
		return e.Tuple == on
	}
	return false
}

// cellEscapes reports whether the address of a is captured by a closure or
// passed to a call.
func cellEscapes(a *ssa.Alloc) bool {
	for _, u := range Users(a) {
		switch u.(type) {
		case *ssa.MakeClosure, ssa.CallInstruction:
			return true
		}
	}
	return false
}
