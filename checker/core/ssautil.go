package core

import (
	"fmt"
	"go/constant"
	"go/token"
	"go/types"
	"reflect"
	"sort"
	"strings"

	"golang.org/x/tools/go/ssa"
)

// Strip removes the module prefixes from a qualified name.
func Strip(s string) string {
	s = strings.ReplaceAll(s, ModInternal, "")
	s = strings.ReplaceAll(s, ModPath+".", "main.")
	return s
}

// CalleeKey returns the key of the function a call instruction invokes:
// the FuncKey for static callees (including bound methods and closures),
// "iface:(pkg.Type).Method" for interface method invocations and "" for
// other dynamic calls.
func CalleeKey(c *ssa.CallCommon) string {
	if c == nil {
		return ""
	}
	if c.IsInvoke() {
		recv := c.Value.Type()
		return "iface:(" + Strip(types.TypeString(recv, nil)) + ")." + c.Method.Name()
	}
	if fn := c.StaticCallee(); fn != nil {
		if o := fn.Origin(); o != nil {
			return FuncKey(o)
		}
		return FuncKey(fn)
	}
	return ""
}

// Call describes a call-like instruction (call, go, defer).  A call through a
// local function value that can only be one of a known set of functions
// (`f := p.withTitle; if found { f = plain }; f(x)`) is described once per
// function of the set, as if it were a static call of it.
type Call struct {
	Instr  ssa.CallInstruction
	Common *ssa.CallCommon
	Key    string
	Fn     *ssa.Function // enclosing function
	// Target is the function called when the call goes through a function
	// value (nil for static and interface calls); Recv is the receiver bound
	// to it when it is a method value.
	Target *ssa.Function
	Recv   ssa.Value
}

// CallTarget is one function a call through a function value can reach.
type CallTarget struct {
	Fn   *ssa.Function
	Recv ssa.Value // bound receiver of a method value, else nil
}

// CallTargets resolves a call through a function value to the functions it can
// reach: every alternative of the value (through phis and cells) must be a
// function, a function literal or a method value.  It returns nil for static
// and interface calls and when some alternative is not resolved.
func CallTargets(cc *ssa.CallCommon) (out []CallTarget) {
	if cc == nil || cc.IsInvoke() || cc.StaticCallee() != nil {
		return nil
	}
	if _, isBuiltin := cc.Value.(*ssa.Builtin); isBuiltin {
		return nil
	}
	for _, leaf := range FlattenPhi(cc.Value) {
		fn, bound := FnValue(leaf)
		if fn == nil {
			return nil
		}
		if strings.HasPrefix(fn.Synthetic, "bound method wrapper") && len(bound) == 1 {
			var m *ssa.Function
			for _, b := range fn.Blocks {
				for _, in := range b.Instrs {
					if ci, ok := in.(ssa.CallInstruction); ok && ci.Common().StaticCallee() != nil {
						m = ci.Common().StaticCallee()
					}
				}
			}
			if m == nil {
				return nil
			}
			out = append(out, CallTarget{Fn: m, Recv: bound[0]})
			continue
		}
		out = append(out, CallTarget{Fn: fn})
	}
	return out
}

func keyOfFn(fn *ssa.Function) string {
	if o := fn.Origin(); o != nil {
		return FuncKey(o)
	}
	return FuncKey(fn)
}

// CalleeKeys is CalleeKey for every function the call can reach (see
// CallTargets); a single element for static and interface calls.
func CalleeKeys(c *ssa.CallCommon) []string {
	if k := CalleeKey(c); k != "" {
		return []string{k}
	}
	var out []string
	for _, t := range CallTargets(c) {
		out = append(out, keyOfFn(t.Fn))
	}
	return out
}

// calleeIn reports whether the call reaches only functions of set (and at least one).
func calleeIn(c *ssa.CallCommon, set map[string]bool) bool {
	ks := CalleeKeys(c)
	for _, k := range ks {
		if !set[k] {
			return false
		}
	}
	return len(ks) > 0
}

// Calls lists all call-like instructions of fn.
func Calls(fn *ssa.Function) (cs []Call) { return callsOf(fn) }

func callsOf(fn *ssa.Function) (cs []Call) {
	for _, b := range fn.Blocks {
		for _, in := range b.Instrs {
			if ci, ok := in.(ssa.CallInstruction); ok {
				if k := CalleeKey(ci.Common()); k == "" {
					if ts := CallTargets(ci.Common()); len(ts) > 0 {
						for _, t := range ts {
							cs = append(cs, Call{Instr: ci, Common: ci.Common(), Key: keyOfFn(t.Fn), Fn: fn, Target: t.Fn, Recv: t.Recv})
						}
						continue
					}
				}
				cs = append(cs, Call{Instr: ci, Common: ci.Common(), Key: CalleeKey(ci.Common()), Fn: fn})
			}
		}
	}
	return cs
}

// CallsTo lists calls in fn whose callee key is in keys.
func CallsTo(fn *ssa.Function, keys ...string) (cs []Call) {
	for _, c := range Calls(fn) {
		for _, k := range keys {
			if c.Key == k {
				cs = append(cs, c)
				break
			}
		}
	}
	return cs
}

// CallsToDeep is CallsTo over fn, its function literals and the functions of
// its package it calls statically (to depth 2): "fn does this, itself or
// through a helper".  Calls found in fn itself come first.
func CallsToDeep(fn *ssa.Function, keys ...string) (cs []Call) {
	seen := map[*ssa.Function]bool{}
	seenCall := map[Call]bool{}
	var visit func(f *ssa.Function, d int)
	visit = func(f *ssa.Function, d int) {
		if f == nil || seen[f] || len(f.Blocks) == 0 {
			return
		}
		seen[f] = true
		for _, c := range CallsTo(f, keys...) {
			if !seenCall[c] {
				seenCall[c] = true
				cs = append(cs, c)
			}
		}
		for _, a := range f.AnonFuncs {
			visit(a, d)
		}
		if d <= 0 {
			return
		}
		for _, c := range Calls(f) {
			h := Impl(c.Common.StaticCallee())
			if h != nil && InModule(h) && (h.Pkg == fn.Pkg || Transparent(h)) {
				visit(h, d-1)
			}
		}
	}
	visit(fn, 2)
	return cs
}

// InRoot resolves a value found in a helper of root to the values it stands
// for in root: a parameter of an unexported helper is replaced by what every
// static call site passes for it, repeatedly, until the values belong to root
// (or are constants or globals).  ok is false when some value is computed
// inside a helper, or a call site lies outside root's helpers.
func InRoot(v ssa.Value, root *ssa.Function) (vals []ssa.Value, ok bool) {
	ok = true
	seen := map[ssa.Value]bool{}
	var walk func(x ssa.Value, d int)
	walk = func(x ssa.Value, d int) {
		if seen[x] {
			return
		}
		seen[x] = true
		switch y := x.(type) {
		case *ssa.Const, *ssa.Global, *ssa.Function:
			vals = append(vals, x)
			return
		case *ssa.Parameter:
			if y.Parent() == root {
				vals = append(vals, x)
				return
			}
			args := ArgsOfParam(y)
			if len(args) == 0 || d > 3 {
				ok = false
				return
			}
			for _, a := range args {
				walk(a, d+1)
			}
			return
		}
		if in, isIn := x.(ssa.Instruction); isIn && in.Parent() == root {
			vals = append(vals, x)
			return
		}
		ok = false
	}
	walk(v, 0)
	return vals, ok && len(vals) > 0
}

// Arg returns the i-th argument of the call counting the receiver of a
// static method call as argument 0 (as SSA does) — for invoke calls the
// receiver is c.Value and Args are the remaining ones.
func (c Call) Arg(i int) ssa.Value {
	if c.Recv != nil {
		if i == 0 {
			return c.Recv
		}
		i--
	}
	if i < len(c.Common.Args) {
		return c.Common.Args[i]
	}
	return nil
}

// AnonFuncs returns fn and all functions nested in it.
func WithAnon(fn *ssa.Function) []*ssa.Function {
	out := []*ssa.Function{fn}
	for _, a := range fn.AnonFuncs {
		out = append(out, WithAnon(a)...)
	}
	return out
}

// FieldRef identifies a struct field by named type and field name.
type FieldRef struct {
	Type  string // short, e.g. "dnsforward.Server"
	Field string
}

func (f FieldRef) String() string { return f.Type + "." + f.Field }

// structOf returns the named struct type key and the *types.Struct that t
// (a struct or pointer to struct) denotes.
func structOf(t types.Type) (string, *types.Struct) {
	t = types.Unalias(t)
	if p, ok := t.Underlying().(*types.Pointer); ok {
		t = types.Unalias(p.Elem())
	}
	st, ok := t.Underlying().(*types.Struct)
	if !ok {
		return "", nil
	}
	name := Strip(types.TypeString(t, nil))
	if _, isNamed := t.(*types.Named); !isNamed {
		name = "struct"
	}
	return name, st
}

// FieldOfAddr resolves a FieldAddr / Field value to its field reference.
func FieldOfAddr(v ssa.Value) (FieldRef, bool) {
	switch x := v.(type) {
	case *ssa.FieldAddr:
		name, st := structOf(x.X.Type())
		if st == nil {
			return FieldRef{}, false
		}
		return FieldRef{Type: name, Field: st.Field(x.Field).Name()}, true
	case *ssa.Field:
		name, st := structOf(x.X.Type())
		if st == nil {
			return FieldRef{}, false
		}
		return FieldRef{Type: name, Field: st.Field(x.Field).Name()}, true
	}
	return FieldRef{}, false
}

// LoadedField reports the field a value was loaded from: *(&x.f) or x.f.
func LoadedField(v ssa.Value) (FieldRef, ssa.Value, bool) {
	switch x := v.(type) {
	case *ssa.UnOp:
		if x.Op == token.MUL {
			if fr, ok := FieldOfAddr(x.X); ok {
				return fr, x.X.(*ssa.FieldAddr).X, true
			}
		}
	case *ssa.Field:
		fr, ok := FieldOfAddr(x)
		return fr, x.X, ok
	}
	return FieldRef{}, nil, false
}

// Atom is a normalised branch condition: Base compared with Const by Op,
// or plain truthiness of Base (Op == ILLEGAL).  Neg tells that the original
// condition is the negation of the atom.
type Atom struct {
	Base  ssa.Value
	Op    token.Token // EQL, NEQ, LSS, ... or ILLEGAL for truthiness
	Other ssa.Value   // the other operand (often *ssa.Const)
	Neg   bool
}

// Decompose strips negations from a condition value.
func Decompose(v ssa.Value) Atom {
	neg := false
	for {
		if u, ok := v.(*ssa.UnOp); ok && u.Op == token.NOT {
			neg = !neg
			v = u.X
			continue
		}
		break
	}
	if b, ok := v.(*ssa.BinOp); ok {
		switch b.Op {
		case token.EQL, token.NEQ, token.LSS, token.LEQ, token.GTR, token.GEQ:
			x, y := b.X, b.Y
			op := b.Op
			if _, xc := x.(*ssa.Const); xc {
				if _, yc := y.(*ssa.Const); !yc {
					x, y = y, x
					op = flipOp(op)
				}
			}
			// x != true / x == false normalisation
			if c, ok := y.(*ssa.Const); ok && c.Value != nil && c.Value.Kind() == constant.Bool && (op == token.EQL || op == token.NEQ) {
				bv := constant.BoolVal(c.Value)
				inner := Decompose(x)
				flip := (op == token.EQL) != bv
				if flip {
					inner.Neg = !inner.Neg
				}
				if neg {
					inner.Neg = !inner.Neg
				}
				return inner
			}
			return Atom{Base: x, Op: op, Other: y, Neg: neg}
		}
	}
	return Atom{Base: v, Op: token.ILLEGAL, Neg: neg}
}

func flipOp(op token.Token) token.Token {
	switch op {
	case token.LSS:
		return token.GTR
	case token.LEQ:
		return token.GEQ
	case token.GTR:
		return token.LSS
	case token.GEQ:
		return token.LEQ
	}
	return op
}

// IsNilConst reports whether v is the nil constant.
func IsNilConst(v ssa.Value) bool {
	c, ok := v.(*ssa.Const)
	return ok && c.IsNil()
}

// ConstString returns the string value of a constant.
func ConstString(v ssa.Value) (string, bool) {
	c, ok := v.(*ssa.Const)
	if !ok || c.Value == nil || c.Value.Kind() != constant.String {
		return "", false
	}
	return constant.StringVal(c.Value), true
}

// ConstInt returns the integer value of a constant.
func ConstInt(v ssa.Value) (int64, bool) {
	c, ok := v.(*ssa.Const)
	if !ok || c.Value == nil || c.Value.Kind() != constant.Int {
		return 0, false
	}
	i, exact := constant.Int64Val(c.Value)
	return i, exact
}

// ConstBool returns the bool value of a constant.
func ConstBool(v ssa.Value) (bool, bool) {
	c, ok := v.(*ssa.Const)
	if !ok || c.Value == nil || c.Value.Kind() != constant.Bool {
		return false, false
	}
	return constant.BoolVal(c.Value), true
}

// CallResult describes v as "result #Index of a call with key Key"
// (Index -1: the single result).
func CallResult(v ssa.Value) (call *ssa.Call, index int, ok bool) {
	v = ResolveLocalLoad(v)
	switch x := v.(type) {
	case *ssa.Call:
		return x, -1, true
	case *ssa.Extract:
		if c, ok := x.Tuple.(*ssa.Call); ok {
			return c, x.Index, true
		}
	}
	return nil, 0, false
}

// Edge is a CFG edge: successor number Succ of block From.
type Edge struct {
	From *ssa.BasicBlock
	Succ int
}

// CondEdges enumerates the If instructions of fn and, for each, asks match
// whether the atom is the guard looked for.  match returns (matched,
// passWhenAtomTrue): the guard is "passed" on the edge where the atom
// evaluates to passWhenAtomTrue.  The returned set contains the passing
// edges; n is the number of matching branch instructions.
func CondEdges(fn *ssa.Function, match func(a Atom) (bool, bool)) (edges map[Edge]bool, n int) {
	edges, n = condEdges(fn, match, 2)
	if edges == nil {
		edges = map[Edge]bool{}
	}
	// Guards inside the function literals of fn count as guards of fn (n), and
	// UnguardedSinks finds them again through guardMatch when it meets a sink
	// inside a literal; their edges are not part of the returned set, which
	// stays a set of edges of fn's own CFG.
	var lits func(f *ssa.Function)
	lits = func(f *ssa.Function) {
		for _, a := range f.AnonFuncs {
			_, na := condEdges(a, match, 2)
			n += na
			lits(a)
		}
	}
	lits(fn)
	// calls that act as the guard (see AssertCall)
	assert := AssertCall(match)
	for _, b := range fn.Blocks {
		for _, in := range b.Instrs {
			if assert(in) {
				n++
			}
		}
	}
	guardMatch[reflect.ValueOf(edges).Pointer()] = match
	return edges, n
}

// LiftPredicate reports whether the boolean value v (the result of a helper of
// the package, or of slices.ContainsFunc over a function literal) can be true
// only when the matched guard was passed.
func LiftPredicate(v ssa.Value, match func(a Atom) (bool, bool)) bool {
	m, whenTrue := liftPredicate(ResolveCellLoad(v), match, 2)
	return m && whenTrue
}

// guardMatch remembers the matcher a guard set was computed with.
var guardMatch = map[uintptr]func(a Atom) (bool, bool){}

// liftPredicate handles a branch on the boolean result of a helper of the
// same package ("extract condition into a predicate function"): when, inside
// the helper, every `return b` (b a constant) is reachable only through edges
// that pass the matched guard, the caller's edge on which the call yields b
// passes the guard as well.
func liftPredicate(cond ssa.Value, match func(a Atom) (bool, bool), depth int) (matched bool, passWhenTrue bool) {
	return liftResult(cond, match, depth, false)
}

// liftNil is liftPredicate for helpers whose result is tested against nil (an
// error or a pointer): passWhenNil tells on which outcome the guard is passed.
func liftNil(res ssa.Value, match func(a Atom) (bool, bool), depth int) (matched bool, passWhenNil bool) {
	return liftResult(res, match, depth, true)
}

// lastLiftCount: number of guard branches matched inside the helper by the
// last successful lift (so that a caller's "at least k guards" floor still
// counts the guards that moved into the helper).
var lastLiftCount int

func liftResult(cond ssa.Value, match func(a Atom) (bool, bool), depth int, nilMode bool) (matched bool, passWhenTrue bool) {
	if depth <= 0 {
		return false, false
	}
	var call *ssa.Call
	idx := -1
	switch x := cond.(type) {
	case *ssa.Call:
		call = x
	case *ssa.Extract:
		call, _ = x.Tuple.(*ssa.Call)
		idx = x.Index
	}
	if call == nil {
		return false, false
	}
	h := Impl(call.Call.StaticCallee())
	if k := CalleeKey(call.Common()); (k == "slices.ContainsFunc" || strings.HasPrefix(k, "slices.ContainsFunc[")) && len(call.Call.Args) == 2 && !nilMode {
		// slices.ContainsFunc(s, f) is true only if f returned true for an element: lift through f
		h, _ = FnValue(call.Call.Args[1])
		idx = -1
	}
	if h == nil || h.Blocks == nil || !InModule(h) || (h.Pkg != call.Parent().Pkg && !Transparent(h)) {
		return false, false
	}
	g, n := condEdges(h, match, depth-1)
	for _, want := range []bool{true, false} {
		nLeaves, bad := 0, false
		valueMatched := false
		for _, blk := range h.Blocks {
			ret, ok := AsReturn(blk.Instrs[len(blk.Instrs)-1])
			if !ok {
				continue
			}
			ri := idx
			if ri < 0 {
				if len(ret.Results) != 1 {
					return false, false
				}
				ri = 0
			}
			if ri >= len(ret.Results) {
				return false, false
			}
			// leaves of the returned value, each with the place it comes from: the return itself, or the
			// CFG edge of the phi it arrives through
			type leaf struct {
				v    ssa.Value
				at   ssa.Instruction // reaching this instruction ...
				edge *Edge           // ... and then taking this edge (nil: no edge)
			}
			var leaves []leaf
			var walk func(v ssa.Value, at ssa.Instruction, e *Edge, depth int)
			walk = func(v ssa.Value, at ssa.Instruction, e *Edge, depth int) {
				if ph, isPhi := v.(*ssa.Phi); isPhi && depth < 4 {
					for i, ev := range ph.Edges {
						pred := ph.Block().Preds[i]
						si := 0
						for k, sc := range pred.Succs {
							if sc == ph.Block() {
								si = k
							}
						}
						walk(ev, pred.Instrs[len(pred.Instrs)-1], &Edge{From: pred, Succ: si}, depth+1)
					}
					return
				}
				leaves = append(leaves, leaf{v, at, e})
			}
			walk(Res(ret, ri), ret, nil, 0)
			for _, lf := range leaves {
				if nilMode {
					isNil := IsNilConst(lf.v)
					if isNil != want {
						if isNil || provablyNonNil(lf.v) || nonNilHere(lf.v, lf.at) {
							continue // this leaf cannot yield the outcome looked at
						}
					}
					if !isNil {
						// the returned value is itself what the guard tests: nil-ness of the result is the guard's outcome
						if m, whenTrue := match(Atom{Base: lf.v, Op: token.EQL, Other: ssa.NewConst(nil, lf.v.Type())}); m && whenTrue == want {
							nLeaves++
							valueMatched = true
							continue
						}
					}
				} else if cb, isC := ConstBool(lf.v); isC {
					if cb != want {
						continue
					}
				} else {
					// a computed result: `want` implies the guard when the value itself is the guard condition
					at := Decompose(lf.v)
					if m, whenTrue := match(at); m && (whenTrue != at.Neg) == want {
						nLeaves++
						valueMatched = true
						continue
					}
					// ... or, taken as a whole, a value the matcher knows as a truth value
					if m, whenTrue := match(Atom{Base: lf.v, Op: token.ILLEGAL}); m && whenTrue == want {
						nLeaves++
						valueMatched = true
						continue
					}
					if rat := (Atom{Base: ResolveCellLoad(at.Base), Op: at.Op, Other: at.Other, Neg: at.Neg}); rat.Base != at.Base {
						if m, whenTrue := match(rat); m && (whenTrue != rat.Neg) == want {
							nLeaves++
							continue
						}
					}
				}
				nLeaves++
				if lf.edge != nil && g[*lf.edge] {
					continue // arrives through a passing edge
				}
				target := lf.at
				if found, _, _ := Reach(Query{From: []Point{Entry(h)}, Target: func(x ssa.Instruction) bool { return x == target }, AvoidEdges: g}); found {
					bad = true
				}
			}
		}
		if nLeaves > 0 && !bad && (n > 0 || valueMatched) {
			lastLiftCount = n
			return true, want
		}
	}
	return false, false
}

func condEdges(fn *ssa.Function, match func(a Atom) (bool, bool), depth int) (edges map[Edge]bool, n int) {
	edges = map[Edge]bool{}
	for _, b := range fn.Blocks {
		if len(b.Instrs) == 0 {
			continue
		}
		ifi, ok := b.Instrs[len(b.Instrs)-1].(*ssa.If)
		if !ok {
			continue
		}
		a := Decompose(ifi.Cond)
		m, whenTrue := match(a)
		lifted := false
		if !m {
			// the same condition with variables kept in local cells (the function has a defer or a closure)
			// replaced by the value stored last
			if rc := ResolveCellLoad(ifi.Cond); rc != ifi.Cond {
				a = Decompose(rc)
				m, whenTrue = match(a)
			}
			if !m {
				ra := Atom{Base: ResolveCellLoad(a.Base), Op: a.Op, Neg: a.Neg}
				if a.Other != nil {
					ra.Other = ResolveCellLoad(a.Other)
				}
				if ra.Base != a.Base || ra.Other != a.Other {
					a = ra
					m, whenTrue = match(a)
				}
			}
		}
		if !m {
			// a condition on a parameter of a helper with a single call site: the argument passed there
			sub := func(v ssa.Value) ssa.Value {
				if prm, ok := v.(*ssa.Parameter); ok {
					if arg := soleArgument(prm); arg != nil {
						return arg
					}
				}
				return v
			}
			ra := Atom{Base: sub(ResolveCellLoad(a.Base)), Op: a.Op, Neg: a.Neg}
			if a.Other != nil {
				ra.Other = sub(ResolveCellLoad(a.Other))
			}
			if ra.Base != a.Base || ra.Other != a.Other {
				if m2, w2 := match(ra); m2 {
					a, m, whenTrue = ra, true, w2
				}
			}
		}
		if !m && a.Op == token.ILLEGAL {
			// a predicate helper of the same package that wraps the guard
			if lm, lt := liftPredicate(ResolveCellLoad(a.Base), match, depth); lm {
				m, whenTrue, lifted = true, lt, true
			}
		}
		if !m && (a.Op == token.EQL || a.Op == token.NEQ) && IsNilConst(a.Other) {
			// a helper whose error / pointer result tells whether the guard was passed
			if lm, passNil := liftNil(ResolveCellLoad(a.Base), match, depth); lm {
				m, whenTrue, lifted = true, (a.Op == token.EQL) == passNil, true
			}
		}
		if !m {
			continue
		}
		n++
		if lifted && lastLiftCount > 1 {
			n += lastLiftCount - 1
		}
		// the condition is true on Succs[0]; atom value = cond value XOR Neg
		atomTrueSucc := 0
		if a.Neg {
			atomTrueSucc = 1
		}
		if whenTrue {
			edges[Edge{b, atomTrueSucc}] = true
		} else {
			edges[Edge{b, 1 - atomTrueSucc}] = true
		}
	}
	return edges, n
}

// Point is a position inside a function: instruction Idx of Block.
type Point struct {
	Block *ssa.BasicBlock
	Idx   int
	// Via and Dec describe how the point was reached when it is the far end of
	// a branch edge (see AfterEdge): the block the edge leaves, and the
	// decision that taking the edge implies.
	Via *ssa.BasicBlock
	Dec string
}

// AfterEdge is the start of the block an edge leads to, remembering the
// decision taken at the edge's branch: a search that starts there knows that
// the branch condition had that outcome.
func AfterEdge(e Edge) Point {
	pt := Point{Block: e.From.Succs[e.Succ], Idx: 0, Via: e.From}
	if ck, atomTrueSucc := correlKey(e.From, nil); ck != "" {
		val := "F"
		if e.Succ == atomTrueSucc {
			val = "T"
		}
		pt.Dec = ck + "=" + val + ";"
	}
	return pt
}

// PointOf locates an instruction.
func PointOf(in ssa.Instruction) Point {
	b := in.Block()
	for i, x := range b.Instrs {
		if x == in {
			return Point{Block: b, Idx: i}
		}
	}
	return Point{Block: b, Idx: 0}
}

// Entry is the entry point of fn.
func Entry(fn *ssa.Function) Point { return Point{Block: fn.Blocks[0], Idx: 0} }

// Query is a forward reachability question on the CFG of one function:
// starting at From (exclusive of instructions before it), is there a path to
// an instruction satisfying Target that avoids instructions satisfying Avoid
// and edges in AvoidEdges?
type Query struct {
	From       []Point
	Target     func(ssa.Instruction) bool
	Avoid      func(ssa.Instruction) bool
	AvoidEdges map[Edge]bool
	// Shallow turns off the lifting of Avoid through helpers (see LiftAvoid).
	Shallow bool
}

// LiftAvoid extends an instruction predicate through helpers: the result also
// holds for a plain static call of a function of the module in which every
// path from the entry to a return passes an instruction satisfying the
// (lifted, to depth-1) predicate.  Passing such a call is passing the
// instruction; this is what keeps a must-pass-through rule quiet when the
// effect is moved into an extracted function.  Like the predicates themselves
// it does not identify objects across the call.
func LiftAvoid(pred func(ssa.Instruction) bool, depth int) func(ssa.Instruction) bool {
	if pred == nil || depth <= 0 {
		return pred
	}
	memo := map[*ssa.Function]bool{}
	var inner func(ssa.Instruction) bool
	return func(in ssa.Instruction) bool {
		if pred(in) {
			return true
		}
		call, ok := in.(*ssa.Call)
		if !ok {
			return false
		}
		h := Impl(call.Common().StaticCallee())
		if h == nil || len(h.Blocks) == 0 || !InModule(h) || h == in.Parent() {
			return false
		}
		if r, ok := memo[h]; ok {
			return r
		}
		memo[h] = false
		if inner == nil {
			inner = LiftAvoid(pred, depth-1)
		}
		hasRet := false
		for _, b := range h.Blocks {
			if len(b.Instrs) > 0 && IsReturn(b.Instrs[len(b.Instrs)-1]) {
				hasRet = true
			}
		}
		if !hasRet {
			return false
		}
		found, _, _ := Reach(Query{From: []Point{Entry(h)}, Target: IsReturn, Avoid: inner, Shallow: true})
		memo[h] = !found
		return !found
	}
}

// Reach answers the query; when a path exists it returns the block trace and
// the target instruction reached.
func Reach(q Query) (found bool, trace []*ssa.BasicBlock, hit ssa.Instruction) {
	// The search is path-sensitive for one class of conditions: a branch on an
	// immutable input of the function (parameter or captured variable compared
	// with a constant or another such input, or tested for truth) decides the
	// same way every time it is met on a path — `if n > 0 && ...` followed later
	// by `if n > 0 {...}` has no path that takes the first false and the
	// second true.  Those are the infeasible paths behaviour-preserving
	// restructurings introduce most often.
	// It is path-sensitive for a second class as well: a block that starts with a
	// phi of constants and ends with a branch on that phi (what `if !helper(x)`
	// becomes when the helper's `return false` / `return true` are expanded in
	// place, or `ok := false; if c { ok = true }; if ok`): the branch goes the way
	// the constant arriving over the edge just taken says.
	type key struct {
		b   *ssa.BasicBlock
		dec string
		via *ssa.BasicBlock
	}
	type state struct {
		b    *ssa.BasicBlock
		from int
		dec  string
		via  *ssa.BasicBlock
	}
	if q.Avoid != nil && !q.Shallow {
		q.Avoid = LiftAvoid(q.Avoid, 2)
	}
	visited := map[key]bool{}
	parent := map[key]key{}
	hasParent := map[key]bool{}
	var work []state
	for _, p := range q.From {
		var via *ssa.BasicBlock
		if p.Idx == 0 && p.Via != nil && branchesOnOwnPhi(p.Block) {
			via = p.Via
		}
		work = append(work, state{p.Block, p.Idx, p.Dec, via})
	}
	startBlocks := map[*ssa.BasicBlock]bool{}
	for _, p := range q.From {
		startBlocks[p.Block] = true
	}
	steps := 0
	for len(work) > 0 {
		s := work[0]
		work = work[1:]
		steps++
		if steps > 200000 {
			break
		}
		k := key{s.b, s.dec, s.via}
		if s.from == 0 {
			if visited[k] {
				continue
			}
			visited[k] = true
		}
		blocked := false
		for i := s.from; i < len(s.b.Instrs); i++ {
			in := s.b.Instrs[i]
			if q.Target != nil && q.Target(in) {
				// build trace
				var tr []*ssa.BasicBlock
				inTrace := map[key]bool{}
				for c := k; !inTrace[c]; c = parent[c] {
					inTrace[c] = true
					tr = append([]*ssa.BasicBlock{c.b}, tr...)
					if !hasParent[c] || (startBlocks[c.b] && c != k) {
						break
					}
				}
				return true, tr, in
			}
			if q.Avoid != nil && q.Avoid(in) {
				blocked = true
				break
			}
		}
		if blocked {
			continue
		}
		ck, atomTrueSucc := correlKey(s.b, s.via)
		only := -1
		if s.via != nil && s.from == 0 {
			only = phiBranch(s.b, s.via)
		}
		for i, succ := range s.b.Succs {
			if only >= 0 && i != only {
				continue // the constant that arrived over the edge taken decides the branch
			}
			if q.AvoidEdges != nil && q.AvoidEdges[Edge{s.b, i}] {
				continue
			}
			dec := s.dec
			if ck != "" {
				val := "F"
				if i == atomTrueSucc {
					val = "T"
				}
				if j := strings.Index(dec, ck+"="); j >= 0 {
					if dec[j+len(ck)+1:j+len(ck)+2] != val {
						continue // contradicts a decision taken earlier on this path
					}
				} else if strings.Count(dec, ";") < 6 {
					dec += ck + "=" + val + ";"
				}
			}
			var via *ssa.BasicBlock
			if branchesOnOwnPhi(succ) {
				via = s.b
			}
			nk := key{succ, dec, via}
			if !visited[nk] {
				if !hasParent[nk] {
					parent[nk] = k
					hasParent[nk] = true
				}
				work = append(work, state{succ, 0, dec, via})
			}
		}
	}
	return false, nil, nil
}

// ownPhiCond returns the phi of b that its terminating If tests (directly,
// negated, or compared with a constant), with the decomposed condition.
func ownPhiCond(b *ssa.BasicBlock) (*ssa.Phi, Atom, bool) {
	if len(b.Instrs) == 0 {
		return nil, Atom{}, false
	}
	iff, ok := b.Instrs[len(b.Instrs)-1].(*ssa.If)
	if !ok {
		return nil, Atom{}, false
	}
	at := Decompose(iff.Cond)
	phi, ok := at.Base.(*ssa.Phi)
	if !ok || phi.Block() != b {
		return nil, Atom{}, false
	}
	switch at.Op {
	case token.ILLEGAL:
	case token.EQL, token.NEQ:
		if _, isC := at.Other.(*ssa.Const); !isC {
			return nil, Atom{}, false
		}
	default:
		return nil, Atom{}, false
	}
	return phi, at, true
}

var ownPhiMemo = map[*ssa.BasicBlock]bool{}

func branchesOnOwnPhi(b *ssa.BasicBlock) bool {
	if r, ok := ownPhiMemo[b]; ok {
		return r
	}
	_, _, ok := ownPhiCond(b)
	ownPhiMemo[b] = ok
	return ok
}

// phiBranch returns the successor index b's branch takes when b was entered
// from via, or -1 when the value arriving over that edge does not decide it.
func phiBranch(b, via *ssa.BasicBlock) int {
	phi, at, ok := ownPhiCond(b)
	if !ok {
		return -1
	}
	idx := -1
	for i, p := range b.Preds {
		if p == via {
			if idx >= 0 {
				return -1 // both edges of a branch arrive here
			}
			idx = i
		}
	}
	if idx < 0 || idx >= len(phi.Edges) {
		return -1
	}
	v := phi.Edges[idx]
	var atomVal bool
	switch at.Op {
	case token.ILLEGAL:
		c, isC := ConstBool(v)
		if !isC {
			return -1
		}
		atomVal = c
	default:
		other := at.Other.(*ssa.Const)
		var equal bool
		switch {
		case other.Value == nil: // nil / zero
			if IsNilConst(v) {
				equal = true
			} else if provablyNonNil(v) {
				equal = false
			} else if c, isC := v.(*ssa.Const); isC && c.Value != nil {
				equal = false
			} else if isNil, known := nilnessOnEdge(via, b, v); known {
				// the edge that was taken into this block was itself decided by a nil test of that very value
				equal = isNil
			} else {
				return -1
			}
		default:
			c, isC := v.(*ssa.Const)
			if !isC || c.Value == nil {
				return -1
			}
			equal = c.Value.ExactString() == other.Value.ExactString()
		}
		atomVal = equal == (at.Op == token.EQL)
	}
	cond := atomVal != at.Neg
	if cond {
		return 0
	}
	return 1
}

// nilnessOnEdge: when block via ends in a branch on `v == nil` / `v != nil`
// and exactly one of its successors is b, taking the edge via->b fixes
// whether v is nil.
func nilnessOnEdge(via, b *ssa.BasicBlock, v ssa.Value) (isNil, known bool) {
	if via == nil || len(via.Instrs) == 0 {
		return false, false
	}
	ifi, ok := via.Instrs[len(via.Instrs)-1].(*ssa.If)
	if !ok || len(via.Succs) != 2 || (via.Succs[0] == b) == (via.Succs[1] == b) {
		return false, false
	}
	at := Decompose(ifi.Cond)
	if (at.Op != token.EQL && at.Op != token.NEQ) || at.Base != v || at.Other == nil || !IsNilConst(at.Other) {
		return false, false
	}
	condTrue := via.Succs[0] == b
	atomTrue := condTrue != at.Neg
	return atomTrue == (at.Op == token.EQL), true
}

// correlKey returns a key for the branch condition at the end of b when it
// depends only on values that cannot change along a path — inputs of the
// function, constants, and SSA values computed outside of any loop (an SSA
// value is assigned once; outside a loop it is computed at most once per path)
// — and the successor index on which the condition's atom is true.  When b
// was entered from via and branches on a phi of its own, the value arriving
// over that edge stands for the phi.
func correlKey(b, via *ssa.BasicBlock) (string, int) {
	if len(b.Instrs) == 0 {
		return "", 0
	}
	iff, ok := b.Instrs[len(b.Instrs)-1].(*ssa.If)
	if !ok {
		return "", 0
	}
	at := Decompose(iff.Cond)
	if via != nil {
		if phi, pat, isPhi := ownPhiCond(b); isPhi {
			idx := -1
			for i, p := range b.Preds {
				if p == via {
					idx = i
				}
			}
			if idx < 0 || idx >= len(phi.Edges) {
				return "", 0
			}
			// the arriving value may itself be a (negated) condition
			in := Decompose(phi.Edges[idx])
			if pat.Op == token.ILLEGAL {
				at = Atom{Base: in.Base, Op: in.Op, Other: in.Other, Neg: in.Neg != pat.Neg}
			} else if in.Op == token.ILLEGAL && !in.Neg {
				at = Atom{Base: in.Base, Op: pat.Op, Other: pat.Other, Neg: pat.Neg}
			} else {
				return "", 0
			}
		}
	}
	immutable := func(v ssa.Value) (string, bool) {
		switch x := v.(type) {
		case *ssa.Parameter:
			return fmt.Sprintf("p%p", x), true
		case *ssa.FreeVar:
			return "", false // captured by reference: may change
		case *ssa.Const:
			if x.Value == nil {
				return "nil", true
			}
			return "c" + x.Value.ExactString(), true
		case *ssa.Call:
			// len of a parameter
			if bi, ok := x.Call.Value.(*ssa.Builtin); ok && bi.Name() == "len" && len(x.Call.Args) == 1 {
				if prm, ok := x.Call.Args[0].(*ssa.Parameter); ok {
					if _, isSlice := prm.Type().Underlying().(*types.Slice); !isSlice { // strings are immutable; slices' length of a parameter is fixed too, but keep to strings
						return fmt.Sprintf("len(p%p)", prm), true
					}
				}
			}
		}
		if _, isPhi := v.(*ssa.Phi); isPhi {
			return "", false
		}
		if in, isIn := v.(ssa.Instruction); isIn && in.Block() != nil && !inCycle(in.Block()) {
			return fmt.Sprintf("v%p", v), true
		}
		return "", false
	}
	kb, ok := immutable(at.Base)
	if !ok {
		return "", 0
	}
	if _, isConst := at.Base.(*ssa.Const); isConst {
		return "", 0
	}
	ko := ""
	if at.Op != token.ILLEGAL {
		ko, ok = immutable(at.Other)
		if !ok {
			return "", 0
		}
	}
	succ := 0
	if at.Neg {
		succ = 1
	}
	return kb + "|" + at.Op.String() + "|" + ko, succ
}

var cycleMemo = map[*ssa.Function]map[*ssa.BasicBlock]bool{}

// InCycle reports whether b lies on a cycle of its function's CFG.
func InCycle(b *ssa.BasicBlock) bool { return inCycle(b) }

// inCycle reports whether b lies on a cycle of its function's CFG.
func inCycle(b *ssa.BasicBlock) bool {
	fn := b.Parent()
	m, ok := cycleMemo[fn]
	if !ok {
		m = map[*ssa.BasicBlock]bool{}
		for _, x := range fn.Blocks {
			// x is on a cycle iff x is reachable from one of its successors
			seen := map[*ssa.BasicBlock]bool{}
			stack := append([]*ssa.BasicBlock{}, x.Succs...)
			for len(stack) > 0 && !m[x] {
				y := stack[len(stack)-1]
				stack = stack[:len(stack)-1]
				if y == x {
					m[x] = true
					break
				}
				if seen[y] {
					continue
				}
				seen[y] = true
				stack = append(stack, y.Succs...)
			}
		}
		cycleMemo[fn] = m
	}
	return m[b]
}

// IsReturn matches normal return instructions.
func IsReturn(in ssa.Instruction) bool { _, ok := AsReturn(in); return ok }

// TraceString renders a block trace with the source lines of branch points.
func (p *Prog) TraceString(tr []*ssa.BasicBlock) string {
	var parts []string
	for _, b := range tr {
		pos := "-"
		for _, in := range b.Instrs {
			if in.Pos().IsValid() {
				pos = p.Pos(in.Pos())
				break
			}
		}
		parts = append(parts, fmt.Sprintf("b%d(%s)", b.Index, pos))
	}
	if len(parts) > 14 {
		parts = append(parts[:7], append([]string{"…"}, parts[len(parts)-6:]...)...)
	}
	return strings.Join(parts, " → ")
}

// IsCallTo returns a predicate matching call instructions (not go/defer
// unless includeDefer) to any of keys.
func IsCallTo(includeDefer bool, keys ...string) func(ssa.Instruction) bool {
	set := map[string]bool{}
	for _, k := range keys {
		set[k] = true
	}
	return func(in ssa.Instruction) bool {
		switch x := in.(type) {
		case *ssa.Call:
			return calleeIn(x.Common(), set)
		case *ssa.Defer:
			return includeDefer && calleeIn(x.Common(), set)
		}
		return false
	}
}

// IsStoreToField matches stores whose address is the given field.
func IsStoreToField(refs ...FieldRef) func(ssa.Instruction) bool {
	return func(in ssa.Instruction) bool {
		st, ok := in.(*ssa.Store)
		if !ok {
			return false
		}
		fr, ok := FieldOfAddr(st.Addr)
		if !ok {
			return false
		}
		for _, r := range refs {
			if r == fr {
				return true
			}
		}
		return false
	}
}

// MustPassEdge reports whether every path from entry to each instruction
// matching sink passes one of the guard edges.  It returns the offending
// sinks (reachable with all guard edges removed) with a witness trace.
type Offender struct {
	Instr ssa.Instruction
	Trace []*ssa.BasicBlock
}

// UnguardedSinks returns sinks reachable from the function entry without
// passing any edge of guards.  A sink inside a function literal of fn counts as
// a sink of fn located where the literal is used (called or handed to a call),
// or where it is created when it escapes in another way.
func UnguardedSinks(fn *ssa.Function, sink func(ssa.Instruction) bool, guards map[Edge]bool) (off []Offender, nSinks int) {
	if DeepSinks {
		if match := guardMatch[reflect.ValueOf(guards).Pointer()]; match != nil {
			off, _, nSinks = guardedDeep(fn, match, sink, 2, guards, true)
			return off, nSinks
		}
	}
	return unguardedSinks(fn, sink, guards, true)
}

// UnguardedSinksLocal is UnguardedSinks restricted to fn and its function
// literals, for sink predicates that mean "this effect in this function" (the
// same kind of instruction in a callee is a different effect).
func UnguardedSinksLocal(fn *ssa.Function, sink func(ssa.Instruction) bool, guards map[Edge]bool) (off []Offender, nSinks int) {
	return unguardedSinks(fn, sink, guards, true)
}

// DeepSinks makes UnguardedSinks look for sinks in the helpers of fn as well
// (see GuardedDeep) whenever the guard set comes from CondEdges.
var DeepSinks = true

// ClosureUsePoints returns the instructions of the enclosing function at which
// the function literal made by mc can start running: the calls it is the callee
// or an argument of; the creation point itself when it escapes otherwise.
func ClosureUsePoints(mc *ssa.MakeClosure) (pts []ssa.Instruction) {
	refs := mc.Referrers()
	if refs == nil {
		return []ssa.Instruction{mc}
	}
	for _, u := range *refs {
		switch u := u.(type) {
		case *ssa.DebugRef:
		case ssa.CallInstruction:
			pts = append(pts, u)
		default:
			return []ssa.Instruction{mc}
		}
	}
	if len(pts) == 0 {
		return []ssa.Instruction{mc}
	}
	return pts
}

// closuresOf maps every function literal nested in fn (at any depth) to the
// MakeClosure instructions of fn through which it comes to exist.
func closuresOf(fn *ssa.Function) map[*ssa.Function][]*ssa.MakeClosure {
	out := map[*ssa.Function][]*ssa.MakeClosure{}
	for _, b := range fn.Blocks {
		for _, in := range b.Instrs {
			mc, ok := in.(*ssa.MakeClosure)
			if !ok {
				continue
			}
			a, _ := mc.Fn.(*ssa.Function)
			if a == nil {
				continue
			}
			var add func(x *ssa.Function)
			add = func(x *ssa.Function) {
				out[x] = append(out[x], mc)
				for _, y := range x.AnonFuncs {
					add(y)
				}
			}
			add(a)
		}
	}
	return out
}

// AssertCall returns a predicate for the calls that act as a guard: static
// calls of a function of the module that returns normally only through edges
// passing the matched guard (it panics, or never returns, otherwise):
// `mustBeClean(p)`.  Passing such a call is passing the guard.
func AssertCall(match func(a Atom) (bool, bool)) func(ssa.Instruction) bool {
	if match == nil {
		return nil
	}
	memo := map[*ssa.Function]bool{}
	return func(in ssa.Instruction) bool {
		call, ok := in.(*ssa.Call)
		if !ok {
			return false
		}
		h := Impl(call.Common().StaticCallee())
		if h == nil || len(h.Blocks) == 0 || !InModule(h) || h == in.Parent() {
			return false
		}
		if h.Signature.Results().Len() > 0 && !Transparent(h) {
			return false // an assertion returns nothing
		}
		if r, ok := memo[h]; ok {
			return r
		}
		memo[h] = false
		g, n := condEdges(h, match, 1)
		if n == 0 {
			return false
		}
		found, _, _ := Reach(Query{From: []Point{Entry(h)}, Target: IsReturn, AvoidEdges: g, Shallow: true})
		memo[h] = !found
		return !found
	}
}

func unguardedSinks(fn *ssa.Function, sink func(ssa.Instruction) bool, guards map[Edge]bool, anon bool) (off []Offender, nSinks int) {
	if len(fn.Blocks) == 0 {
		return nil, 0
	}
	assert := AssertCall(guardMatch[reflect.ValueOf(guards).Pointer()])
	reachable := func(target ssa.Instruction) (bool, []*ssa.BasicBlock) {
		found, tr, _ := Reach(Query{
			From:       []Point{Entry(fn)},
			Target:     func(x ssa.Instruction) bool { return x == target },
			AvoidEdges: guards,
			Avoid:      assert,
			Shallow:    true,
		})
		return found, tr
	}
	for _, b := range fn.Blocks {
		for _, in := range b.Instrs {
			if !sink(in) {
				continue
			}
			nSinks++
			if found, tr := reachable(in); found {
				off = append(off, Offender{Instr: in, Trace: tr})
			}
		}
	}
	if !anon {
		return off, nSinks
	}
	match := guardMatch[reflect.ValueOf(guards).Pointer()]
	for a, mcs := range closuresOf(fn) {
		var inner map[Edge]bool
		if match != nil {
			inner, _ = condEdges(a, match, 2)
		}
		for _, b := range a.Blocks {
			for _, in := range b.Instrs {
				if _, isRet := in.(*ssa.Return); isRet || !sink(in) {
					continue // a return of the literal is not a return of fn
				}
				nSinks++
				target := in
				if found, _, _ := Reach(Query{From: []Point{Entry(a)}, Target: func(x ssa.Instruction) bool { return x == target }, AvoidEdges: inner}); !found {
					continue // guarded inside the literal
				}
				done := false
				for _, mc := range mcs {
					for _, pt := range ClosureUsePoints(mc) {
						if found, tr := reachable(pt); found && !done {
							off = append(off, Offender{Instr: in, Trace: tr})
							done = true
						}
					}
				}
			}
		}
	}
	sort.SliceStable(off, func(i, j int) bool { return off[i].Instr.Pos() < off[j].Instr.Pos() })
	return off, nSinks
}

// Referrers-based helper: all instructions using v.
func Users(v ssa.Value) []ssa.Instruction {
	r := v.Referrers()
	if r == nil {
		return nil
	}
	return *r
}

// ModFnsIn returns module functions whose package key is one of pkgs.
func (p *Prog) ModFnsIn(pkgs ...string) (out []*ssa.Function) {
	for _, fn := range p.ModFns {
		pk := PkgOf(fn)
		for _, want := range pkgs {
			if pk == want {
				out = append(out, fn)
				break
			}
		}
	}
	return out
}

// IsNextPkg reports whether fn is part of the unreleased internal/next tree
// or of scripts (not linked into the shipped binary).
func IsNextPkg(fn *ssa.Function) bool {
	pk := PkgOf(fn)
	return strings.HasPrefix(pk, "next/") || pk == "next" || strings.HasPrefix(pk, ModPath+"/scripts")
}

// ResolveLocalLoad looks through a load of a local cell (an Alloc, e.g. a
// named result spilled because a deferred closure captures it) when the
// value stored last before the load, in the same basic block, is known.
func ResolveLocalLoad(v ssa.Value) ssa.Value {
	for i := 0; i < 4; i++ {
		u, ok := v.(*ssa.UnOp)
		if !ok || u.Op != token.MUL {
			return v
		}
		if _, isAlloc := u.X.(*ssa.Alloc); !isAlloc {
			return v
		}
		b := u.Block()
		var last ssa.Value
		for _, in := range b.Instrs {
			if in == ssa.Instruction(u) {
				break
			}
			switch y := in.(type) {
			case *ssa.Store:
				if y.Addr == u.X {
					last = y.Val
				}
			case ssa.CallInstruction:
				// a call may write the cell through a captured reference
				if _, isDefer := in.(*ssa.Defer); !isDefer && last != nil && cellEscapes(u.X.(*ssa.Alloc)) {
					if cv, ok := in.(ssa.Value); !ok || !dependsOn(last, cv) {
						last = nil
					}
				}
			}
		}
		if last == nil {
			return v
		}
		v = last
	}
	return v
}

func dependsOn(v, on ssa.Value) bool {
	if v == on {
		return true
	}
	if e, ok := v.(*ssa.Extract); ok {
		return e.Tuple == on
	}
	return false
}

// cellEscapes reports whether the address of a is captured by a closure or
// passed to a call.
func cellEscapes(a *ssa.Alloc) bool {
	for _, u := range Users(a) {
		switch u.(type) {
		case *ssa.MakeClosure, ssa.CallInstruction:
			return true
		}
	}
	return false
}

// provablyNonNil: a value that cannot be nil (an allocation, a composite
// literal's address, an error built by a constructor call).
func provablyNonNil(v ssa.Value) bool {
	switch x := v.(type) {
	case *ssa.Alloc, *ssa.MakeInterface, *ssa.MakeMap, *ssa.MakeSlice, *ssa.MakeClosure, *ssa.FieldAddr, *ssa.IndexAddr:
		return true
	case *ssa.Call:
		k := CalleeKey(x.Common())
		return k == "fmt.Errorf" || k == "errors.New" || strings.HasSuffix(k, "errors.Error")
	case *ssa.ChangeInterface:
		return provablyNonNil(x.X)
	}
	return false
}

var (
	callSitesProg *ssa.Program
	callSites     map[*ssa.Function][]*ssa.CallCommon
)

// staticCallSites returns the static call sites of fn in module functions.
func staticCallSites(fn *ssa.Function) []*ssa.CallCommon {
	if fn == nil || fn.Prog == nil {
		return nil
	}
	if callSitesProg != fn.Prog {
		callSitesProg = fn.Prog
		callSites = map[*ssa.Function][]*ssa.CallCommon{}
		for _, pkg := range fn.Prog.AllPackages() {
			if pkg.Pkg == nil || !(pkg.Pkg.Path() == ModPath || strings.HasPrefix(pkg.Pkg.Path(), ModPath+"/")) {
				continue
			}
			var visit func(f *ssa.Function)
			visit = func(f *ssa.Function) {
				for _, b := range f.Blocks {
					for _, in := range b.Instrs {
						if ci, ok := in.(ssa.CallInstruction); ok {
							if callee := ci.Common().StaticCallee(); callee != nil {
								callSites[callee] = append(callSites[callee], ci.Common())
							}
						}
					}
				}
				for _, an := range f.AnonFuncs {
					visit(an)
				}
			}
			for _, mem := range pkg.Members {
				if f, ok := mem.(*ssa.Function); ok {
					visit(f)
				}
				if t, ok := mem.(*ssa.Type); ok {
					for _, recv := range []types.Type{t.Type(), types.NewPointer(t.Type())} {
						ms := fn.Prog.MethodSets.MethodSet(recv)
						for i := 0; i < ms.Len(); i++ {
							if mf := fn.Prog.MethodValue(ms.At(i)); mf != nil && mf.Synthetic == "" {
								visit(mf)
							}
						}
					}
				}
			}
		}
	}
	return callSites[fn]
}

// soleArgument returns the value passed for parameter prm when its function
// has exactly one static call site in the module (a helper extracted from
// that caller), or nil.
func soleArgument(prm *ssa.Parameter) ssa.Value {
	fn := prm.Parent()
	if fn == nil || fn.Object() == nil || fn.Object().Exported() {
		return nil
	}
	sites := staticCallSites(fn)
	// a method value or another indirect use would make other callers possible
	seen := map[*ssa.CallCommon]bool{}
	var uniq []*ssa.CallCommon
	for _, s := range sites {
		if !seen[s] {
			seen[s] = true
			uniq = append(uniq, s)
		}
	}
	if len(uniq) != 1 {
		return nil
	}
	for i, p := range fn.Params {
		if p == prm && i < len(uniq[0].Args) {
			return uniq[0].Args[i]
		}
	}
	return nil
}

// GuardedDeep is CondEdges + UnguardedSinks over fn and the helpers of its
// package it calls (to the given depth): a sink inside a helper is guarded
// when it is guarded inside the helper, or when the call of the helper is
// guarded in the caller.  It returns the unguarded sinks (with the trace inside
// the function that contains them), the number of matched guards and the
// number of sinks seen.
func GuardedDeep(fn *ssa.Function, match func(a Atom) (bool, bool), sink func(ssa.Instruction) bool, depth int) (off []Offender, nGuards, nSinks int) {
	return guardedDeep(fn, match, sink, depth, nil, false)
}

// guardedDeep: with newOnly the only helpers entered are the functions the
// inventory does not list (Transparent), in any package and at no cost of depth.
func guardedDeep(fn *ssa.Function, match func(a Atom) (bool, bool), sink func(ssa.Instruction) bool, depth int, top map[Edge]bool, newOnly bool) (off []Offender, nGuards, nSinks int) {
	memo := map[*ssa.Function][]Offender{}
	busy := map[*ssa.Function]bool{}
	var eval func(f *ssa.Function, d int) []Offender
	eval = func(f *ssa.Function, d int) (res []Offender) {
		if f == nil || f.Blocks == nil || busy[f] {
			return nil
		}
		if r, ok := memo[f]; ok {
			return r
		}
		busy[f] = true
		defer func() { busy[f] = false; memo[f] = res }()
		var g map[Edge]bool
		if f == fn && top != nil {
			g = top
		} else {
			var n int
			g, n = condEdges(f, match, 2)
			nGuards += n
			if g == nil {
				g = map[Edge]bool{}
			}
			guardMatch[reflect.ValueOf(g).Pointer()] = match
		}
		var out []Offender
		sk := sink
		if f != fn {
			// a return of a helper is not a return of fn
			sk = func(in ssa.Instruction) bool { _, isRet := in.(*ssa.Return); return !isRet && sink(in) }
		}
		o, ns := unguardedSinks(f, sk, g, false)
		nSinks += ns
		out = append(out, o...)
		assert := AssertCall(match)
		reachable := func(target ssa.Instruction) bool {
			found, _, _ := Reach(Query{From: []Point{Entry(f)}, Target: func(x ssa.Instruction) bool { return x == target }, AvoidEdges: g, Avoid: assert, Shallow: true})
			return found
		}
		for _, b := range f.Blocks {
			for _, in := range b.Instrs {
				if mc, isMC := in.(*ssa.MakeClosure); isMC {
					// a function literal: its unguarded sinks are located where the literal is used
					h, _ := mc.Fn.(*ssa.Function)
					inner := eval(h, d)
					if len(inner) == 0 {
						continue
					}
					for _, pt := range ClosureUsePoints(mc) {
						if reachable(pt) {
							out = append(out, inner...)
							break
						}
					}
					continue
				}
				ci, ok := in.(ssa.CallInstruction)
				if !ok {
					continue
				}
				h := Impl(ci.Common().StaticCallee())
				if h == nil || h == f || !InModule(h) {
					continue
				}
				cost := 1
				if Transparent(h) {
					cost = 0
				} else if newOnly || h.Pkg != f.Pkg {
					continue
				}
				if d-cost < 0 {
					continue
				}
				if v, isVal := in.(ssa.Value); isVal {
					// the helper that computes the guard is not guarded by it
					vals := []ssa.Value{v}
					if refs := v.Referrers(); refs != nil {
						for _, u := range *refs {
							if e, ok := u.(*ssa.Extract); ok {
								vals = append(vals, e)
							}
						}
					}
					isGuard := false
					for _, x := range vals {
						if _, isTuple := x.Type().(*types.Tuple); isTuple {
							continue
						}
						if m, _ := match(Decompose(x)); m {
							isGuard = true
						}
						if m, _ := match(Atom{Base: x, Op: token.NEQ, Other: ssa.NewConst(nil, x.Type())}); m {
							isGuard = true
						}
					}
					if isGuard {
						continue
					}
				}
				inner := eval(h, d-cost)
				if len(inner) == 0 {
					continue
				}
				// the helper has sinks it does not guard itself: is this call guarded here?
				if reachable(in) {
					out = append(out, inner...)
				}
			}
		}
		return out
	}
	off = eval(fn, depth)
	return off, nGuards, nSinks
}

// LiftNil reports whether res is the result of a helper of the same package
// that returns nil only through edges passing the matched guard.
func LiftNil(res ssa.Value, match func(a Atom) (bool, bool)) bool {
	m, passNil := liftNil(res, match, 2)
	return m && passNil
}

// ArgsOfParam returns the values passed for prm at every static call site of
// its (unexported) function, or nil when there is none or the function is
// exported.
func ArgsOfParam(prm *ssa.Parameter) []ssa.Value {
	fn := prm.Parent()
	if fn == nil || fn.Object() == nil || fn.Object().Exported() {
		return nil
	}
	idx := -1
	for i, p := range fn.Params {
		if p == prm {
			idx = i
		}
	}
	var out []ssa.Value
	seen := map[*ssa.CallCommon]bool{}
	for _, s := range staticCallSites(fn) {
		if seen[s] || idx < 0 || idx >= len(s.Args) {
			continue
		}
		seen[s] = true
		out = append(out, s.Args[idx])
	}
	return out
}

// nonNilHere: v is returned from a block that is entered only on the
// `v != nil` edge of a test of v (the `if err != nil { return err }` idiom).
func nonNilHere(v ssa.Value, at ssa.Instruction) bool {
	if at == nil {
		return false
	}
	b := at.Block()
	if len(b.Preds) != 1 {
		return false
	}
	p := b.Preds[0]
	iff, ok := p.Instrs[len(p.Instrs)-1].(*ssa.If)
	if !ok {
		return false
	}
	a := Decompose(iff.Cond)
	if !(a.Op == token.EQL || a.Op == token.NEQ) || !IsNilConst(a.Other) || !SameValue(a.Base, v) {
		return false
	}
	// the atom is true on Succs[0] unless negated
	atomTrue := p.Succs[0] == b
	if a.Neg {
		atomTrue = !atomTrue
	}
	return (a.Op == token.NEQ) == atomTrue
}
