package core

import (
	"fmt"
	"go/constant"
	"go/token"
	"go/types"
	"strings"

	"golang.org/x/tools/go/ssa"
)

// Abstract evaluation of a comparator over a finite domain.
//
// A two-argument ordering function usually touches its arguments only through
// a handful of projections (x.Bits(), len(x.Domain), x.Type == C, ...) and
// through comparisons between the same projection of both arguments.  Its
// result sign is then a function of finitely many facts: the sign relation of
// each projection pair and the truth of each per-argument predicate.  AbsEval
// evaluates the SSA of the function once per combination of those facts
// (nothing is executed; every branch condition must be decidable from the
// facts, otherwise the evaluation is undecided) and returns the sign of the
// result.

type AbsKind int

const (
	AbsUnknown AbsKind = iota
	AbsParam           // one of the two arguments
	AbsProj            // a projection of an argument: Sym of argument Idx
	AbsInt             // an integer whose sign is known (Exact when the value is)
	AbsBool
	AbsArray // a local array used for a variadic call
	AbsTuple // the results of an inlined helper with several results
)

type AbsVal struct {
	Kind  AbsKind
	Idx   int    // argument index for AbsParam / AbsProj
	Sym   string // projection name
	Sign  int    // AbsInt
	Exact *int64 // AbsInt
	Bool  bool
	Arr   *ssa.Alloc
	Elems []AbsVal // AbsTuple
}

func (v AbsVal) String() string {
	switch v.Kind {
	case AbsParam:
		return fmt.Sprintf("arg%d", v.Idx)
	case AbsProj:
		return fmt.Sprintf("%s(arg%d)", v.Sym, v.Idx)
	case AbsInt:
		if v.Exact != nil {
			return fmt.Sprintf("%d", *v.Exact)
		}
		return fmt.Sprintf("sign%+d", v.Sign)
	case AbsBool:
		return fmt.Sprintf("%v", v.Bool)
	case AbsTuple:
		return fmt.Sprintf("%v", v.Elems)
	}
	return "?"
}

func absInt(n int64) AbsVal {
	s := 0
	if n < 0 {
		s = -1
	} else if n > 0 {
		s = 1
	}
	return AbsVal{Kind: AbsInt, Sign: s, Exact: &n}
}

func absSign(s int) AbsVal {
	if s == 0 {
		return absInt(0)
	}
	return AbsVal{Kind: AbsInt, Sign: s}
}

// AbsFacts is one point of the finite domain.
type AbsFacts struct {
	// Rel[sym] is the sign of sym(arg0) compared with sym(arg1).
	Rel map[string]int
	// Pred[sym][i] is the truth of the per-argument predicate sym on argument i.
	Pred map[string][2]bool
	// Same is true when the two arguments are equal as whole values.
	Same bool
}

// AbsModel tells the evaluator how the function under analysis touches its
// arguments.
type AbsModel struct {
	// Project recognises a call or load that yields a projection of a value:
	// it returns the projection name for (callee key or ".Field", operand).
	Project func(op string, arg AbsVal) (sym string, ok bool)
	// Predicate recognises a boolean per-argument predicate: a call
	// (op = callee key) on a projection/argument, or a comparison of a
	// projection with a constant (op = "==const:<value>").
	Predicate func(op string, arg AbsVal) (sym string, ok bool)
	// Oracle recognises a boolean value of the function (the result of a
	// call, a comparison) that is an input of the decision under analysis:
	// its truth is Pred[sym][0].
	Oracle func(v ssa.Value) (sym string, ok bool)
}

type absState struct {
	fn      *ssa.Function
	m       AbsModel
	f       AbsFacts
	vals    map[ssa.Value]AbsVal
	arrs    map[*ssa.Alloc]map[int64]AbsVal
	why     string
	steps   int
	cellSet map[*ssa.Alloc]bool
	only    int // when >= 0, the only result that has to be decided
	depth   int // inlining depth
}

// AbsEval returns the sign of fn's (single int or bool) result under facts f;
// ok is false, with a reason, when some step could not be decided.
func AbsEval(fn *ssa.Function, m AbsModel, f AbsFacts) (res AbsVal, ok bool, why string) {
	rs, ok, why := AbsEvalMulti(fn, m, f)
	if !ok {
		return AbsVal{}, false, why
	}
	if len(rs) != 1 {
		return AbsVal{}, false, "not a single-result function"
	}
	if rs[0].Kind != AbsInt && rs[0].Kind != AbsBool {
		return AbsVal{}, false, "result is not decided by the facts"
	}
	return rs[0], true, ""
}

// AbsEvalMulti evaluates a function with any number of results.  A result may
// also be a projection (e.g. the index returned by a search the model knows).
// When a branch condition is not decided by the facts both successors are
// followed, and the evaluation succeeds only if all paths agree on the results.
func AbsEvalMulti(fn *ssa.Function, m AbsModel, f AbsFacts) (res []AbsVal, ok bool, why string) {
	return absEvalOnly(fn, m, f, -1)
}

// AbsEvalResult evaluates result idx of fn only: the other results need not be
// decided by the facts.
func AbsEvalResult(fn *ssa.Function, m AbsModel, f AbsFacts, idx int) (res AbsVal, ok bool, why string) {
	rs, ok, why := absEvalOnly(fn, m, f, idx)
	if !ok {
		return AbsVal{}, false, why
	}
	if idx >= len(rs) || (rs[idx].Kind != AbsInt && rs[idx].Kind != AbsBool) {
		return AbsVal{}, false, "result is not decided by the facts"
	}
	return rs[idx], true, ""
}

func absEvalOnly(fn *ssa.Function, m AbsModel, f AbsFacts, only int) (res []AbsVal, ok bool, why string) {
	if fn == nil || len(fn.Blocks) == 0 {
		return nil, false, "no body"
	}
	st := &absState{fn: fn, m: m, f: f, vals: map[ssa.Value]AbsVal{}, arrs: map[*ssa.Alloc]map[int64]AbsVal{}, cellSet: map[*ssa.Alloc]bool{}, only: only}
	for i, p := range fn.Params {
		st.vals[p] = AbsVal{Kind: AbsParam, Idx: i}
	}
	forks := 0
	return st.run(fn.Blocks[0], nil, &forks)
}

func (st *absState) clone() *absState {
	c := &absState{fn: st.fn, m: st.m, f: st.f, vals: map[ssa.Value]AbsVal{}, arrs: map[*ssa.Alloc]map[int64]AbsVal{}, steps: st.steps, cellSet: map[*ssa.Alloc]bool{}, only: st.only, depth: st.depth}
	for k := range st.cellSet {
		c.cellSet[k] = true
	}
	for k, v := range st.vals {
		c.vals[k] = v
	}
	for k, v := range st.arrs {
		m := map[int64]AbsVal{}
		for i, e := range v {
			m[i] = e
		}
		c.arrs[k] = m
	}
	return c
}

func sameAbs(a, b []AbsVal) bool {
	if len(a) != len(b) {
		return false
	}
	for i := range a {
		if a[i].String() != b[i].String() || a[i].Kind != b[i].Kind {
			return false
		}
	}
	return true
}

func (st *absState) run(b, prev *ssa.BasicBlock, forks *int) (res []AbsVal, ok bool, why string) {
	fn := st.fn
	for {
		st.steps++
		if st.steps > 500 {
			return nil, false, "evaluation does not terminate (loop)"
		}
		var next *ssa.BasicBlock
		for _, in := range b.Instrs {
			switch x := in.(type) {
			case *ssa.Phi:
				for i, pb := range b.Preds {
					if pb == prev {
						st.vals[x] = st.val(x.Edges[i])
					}
				}
			case *ssa.If:
				c := st.val(x.Cond)
				if c.Kind != AbsBool {
					// not decided: both ways must give the same results
					*forks++
					if *forks > 6 {
						return nil, false, fmt.Sprintf("branch condition %s at %s is not decided by the facts (%s)", x.Cond.Name(), posOf(fn, in), st.why)
					}
					cause := st.why
					r0, ok0, w0 := st.clone().run(b.Succs[0], b, forks)
					if !ok0 {
						return nil, false, w0
					}
					r1, ok1, w1 := st.clone().run(b.Succs[1], b, forks)
					if !ok1 {
						return nil, false, w1
					}
					if !sameAbs(r0, r1) {
						return nil, false, fmt.Sprintf("the result depends on the condition at %s, which the model does not know (%s)", posOf(fn, in), cause)
					}
					return r0, true, ""
				}
				if c.Bool {
					next = b.Succs[0]
				} else {
					next = b.Succs[1]
				}
			case *ssa.Jump:
				next = b.Succs[0]
			case *ssa.Return:
				out := make([]AbsVal, len(x.Results))
				for i, rv := range x.Results {
					out[i] = st.val(rv)
					if st.only >= 0 && i != st.only {
						out[i] = AbsVal{}
						continue
					}
					if out[i].Kind == AbsUnknown {
						return nil, false, fmt.Sprintf("result %s at %s is not decided by the facts (%s)", rv.Name(), posOf(fn, in), st.why)
					}
				}
				return out, true, ""
			case *ssa.Store:
				if cell, ok := x.Addr.(*ssa.Alloc); ok {
					// a local variable kept in a cell (named result of a function with a defer)
					st.vals[cell] = st.val(x.Val)
					st.cellSet[cell] = true
					continue
				}
				if ia, ok := x.Addr.(*ssa.IndexAddr); ok {
					if al, ok := ia.X.(*ssa.Alloc); ok {
						if i, ok := ConstInt(ia.Index); ok {
							if st.arrs[al] == nil {
								st.arrs[al] = map[int64]AbsVal{}
							}
							st.arrs[al][i] = st.val(x.Val)
							continue
						}
					}
				}
				// other stores do not influence the tracked values
			case *ssa.Defer:
				// a deferred call can change the results only through a cell it captures or is handed
				for _, a := range x.Call.Args {
					if _, isCell := a.(*ssa.Alloc); isCell {
						return nil, false, fmt.Sprintf("a deferred call at %s receives a local variable", posOf(fn, in))
					}
				}
				if mc, ok := x.Call.Value.(*ssa.MakeClosure); ok && len(mc.Bindings) > 0 {
					return nil, false, fmt.Sprintf("a deferred closure at %s captures local variables", posOf(fn, in))
				}
			case *ssa.DebugRef, *ssa.RunDefers:
			case ssa.Value:
				st.vals[x] = st.eval(x)
			default:
				return nil, false, fmt.Sprintf("unsupported instruction %T at %s", in, posOf(fn, in))
			}
		}
		if next == nil {
			return nil, false, "block without a decided successor"
		}
		prev, b = b, next
	}
}

func posOf(fn *ssa.Function, in ssa.Instruction) string {
	if fn.Prog == nil || !in.Pos().IsValid() {
		return fn.Name()
	}
	p := fn.Prog.Fset.Position(in.Pos())
	return fmt.Sprintf("%s:%d", p.Filename[strings.LastIndex(p.Filename, "/")+1:], p.Line)
}

func (st *absState) val(v ssa.Value) AbsVal {
	if c, ok := v.(*ssa.Const); ok {
		if c.Value == nil {
			return AbsVal{}
		}
		switch c.Value.Kind() {
		case constant.Int:
			if n, ok := constant.Int64Val(c.Value); ok {
				return absInt(n)
			}
		case constant.Bool:
			return AbsVal{Kind: AbsBool, Bool: constant.BoolVal(c.Value)}
		}
		return AbsVal{}
	}
	if a, ok := st.vals[v]; ok {
		return a
	}
	return AbsVal{}
}

func (st *absState) unknown(format string, args ...any) AbsVal {
	st.why = fmt.Sprintf(format, args...)
	return AbsVal{}
}

// relSign returns the sign of sym(arg i) compared with sym(arg j).
func (st *absState) relSign(sym string, i, j int) (int, bool) {
	if i == j {
		return 0, true
	}
	r, ok := st.f.Rel[sym]
	if !ok {
		return 0, false
	}
	if i == 0 {
		return r, true
	}
	return -r, true
}

func (st *absState) eval(v ssa.Value) AbsVal {
	if st.m.Oracle != nil {
		if sym, ok := st.m.Oracle(v); ok {
			return AbsVal{Kind: AbsBool, Bool: st.f.Pred[sym][0]}
		}
	}
	switch x := v.(type) {
	case *ssa.Alloc:
		// a local variable kept in a cell starts with its zero value
		if bt, ok := x.Type().Underlying().(*types.Pointer).Elem().Underlying().(*types.Basic); ok {
			switch {
			case bt.Info()&types.IsBoolean != 0:
				st.cellSet[x] = true
				return AbsVal{Kind: AbsBool, Bool: false}
			case bt.Info()&types.IsInteger != 0:
				st.cellSet[x] = true
				return absInt(0)
			}
		}
		return AbsVal{Kind: AbsArray, Arr: x}
	case *ssa.IndexAddr:
		if base := st.val(x.X); base.Kind == AbsParam {
			if i, ok := ConstInt(x.Index); ok {
				if sym, ok := st.m.Project(fmt.Sprintf("[%d]", i), base); ok {
					return AbsVal{Kind: AbsProj, Sym: sym, Idx: base.Idx}
				}
			}
			return st.unknown("element access is not part of the model")
		}
		return AbsVal{} // resolved at the store
	case *ssa.Slice:
		if a := st.val(x.X); a.Kind == AbsArray && x.Low == nil && x.High == nil {
			return a
		}
		return st.unknown("slice expression")
	case *ssa.Extract:
		if t := st.val(x.Tuple); t.Kind == AbsTuple && x.Index < len(t.Elems) {
			return t.Elems[x.Index]
		}
		return st.unknown("result %d of an undecided call", x.Index)
	case *ssa.ChangeType:
		return st.val(x.X)
	case *ssa.Convert:
		return st.val(x.X)
	case *ssa.FieldAddr:
		base := st.val(x.X)
		if base.Kind != AbsParam {
			return st.unknown("field of a non-argument")
		}
		fr, _ := FieldOfAddr(x)
		if sym, ok := st.m.Project("."+fr.Field, base); ok {
			return AbsVal{Kind: AbsProj, Sym: sym, Idx: base.Idx}
		}
		return st.unknown("field %s is not part of the model", fr.Field)
	case *ssa.Field:
		base := st.val(x.X)
		if base.Kind != AbsParam {
			return st.unknown("field of a non-argument")
		}
		fr, _ := FieldOfAddr(x)
		if sym, ok := st.m.Project("."+fr.Field, base); ok {
			return AbsVal{Kind: AbsProj, Sym: sym, Idx: base.Idx}
		}
		return st.unknown("field %s is not part of the model", fr.Field)
	case *ssa.UnOp:
		a := st.val(x.X)
		switch x.Op {
		case token.MUL:
			if cell, ok := x.X.(*ssa.Alloc); ok && st.cellSet[cell] {
				return st.vals[cell] // the value stored last on this path
			}
			return a // load of a projected field address
		case token.NOT:
			if a.Kind == AbsBool {
				return AbsVal{Kind: AbsBool, Bool: !a.Bool}
			}
		case token.SUB:
			if a.Kind == AbsInt {
				if a.Exact != nil {
					return absInt(-*a.Exact)
				}
				return absSign(-a.Sign)
			}
		}
		return st.unknown("unary %s on %s", x.Op, a)
	case *ssa.BinOp:
		return st.binop(x)
	case *ssa.Call:
		return st.call(x)
	}
	return st.unknown("unsupported value %T", v)
}

func cmpSign(op token.Token, s int) (bool, bool) {
	switch op {
	case token.EQL:
		return s == 0, true
	case token.NEQ:
		return s != 0, true
	case token.LSS:
		return s < 0, true
	case token.LEQ:
		return s <= 0, true
	case token.GTR:
		return s > 0, true
	case token.GEQ:
		return s >= 0, true
	}
	return false, false
}

func (st *absState) binop(x *ssa.BinOp) AbsVal {
	a, b := st.val(x.X), st.val(x.Y)
	bl := func(v bool) AbsVal { return AbsVal{Kind: AbsBool, Bool: v} }
	switch {
	case a.Kind == AbsParam && b.Kind == AbsParam:
		same := a.Idx == b.Idx || st.f.Same
		switch x.Op {
		case token.EQL:
			return bl(same)
		case token.NEQ:
			return bl(!same)
		}
	case a.Kind == AbsProj && b.Kind == AbsProj && a.Sym == b.Sym:
		s, ok := st.relSign(a.Sym, a.Idx, b.Idx)
		if !ok {
			return st.unknown("no relation fact for %s", a.Sym)
		}
		if r, ok := cmpSign(x.Op, s); ok {
			return bl(r)
		}
		if x.Op == token.SUB {
			return absSign(s)
		}
	case a.Kind == AbsProj && b.Kind == AbsInt && b.Exact != nil, b.Kind == AbsProj && a.Kind == AbsInt && a.Exact != nil:
		pr, c := a, b
		if b.Kind == AbsProj {
			pr, c = b, a
		}
		if x.Op == token.EQL || x.Op == token.NEQ {
			if sym, ok := st.m.Predicate(fmt.Sprintf("==const:%d", *c.Exact), pr); ok {
				t := st.f.Pred[sym][pr.Idx]
				if x.Op == token.NEQ {
					t = !t
				}
				return bl(t)
			}
		}
		{
			// ordered comparison with a constant: ask the model with the operator spelled out, projection on the left
			op := x.Op
			if b.Kind == AbsProj {
				op = flipOp(op)
			}
			if sym, ok := st.m.Predicate(fmt.Sprintf("%sconst:%d", op, *c.Exact), pr); ok {
				return bl(st.f.Pred[sym][pr.Idx])
			}
		}
		return st.unknown("comparison of %s with constant %d is not part of the model", pr, *c.Exact)
	case a.Kind == AbsInt && b.Kind == AbsInt:
		if a.Exact != nil && b.Exact != nil {
			p, q := *a.Exact, *b.Exact
			switch x.Op {
			case token.ADD:
				return absInt(p + q)
			case token.SUB:
				return absInt(p - q)
			case token.MUL:
				return absInt(p * q)
			}
			s := 0
			if p < q {
				s = -1
			} else if p > q {
				s = 1
			}
			if r, ok := cmpSign(x.Op, s); ok {
				return bl(r)
			}
		}
		// sign-known value against zero
		if b.Exact != nil && *b.Exact == 0 {
			if r, ok := cmpSign(x.Op, a.Sign); ok {
				return bl(r)
			}
		}
		if a.Exact != nil && *a.Exact == 0 {
			if r, ok := cmpSign(x.Op, -b.Sign); ok {
				return bl(r)
			}
		}
		if x.Op == token.MUL {
			return absSign(a.Sign * b.Sign)
		}
	case a.Kind == AbsBool && b.Kind == AbsBool:
		switch x.Op {
		case token.EQL:
			return bl(a.Bool == b.Bool)
		case token.NEQ:
			return bl(a.Bool != b.Bool)
		case token.AND:
			return bl(a.Bool && b.Bool)
		case token.OR:
			return bl(a.Bool || b.Bool)
		}
	}
	return st.unknown("%s %s %s is not decided by the facts", a, x.Op, b)
}

func (st *absState) call(x *ssa.Call) AbsVal {
	c := x.Common()
	if bi, ok := c.Value.(*ssa.Builtin); ok {
		if bi.Name() == "len" && len(c.Args) == 1 {
			a := st.val(c.Args[0])
			if a.Kind == AbsProj || a.Kind == AbsParam {
				if sym, ok := st.m.Project("len", a); ok {
					return AbsVal{Kind: AbsProj, Sym: sym, Idx: a.Idx}
				}
			}
		}
		return st.unknown("builtin %s", bi.Name())
	}
	callee := c.StaticCallee()
	if callee == nil {
		return st.unknown("dynamic call")
	}
	key := FuncKey(callee)
	if i := strings.IndexByte(key, '['); i > 0 {
		key = key[:i]
	}
	args := make([]AbsVal, len(c.Args))
	for i, a := range c.Args {
		args[i] = st.val(a)
	}
	switch key {
	case "cmp.Compare":
		if len(args) == 2 {
			if r := st.cmp2(args[0], args[1]); r != nil {
				return *r
			}
		}
		return st.unknown("cmp.Compare of %s and %s", args[0], args[1])
	case "cmp.Or":
		if len(args) == 1 && args[0].Kind == AbsArray {
			els := st.arrs[args[0].Arr]
			for i := int64(0); i < int64(len(els)); i++ {
				e, ok := els[i]
				if !ok || e.Kind != AbsInt {
					return st.unknown("cmp.Or element %d undecided", i)
				}
				if e.Sign != 0 {
					return e
				}
			}
			return absInt(0)
		}
		return st.unknown("cmp.Or with an unresolved argument list")
	}
	// comparison methods between the same projection of both arguments
	if len(args) == 2 && args[0].Kind == AbsProj && args[1].Kind == AbsProj && args[0].Sym == args[1].Sym {
		if strings.HasSuffix(key, ".Compare") {
			if r := st.cmp2(args[0], args[1]); r != nil {
				return *r
			}
		}
		if strings.HasSuffix(key, ".Less") {
			if s, ok := st.relSign(args[0].Sym, args[0].Idx, args[1].Idx); ok {
				return AbsVal{Kind: AbsBool, Bool: s < 0}
			}
		}
	}
	if len(args) >= 1 {
		if sym, ok := st.m.Predicate(key, args[0]); ok && (args[0].Kind == AbsProj || args[0].Kind == AbsParam) {
			return AbsVal{Kind: AbsBool, Bool: st.f.Pred[sym][args[0].Idx]}
		}
		if sym, ok := st.m.Project(key, args[0]); ok && (args[0].Kind == AbsProj || args[0].Kind == AbsParam) {
			return AbsVal{Kind: AbsProj, Sym: sym, Idx: args[0].Idx}
		}
	}
	// a helper of the module whose body the facts decide: evaluate it in place
	if h := Impl(callee); h != nil && len(h.Blocks) > 0 && InModule(h) && st.depth < 3 && h.Signature.Results().Len() >= 1 {
		sub := &absState{fn: h, m: st.m, f: st.f, vals: map[ssa.Value]AbsVal{}, arrs: map[*ssa.Alloc]map[int64]AbsVal{}, cellSet: map[*ssa.Alloc]bool{}, only: -1, depth: st.depth + 1, steps: st.steps}
		for i, prm := range h.Params {
			if i < len(args) {
				sub.vals[prm] = args[i]
			}
		}
		forks := 3 // at most three undecided branches inside a helper
		if rs, ok, _ := sub.run(h.Blocks[0], nil, &forks); ok {
			if len(rs) == 1 && (rs[0].Kind == AbsBool || rs[0].Kind == AbsInt) {
				return rs[0]
			}
			if len(rs) > 1 {
				return AbsVal{Kind: AbsTuple, Elems: rs}
			}
		}
	}
	return st.unknown("call of %s is not part of the model", key)
}

func (st *absState) cmp2(a, b AbsVal) *AbsVal {
	if a.Kind == AbsProj && b.Kind == AbsProj && a.Sym == b.Sym {
		if s, ok := st.relSign(a.Sym, a.Idx, b.Idx); ok {
			r := absSign(s)
			return &r
		}
	}
	if a.Kind == AbsInt && b.Kind == AbsInt && a.Exact != nil && b.Exact != nil {
		r := absInt(0)
		if *a.Exact < *b.Exact {
			r = absInt(-1)
		} else if *a.Exact > *b.Exact {
			r = absInt(1)
		}
		return &r
	}
	return nil
}
