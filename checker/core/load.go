// Package core holds the shared program model and engines of the static
// checker: loader, function/field keys, CFG path queries, provenance slices,
// reporting and evidence.
package core

import (
	"fmt"
	"go/ast"
	"go/token"
	"go/types"
	"os"
	"sort"
	"strings"
	"sync"
	"time"

	"golang.org/x/tools/go/callgraph"
	"golang.org/x/tools/go/callgraph/cha"
	"golang.org/x/tools/go/callgraph/vta"
	"golang.org/x/tools/go/packages"
	"golang.org/x/tools/go/ssa"
	"golang.org/x/tools/go/ssa/ssautil"
)

// ModPath is the module path of the analysed repository.
const ModPath = "github.com/AdguardTeam/AdGuardHome"

// ModInternal is the prefix stripped from keys.
const ModInternal = ModPath + "/internal/"

// RepoDir is the analysed working tree.
var RepoDir = "/repo"

// Prog is the resolved program: type-checked packages, SSA, and (lazily) the
// VTA call graph.
type Prog struct {
	GOOS     string
	Pkgs     []*packages.Package
	AllPkg   map[string]*packages.Package
	Fset     *token.FileSet
	SSA      *ssa.Program
	wrappers []*ssa.Function
	rawKey   map[string]*ssa.Function
	Fns      map[*ssa.Function]bool
	byKey    map[string]*ssa.Function

	// ModFns is the sorted list of functions (including closures and
	// instantiations) whose package is inside the module.
	ModFns []*ssa.Function

	cgOnce sync.Once
	cg     *callgraph.Graph

	callersOnce sync.Once
	callers     map[*ssa.Function][]*ssa.CallCommon
	callInstr   map[*ssa.CallCommon]ssa.CallInstruction

	addrOnce  sync.Once
	addrTaken map[*ssa.Function]bool

	LoadTime time.Duration

	// Inline tells which new functions were expanded into their callers.
	Inline InlineStats
	// Renamed lists the listed functions found under a new name (old -> new).
	Renamed []string
	// Folded maps a listed function that is gone to the former caller that was analysed in its place.
	Folded map[string]string
}

// Load loads ./... of RepoDir for the given GOOS ("" = host, linux).
func Load(goos string) (p *Prog, err error) {
	t0 := time.Now()
	env := os.Environ()
	if goos != "" {
		env = append(env, "GOOS="+goos)
	}
	env = append(env, "GOWORK=off", "CGO_ENABLED=0")
	cfg := &packages.Config{
		Mode:  packages.LoadAllSyntax,
		Dir:   RepoDir,
		Tests: false,
		Env:   env,
	}
	pkgs, err := packages.Load(cfg, "./...")
	if err != nil {
		return nil, fmt.Errorf("loading packages: %w", err)
	}
	if len(pkgs) == 0 {
		return nil, fmt.Errorf("no packages loaded from %s", RepoDir)
	}
	var errs []string
	packages.Visit(pkgs, nil, func(pkg *packages.Package) {
		for _, e := range pkg.Errors {
			errs = append(errs, e.Error())
		}
	})
	if len(errs) > 0 {
		if len(errs) > 10 {
			errs = errs[:10]
		}
		return nil, fmt.Errorf("type-check/load errors: %s", strings.Join(errs, "; "))
	}
	p = &Prog{GOOS: goos, Pkgs: pkgs, AllPkg: map[string]*packages.Package{}}
	if p.GOOS == "" {
		p.GOOS = "linux"
	}
	packages.Visit(pkgs, nil, func(pkg *packages.Package) { p.AllPkg[pkg.PkgPath] = pkg })
	p.Fset = pkgs[0].Fset
	prog, _ := ssautil.AllPackages(pkgs, ssa.InstantiateGenerics)
	prog.Build()
	p.SSA = prog
	implAlias = map[*ssa.Function]*ssa.Function{}
	p.Fns = ssautil.AllFunctions(prog)
	// functions the inventory does not list are expanded into their callers first (inline.go)
	var modFns []*ssa.Function
	for fn := range p.Fns {
		if InModule(fn) {
			modFns = append(modFns, fn)
		}
	}
	sort.Slice(modFns, func(i, j int) bool { return modFns[i].String() < modFns[j].String() })
	p.Renamed = DetectRenames(p.GOOS, modFns)
	var gone map[*ssa.Function]bool
	p.Inline, gone = InlineNew(modFns)
	if p.Inline.Calls > 0 {
		p.Fns = ssautil.AllFunctions(prog)
	}
	p.byKey = map[string]*ssa.Function{}
	for fn := range p.Fns {
		if !InModule(fn) || gone[rootOfKeepInst(fn)] {
			continue
		}
		p.ModFns = append(p.ModFns, fn)
		k := FuncKey(fn)
		if old, dup := p.byKey[k]; dup && old != fn {
			// Generic instantiations can collide with their origin; keep
			// the one with a body and a position.
			if old.Blocks != nil {
				continue
			}
		}
		p.byKey[k] = fn
	}
	// thin wrappers: the name stands for the wrapped implementation when nobody else uses it
	users := map[*ssa.Function]map[*ssa.Function]bool{}
	for _, fn := range p.ModFns {
		if strings.HasPrefix(fn.Synthetic, "wrapper for") {
			continue // the pointer-receiver wrapper the compiler adds for a value method is not a user
		}
		for _, b := range fn.Blocks {
			for _, in := range b.Instrs {
				for _, op := range in.Operands(nil) {
					if op == nil || *op == nil {
						continue
					}
					if callee, ok := (*op).(*ssa.Function); ok && InModule(callee) {
						if users[callee] == nil {
							users[callee] = map[*ssa.Function]bool{}
						}
						users[callee][fn] = true
					}
				}
			}
		}
	}
	for _, fn := range p.ModFns {
		impl := thinWrapperCallee(fn)
		if impl == nil || len(users[impl]) != 1 || !users[impl][fn] {
			continue
		}
		if _, taken := implAlias[impl]; taken {
			continue
		}
		implAlias[impl] = fn
	}
	isWrapper := map[*ssa.Function]bool{}
	for impl, w := range implAlias {
		wk := strings.ReplaceAll(strings.ReplaceAll(w.String(), ModInternal, ""), ModPath+".", "main.")
		if p.rawKey == nil {
			p.rawKey = map[string]*ssa.Function{}
		}
		p.rawKey[wk] = w
		p.byKey[wk] = impl
		p.wrappers = append(p.wrappers, w)
		isWrapper[w] = true
	}
	if len(isWrapper) > 0 {
		// the wrappers are glue: per-function rules look at the implementation, which carries the wrapper's name
		kept := p.ModFns[:0]
		for _, fn := range p.ModFns {
			if !isWrapper[fn] {
				kept = append(kept, fn)
			}
		}
		p.ModFns = kept
	}
	sort.Slice(p.ModFns, func(i, j int) bool {
		a, b := p.ModFns[i], p.ModFns[j]
		if ka, kb := FuncKey(a), FuncKey(b); ka != kb {
			return ka < kb
		}
		return a.Pos() < b.Pos()
	})
	p.LoadTime = time.Since(t0)
	return p, nil
}

// InModule reports whether fn belongs to a package of the analysed module.
func InModule(fn *ssa.Function) bool {
	pkg := fnPkg(fn)
	if pkg == nil {
		return false
	}
	path := pkg.Path()
	return path == ModPath || strings.HasPrefix(path, ModPath+"/")
}

func fnPkg(fn *ssa.Function) *types.Package {
	for f := fn; f != nil; f = f.Parent() {
		if f.Pkg != nil {
			return f.Pkg.Pkg
		}
		if o := f.Origin(); o != nil && o.Pkg != nil {
			return o.Pkg.Pkg
		}
		if f.Object() != nil && f.Object().Pkg() != nil {
			return f.Object().Pkg()
		}
	}
	return nil
}

// PkgOf returns the short package key ("dnsforward", "filtering/rulelist",
// "main") of a module function, or the full path for foreign ones.
func PkgOf(fn *ssa.Function) string {
	pkg := fnPkg(fn)
	if pkg == nil {
		return ""
	}
	return ShortPkg(pkg.Path())
}

// ShortPkg strips the module-internal prefix.
func ShortPkg(path string) string {
	if path == ModPath {
		return "main"
	}
	if s, ok := strings.CutPrefix(path, ModInternal); ok {
		return s
	}
	return path
}

// FuncKey is the stable key of a function: its SSA string with the module
// prefix removed, e.g. "(*dnsforward.Server).processUpstream",
// "home.httpRegister", "home.ensure$1".
func FuncKey(fn *ssa.Function) string {
	if fn == nil {
		return "<nil>"
	}
	s := fn.String()
	// a function whose only use is a thin wrapper that just calls it is known under the wrapper's name
	root := fn
	for root.Parent() != nil {
		root = root.Parent()
	}
	if k, ok := renamed[root]; ok {
		// a listed function under a new spelling keeps its listed key
		return k + strings.TrimPrefix(s, root.String())
	}
	if w, ok := implAlias[root]; ok {
		s = w.String() + strings.TrimPrefix(s, root.String())
	}
	s = strings.ReplaceAll(s, ModInternal, "")
	s = strings.ReplaceAll(s, ModPath+".", "main.")
	return s
}

// Fn returns the module function with the given key or nil.  When the
// function of that name is a thin wrapper (its body only calls another
// function of the package with its own parameters and returns the results —
// what an "extract function" refactoring leaves behind) and the wrapped
// function has no other user, the wrapped function is returned: it holds the
// code the name stands for.
// FnExact is Fn without the fallback to the former caller of a function that is gone.
func (p *Prog) FnExact(key string) *ssa.Function { return p.byKey[key] }

func (p *Prog) Fn(key string) *ssa.Function {
	if fn := p.byKey[key]; fn != nil {
		return fn
	}
	// a listed helper that was folded into its only caller: its code is there now
	if fc := p.FormerCaller(key); fc != nil {
		if p.Folded == nil {
			p.Folded = map[string]string{}
		}
		p.Folded[key] = FuncKey(fc)
		return fc
	}
	return nil
}

// implAlias maps a wrapped implementation to its thin wrapper (see Fn).
var implAlias = map[*ssa.Function]*ssa.Function{}

// WrapperOf returns the thin wrapper fn is known by, or nil.
func WrapperOf(fn *ssa.Function) *ssa.Function { return implAlias[fn] }

// thinWrapperCallee returns the function fn delegates to when fn is a thin
// wrapper.
func thinWrapperCallee(fn *ssa.Function) *ssa.Function {
	if fn == nil || len(fn.Blocks) != 1 || fn.Recover != nil || fn.Parent() != nil {
		return nil
	}
	var call *ssa.Call
	var ret *ssa.Return
	for _, in := range fn.Blocks[0].Instrs {
		switch x := in.(type) {
		case *ssa.DebugRef, *ssa.Extract:
		case *ssa.Call:
			if call != nil {
				return nil
			}
			call = x
		case *ssa.Return:
			ret = x
		default:
			return nil
		}
	}
	if call == nil || ret == nil {
		return nil
	}
	callee := call.Call.StaticCallee()
	if callee == nil || callee == fn || callee.Blocks == nil || callee.Pkg != fn.Pkg || callee.Parent() != nil || len(call.Call.Args) != len(fn.Params) {
		return nil
	}
	for i, a := range call.Call.Args {
		if a != ssa.Value(fn.Params[i]) {
			return nil
		}
	}
	switch len(ret.Results) {
	case 0:
	case 1:
		if ret.Results[0] != ssa.Value(call) {
			return nil
		}
	default:
		for i, rv := range ret.Results {
			ex, ok := rv.(*ssa.Extract)
			if !ok || ex.Tuple != ssa.Value(call) || ex.Index != i {
				return nil
			}
		}
	}
	return callee
}

// Pos renders a position relative to the repo root.
func (p *Prog) Pos(pos token.Pos) string {
	if !pos.IsValid() {
		return "-"
	}
	pp := p.Fset.Position(pos)
	f := strings.TrimPrefix(pp.Filename, RepoDir+"/")
	return fmt.Sprintf("%s:%d", f, pp.Line)
}

// FnPos renders the position of a function (falls back to parent).
func (p *Prog) FnPos(fn *ssa.Function) string {
	for f := fn; f != nil; f = f.Parent() {
		if f.Pos().IsValid() {
			return p.Pos(f.Pos())
		}
		if f.Syntax() != nil {
			return p.Pos(f.Syntax().Pos())
		}
	}
	return "-"
}

// InstrPos returns the best position for an instruction.
func (p *Prog) InstrPos(in ssa.Instruction) string {
	if in == nil {
		return "-"
	}
	if in.Pos().IsValid() {
		return p.Pos(in.Pos())
	}
	// fall back to any operand with a position, then the function
	var ops []*ssa.Value
	for _, op := range in.Operands(ops) {
		if *op != nil && (*op).Pos().IsValid() {
			return p.Pos((*op).Pos())
		}
	}
	return p.FnPos(in.Parent())
}

// CallGraph returns the VTA call graph (seeded with CHA), built on first use.
func (p *Prog) CallGraph() *callgraph.Graph {
	p.cgOnce.Do(func() {
		p.cg = vta.CallGraph(p.Fns, cha.CallGraph(p.SSA))
	})
	return p.cg
}

// Pkg returns the loaded package with the given short key.
func (p *Prog) Pkg(short string) *packages.Package {
	if short == "main" {
		return p.AllPkg[ModPath]
	}
	if pk, ok := p.AllPkg[ModInternal+short]; ok {
		return pk
	}
	return p.AllPkg[short]
}

// SSAPkg returns the SSA package for a short key.
func (p *Prog) SSAPkg(short string) *ssa.Package {
	pk := p.Pkg(short)
	if pk == nil {
		return nil
	}
	return p.SSA.Package(pk.Types)
}

// FuncDecl finds the AST declaration of a top-level function or method by
// short package key and name ("Recv.Name" or "Name").
func (p *Prog) FuncDecl(short, name string) (*ast.FuncDecl, *packages.Package) {
	pk := p.Pkg(short)
	if pk == nil {
		return nil, nil
	}
	recv, fname, isMeth := strings.Cut(name, ".")
	if !isMeth {
		fname, recv = recv, ""
	}
	for _, f := range pk.Syntax {
		for _, d := range f.Decls {
			fd, ok := d.(*ast.FuncDecl)
			if !ok || fd.Name.Name != fname {
				continue
			}
			if recv == "" && fd.Recv == nil {
				return fd, pk
			}
			if recv != "" && fd.Recv != nil && len(fd.Recv.List) == 1 {
				t := fd.Recv.List[0].Type
				if s, ok := t.(*ast.StarExpr); ok {
					t = s.X
				}
				if ix, ok := t.(*ast.IndexExpr); ok {
					t = ix.X
				}
				if id, ok := t.(*ast.Ident); ok && id.Name == recv {
					return fd, pk
				}
			}
		}
	}
	return nil, pk
}

// SameFn reports whether a and b are the same function up to thin wrappers
// (see Prog.Fn): a call of the wrapper is a call of the implementation.
func SameFn(a, b *ssa.Function) bool {
	if a == nil || b == nil {
		return false
	}
	if a == b {
		return true
	}
	if w := implAlias[a]; w != nil && w == b {
		return true
	}
	if w := implAlias[b]; w != nil && w == a {
		return true
	}
	return false
}

// Impl returns the implementation a thin wrapper stands for (see Prog.Fn), or
// fn itself.
func Impl(fn *ssa.Function) *ssa.Function {
	if impl := thinWrapperCallee(fn); impl != nil && implAlias[impl] == fn {
		return impl
	}
	return fn
}

// Wrappers lists the thin wrappers that were taken out of ModFns (see Fn).
func (p *Prog) Wrappers() []*ssa.Function { return p.wrappers }

// Callee is cc.StaticCallee() with thin wrappers resolved to the
// implementation they stand for (see Prog.Fn).
func Callee(cc *ssa.CallCommon) *ssa.Function {
	if cc == nil {
		return nil
	}
	sc := cc.StaticCallee()
	if sc == nil {
		return nil
	}
	return Impl(sc)
}

// FnRaw is Fn without the thin-wrapper resolution: the function that is
// declared under that name.
func (p *Prog) FnRaw(key string) *ssa.Function {
	if w, ok := p.rawKey[key]; ok {
		return w
	}
	return p.byKey[key]
}
