// Package core holds the shared program model and engines of the static
// checker: loader, function/field keys, CFG path queries, provenance slices,
// reporting and evidence.
package core

import (
	"fmt"
	"go/ast"
	"go/token"
	"go/types"
	"os"
	"sort"
	"strings"
	"sync"
	"time"

	"golang.org/x/tools/go/callgraph"
	"golang.org/x/tools/go/callgraph/cha"
	"golang.org/x/tools/go/callgraph/vta"
	"golang.org/x/tools/go/packages"
	"golang.org/x/tools/go/ssa"
	"golang.org/x/tools/go/ssa/ssautil"
)

// ModPath is the module path of the analysed repository.
const ModPath = "github.com/AdguardTeam/AdGuardHome"

// ModInternal is the prefix stripped from keys.
const ModInternal = ModPath + "/internal/"

// RepoDir is the analysed working tree.
var RepoDir = "/repo"

// Prog is the resolved program: type-checked packages, SSA, and (lazily) the
// VTA call graph.
type Prog struct {
	GOOS   string
	Pkgs   []*packages.Package
	AllPkg map[string]*packages.Package
	Fset   *token.FileSet
	SSA    *ssa.Program
	Fns    map[*ssa.Function]bool
	byKey  map[string]*ssa.Function

	// ModFns is the sorted list of functions (including closures and
	// instantiations) whose package is inside the module.
	ModFns []*ssa.Function

	cgOnce sync.Once
	cg     *callgraph.Graph

	callersOnce sync.Once
	callers     map[*ssa.Function][]*ssa.CallCommon

	LoadTime time.Duration
}

// Load loads ./... of RepoDir for the given GOOS ("" = host, linux).
func Load(goos string) (p *Prog, err error) {
	t0 := time.Now()
	env := os.Environ()
	if goos != "" {
		env = append(env, "GOOS="+goos)
	}
	env = append(env, "GOWORK=off", "CGO_ENABLED=0")
	cfg := &packages.Config{
		Mode:  packages.LoadAllSyntax,
		Dir:   RepoDir,
		Tests: false,
		Env:   env,
	}
	pkgs, err := packages.Load(cfg, "./...")
	if err != nil {
		return nil, fmt.Errorf("loading packages: %w", err)
	}
	if len(pkgs) == 0 {
		return nil, fmt.Errorf("no packages loaded from %s", RepoDir)
	}
	var errs []string
	packages.Visit(pkgs, nil, func(pkg *packages.Package) {
		for _, e := range pkg.Errors {
			errs = append(errs, e.Error())
		}
	})
	if len(errs) > 0 {
		if len(errs) > 10 {
			errs = errs[:10]
		}
		return nil, fmt.Errorf("type-check/load errors: %s", strings.Join(errs, "; "))
	}
	p = &Prog{GOOS: goos, Pkgs: pkgs, AllPkg: map[string]*packages.Package{}}
	if p.GOOS == "" {
		p.GOOS = "linux"
	}
	packages.Visit(pkgs, nil, func(pkg *packages.Package) { p.AllPkg[pkg.PkgPath] = pkg })
	p.Fset = pkgs[0].Fset
	prog, _ := ssautil.AllPackages(pkgs, ssa.InstantiateGenerics)
	prog.Build()
	p.SSA = prog
	p.Fns = ssautil.AllFunctions(prog)
	p.byKey = map[string]*ssa.Function{}
	for fn := range p.Fns {
		if !InModule(fn) {
			continue
		}
		p.ModFns = append(p.ModFns, fn)
		k := FuncKey(fn)
		if old, dup := p.byKey[k]; dup && old != fn {
			// Generic instantiations can collide with their origin; keep
			// the one with a body and a position.
			if old.Blocks != nil {
				continue
			}
		}
		p.byKey[k] = fn
	}
	sort.Slice(p.ModFns, func(i, j int) bool {
		a, b := p.ModFns[i], p.ModFns[j]
		if ka, kb := FuncKey(a), FuncKey(b); ka != kb {
			return ka < kb
		}
		return a.Pos() < b.Pos()
	})
	p.LoadTime = time.Since(t0)
	return p, nil
}

// InModule reports whether fn belongs to a package of the analysed module.
func InModule(fn *ssa.Function) bool {
	pkg := fnPkg(fn)
	if pkg == nil {
		return false
	}
	path := pkg.Path()
	return path == ModPath || strings.HasPrefix(path, ModPath+"/")
}

func fnPkg(fn *ssa.Function) *types.Package {
	for f := fn; f != nil; f = f.Parent() {
		if f.Pkg != nil {
			return f.Pkg.Pkg
		}
		if o := f.Origin(); o != nil && o.Pkg != nil {
			return o.Pkg.Pkg
		}
		if f.Object() != nil && f.Object().Pkg() != nil {
			return f.Object().Pkg()
		}
	}
	return nil
}

// PkgOf returns the short package key ("dnsforward", "filtering/rulelist",
// "main") of a module function, or the full path for foreign ones.
func PkgOf(fn *ssa.Function) string {
	pkg := fnPkg(fn)
	if pkg == nil {
		return ""
	}
	return ShortPkg(pkg.Path())
}

// ShortPkg strips the module-internal prefix.
func ShortPkg(path string) string {
	if path == ModPath {
		return "main"
	}
	if s, ok := strings.CutPrefix(path, ModInternal); ok {
		return s
	}
	return path
}

// FuncKey is the stable key of a function: its SSA string with the module
// prefix removed, e.g. "(*dnsforward.Server).processUpstream",
// "home.httpRegister", "home.ensure$1".
func FuncKey(fn *ssa.Function) string {
	if fn == nil {
		return "<nil>"
	}
	s := fn.String()
	s = strings.ReplaceAll(s, ModInternal, "")
	s = strings.ReplaceAll(s, ModPath+".", "main.")
	return s
}

// Fn returns the module function with the given key or nil.
func (p *Prog) Fn(key string) *ssa.Function { return p.byKey[key] }

// Pos renders a position relative to the repo root.
func (p *Prog) Pos(pos token.Pos) string {
	if !pos.IsValid() {
		return "-"
	}
	pp := p.Fset.Position(pos)
	f := strings.TrimPrefix(pp.Filename, RepoDir+"/")
	return fmt.Sprintf("%s:%d", f, pp.Line)
}

// FnPos renders the position of a function (falls back to parent).
func (p *Prog) FnPos(fn *ssa.Function) string {
	for f := fn; f != nil; f = f.Parent() {
		if f.Pos().IsValid() {
			return p.Pos(f.Pos())
		}
		if f.Syntax() != nil {
			return p.Pos(f.Syntax().Pos())
		}
	}
	return "-"
}

// InstrPos returns the best position for an instruction.
func (p *Prog) InstrPos(in ssa.Instruction) string {
	if in == nil {
		return "-"
	}
	if in.Pos().IsValid() {
		return p.Pos(in.Pos())
	}
	// fall back to any operand with a position, then the function
	var ops []*ssa.Value
	for _, op := range in.Operands(ops) {
		if *op != nil && (*op).Pos().IsValid() {
			return p.Pos((*op).Pos())
		}
	}
	return p.FnPos(in.Parent())
}

// CallGraph returns the VTA call graph (seeded with CHA), built on first use.
func (p *Prog) CallGraph() *callgraph.Graph {
	p.cgOnce.Do(func() {
		p.cg = vta.CallGraph(p.Fns, cha.CallGraph(p.SSA))
	})
	return p.cg
}

// Pkg returns the loaded package with the given short key.
func (p *Prog) Pkg(short string) *packages.Package {
	if short == "main" {
		return p.AllPkg[ModPath]
	}
	if pk, ok := p.AllPkg[ModInternal+short]; ok {
		return pk
	}
	return p.AllPkg[short]
}

// SSAPkg returns the SSA package for a short key.
func (p *Prog) SSAPkg(short string) *ssa.Package {
	pk := p.Pkg(short)
	if pk == nil {
		return nil
	}
	return p.SSA.Package(pk.Types)
}

// FuncDecl finds the AST declaration of a top-level function or method by
// short package key and name ("Recv.Name" or "Name").
func (p *Prog) FuncDecl(short, name string) (*ast.FuncDecl, *packages.Package) {
	pk := p.Pkg(short)
	if pk == nil {
		return nil, nil
	}
	recv, fname, isMeth := strings.Cut(name, ".")
	if !isMeth {
		fname, recv = recv, ""
	}
	for _, f := range pk.Syntax {
		for _, d := range f.Decls {
			fd, ok := d.(*ast.FuncDecl)
			if !ok || fd.Name.Name != fname {
				continue
			}
			if recv == "" && fd.Recv == nil {
				return fd, pk
			}
			if recv != "" && fd.Recv != nil && len(fd.Recv.List) == 1 {
				t := fd.Recv.List[0].Type
				if s, ok := t.(*ast.StarExpr); ok {
					t = s.X
				}
				if ix, ok := t.(*ast.IndexExpr); ok {
					t = ix.X
				}
				if id, ok := t.(*ast.Ident); ok && id.Name == recv {
					return fd, pk
				}
			}
		}
	}
	return nil, pk
}
