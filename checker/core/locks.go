package core

import (
	"fmt"
	"go/token"
	"go/types"
	"sort"
	"strings"

	"golang.org/x/tools/go/callgraph"
	"golang.org/x/tools/go/ssa"
)

// LockID identifies a mutex by the struct field (or package variable)
// holding it: type-based identity, instances are conflated.
type LockID string

// Held is one held lock with its mode.
type Held struct {
	Lock  LockID
	Write bool
}

// LockSet maps a lock to whether it is held for writing.
type LockSet map[LockID]bool

func (s LockSet) clone() LockSet {
	o := LockSet{}
	for k, v := range s {
		o[k] = v
	}
	return o
}

func (s LockSet) String() string {
	var ks []string
	for k, w := range s {
		m := "R"
		if w {
			m = "W"
		}
		ks = append(ks, string(k)+":"+m)
	}
	sort.Strings(ks)
	return "{" + strings.Join(ks, ", ") + "}"
}

func intersect(a, b LockSet) LockSet {
	o := LockSet{}
	for k, w := range a {
		if w2, ok := b[k]; ok {
			o[k] = w && w2
		}
	}
	return o
}

func union(a, b LockSet) LockSet {
	o := a.clone()
	for k, w := range b {
		o[k] = o[k] || w
	}
	return o
}

func equalSets(a, b LockSet) bool {
	if len(a) != len(b) {
		return false
	}
	for k, w := range a {
		if w2, ok := b[k]; !ok || w != w2 {
			return false
		}
	}
	return true
}

// LockOp describes a call instruction as a lock operation.
type LockOp struct {
	Lock    LockID
	Acquire bool
	Write   bool
	Try     bool
}

// lockIDOf resolves the receiver of a sync.(RW)Mutex method call.
func lockIDOf(v ssa.Value) LockID {
	if fr, ok := FieldOfAddr(v); ok {
		return LockID(fr.String())
	}
	if fr, _, ok := LoadedField(v); ok {
		return LockID(fr.String())
	}
	switch x := v.(type) {
	case *ssa.Global:
		return LockID(Strip(x.String()))
	case *ssa.UnOp:
		if g, ok := x.X.(*ssa.Global); ok {
			return LockID(Strip(g.String()))
		}
		if fv, ok := x.X.(*ssa.FreeVar); ok {
			if cell := cellOfAddr(fv); cell != nil {
				for _, sv := range CellStores(cell) {
					if id := lockIDOf(sv); id != "" {
						return id
					}
				}
			}
		}
	case *ssa.Alloc:
		return LockID("local:" + x.Comment)
	}
	return ""
}

// LockOpOf classifies a call.
func LockOpOf(cc *ssa.CallCommon) (LockOp, bool) {
	if cc.IsInvoke() {
		// sync.Locker
		if TypeKey(cc.Value.Type()) == "sync.Locker" {
			return LockOp{}, false
		}
		return LockOp{}, false
	}
	callee := cc.StaticCallee()
	if callee == nil || len(cc.Args) == 0 {
		return LockOp{}, false
	}
	var op LockOp
	switch callee.String() {
	case "(*sync.Mutex).Lock", "(*sync.RWMutex).Lock":
		op = LockOp{Acquire: true, Write: true}
	case "(*sync.RWMutex).RLock":
		op = LockOp{Acquire: true}
	case "(*sync.Mutex).Unlock", "(*sync.RWMutex).Unlock":
		op = LockOp{Write: true}
	case "(*sync.RWMutex).RUnlock":
		op = LockOp{}
	case "(*sync.Mutex).TryLock", "(*sync.RWMutex).TryLock", "(*sync.RWMutex).TryRLock":
		return LockOp{Try: true}, false
	default:
		return LockOp{}, false
	}
	op.Lock = lockIDOf(cc.Args[0])
	if op.Lock == "" {
		op.Lock = LockID(fmt.Sprintf("unknown@%s", callee.Name()))
	}
	return op, true
}

// FuncLocks is the result of the intra-procedural lockset analysis of one
// function, relative to an empty entry lockset.
type FuncLocks struct {
	Fn *ssa.Function
	// At gives the must-lockset immediately before each instruction.
	At map[ssa.Instruction]LockSet
	// Acquires lists the acquisitions with the lockset held before them.
	Acquires []Acquire
	// Exit is the must-lockset at normal returns (before deferred calls).
	Exit LockSet
}

// Acquire is one lock acquisition site.
type Acquire struct {
	Instr  ssa.Instruction
	Op     LockOp
	Before LockSet
}

// AnalyzeLocks runs the forward must-lockset dataflow on fn.  Deferred
// unlocks keep the lock held until the function returns.
func AnalyzeLocks(fn *ssa.Function) *FuncLocks {
	fl := &FuncLocks{Fn: fn, At: map[ssa.Instruction]LockSet{}}
	if len(fn.Blocks) == 0 {
		return fl
	}
	in := map[*ssa.BasicBlock]LockSet{}
	var top LockSet // nil = unvisited (⊤)
	_ = top
	in[fn.Blocks[0]] = LockSet{}
	work := []*ssa.BasicBlock{fn.Blocks[0]}
	out := map[*ssa.BasicBlock]LockSet{}
	transfer := func(b *ssa.BasicBlock, record bool) LockSet {
		cur := in[b].clone()
		for _, ins := range b.Instrs {
			if record {
				fl.At[ins] = cur.clone()
			}
			call, ok := ins.(*ssa.Call)
			if !ok {
				continue
			}
			op, ok := LockOpOf(call.Common())
			if !ok {
				continue
			}
			if op.Acquire {
				if record {
					fl.Acquires = append(fl.Acquires, Acquire{Instr: ins, Op: op, Before: cur.clone()})
				}
				cur[op.Lock] = op.Write || cur[op.Lock]
			} else {
				delete(cur, op.Lock)
			}
		}
		return cur
	}
	for len(work) > 0 {
		b := work[0]
		work = work[1:]
		o := transfer(b, false)
		if prev, ok := out[b]; ok && equalSets(prev, o) {
			continue
		}
		out[b] = o
		for _, s := range b.Succs {
			if cur, ok := in[s]; !ok {
				in[s] = o.clone()
				work = append(work, s)
			} else {
				n := intersect(cur, o)
				if !equalSets(n, cur) {
					in[s] = n
					work = append(work, s)
				} else if _, done := out[s]; !done {
					work = append(work, s)
				}
			}
		}
	}
	for _, b := range fn.Blocks {
		if _, ok := in[b]; !ok {
			continue
		}
		o := transfer(b, true)
		if len(b.Instrs) > 0 {
			if _, isRet := b.Instrs[len(b.Instrs)-1].(*ssa.Return); isRet && b != fn.Recover {
				if fl.Exit == nil {
					fl.Exit = o.clone()
				} else {
					fl.Exit = intersect(fl.Exit, o)
				}
			}
		}
	}
	if fl.Exit == nil {
		fl.Exit = LockSet{}
	}
	// locks released by deferred unlocks are not held after return
	for _, b := range fn.Blocks {
		for _, ins := range b.Instrs {
			if d, ok := ins.(*ssa.Defer); ok {
				if op, ok := LockOpOf(d.Common()); ok && !op.Acquire {
					delete(fl.Exit, op.Lock)
				}
				// deferred closure that unlocks
				if mc, ok := d.Common().Value.(*ssa.MakeClosure); ok {
					if cf, ok := mc.Fn.(*ssa.Function); ok {
						for _, c2 := range Calls(cf) {
							if op, ok := LockOpOf(c2.Common); ok && !op.Acquire {
								delete(fl.Exit, op.Lock)
							}
						}
					}
				}
			}
		}
	}
	return fl
}

// LockWorld holds the whole-module lock analysis.
type LockWorld struct {
	P     *Prog
	Funcs map[*ssa.Function]*FuncLocks
	// Must and May entry locksets.
	Must map[*ssa.Function]LockSet
	May  map[*ssa.Function]LockSet
	// In-module call edges with the lockset at the site (local only).
	Edges map[*ssa.Function][]CallEdge
	// Callers index.
	CallersOf map[*ssa.Function][]CallEdge
	// Roots: functions treated as concurrent entry points (entry lockset empty).
	Roots map[*ssa.Function]string
}

// CallEdge is one resolved call.
type CallEdge struct {
	Caller *ssa.Function
	Callee *ssa.Function
	Site   ssa.Instruction
	Local  LockSet // must-lockset in the caller at the site
	Go     bool
	Defer  bool
}

// BuildLockWorld analyses all module functions accepted by scope.
func BuildLockWorld(p *Prog, scope func(*ssa.Function) bool, ignoreCaller func(*ssa.Function) bool, entry map[*ssa.Function]LockSet) *LockWorld {
	w := &LockWorld{P: p, Funcs: map[*ssa.Function]*FuncLocks{}, Must: map[*ssa.Function]LockSet{}, May: map[*ssa.Function]LockSet{},
		Edges: map[*ssa.Function][]CallEdge{}, CallersOf: map[*ssa.Function][]CallEdge{}, Roots: map[*ssa.Function]string{}}
	var fns []*ssa.Function
	for _, fn := range append(append([]*ssa.Function{}, p.ModFns...), p.Wrappers()...) {
		if fn.Blocks != nil && scope(fn) {
			fns = append(fns, fn)
			w.Funcs[fn] = AnalyzeLocks(fn)
		}
	}
	cg := p.CallGraph()
	for _, fn := range fns {
		node := cg.Nodes[fn]
		if node == nil {
			continue
		}
		seen := map[string]bool{}
		for _, e := range node.Out {
			callee := e.Callee.Func
			if callee == nil || w.Funcs[callee] == nil || e.Site == nil {
				continue
			}
			k := fmt.Sprintf("%p|%p", e.Site, callee)
			if seen[k] {
				continue
			}
			seen[k] = true
			ce := CallEdge{Caller: fn, Callee: callee, Site: e.Site, Local: w.Funcs[fn].At[e.Site]}
			switch e.Site.(type) {
			case *ssa.Go:
				ce.Go = true
			case *ssa.Defer:
				ce.Defer = true
			}
			if ce.Local == nil {
				ce.Local = LockSet{}
			}
			// a deferred call runs after the defers registered later and before those registered earlier:
			// the locks held when it was registered (whose deferred unlock, if any, was registered before) are still held
			w.Edges[fn] = append(w.Edges[fn], ce)
			w.CallersOf[callee] = append(w.CallersOf[callee], ce)
		}
	}
	_ = callgraph.Node{}
	// closures used synchronously (passed as a callback argument, invoked or deferred) run inside the dynamic
	// extent of their creating function: add an edge with the lockset at the use site
	for _, fn := range fns {
		for _, b := range fn.Blocks {
			for _, in := range b.Instrs {
				mc, ok := in.(*ssa.MakeClosure)
				if !ok {
					continue
				}
				cf, ok := mc.Fn.(*ssa.Function)
				if !ok || w.Funcs[cf] == nil {
					continue
				}
				for _, u := range Users(mc) {
					ci, ok := u.(ssa.CallInstruction)
					if !ok {
						continue
					}
					ce := CallEdge{Caller: fn, Callee: cf, Site: u, Local: w.Funcs[fn].At[u]}
					if ce.Local == nil {
						ce.Local = LockSet{}
					}
					if _, isGo := ci.(*ssa.Go); isGo {
						ce.Go = true
					}
					dup := false
					for _, old := range w.CallersOf[cf] {
						if old.Site == u {
							dup = true
						}
					}
					if !dup {
						w.Edges[fn] = append(w.Edges[fn], ce)
						w.CallersOf[cf] = append(w.CallersOf[cf], ce)
					}
				}
			}
		}
	}
	// roots
	for _, fn := range fns {
		cs := w.CallersOf[fn]
		n := 0
		for _, ce := range cs {
			if ce.Go || (ignoreCaller != nil && ignoreCaller(ce.Caller)) {
				continue
			}
			n++
		}
		if n == 0 {
			w.Roots[fn] = "no (non-init, non-go) callers in the module"
		}
		for _, ce := range cs {
			if ce.Go {
				w.Roots[fn] = "target of a go statement"
			}
		}
	}
	// Must: greatest fixpoint
	for fn, ls := range entry {
		if w.Funcs[fn] != nil {
			w.Roots[fn] = "entry point with a preset entry lockset"
			w.Must[fn] = ls.clone()
		}
	}
	for _, fn := range fns {
		if _, isRoot := w.Roots[fn]; isRoot {
			if _, preset := entry[fn]; !preset {
				w.Must[fn] = LockSet{}
			}
		}
	}
	for changed := true; changed; {
		changed = false
		for _, fn := range fns {
			if _, isRoot := w.Roots[fn]; isRoot {
				continue
			}
			var acc LockSet
			first := true
			for _, ce := range w.CallersOf[fn] {
				if ce.Go || (ignoreCaller != nil && ignoreCaller(ce.Caller)) {
					continue
				}
				cm, known := w.Must[ce.Caller]
				if !known {
					continue // ⊤
				}
				site := union(ce.Local, cm)
				if first {
					acc = site
					first = false
				} else {
					acc = intersect(acc, site)
				}
			}
			if first {
				continue
			}
			if prev, ok := w.Must[fn]; !ok || !equalSets(prev, acc) {
				w.Must[fn] = acc
				changed = true
			}
		}
	}
	for _, fn := range fns {
		if _, ok := w.Must[fn]; !ok {
			w.Must[fn] = LockSet{}
		}
	}
	// May: least fixpoint
	for _, fn := range fns {
		w.May[fn] = LockSet{}
		if ls, ok := entry[fn]; ok {
			w.May[fn] = ls.clone()
		}
	}
	for changed := true; changed; {
		changed = false
		for _, fn := range fns {
			acc := w.May[fn]
			for _, ce := range w.CallersOf[fn] {
				if ce.Go {
					continue
				}
				site := union(ce.Local, w.May[ce.Caller])
				n := union(acc, site)
				if !equalSets(n, acc) {
					acc = n
					changed = true
				}
			}
			w.May[fn] = acc
		}
	}
	return w
}

// MayPath returns a call chain witnessing that lock may be held on entry of fn.
func (w *LockWorld) MayPath(fn *ssa.Function, lock LockID) []string {
	var path []string
	seen := map[*ssa.Function]bool{}
	cur := fn
	for i := 0; i < 12 && cur != nil && !seen[cur]; i++ {
		seen[cur] = true
		var next *ssa.Function
		for _, ce := range w.CallersOf[cur] {
			if ce.Go {
				continue
			}
			if _, ok := ce.Local[lock]; ok {
				path = append(path, fmt.Sprintf("%s holds %s at %s and calls %s", FuncKey(ce.Caller), lock, w.P.InstrPos(ce.Site), FuncKey(cur)))
				return path
			}
			if _, ok := w.May[ce.Caller][lock]; ok && next == nil {
				next = ce.Caller
				path = append(path, fmt.Sprintf("%s (called from %s at %s)", FuncKey(cur), FuncKey(ce.Caller), w.P.InstrPos(ce.Site)))
			}
		}
		cur = next
	}
	return path
}

// Access is one read or write of a tracked struct field.
type Access struct {
	Field FieldRef
	Write bool
	Instr ssa.Instruction
	Fn    *ssa.Function
	Held  LockSet   // local ∪ must-entry
	Base  ssa.Value // the struct (pointer) whose field is accessed
	Whole bool      // part of a whole-struct copy
}

// selfSynchronised reports field types that need no external lock.
func selfSynchronised(t types.Type) bool {
	s := TypeKey(t)
	for _, pre := range []string{"sync/atomic.", "*sync/atomic.", "sync.", "*sync.", "*aghnet.IPMut", "github.com/AdguardTeam/golibs/cache.Cache", "*github.com/AdguardTeam/golibs/syncutil.", "chan ", "<-chan", "chan<-", "*log/slog.Logger", "context.Context"} {
		if strings.HasPrefix(s, pre) {
			return true
		}
	}
	return false
}

// FieldAccesses collects reads/writes of fields of the tracked struct types in fn.
// HeldAt returns the must-lockset at an instruction of fn: locks acquired in
// fn before it plus those every caller holds.
func (w *LockWorld) HeldAt(fn *ssa.Function, in ssa.Instruction) LockSet {
	fl := w.Funcs[fn]
	if fl == nil {
		return LockSet{}
	}
	return union(fl.At[in], w.Must[fn])
}

func (w *LockWorld) FieldAccesses(fn *ssa.Function, tracked func(FieldRef) bool) []Access {
	fl := w.Funcs[fn]
	if fl == nil {
		return nil
	}
	var out []Access
	held := func(in ssa.Instruction) LockSet { return union(fl.At[in], w.Must[fn]) }
	// whole-struct copies: *p read or written as one value touches every field
	whole := func(ptr ssa.Value, write bool, at ssa.Instruction) {
		if _, isField := ptr.(*ssa.FieldAddr); isField {
			return // a value-typed field: handled as an access of that field below
		}
		if _, ok := ptr.Type().Underlying().(*types.Pointer); !ok {
			return
		}
		tn, st := structOf(ptr.Type())
		if st == nil || tn == "" {
			return
		}
		if isFreshBase(ptr) {
			return
		}
		for i := 0; i < st.NumFields(); i++ {
			fr := FieldRef{Type: tn, Field: st.Field(i).Name()}
			if !tracked(fr) || selfSynchronised(st.Field(i).Type()) {
				continue
			}
			out = append(out, Access{Field: fr, Write: write, Instr: at, Fn: fn, Held: held(at), Base: ptr, Whole: true})
		}
	}
	for _, b := range fn.Blocks {
		for _, in := range b.Instrs {
			switch y := in.(type) {
			case *ssa.UnOp:
				if y.Op == token.MUL {
					whole(y.X, false, in)
				}
			case *ssa.Store:
				whole(y.Addr, true, in)
			}
			fa, ok := in.(*ssa.FieldAddr)
			if !ok {
				continue
			}
			fr, ok := FieldOfAddr(fa)
			if !ok || !tracked(fr) {
				continue
			}
			if isFreshBase(fa.X) {
				continue // construction of a not yet published value
			}
			st, _ := structOf(fa.X.Type())
			_ = st
			ft := fa.Type().(*types.Pointer).Elem()
			if selfSynchronised(ft) {
				continue
			}
			for _, u := range Users(fa) {
				switch y := u.(type) {
				case *ssa.Store:
					if y.Addr == ssa.Value(fa) {
						out = append(out, Access{Field: fr, Write: true, Instr: u, Fn: fn, Held: held(u), Base: fa.X})
					}
				case *ssa.UnOp:
					if y.Op != token.MUL {
						continue
					}
					wrote := false
					// uses of the loaded header that mutate it
					for _, u2 := range Users(y) {
						switch z := u2.(type) {
						case *ssa.MapUpdate:
							if z.Map == ssa.Value(y) {
								out = append(out, Access{Field: fr, Write: true, Instr: u2, Fn: fn, Held: held(u2), Base: fa.X})
								wrote = true
							}
						case *ssa.Call:
							if b, ok := z.Common().Value.(*ssa.Builtin); ok && (b.Name() == "delete" || b.Name() == "clear") && len(z.Common().Args) > 0 && z.Common().Args[0] == ssa.Value(y) {
								out = append(out, Access{Field: fr, Write: true, Instr: u2, Fn: fn, Held: held(u2), Base: fa.X})
								wrote = true
							}
						}
					}
					if !wrote {
						out = append(out, Access{Field: fr, Write: false, Instr: u, Fn: fn, Held: held(u), Base: fa.X})
					}
				case *ssa.FieldAddr, *ssa.IndexAddr:
					// nested access: x.f.g or x.f[i] — a read of f (value-typed nesting)
					out = append(out, Access{Field: fr, Write: false, Instr: u, Fn: fn, Held: held(u), Base: fa.X})
				case ssa.CallInstruction:
					// &x.f passed to a call (method with pointer receiver on a value field, or out-parameter):
					// a write when the callee stores through that parameter
					callee := y.Common().StaticCallee()
					if callee == nil || callee.Blocks == nil {
						continue
					}
					wr := false
					for i, a := range y.Common().Args {
						if a == ssa.Value(fa) && i < len(callee.Params) && storesThrough(callee.Params[i]) {
							wr = true
						}
					}
					if !wr {
						continue // the address is only handed on; the callee's own accesses are not attributed here
					}
					h := held(u)
					// helper that locks a mutex it is given (setProtectedBool(mu, ptr, v)): the store happens under that lock
					for i, prm := range callee.Params {
						if i >= len(y.Common().Args) {
							break
						}
						if mode, locks := locksParam(callee, prm); locks {
							if id := lockIDOf(y.Common().Args[i]); id != "" {
								h = h.clone()
								h[id] = mode || h[id]
							}
						}
					}
					out = append(out, Access{Field: fr, Write: true, Instr: u, Fn: fn, Held: h, Base: fa.X})
				}
			}
		}
	}
	return out
}

// isFreshBase: the struct whose field is addressed was allocated in this
// function (composite literal / new), possibly kept in a local variable.
func isFreshBase(v ssa.Value) bool { return freshBase(v, map[ssa.Value]bool{}) }

func freshBase(v ssa.Value, seen map[ssa.Value]bool) bool {
	if seen[v] {
		return true // cycle through already-visited values adds nothing
	}
	seen[v] = true
	switch x := v.(type) {
	case *ssa.Alloc:
		return true
	case *ssa.FieldAddr:
		return freshBase(x.X, seen)
	case *ssa.UnOp:
		cell, ok := x.X.(*ssa.Alloc)
		if !ok {
			return false
		}
		vals := CellStores(cell)
		if len(vals) == 0 {
			return false
		}
		for _, sv := range vals {
			if c, ok := sv.(*ssa.Const); ok && c.IsNil() {
				continue
			}
			if !freshBase(sv, seen) {
				return false
			}
		}
		return true
	case *ssa.Phi:
		for _, e := range x.Edges {
			if c, ok := e.(*ssa.Const); ok && c.IsNil() {
				continue
			}
			if !freshBase(e, seen) {
				return false
			}
		}
		return true
	}
	return false
}

// storesThrough: the function stores through pointer parameter p (*p = ...).
func storesThrough(p *ssa.Parameter) bool {
	for _, u := range Users(p) {
		if st, ok := u.(*ssa.Store); ok && st.Addr == ssa.Value(p) {
			return true
		}
	}
	return false
}

// Anchored reports whether the object an access goes through is (derived
// from) one of the shared owner objects: a receiver/parameter whose pointee
// type is in owners, a field chain rooted there, a global accepted by
// okGlobal, or a parameter all of whose callers pass such an object.  Objects
// allocated in the function itself and objects of unknown origin are not.
func (w *LockWorld) Anchored(fn *ssa.Function, v ssa.Value, owners map[string]bool, okGlobal func(string, []string) bool, depth int) bool {
	return w.anchored(fn, v, owners, okGlobal, depth, map[ssa.Value]bool{})
}

func (w *LockWorld) anchored(fn *ssa.Function, v ssa.Value, owners map[string]bool, okGlobal func(string, []string) bool, depth int, seen map[ssa.Value]bool) bool {
	var chain []string
	for i := 0; i < 16; i++ {
		if seen[v] {
			return false
		}
		seen[v] = true
		switch x := v.(type) {
		case *ssa.FieldAddr:
			if fr, ok := FieldOfAddr(x); ok {
				chain = append(chain, fr.Field)
			}
			v = x.X
		case *ssa.Field:
			v = x.X
		case *ssa.IndexAddr:
			v = x.X
		case *ssa.UnOp:
			if x.Op != token.MUL {
				return false
			}
			if cell, ok := x.X.(*ssa.Alloc); ok {
				vals := CellStores(cell)
				any := false
				for _, sv := range vals {
					if c, ok := sv.(*ssa.Const); ok && c.IsNil() {
						continue
					}
					if w.anchored(fn, sv, owners, okGlobal, depth, seen) {
						any = true
					}
				}
				return any
			}
			v = x.X
		case *ssa.Phi:
			for _, e := range x.Edges {
				if w.anchored(fn, e, owners, okGlobal, depth, seen) {
					return true
				}
			}
			return false
		case *ssa.Alloc:
			return false
		case *ssa.Global:
			return okGlobal != nil && okGlobal(Strip(x.String()), chain)
		case *ssa.FreeVar:
			if cell := cellOfAddr(x); cell != nil {
				for _, sv := range CellStores(cell) {
					if w.anchored(cell.Parent(), sv, owners, okGlobal, depth, seen) {
						return true
					}
				}
			}
			// captured parameter (by value)
			pf := x.Parent().Parent()
			if pf != nil {
				for _, b := range pf.Blocks {
					for _, in := range b.Instrs {
						if mc, ok := in.(*ssa.MakeClosure); ok && mc.Fn == ssa.Value(x.Parent()) {
							for j, fv := range x.Parent().FreeVars {
								if fv == x && j < len(mc.Bindings) {
									return w.anchored(pf, mc.Bindings[j], owners, okGlobal, depth, seen)
								}
							}
						}
					}
				}
			}
			return false
		case *ssa.Parameter:
			t := x.Type()
			if pt, ok := t.Underlying().(*types.Pointer); ok {
				t = pt.Elem()
			}
			if owners[NamedKey(t)] {
				return true
			}
			if depth <= 0 {
				return false
			}
			pf := x.Parent()
			idx := -1
			for j, pp := range pf.Params {
				if pp == x {
					idx = j
				}
			}
			anyCaller := false
			for _, ce := range w.CallersOf[pf] {
				cc := ce.Site.(ssa.CallInstruction).Common()
				args := cc.Args
				if cc.IsInvoke() {
					// receiver is cc.Value; params of the callee are offset by one
					if idx == 0 {
						if w.anchored(ce.Caller, cc.Value, owners, okGlobal, depth-1, seen) {
							return true
						}
						anyCaller = true
						continue
					}
					if idx-1 < len(args) {
						anyCaller = true
						if w.anchored(ce.Caller, args[idx-1], owners, okGlobal, depth-1, seen) {
							return true
						}
					}
					continue
				}
				if idx < len(args) {
					anyCaller = true
					if w.anchored(ce.Caller, args[idx], owners, okGlobal, depth-1, seen) {
						return true
					}
				}
			}
			_ = anyCaller
			return false
		case *ssa.Call:
			// accessor returning the shared object (e.g. s.proxy())
			return false
		case *ssa.Extract:
			return false
		case *ssa.MakeInterface:
			v = x.X
		case *ssa.ChangeType:
			v = x.X
		default:
			return false
		}
	}
	return false
}

// locksParam: the function calls Lock (write=true) or RLock on parameter p
// and releases it by a deferred or later Unlock.
func locksParam(fn *ssa.Function, p *ssa.Parameter) (write, ok bool) {
	for _, c := range Calls(fn) {
		if len(c.Common.Args) == 0 || c.Common.Args[0] != ssa.Value(p) {
			continue
		}
		if callee := c.Common.StaticCallee(); callee != nil {
			switch callee.String() {
			case "(*sync.Mutex).Lock", "(*sync.RWMutex).Lock":
				return true, true
			case "(*sync.RWMutex).RLock":
				return false, true
			}
		}
	}
	return false, false
}
