package core

import (
	"go/ast"
	"go/constant"
	"go/token"
	"go/types"
	"reflect"
	"strings"

	"golang.org/x/tools/go/packages"
)

// JSONField is one field as encoding/json sees it.
type JSONField struct {
	GoName string
	Key    string
	Type   types.Type
}

// JSONFields lists the keys encoding/json produces for struct type t
// (exported fields, tags, "-", embedded structs flattened).
func JSONFields(t types.Type) (out []JSONField) {
	st, ok := t.Underlying().(*types.Struct)
	if !ok {
		return nil
	}
	for i := 0; i < st.NumFields(); i++ {
		f := st.Field(i)
		tag := reflect.StructTag(st.Tag(i)).Get("json")
		name, _, _ := strings.Cut(tag, ",")
		if tag == "-" {
			continue
		}
		if f.Embedded() && name == "" {
			ft := f.Type()
			if p, ok := ft.Underlying().(*types.Pointer); ok {
				ft = p.Elem()
			}
			if _, isStruct := ft.Underlying().(*types.Struct); isStruct {
				out = append(out, JSONFields(ft)...)
				continue
			}
		}
		if !f.Exported() {
			continue
		}
		if name == "" {
			name = f.Name()
		}
		out = append(out, JSONField{GoName: f.Name(), Key: name, Type: f.Type()})
	}
	return out
}

// JSONKind tells which JSON token kind encoding/json emits for a Go type:
// "string", "bool", "number" or "other" (object, array, null-able).
func JSONKind(t types.Type) string {
	// time.Time and text marshalers
	if n := NamedKey(t); n == "time.Time" {
		return "string"
	}
	if hasMethod(t, "MarshalJSON") {
		return "other"
	}
	if hasMethod(t, "MarshalText") {
		return "string"
	}
	switch u := t.Underlying().(type) {
	case *types.Basic:
		switch {
		case u.Info()&types.IsString != 0:
			return "string"
		case u.Info()&types.IsBoolean != 0:
			return "bool"
		case u.Info()&types.IsNumeric != 0:
			return "number"
		}
	case *types.Slice:
		if b, ok := u.Elem().Underlying().(*types.Basic); ok && b.Kind() == types.Byte {
			return "string"
		}
	}
	return "other"
}

func hasMethod(t types.Type, name string) bool {
	for _, tt := range []types.Type{t, types.NewPointer(t)} {
		ms := types.NewMethodSet(tt)
		for i := 0; i < ms.Len(); i++ {
			if ms.At(i).Obj().Name() == name {
				return true
			}
		}
	}
	return false
}

// StringLitKeys returns the constant string keys of a composite literal.
func StringLitKeys(info *types.Info, lit *ast.CompositeLit) (keys []string, vals []ast.Expr) {
	for _, el := range lit.Elts {
		kv, ok := el.(*ast.KeyValueExpr)
		if !ok {
			continue
		}
		if tv, ok := info.Types[kv.Key]; ok && tv.Value != nil && tv.Value.Kind() == constant.String {
			keys = append(keys, constant.StringVal(tv.Value))
			vals = append(vals, kv.Value)
		}
	}
	return keys, vals
}

// PkgVarLit finds the composite literal initialising package variable name.
func PkgVarLit(pk *packages.Package, name string) *ast.CompositeLit {
	for _, f := range pk.Syntax {
		for _, d := range f.Decls {
			gd, ok := d.(*ast.GenDecl)
			if !ok || gd.Tok != token.VAR {
				continue
			}
			for _, sp := range gd.Specs {
				vs := sp.(*ast.ValueSpec)
				for i, n := range vs.Names {
					if n.Name == name && i < len(vs.Values) {
						if cl, ok := vs.Values[i].(*ast.CompositeLit); ok {
							return cl
						}
					}
				}
			}
		}
	}
	return nil
}

// ComparedStrings returns the string constants an identifier-valued
// expression is compared with (==, switch cases) inside node, for the
// variable object obj.
func ComparedStrings(info *types.Info, node ast.Node, obj types.Object) (out []string) {
	isObj := func(e ast.Expr) bool {
		id, ok := ast.Unparen(e).(*ast.Ident)
		return ok && info.Uses[id] == obj
	}
	constStr := func(e ast.Expr) (string, bool) {
		if tv, ok := info.Types[e]; ok && tv.Value != nil && tv.Value.Kind() == constant.String {
			return constant.StringVal(tv.Value), true
		}
		return "", false
	}
	ast.Inspect(node, func(n ast.Node) bool {
		switch x := n.(type) {
		case *ast.BinaryExpr:
			if x.Op == token.EQL || x.Op == token.NEQ {
				if isObj(x.X) {
					if s, ok := constStr(x.Y); ok {
						out = append(out, s)
					}
				} else if isObj(x.Y) {
					if s, ok := constStr(x.X); ok {
						out = append(out, s)
					}
				}
			}
		case *ast.SwitchStmt:
			if x.Tag != nil && isObj(x.Tag) {
				for _, st := range x.Body.List {
					cc := st.(*ast.CaseClause)
					for _, e := range cc.List {
						if s, ok := constStr(e); ok {
							out = append(out, s)
						}
					}
				}
			}
		}
		return true
	})
	return out
}
