package core

import (
	"fmt"
	"go/token"
	"go/types"
	"sort"
	"strings"

	"golang.org/x/tools/go/ssa"
)

// Origin is one leaf of a backward provenance slice.
type Origin struct {
	Kind string // call | field | const | param | global | alloc | opaque | freevar
	Key  string // callee key, T.F, constant text, parameter description, ...
	Val  ssa.Value
}

func (o Origin) String() string { return o.Kind + ":" + o.Key }

// ProvOpts tunes the slice.
type ProvOpts struct {
	// Transparent lists callee keys whose result derives from their
	// arguments (the slice continues into all arguments).
	Transparent map[string]bool
	// Stop is called on every value before it is expanded; when it returns
	// a non-empty key the value becomes an origin of kind "stop".
	Stop func(v ssa.Value) string
	// InterprocDepth bounds parameter -> argument and call -> return steps.
	InterprocDepth int
	// IntoModuleCalls makes the slice continue into the return values of
	// module functions (in addition to recording the call as an origin).
	IntoModuleCalls bool
	// FieldsThrough makes the slice continue through struct field loads
	// whose base is a local aggregate (Alloc) — stores to the same field
	// of the same alloc are followed.
	Prog *Prog
}

// DefaultTransparent: string/path/byte helpers whose result is made of the
// arguments.
var DefaultTransparent = map[string]bool{
	"path/filepath.Join": true, "path/filepath.Clean": true, "path/filepath.Dir": true, "path/filepath.Base": true,
	"path/filepath.Abs": true, "path/filepath.FromSlash": true, "path/filepath.ToSlash": true, "path/filepath.EvalSymlinks": true,
	"path.Join": true, "path.Clean": true, "path.Dir": true, "path.Base": true,
	"fmt.Sprintf": true, "fmt.Sprint": true, "strings.ToLower": true, "strings.ToUpper": true, "strings.TrimSpace": true,
	"strings.TrimSuffix": true, "strings.TrimPrefix": true, "strings.Trim": true, "strings.TrimRight": true, "strings.TrimLeft": true,
	"strings.Join": true, "strings.Replace": true, "strings.ReplaceAll": true, "strings.Clone": true,
	"strconv.Itoa": true, "strconv.FormatInt": true, "strconv.FormatUint": true, "strconv.Quote": true,
	"encoding/hex.EncodeToString": true, "(*strings.Builder).String": true, "(*bytes.Buffer).String": true, "(*bytes.Buffer).Bytes": true,
	"net/url.PathEscape": true, "net/url.QueryEscape": true, "os.ExpandEnv": true,
	"github.com/AdguardTeam/golibs/stringutil.Coalesce": true,
}

type provWalker struct {
	opts    ProvOpts
	seen    map[ssa.Value]bool
	out     map[string]Origin
	callers map[*ssa.Function][]*ssa.CallCommon
	// newDepth counts the nested new functions (see inventory.go) being looked through
	newDepth int
}

// Origins computes the origin set of v.
func Origins(v ssa.Value, opts ProvOpts) []Origin {
	if opts.Transparent == nil {
		opts.Transparent = DefaultTransparent
	}
	w := &provWalker{opts: opts, seen: map[ssa.Value]bool{}, out: map[string]Origin{}}
	w.walk(v, opts.InterprocDepth)
	var keys []string
	for k := range w.out {
		keys = append(keys, k)
	}
	sort.Strings(keys)
	res := make([]Origin, 0, len(keys))
	for _, k := range keys {
		res = append(res, w.out[k])
	}
	return res
}

// OriginStrings renders origins compactly.
func OriginStrings(os []Origin) []string {
	out := make([]string, len(os))
	for i, o := range os {
		out[i] = o.String()
	}
	return out
}

// HasOrigin reports whether any origin satisfies pred.
func HasOrigin(os []Origin, pred func(Origin) bool) bool {
	for _, o := range os {
		if pred(o) {
			return true
		}
	}
	return false
}

func (w *provWalker) add(kind, key string, v ssa.Value) {
	o := Origin{Kind: kind, Key: key, Val: v}
	w.out[o.String()] = o
}

func (w *provWalker) walk(v ssa.Value, depth int) {
	if v == nil || w.seen[v] {
		return
	}
	w.seen[v] = true
	if w.opts.Stop != nil {
		if k := w.opts.Stop(v); k != "" {
			w.add("stop", k, v)
			return
		}
	}
	switch x := v.(type) {
	case *ssa.Const:
		if x.Value != nil {
			s := x.Value.ExactString()
			if len(s) > 60 {
				s = s[:60] + "…"
			}
			w.add("const", s, v)
		} else {
			w.add("const", "nil", v)
		}
	case *ssa.Phi:
		for _, e := range x.Edges {
			w.walk(e, depth)
		}
	case *ssa.ChangeType:
		w.walk(x.X, depth)
	case *ssa.Convert:
		w.walk(x.X, depth)
	case *ssa.ChangeInterface:
		w.walk(x.X, depth)
	case *ssa.MakeInterface:
		w.walk(x.X, depth)
	case *ssa.TypeAssert:
		w.walk(x.X, depth)
	case *ssa.Slice:
		w.walk(x.X, depth)
	case *ssa.SliceToArrayPointer:
		w.walk(x.X, depth)
	case *ssa.BinOp:
		switch x.Op {
		case token.ADD, token.SUB, token.MUL, token.QUO, token.REM, token.AND, token.OR, token.XOR, token.SHL, token.SHR, token.AND_NOT:
			w.walk(x.X, depth)
			w.walk(x.Y, depth)
		default:
			w.add("opaque", "binop "+x.Op.String(), v)
		}
	case *ssa.Extract:
		w.walkCallResult(x.Tuple, x.Index, depth, v)
	case *ssa.Call:
		w.walkCallResult(x, -1, depth, v)
	case *ssa.UnOp:
		switch x.Op {
		case token.MUL:
			w.walkLoad(x, depth)
		case token.ARROW:
			w.add("opaque", "chan-recv", v)
		default:
			w.walk(x.X, depth)
		}
	case *ssa.Field:
		if fr, ok := FieldOfAddr(x); ok {
			// a field of a struct value that was put together locally: what was stored into that field
			if vals, ok := FieldContents(x.X, x.Field, 0); ok {
				for _, fv := range vals {
					w.walk(fv, depth)
				}
				return
			}
			w.add("field", fr.String(), v)
			// continue into the aggregate when it is a local value
			w.walk(x.X, depth)
		}
	case *ssa.FieldAddr:
		if fr, ok := FieldOfAddr(x); ok {
			w.add("field", fr.String(), v)
		}
	case *ssa.IndexAddr:
		w.walk(x.X, depth)
	case *ssa.Index:
		w.walk(x.X, depth)
	case *ssa.Lookup:
		w.walk(x.X, depth)
	case *ssa.Alloc:
		// the address of a local: collect what is stored into it (and into
		// its elements / fields)
		w.walkAllocContents(x, depth)
	case *ssa.Parameter:
		w.walkParam(x, depth)
	case *ssa.FreeVar:
		if cell := cellOfAddr(x); cell != nil {
			w.walk(cell, depth)
		} else {
			w.add("freevar", x.Name(), v)
		}
	case *ssa.Global:
		w.add("global", Strip(x.String()), v)
	case *ssa.Function:
		w.add("func", FuncKey(x), v)
	case *ssa.MakeClosure:
		if fn, ok := x.Fn.(*ssa.Function); ok {
			w.add("func", FuncKey(fn), v)
		}
	case *ssa.MakeSlice, *ssa.MakeMap, *ssa.MakeChan:
		w.add("alloc", fmt.Sprintf("%T", v), v)
	case *ssa.Next:
		w.walk(x.Iter, depth)
	case *ssa.Range:
		w.walk(x.X, depth)
	default:
		w.add("opaque", fmt.Sprintf("%T", v), v)
	}
}

func (w *provWalker) walkLoad(x *ssa.UnOp, depth int) {
	switch a := x.X.(type) {
	case *ssa.FieldAddr:
		if fr, ok := FieldOfAddr(a); ok {
			// a struct kept in a cell that a function literal captured: field-sensitive contents
			var cell *ssa.Alloc
			switch bx := a.X.(type) {
			case *ssa.FreeVar:
				cell = cellOfAddr(bx)
			case *ssa.Alloc:
				cell = bx
			}
			if cell != nil {
				if vals, ok := cellFieldContents(cell, a.Field, 0); ok {
					for _, fv := range vals {
						w.walk(fv, depth)
					}
					return
				}
			}
			w.add("field", fr.String(), x)
			// local aggregate: follow stores to the same field of the same base
			if base, ok := a.X.(*ssa.Alloc); ok {
				for _, u := range Users(base) {
					if fa, ok := u.(*ssa.FieldAddr); ok && fa.Field == a.Field {
						for _, u2 := range Users(fa) {
							if st, ok := u2.(*ssa.Store); ok && st.Addr == fa {
								w.walk(st.Val, depth)
							}
						}
					}
				}
			}
		}
	case *ssa.Alloc:
		w.walkAllocContents(a, depth)
	case *ssa.FreeVar:
		if cell := cellOfAddr(a); cell != nil {
			w.walkAllocContents(cell, depth)
		} else {
			w.add("freevar", a.Name(), x)
		}
	case *ssa.Global:
		w.add("global", Strip(a.String()), x)
	case *ssa.IndexAddr:
		w.walk(a.X, depth)
	default:
		w.walk(x.X, depth)
	}
}

func (w *provWalker) walkAllocContents(a *ssa.Alloc, depth int) {
	if w.seen[allocMarker{a}.v()] {
		return
	}
	for _, u := range Users(a) {
		switch y := u.(type) {
		case *ssa.Store:
			if y.Addr == a {
				w.walk(y.Val, depth)
			}
		case *ssa.IndexAddr:
			for _, u2 := range Users(y) {
				if st, ok := u2.(*ssa.Store); ok && st.Addr == y {
					w.walk(st.Val, depth)
				}
			}
		case *ssa.FieldAddr:
			for _, u2 := range Users(y) {
				if st, ok := u2.(*ssa.Store); ok && st.Addr == y {
					w.walk(st.Val, depth)
				}
			}
		case *ssa.Slice:
			// a[:] handed to a call that fills it (binary.PutUint64(key[:], v), copy(a[:], src))
			for _, u2 := range Users(y) {
				call, ok := u2.(*ssa.Call)
				if !ok {
					continue
				}
				if b, isB := call.Common().Value.(*ssa.Builtin); isB {
					if b.Name() == "copy" && len(call.Common().Args) == 2 && call.Common().Args[0] == ssa.Value(y) {
						w.walk(call.Common().Args[1], depth)
					}
					continue
				}
				k := CalleeKey(call.Common())
				filled := false
				for i, arg := range call.Common().Args {
					if arg == ssa.Value(y) && i <= 1 {
						filled = true
					}
				}
				if !filled {
					continue
				}
				if strings.Contains(k, "encoding/binary") && strings.Contains(k, ".Put") {
					for _, arg := range call.Common().Args {
						if arg != ssa.Value(y) {
							w.walk(arg, depth)
						}
					}
				}
			}
		case *ssa.Call:
			// the address escapes into a call (e.g. json.Unmarshal(&x),
			// fmt.Fprintf(&builder, ...)): contents depend on the call
			k := CalleeKey(y.Common())
			if w.opts.Transparent[k] || strings.HasPrefix(k, "(*strings.Builder).") || strings.HasPrefix(k, "(*bytes.Buffer).") || k == "fmt.Fprintf" || k == "fmt.Fprint" {
				for _, arg := range y.Common().Args {
					if arg != ssa.Value(a) {
						w.walk(arg, depth)
					}
				}
			} else {
				w.add("call", k, y)
			}
		}
	}
}

type allocMarker struct{ a *ssa.Alloc }

func (m allocMarker) v() ssa.Value { return nil }

func (w *provWalker) walkCallResult(tuple ssa.Value, idx int, depth int, v ssa.Value) {
	call, ok := tuple.(*ssa.Call)
	if !ok {
		if ta, ok := tuple.(*ssa.TypeAssert); ok {
			if idx == 0 {
				w.walk(ta.X, depth)
			}
			return
		}
		if lk, ok := tuple.(*ssa.Lookup); ok {
			if idx == 0 {
				w.walk(lk.X, depth)
			}
			return
		}
		if nx, ok := tuple.(*ssa.Next); ok {
			w.walk(nx.Iter, depth)
			return
		}
		w.add("opaque", fmt.Sprintf("extract of %T", tuple), v)
		return
	}
	if b, ok := call.Common().Value.(*ssa.Builtin); ok {
		switch b.Name() {
		case "append", "min", "max":
			for _, a := range call.Common().Args {
				w.walk(a, depth)
			}
		default:
			w.add("call", "builtin:"+b.Name(), v)
		}
		return
	}
	k := CalleeKey(call.Common())
	if k == "" {
		// dynamic call through a function value
		w.add("call", "dynamic:"+TypeKey(call.Common().Value.Type()), v)
		return
	}
	if w.opts.Transparent[k] {
		for _, a := range call.Common().Args {
			w.walk(a, depth)
		}
		return
	}
	if h := Impl(call.Common().StaticCallee()); Transparent(h) && w.newDepth < 4 {
		// a function the inventory does not list: the value is whatever it returns
		w.newDepth++
		n := 0
		for _, b := range h.Blocks {
			if b == h.Recover || len(b.Instrs) == 0 {
				continue
			}
			if ret, ok := AsReturn(b.Instrs[len(b.Instrs)-1]); ok {
				i := idx
				if i < 0 {
					i = 0
				}
				if i < len(ret.Results) {
					n++
					w.walk(Res(ret, i), depth)
				}
			}
		}
		w.newDepth--
		if n > 0 {
			return
		}
	}
	w.add("call", k, v)
	if w.opts.IntoModuleCalls && depth > 0 {
		if fn := call.Common().StaticCallee(); fn != nil && InModule(fn) && fn.Blocks != nil {
			for _, b := range fn.Blocks {
				for _, in := range b.Instrs {
					if ret, ok := in.(*ssa.Return); ok {
						i := idx
						if i < 0 {
							i = 0
						}
						if i < len(ret.Results) {
							w.walk(ret.Results[i], depth-1)
						}
					}
				}
			}
		}
	}
}

func (w *provWalker) walkParam(x *ssa.Parameter, depth int) {
	fn := x.Parent()
	idx := -1
	for i, p := range fn.Params {
		if p == x {
			idx = i
		}
	}
	desc := fmt.Sprintf("%s#%d(%s)", FuncKey(fn), idx, x.Name())
	if Transparent(fn) && w.opts.Prog != nil && w.newDepth < 4 && idx >= 0 {
		// a parameter of a function the inventory does not list: what its call sites pass
		if sites := w.opts.Prog.StaticCallers(fn); len(sites) > 0 {
			w.newDepth++
			for _, cs := range sites {
				if idx < len(cs.Args) {
					w.walk(cs.Args[idx], depth)
				}
			}
			w.newDepth--
			return
		}
	}
	if depth <= 0 || w.opts.Prog == nil {
		w.add("param", desc, x)
		return
	}
	sites := w.opts.Prog.StaticCallers(fn)
	if len(sites) == 0 {
		w.add("param", desc, x)
		return
	}
	for _, cs := range sites {
		if idx < len(cs.Args) {
			w.walk(cs.Args[idx], depth-1)
		}
	}
}

// StaticCallers returns the call sites in module code that statically call
// fn (including go/defer, and bound-method closures are not followed).
func (p *Prog) StaticCallers(fn *ssa.Function) []*ssa.CallCommon {
	p.callersOnce.Do(func() {
		p.callers = map[*ssa.Function][]*ssa.CallCommon{}
		p.callInstr = map[*ssa.CallCommon]ssa.CallInstruction{}
		for _, f := range append(append([]*ssa.Function{}, p.ModFns...), p.Wrappers()...) {
			for _, b := range f.Blocks {
				for _, in := range b.Instrs {
					if ci, ok := in.(ssa.CallInstruction); ok {
						if callee := ci.Common().StaticCallee(); callee != nil {
							p.callInstr[ci.Common()] = ci
							p.callers[callee] = append(p.callers[callee], ci.Common())
							if o := callee.Origin(); o != nil && o != callee {
								p.callers[o] = append(p.callers[o], ci.Common())
							}
						}
					}
				}
			}
		}
	})
	return p.callers[fn]
}

// CallInstr returns the instruction of a call site returned by StaticCallers.
func (p *Prog) CallInstr(site *ssa.CallCommon) ssa.CallInstruction {
	p.StaticCallers(nil)
	return p.callInstr[site]
}

// FieldContents resolves field #idx of the struct value v to the values that
// were stored into that field, when v was put together locally: a load of a
// local cell (stores to the field's address, or whole-struct stores whose
// value is resolved in turn), a phi of such values, the result of a helper of
// the module that returns such a value.  ok is false when some source of v is
// not resolved, or the struct escapes.
func FieldContents(v ssa.Value, idx int, depth int) (vals []ssa.Value, ok bool) {
	if depth > 4 {
		return nil, false
	}
	switch x := v.(type) {
	case *ssa.Phi:
		for _, e := range x.Edges {
			vs, ok := FieldContents(e, idx, depth+1)
			if !ok {
				return nil, false
			}
			vals = append(vals, vs...)
		}
		return vals, len(vals) > 0
	case *ssa.UnOp:
		if x.Op != token.MUL {
			return nil, false
		}
		switch a := x.X.(type) {
		case *ssa.Alloc:
			return cellFieldContents(a, idx, depth+1)
		case *ssa.FreeVar:
			if cell := cellOfAddr(a); cell != nil {
				return cellFieldContents(cell, idx, depth+1)
			}
		}
	case *ssa.Call:
		h := helperOf(x)
		if h == nil || h.Signature.Results().Len() != 1 {
			return nil, false
		}
		for _, b := range h.Blocks {
			if len(b.Instrs) == 0 || b == h.Recover {
				continue
			}
			if ret, isRet := AsReturn(b.Instrs[len(b.Instrs)-1]); isRet {
				vs, ok := FieldContents(Res(ret, 0), idx, depth+1)
				if !ok {
					return nil, false
				}
				vals = append(vals, vs...)
			}
		}
		return vals, len(vals) > 0
	}
	return nil, false
}

// cellFieldContents: the values stored into field #idx of the struct kept in
// the local cell.
func cellFieldContents(cell *ssa.Alloc, idx int, depth int) (vals []ssa.Value, ok bool) {
	if depth > 4 {
		return nil, false
	}
	if _, isStruct := cell.Type().Underlying().(*types.Pointer).Elem().Underlying().(*types.Struct); !isStruct {
		return nil, false
	}
	var visit func(addr ssa.Value, fn *ssa.Function) bool
	visit = func(addr ssa.Value, fn *ssa.Function) bool {
		refs := addr.Referrers()
		if refs == nil {
			return false
		}
		for _, u := range *refs {
			switch y := u.(type) {
			case *ssa.DebugRef:
			case *ssa.FieldAddr:
				if y.Field != idx {
					continue
				}
				for _, u2 := range Users(y) {
					switch z := u2.(type) {
					case *ssa.Store:
						if z.Addr == ssa.Value(y) {
							vals = append(vals, z.Val)
						}
					case *ssa.UnOp, *ssa.DebugRef:
					default:
						return false // the field's address escapes
					}
				}
			case *ssa.Store:
				if y.Addr != addr {
					return false // the cell's address is stored somewhere
				}
				vs, ok := FieldContents(y.Val, idx, depth+1)
				if !ok {
					return false
				}
				vals = append(vals, vs...)
			case *ssa.UnOp:
			case *ssa.MakeClosure:
				// captured by a function literal: the literal's uses of the free variable
				lit, _ := y.Fn.(*ssa.Function)
				if lit == nil {
					return false
				}
				for i, bnd := range y.Bindings {
					if bnd == addr && i < len(lit.FreeVars) {
						if !visit(lit.FreeVars[i], lit) {
							return false
						}
					}
				}
			default:
				return false
			}
		}
		return true
	}
	if !visit(cell, cell.Parent()) {
		return nil, false
	}
	return vals, len(vals) > 0
}
