package core

import (
	"fmt"
	"go/token"
	"go/types"
	"os"
	"reflect"
	"strings"
	"unsafe"

	"golang.org/x/tools/go/ssa"
)

// Inlining of new functions.
//
// A function the inventory does not list (inventory.go) is, as far as every
// rule is concerned, a piece of its callers that was given a name.  Before any
// analysis runs, static calls of such functions are expanded in place in the
// SSA of their callers: the callee's blocks are copied into the caller with
// the parameters replaced by the arguments, every return becomes a jump to the
// continuation of the call, and the results become phis there.  This is the
// classical inlining transformation; it preserves the semantics of the caller
// exactly, and it gives every path rule, guard rule and value rule the shape
// the code had (or would have had) before the piece was extracted.
//
// Not expanded (the call stays, and the lifting mechanisms of ssautil.go
// apply): deferred and `go` calls, callees with defer / recover / go /
// select statements of their own or without any return, generic and recursive
// callees, and callees deeper than three new functions.
//
// go/ssa offers no API to edit a built function.  Instructions are copied and
// their unexported bookkeeping fields (block, referrers, register number,
// dominator tree) are written through reflect/unsafe; after the expansion the
// referrers of every value of the caller, the block indices and the dominator
// tree are rebuilt from scratch, so what the engines see is self-consistent.
// The verified tree has no new function, so nothing is ever rewritten there.

// InlineStats reports what InlineNew did.
type InlineStats struct {
	Calls    int      // call sites expanded
	Callees  []string // functions expanded at every use (no longer analysed on their own)
	Skipped  []string // new functions left as calls, with the reason
	Rewrites []string // callers rewritten
	Broken   []string // callers whose rewritten form fails the structural sanity check (a checker defect)
}

func setUnexported(obj any, name string, val any) {
	v := reflect.ValueOf(obj).Elem().FieldByName(name)
	if !v.IsValid() {
		panic("inline: no field " + name + " in " + reflect.TypeOf(obj).String())
	}
	w := reflect.NewAt(v.Type(), unsafe.Pointer(v.UnsafeAddr())).Elem()
	if val == nil {
		w.Set(reflect.Zero(v.Type()))
		return
	}
	w.Set(reflect.ValueOf(val))
}

func hasField(obj any, name string) bool {
	return reflect.ValueOf(obj).Elem().FieldByName(name).IsValid()
}

// cloneInstr makes a copy of in whose operand slices are its own.
func cloneInstr(in ssa.Instruction) ssa.Instruction {
	src := reflect.ValueOf(in).Elem()
	nv := reflect.New(src.Type())
	nv.Elem().Set(src)
	var own func(v reflect.Value)
	own = func(v reflect.Value) {
		for i := 0; i < v.NumField(); i++ {
			f := v.Field(i)
			ft := v.Type().Field(i)
			if ft.Name == "referrers" {
				continue
			}
			switch f.Kind() {
			case reflect.Slice:
				if f.IsNil() || !ft.IsExported() {
					continue
				}
				cp := reflect.MakeSlice(f.Type(), f.Len(), f.Len())
				reflect.Copy(cp, f)
				// []*SelectState and the like: own the elements too
				if f.Type().Elem().Kind() == reflect.Ptr && f.Type().Elem().Elem().Kind() == reflect.Struct {
					for j := 0; j < cp.Len(); j++ {
						if !cp.Index(j).IsNil() {
							e := reflect.New(f.Type().Elem().Elem())
							e.Elem().Set(cp.Index(j).Elem())
							cp.Index(j).Set(e)
						}
					}
				}
				f.Set(cp)
			case reflect.Struct:
				if ft.IsExported() && f.CanSet() {
					own(f)
				}
			}
		}
	}
	own(nv.Elem())
	out := nv.Interface().(ssa.Instruction)
	if hasField(out, "referrers") {
		setUnexported(out, "referrers", nil)
	}
	return out
}

func setBlock(in ssa.Instruction, b *ssa.BasicBlock) { setUnexported(in, "block", b) }

func newBlock(fn *ssa.Function, comment string) *ssa.BasicBlock {
	b := &ssa.BasicBlock{Comment: comment}
	setUnexported(b, "parent", fn)
	return b
}

// inlinable reports whether callee can be expanded, with the reason if not.
func inlinable(callee *ssa.Function) (bool, string) {
	if callee == nil || len(callee.Blocks) == 0 {
		return false, "no body"
	}
	if callee.TypeParams().Len() > 0 || len(callee.TypeArgs()) > 0 || callee.Origin() != nil {
		return false, "generic"
	}
	if callee.Recover != nil {
		return false, "has a recover block"
	}
	nRet := 0
	for _, b := range callee.Blocks {
		for _, in := range b.Instrs {
			switch x := in.(type) {
			case *ssa.Defer, *ssa.Go, *ssa.RunDefers, *ssa.Select:
				return false, fmt.Sprintf("contains %T", in)
			case *ssa.Return:
				nRet++
			case ssa.CallInstruction:
				if x.Common().StaticCallee() == callee {
					return false, "recursive"
				}
			}
		}
	}
	if nRet == 0 {
		return false, "never returns"
	}
	if len(callee.FreeVars) > 0 {
		return false, "function literal"
	}
	return true, ""
}

// inlineCall expands the call instruction at fn block b index i.
func inlineCall(fn *ssa.Function, b *ssa.BasicBlock, i int, call *ssa.Call, callee *ssa.Function) (cont *ssa.BasicBlock) {
	vmap := map[ssa.Value]ssa.Value{}
	for k, prm := range callee.Params {
		vmap[prm] = call.Call.Args[k]
	}
	bmap := map[*ssa.BasicBlock]*ssa.BasicBlock{}
	for _, cb := range callee.Blocks {
		bmap[cb] = newBlock(fn, cb.Comment+" (from "+callee.Name()+")") // the comment keeps its prefix: rules read "rangeindex.loop" etc. from it
	}
	// copy instructions
	var clones []ssa.Instruction
	for _, cb := range callee.Blocks {
		nb := bmap[cb]
		for _, in := range cb.Instrs {
			c := cloneInstr(in)
			setBlock(c, nb)
			if v, ok := in.(ssa.Value); ok {
				vmap[v] = c.(ssa.Value)
			}
			nb.Instrs = append(nb.Instrs, c)
			clones = append(clones, c)
			if al, ok := c.(*ssa.Alloc); ok && !al.Heap {
				fn.Locals = append(fn.Locals, al)
			}
			if mc, ok := c.(*ssa.MakeClosure); ok {
				if af, ok := mc.Fn.(*ssa.Function); ok && af.Parent() == callee {
					setUnexported(af, "parent", fn)
					setUnexported(af, "anonIdx", int32(len(fn.AnonFuncs)))
					fn.AnonFuncs = append(fn.AnonFuncs, af)
				}
			}
		}
		for _, s := range cb.Succs {
			nb.Succs = append(nb.Succs, bmap[s])
		}
		for _, pr := range cb.Preds {
			nb.Preds = append(nb.Preds, bmap[pr])
		}
	}
	// rewrite operands
	var rands []*ssa.Value
	for _, c := range clones {
		rands = c.Operands(rands[:0])
		for _, op := range rands {
			if op == nil || *op == nil {
				continue
			}
			if nv, ok := vmap[*op]; ok {
				*op = nv
			}
		}
	}
	// continuation block
	tail := newBlock(fn, "cont."+b.Comment)
	tail.Instrs = append(tail.Instrs, b.Instrs[i+1:]...)
	for _, in := range tail.Instrs {
		setBlock(in, tail)
	}
	tail.Succs = b.Succs
	for _, s := range tail.Succs {
		for k, pr := range s.Preds {
			if pr == b {
				s.Preds[k] = tail
			}
		}
	}
	if fn.Recover == b {
		// cannot happen: the recover block holds no call of a new function we expand (checked by the caller)
	}
	entry := bmap[callee.Blocks[0]]
	jmp := &ssa.Jump{}
	setBlock(jmp, b)
	b.Instrs = append(b.Instrs[:i:i], jmp)
	b.Succs = []*ssa.BasicBlock{entry}
	entry.Preds = append(entry.Preds, b)
	// returns become jumps to the continuation
	nres := callee.Signature.Results().Len()
	results := make([][]ssa.Value, nres)
	for _, cb := range callee.Blocks {
		nb := bmap[cb]
		last := nb.Instrs[len(nb.Instrs)-1]
		ret, ok := last.(*ssa.Return)
		if !ok {
			continue
		}
		for k := 0; k < nres; k++ {
			results[k] = append(results[k], ret.Results[k])
		}
		j := &ssa.Jump{}
		setBlock(j, nb)
		nb.Instrs[len(nb.Instrs)-1] = j
		nb.Succs = []*ssa.BasicBlock{tail}
		tail.Preds = append(tail.Preds, nb)
	}
	// result values
	resVals := make([]ssa.Value, nres)
	var phis []ssa.Instruction
	for k := 0; k < nres; k++ {
		if len(results[k]) == 1 {
			resVals[k] = results[k][0]
			continue
		}
		phi := &ssa.Phi{Edges: results[k], Comment: "inl." + callee.Name()}
		setBlock(phi, tail)
		setUnexported(phi, "typ", callee.Signature.Results().At(k).Type())
		setUnexported(phi, "pos", call.Pos())
		resVals[k] = phi
		phis = append(phis, phi)
	}
	tail.Instrs = append(phis, tail.Instrs...)
	// replace the uses of the call
	replace := func(old, nv ssa.Value) {
		for _, blk := range append(append([]*ssa.BasicBlock{}, fn.Blocks...), append(blocksOf(bmap), tail)...) {
			for _, in := range blk.Instrs {
				rands = in.Operands(rands[:0])
				for _, op := range rands {
					if op != nil && *op == old {
						*op = nv
					}
				}
			}
		}
		for _, af := range fn.AnonFuncs {
			_ = af // free variables are bound through MakeClosure operands, handled above
		}
	}
	switch {
	case nres == 1:
		replace(call, resVals[0])
	case nres > 1:
		// uses are Extract instructions
		allBlocks := append(append([]*ssa.BasicBlock{}, fn.Blocks...), append(blocksOf(bmap), tail)...)
		var exs []*ssa.Extract
		for _, blk := range allBlocks {
			for _, in := range blk.Instrs {
				if ex, ok := in.(*ssa.Extract); ok && ex.Tuple == ssa.Value(call) {
					exs = append(exs, ex)
				}
			}
		}
		for _, ex := range exs {
			replace(ex, resVals[ex.Index])
		}
		for _, blk := range allBlocks {
			kept := make([]ssa.Instruction, 0, len(blk.Instrs))
			for _, in := range blk.Instrs {
				if ex, ok := in.(*ssa.Extract); ok && ex.Tuple == ssa.Value(call) {
					continue
				}
				kept = append(kept, in)
			}
			blk.Instrs = kept
		}
	}
	// splice the new blocks in after b
	var nbs []*ssa.BasicBlock
	for _, cb := range callee.Blocks {
		nbs = append(nbs, bmap[cb])
	}
	nbs = append(nbs, tail)
	pos := 0
	for k, blk := range fn.Blocks {
		if blk == b {
			pos = k + 1
		}
	}
	out := make([]*ssa.BasicBlock, 0, len(fn.Blocks)+len(nbs))
	out = append(out, fn.Blocks[:pos]...)
	out = append(out, nbs...)
	out = append(out, fn.Blocks[pos:]...)
	fn.Blocks = out
	return tail
}

func blocksOf(m map[*ssa.BasicBlock]*ssa.BasicBlock) (out []*ssa.BasicBlock) {
	for _, b := range m {
		out = append(out, b)
	}
	return out
}

// threadTails removes the "phi of the helper's results, then branch on it"
// blocks an expansion leaves behind (`if !helper(x)` with a helper that
// returns false here and a comparison there): the block is duplicated per
// predecessor with the arriving value in place of the phi, so that a constant
// result jumps straight to the successor it selects and a computed result is
// branched on as itself.  This is jump threading; it preserves the paths of the
// function and removes the infeasible ones.
func threadTails(fn *ssa.Function, tails map[*ssa.BasicBlock]bool) {
	// `return helper(x)`: the continuation is nothing but phis and the return of them; every return of the
	// expanded helper becomes a return of the caller with its own values
	for again := true; again; {
		again = false
		for _, t := range fn.Blocks {
			if !tails[t] || len(t.Succs) != 0 || len(t.Preds) < 1 || len(t.Instrs) == 0 {
				continue
			}
			ret, ok := t.Instrs[len(t.Instrs)-1].(*ssa.Return)
			if !ok {
				continue
			}
			phis := map[ssa.Value]*ssa.Phi{}
			onlyPhis := true
			for _, in := range t.Instrs[:len(t.Instrs)-1] {
				ph, isPhi := in.(*ssa.Phi)
				if !isPhi {
					onlyPhis = false
					break
				}
				phis[ph] = ph
			}
			if !onlyPhis {
				continue
			}
			used := false
			for _, b := range fn.Blocks {
				if b == t {
					continue
				}
				for _, in := range b.Instrs {
					var rands []*ssa.Value
					for _, op := range in.Operands(rands) {
						if op != nil && *op != nil && phis[*op] != nil {
							used = true
						}
					}
				}
			}
			dup := false
			for a := range t.Preds {
				if _, isJ := t.Preds[a].Instrs[len(t.Preds[a].Instrs)-1].(*ssa.Jump); !isJ {
					dup = true
				}
				for b := a + 1; b < len(t.Preds); b++ {
					if t.Preds[a] == t.Preds[b] {
						dup = true
					}
				}
			}
			if used || dup {
				continue
			}
			for i, pr := range t.Preds {
				nr := cloneInstr(ret).(*ssa.Return)
				for k, rv := range nr.Results {
					if ph := phis[rv]; ph != nil {
						nr.Results[k] = ph.Edges[i]
					}
				}
				setBlock(nr, pr)
				pr.Instrs[len(pr.Instrs)-1] = nr
				pr.Succs = nil
			}
			var out []*ssa.BasicBlock
			for _, b := range fn.Blocks {
				if b != t {
					out = append(out, b)
				}
			}
			fn.Blocks = out
			delete(tails, t)
			again = true
			break
		}
	}
	for changed := true; changed; {
		changed = false
		for _, t := range fn.Blocks {
			if !tails[t] || len(t.Succs) != 2 || t.Succs[0] == t.Succs[1] || len(t.Preds) < 2 {
				continue
			}
			n := len(t.Instrs)
			iff, ok := t.Instrs[n-1].(*ssa.If)
			if !ok {
				continue
			}
			// shape: phi ; [not phi | phi ==/!= const] ; if
			phi, ok := t.Instrs[0].(*ssa.Phi)
			if !ok || n > 3 {
				continue
			}
			var mid ssa.Instruction
			if n == 3 {
				mid = t.Instrs[1]
			}
			condOf := func(v ssa.Value) (cond ssa.Value, decided, val bool, extra ssa.Instruction) {
				if mid == nil {
					if iff.Cond != ssa.Value(phi) {
						return nil, false, false, nil
					}
					if c, isC := ConstBool(v); isC {
						return nil, true, c, nil
					}
					return v, false, false, nil
				}
				switch m := mid.(type) {
				case *ssa.UnOp:
					if m.Op != token.NOT || m.X != ssa.Value(phi) || iff.Cond != ssa.Value(m) {
						return nil, false, false, nil
					}
					if c, isC := ConstBool(v); isC {
						return nil, true, !c, nil
					}
					cl := cloneInstr(m).(*ssa.UnOp)
					cl.X = v
					return cl, false, false, cl
				case *ssa.BinOp:
					if (m.Op != token.EQL && m.Op != token.NEQ) || m.X != ssa.Value(phi) || iff.Cond != ssa.Value(m) {
						return nil, false, false, nil
					}
					other, isC := m.Y.(*ssa.Const)
					if !isC {
						return nil, false, false, nil
					}
					if vc, isVC := v.(*ssa.Const); isVC {
						eq := (vc.Value == nil && other.Value == nil) || (vc.Value != nil && other.Value != nil && vc.Value.ExactString() == other.Value.ExactString())
						return nil, true, eq == (m.Op == token.EQL), nil
					}
					if other.Value == nil && provablyNonNil(v) {
						return nil, true, m.Op == token.NEQ, nil
					}
					cl := cloneInstr(m).(*ssa.BinOp)
					cl.X = v
					return cl, false, false, cl
				}
				return nil, false, false, nil
			}
			// the phi (and the middle value) must have no use outside this block
			usedElsewhere := false
			for _, b := range fn.Blocks {
				for _, in := range b.Instrs {
					if b == t {
						continue
					}
					var rands []*ssa.Value
					for _, op := range in.Operands(rands) {
						if op != nil && (*op == ssa.Value(phi) || (mid != nil && *op == mid.(ssa.Value))) {
							usedElsewhere = true
						}
					}
				}
			}
			if usedElsewhere {
				continue
			}
			ok = true
			for _, v := range phi.Edges {
				if c, d, _, _ := condOf(v); c == nil && !d {
					ok = false
				}
			}
			// successors with phis get one edge per new predecessor
			if !ok {
				continue
			}
			dupPred := false
			for a := range t.Preds {
				for b := a + 1; b < len(t.Preds); b++ {
					if t.Preds[a] == t.Preds[b] {
						dupPred = true
					}
				}
			}
			if dupPred {
				continue
			}
			slot := map[*ssa.BasicBlock]int{}
			for _, sc := range t.Succs {
				slot[sc] = -1
				for k, pr := range sc.Preds {
					if pr == t {
						slot[sc] = k
					}
				}
			}
			var fresh []*ssa.BasicBlock
			addPred := func(s, np *ssa.BasicBlock, first *bool) {
				j := slot[s]
				if j < 0 {
					return
				}
				if *first {
					// keep the slot of t for the first replacement
					s.Preds[j] = np
					*first = false
					return
				}
				s.Preds = append(s.Preds, np)
				for _, in := range s.Instrs {
					ph, isPhi := in.(*ssa.Phi)
					if !isPhi {
						break
					}
					ph.Edges = append(ph.Edges, ph.Edges[j])
				}
			}
			// remember which slot of each successor t occupies before editing
			first0, first1 := true, true
			for i, pr := range t.Preds {
				cond, decided, val, extra := condOf(phi.Edges[i])
				nb := newBlock(fn, "thr."+t.Comment)
				if extra != nil {
					setBlock(extra, nb)
					nb.Instrs = append(nb.Instrs, extra)
				}
				if decided {
					j := &ssa.Jump{}
					setBlock(j, nb)
					nb.Instrs = append(nb.Instrs, j)
					target := t.Succs[1]
					if val {
						target = t.Succs[0]
					}
					nb.Succs = []*ssa.BasicBlock{target}
				} else {
					ni := &ssa.If{Cond: cond}
					setBlock(ni, nb)
					nb.Instrs = append(nb.Instrs, ni)
					nb.Succs = []*ssa.BasicBlock{t.Succs[0], t.Succs[1]}
				}
				nb.Preds = []*ssa.BasicBlock{pr}
				for k, sc := range pr.Succs {
					if sc == t {
						pr.Succs[k] = nb
					}
				}
				for _, sc := range nb.Succs {
					if sc == t.Succs[0] {
						addPred(sc, nb, &first0)
					} else {
						addPred(sc, nb, &first1)
					}
				}
				fresh = append(fresh, nb)
			}
			// a successor that no new block jumps to loses t as a predecessor
			for si, sc := range t.Succs {
				firstLeft := first0
				if si == 1 {
					firstLeft = first1
				}
				if firstLeft {
					for k, pr := range sc.Preds {
						if pr == t {
							sc.Preds = append(sc.Preds[:k:k], sc.Preds[k+1:]...)
							for _, in := range sc.Instrs {
								ph, isPhi := in.(*ssa.Phi)
								if !isPhi {
									break
								}
								ph.Edges = append(ph.Edges[:k:k], ph.Edges[k+1:]...)
							}
							break
						}
					}
				}
			}
			// replace t by the new blocks
			var out []*ssa.BasicBlock
			for _, b := range fn.Blocks {
				if b == t {
					out = append(out, fresh...)
					continue
				}
				out = append(out, b)
			}
			fn.Blocks = out
			delete(tails, t)
			changed = true
			break
		}
	}
	// blocks that lost all their predecessors (a result that is never produced) are dropped
	for again := true; again; {
		again = false
		for i, b := range fn.Blocks {
			if i == 0 || b == fn.Recover || len(b.Preds) > 0 {
				continue
			}
			for _, sc := range b.Succs {
				for k, pr := range sc.Preds {
					if pr == b {
						sc.Preds = append(sc.Preds[:k:k], sc.Preds[k+1:]...)
						for _, in := range sc.Instrs {
							ph, isPhi := in.(*ssa.Phi)
							if !isPhi {
								break
							}
							ph.Edges = append(ph.Edges[:k:k], ph.Edges[k+1:]...)
						}
						break
					}
				}
			}
			fn.Blocks = append(fn.Blocks[:i:i], fn.Blocks[i+1:]...)
			again = true
			break
		}
	}
}

// sanity checks the structural invariants of an edited function: symmetric
// predecessor/successor lists, one terminator per block (last), phis first with
// one edge per predecessor, every instruction in the block it says it is in,
// every operand defined in this function (or a constant, global, function,
// parameter, free variable), definitions dominating their uses.  It returns the
// violations found.
func sanity(fn *ssa.Function) (errs []string) {
	inFn := map[*ssa.BasicBlock]bool{}
	for i, b := range fn.Blocks {
		inFn[b] = true
		if b.Index != i {
			errs = append(errs, fmt.Sprintf("block %d has index %d", i, b.Index))
		}
		if b.Parent() != fn {
			errs = append(errs, fmt.Sprintf("block %d belongs to %v", i, b.Parent()))
		}
	}
	count := func(l []*ssa.BasicBlock, x *ssa.BasicBlock) (n int) {
		for _, y := range l {
			if y == x {
				n++
			}
		}
		return n
	}
	for _, b := range fn.Blocks {
		for _, s := range b.Succs {
			if !inFn[s] {
				errs = append(errs, fmt.Sprintf("b%d: successor outside the function", b.Index))
			} else if count(s.Preds, b) != count(b.Succs, s) {
				errs = append(errs, fmt.Sprintf("b%d -> b%d: successor/predecessor lists disagree", b.Index, s.Index))
			}
		}
		for _, pr := range b.Preds {
			if !inFn[pr] {
				errs = append(errs, fmt.Sprintf("b%d: predecessor outside the function", b.Index))
			}
		}
		if len(b.Instrs) == 0 {
			errs = append(errs, fmt.Sprintf("b%d is empty", b.Index))
			continue
		}
		phisDone := false
		for i, in := range b.Instrs {
			if in.Block() != b {
				errs = append(errs, fmt.Sprintf("b%d[%d] %T says it is in another block", b.Index, i, in))
			}
			isTerm := false
			switch x := in.(type) {
			case *ssa.Phi:
				if phisDone {
					errs = append(errs, fmt.Sprintf("b%d[%d]: phi after a non-phi", b.Index, i))
				}
				if len(x.Edges) != len(b.Preds) {
					errs = append(errs, fmt.Sprintf("b%d[%d]: phi with %d edges, block with %d predecessors", b.Index, i, len(x.Edges), len(b.Preds)))
				}
			case *ssa.If:
				isTerm = true
				if len(b.Succs) != 2 {
					errs = append(errs, fmt.Sprintf("b%d: if with %d successors", b.Index, len(b.Succs)))
				}
			case *ssa.Jump:
				isTerm = true
				if len(b.Succs) != 1 {
					errs = append(errs, fmt.Sprintf("b%d: jump with %d successors", b.Index, len(b.Succs)))
				}
			case *ssa.Return, *ssa.Panic:
				isTerm = true
				if len(b.Succs) != 0 {
					errs = append(errs, fmt.Sprintf("b%d: return/panic with successors", b.Index))
				}
			default:
				phisDone = true
			}
			if _, isPhi := in.(*ssa.Phi); !isPhi {
				phisDone = true
			}
			if isTerm != (i == len(b.Instrs)-1) {
				errs = append(errs, fmt.Sprintf("b%d[%d]: terminator %T not at the end, or block without terminator", b.Index, i, in))
			}
			var rands []*ssa.Value
			for k, op := range in.Operands(rands) {
				if op == nil || *op == nil {
					continue
				}
				def, isIn := (*op).(ssa.Instruction)
				if !isIn {
					continue
				}
				if def.Parent() != fn {
					errs = append(errs, fmt.Sprintf("b%d[%d] %T: operand %d is defined in %v", b.Index, i, in, k, def.Parent()))
					continue
				}
				if !inFn[def.Block()] {
					errs = append(errs, fmt.Sprintf("b%d[%d] %T: operand %d is defined in a removed block", b.Index, i, in, k))
					continue
				}
				if fn.Recover != nil && (b == fn.Recover || fn.Recover.Dominates(b)) {
					continue // the recover block is a second root: it reads the result cells allocated at entry
				}
				if phi, isPhi := in.(*ssa.Phi); isPhi {
					// the definition must dominate the predecessor the edge comes from
					if k < len(b.Preds) && !def.Block().Dominates(b.Preds[k]) {
						errs = append(errs, fmt.Sprintf("b%d[%d] phi %s: edge %d not dominated by its definition", b.Index, i, phi.Name(), k))
					}
				} else if !def.Block().Dominates(b) {
					errs = append(errs, fmt.Sprintf("b%d[%d] %T: operand %d (%s, b%d) does not dominate its use", b.Index, i, in, k, (*op).Name(), def.Block().Index))
				}
			}
		}
	}
	return errs
}

// mergeChains joins a block that ends in a jump with its successor when that
// successor has no other predecessor (and hence no phi): the expansion of a
// straight-line helper then leaves the caller's block structure as it was.
func mergeChains(fn *ssa.Function) {
	for changed := true; changed; {
		changed = false
		for _, x := range fn.Blocks {
			if len(x.Succs) != 1 || len(x.Instrs) == 0 {
				continue
			}
			y := x.Succs[0]
			if y == x || len(y.Preds) != 1 || y == fn.Blocks[0] || y == fn.Recover || x == fn.Recover {
				continue
			}
			if _, isJump := x.Instrs[len(x.Instrs)-1].(*ssa.Jump); !isJump {
				continue
			}
			if len(y.Instrs) > 0 {
				if _, isPhi := y.Instrs[0].(*ssa.Phi); isPhi {
					continue
				}
			}
			x.Instrs = append(x.Instrs[:len(x.Instrs)-1:len(x.Instrs)-1], y.Instrs...)
			for _, in := range y.Instrs {
				setBlock(in, x)
			}
			x.Succs = y.Succs
			for _, s := range x.Succs {
				for k, pr := range s.Preds {
					if pr == y {
						s.Preds[k] = x
					}
				}
			}
			var out []*ssa.BasicBlock
			for _, b := range fn.Blocks {
				if b != y {
					out = append(out, b)
				}
			}
			fn.Blocks = out
			changed = true
			break
		}
	}
}

// refinish rebuilds the derived data of fn after its blocks were edited.
func refinish(fn *ssa.Function) {
	mergeChains(fn)
	for i, b := range fn.Blocks {
		b.Index = i
	}
	// referrers
	for _, p := range fn.Params {
		setUnexported(p, "referrers", nil)
	}
	for _, fv := range fn.FreeVars {
		setUnexported(fv, "referrers", nil)
	}
	num := 0
	for _, b := range fn.Blocks {
		for _, in := range b.Instrs {
			if _, isVal := in.(ssa.Value); isVal && hasField(in, "referrers") {
				setUnexported(in, "referrers", nil)
				setUnexported(in, "num", num)
				num++
			}
		}
	}
	var rands []*ssa.Value
	for _, b := range fn.Blocks {
		for _, in := range b.Instrs {
			rands = in.Operands(rands[:0])
			for _, op := range rands {
				if op == nil || *op == nil {
					continue
				}
				v := *op
				switch v.(type) {
				case *ssa.Const, *ssa.Global, *ssa.Function, *ssa.Builtin:
					continue
				}
				if refs := v.Referrers(); refs != nil {
					*refs = append(*refs, in)
				}
			}
		}
	}
	buildDom(fn)
}

// buildDom recomputes the dominator tree of fn (iterative algorithm of Cooper,
// Harvey and Kennedy) and writes it into the blocks.
func buildDom(fn *ssa.Function) {
	n := len(fn.Blocks)
	roots := []*ssa.BasicBlock{fn.Blocks[0]}
	if fn.Recover != nil {
		roots = append(roots, fn.Recover)
	}
	// reverse postorder from the roots
	seen := make([]bool, n)
	var post []*ssa.BasicBlock
	var dfs func(b *ssa.BasicBlock)
	dfs = func(b *ssa.BasicBlock) {
		seen[b.Index] = true
		for _, s := range b.Succs {
			if !seen[s.Index] {
				dfs(s)
			}
		}
		post = append(post, b)
	}
	for _, r := range roots {
		if !seen[r.Index] {
			dfs(r)
		}
	}
	order := make([]int, n) // postorder number
	for i := range order {
		order[i] = -1
	}
	for i, b := range post {
		order[b.Index] = i
	}
	idom := make([]*ssa.BasicBlock, n)
	isRoot := map[*ssa.BasicBlock]bool{}
	for _, r := range roots {
		idom[r.Index] = r
		isRoot[r] = true
	}
	intersect := func(a, b *ssa.BasicBlock) *ssa.BasicBlock {
		for a != b {
			for order[a.Index] < order[b.Index] {
				if idom[a.Index] == a {
					return nil
				}
				a = idom[a.Index]
			}
			for order[b.Index] < order[a.Index] {
				if idom[b.Index] == b {
					return nil
				}
				b = idom[b.Index]
			}
		}
		return a
	}
	for changed := true; changed; {
		changed = false
		for i := len(post) - 1; i >= 0; i-- {
			b := post[i]
			if isRoot[b] {
				continue
			}
			var nd *ssa.BasicBlock
			for _, p := range b.Preds {
				if order[p.Index] < 0 || idom[p.Index] == nil {
					continue
				}
				if nd == nil {
					nd = p
				} else if x := intersect(p, nd); x != nil {
					nd = x
				}
			}
			if nd != nil && idom[b.Index] != nd {
				idom[b.Index] = nd
				changed = true
			}
		}
	}
	children := make([][]*ssa.BasicBlock, n)
	for _, b := range fn.Blocks {
		d := idom[b.Index]
		if isRoot[b] || d == nil {
			d = nil
		} else {
			children[d.Index] = append(children[d.Index], b)
		}
	}
	type domInfo struct {
		idom      *ssa.BasicBlock
		children  []*ssa.BasicBlock
		pre, post int32
	}
	infos := make([]domInfo, n)
	for _, b := range fn.Blocks {
		if !isRoot[b] {
			infos[b.Index].idom = idom[b.Index]
		}
		infos[b.Index].children = children[b.Index]
	}
	var pre, pst int32
	var number func(b *ssa.BasicBlock)
	number = func(b *ssa.BasicBlock) {
		infos[b.Index].pre = pre
		pre++
		for _, c := range children[b.Index] {
			number(c)
		}
		infos[b.Index].post = pst
		pst++
	}
	for _, r := range roots {
		number(r)
	}
	for _, b := range fn.Blocks {
		f := reflect.ValueOf(b).Elem().FieldByName("dom")
		w := reflect.NewAt(f.Type(), unsafe.Pointer(f.UnsafeAddr())).Elem()
		di := infos[b.Index]
		set := func(name string, val any) {
			ff := w.FieldByName(name)
			reflect.NewAt(ff.Type(), unsafe.Pointer(ff.UnsafeAddr())).Elem().Set(reflect.ValueOf(val))
		}
		if di.idom != nil {
			set("idom", di.idom)
		} else {
			ff := w.FieldByName("idom")
			reflect.NewAt(ff.Type(), unsafe.Pointer(ff.UnsafeAddr())).Elem().Set(reflect.Zero(ff.Type()))
		}
		if di.children != nil {
			set("children", di.children)
		} else {
			ff := w.FieldByName("children")
			reflect.NewAt(ff.Type(), unsafe.Pointer(ff.UnsafeAddr())).Elem().Set(reflect.Zero(ff.Type()))
		}
		set("pre", di.pre)
		set("post", di.post)
	}
}

// InlineNew expands the static calls of new functions in all functions of
// fns (and their function literals).  It returns the new functions that no
// longer have any remaining use and can be dropped from the analysis.
func InlineNew(fns []*ssa.Function) (st InlineStats, gone map[*ssa.Function]bool) {
	gone = map[*ssa.Function]bool{}
	if os.Getenv("AGHVERIF_NOINLINE") != "" {
		return st, gone
	}
	reason := map[*ssa.Function]string{}
	can := func(h *ssa.Function) bool {
		if !Transparent(h) || h.Parent() != nil {
			return false
		}
		if r, ok := reason[h]; ok {
			return r == ""
		}
		ok, why := inlinable(h)
		if !ok {
			reason[h] = why
			st.Skipped = append(st.Skipped, FuncKey(h)+": "+why)
			return false
		}
		reason[h] = ""
		return true
	}
	var all []*ssa.Function
	var addAll func(f *ssa.Function)
	addAll = func(f *ssa.Function) {
		all = append(all, f)
		for _, a := range f.AnonFuncs {
			addAll(a)
		}
	}
	for _, f := range fns {
		if f.Parent() == nil {
			addAll(f)
		}
	}
	remaining := map[*ssa.Function]int{} // uses that were not expanded
	expanded := map[*ssa.Function]int{}
	// The pointer-receiver (or promotion) wrapper the compiler makes for a new method is glue, not a caller: the
	// method is not expanded into it, and it keeps the method alive only if the method could be reached through
	// an interface of the module (some interface declares a method of that name).
	ifaceMethods := map[string]bool{}
	seenPkg := map[*ssa.Package]bool{}
	for _, f := range fns {
		if f.Pkg == nil || seenPkg[f.Pkg] {
			continue
		}
		seenPkg[f.Pkg] = true
		sc := f.Pkg.Pkg.Scope()
		for _, n := range sc.Names() {
			tn, ok := sc.Lookup(n).(*types.TypeName)
			if !ok {
				continue
			}
			if it, ok := tn.Type().Underlying().(*types.Interface); ok {
				for i := 0; i < it.NumMethods(); i++ {
					ifaceMethods[it.Method(i).Name()] = true
				}
			}
		}
	}
	glueOf := map[*ssa.Function][]*ssa.Function{}
	isGlue := func(f *ssa.Function) *ssa.Function {
		if !strings.HasPrefix(f.Synthetic, "wrapper for") || f.Object() == nil {
			return nil
		}
		tf, ok := f.Object().(*types.Func)
		if !ok || f.Prog == nil {
			return nil
		}
		m := f.Prog.FuncValue(tf)
		if m == nil || m == f || !IsNew(m) || ifaceMethods[tf.Name()] {
			return nil
		}
		return m
	}
	for _, f := range all {
		if len(f.Blocks) == 0 {
			continue
		}
		if m := isGlue(f); m != nil {
			glueOf[m] = append(glueOf[m], f)
			continue
		}
		changed := false
		tails := map[*ssa.BasicBlock]bool{}
		for n := 0; n < 200; n++ {
			did := false
		scan:
			for _, b := range f.Blocks {
				if b == f.Recover {
					continue
				}
				for i, in := range b.Instrs {
					call, ok := in.(*ssa.Call)
					if !ok {
						continue
					}
					h := call.Call.StaticCallee()
					if h == nil || h == f || rootOf(f) == h || !can(h) {
						continue
					}
					func() {
						defer func() {
							if r := recover(); r != nil {
								reason[h] = fmt.Sprint("expansion failed: ", r)
								st.Skipped = append(st.Skipped, FuncKey(h)+": "+reason[h])
							}
						}()
						tails[inlineCall(f, b, i, call, h)] = true
						st.Calls++
						expanded[h]++
						did, changed = true, true
					}()
					if did {
						break scan
					}
				}
			}
			if !did {
				break
			}
		}
		if changed {
			for i, b := range f.Blocks {
				b.Index = i
			}
			if os.Getenv("AGHVERIF_NOTHREAD") == "" {
				threadTails(f, tails)
			}
			refinish(f)
			st.Rewrites = append(st.Rewrites, FuncKey(f))
			if errs := sanity(f); len(errs) > 0 {
				if len(errs) > 5 {
					errs = errs[:5]
				}
				st.Broken = append(st.Broken, fmt.Sprintf("%s: %v", FuncKey(f), errs))
			}
		}
	}
	// which new functions still have a use?
	for _, f := range all {
		if isGlue(f) != nil {
			continue
		}
		for _, b := range f.Blocks {
			for _, in := range b.Instrs {
				var rands []*ssa.Value
				for _, op := range in.Operands(rands) {
					if op == nil || *op == nil {
						continue
					}
					if g, ok := (*op).(*ssa.Function); ok && IsNew(g) && g.Parent() == nil && rootOf(f) != g {
						remaining[g]++
					}
				}
			}
		}
	}
	for h, n := range expanded {
		if n > 0 && remaining[h] == 0 && h.Object() != nil {
			gone[h] = true
			for _, w := range glueOf[h] {
				gone[w] = true
			}
			st.Callees = append(st.Callees, FuncKey(h))
		}
	}
	_ = types.Typ
	return st, gone
}
