package core

import (
	"go/types"

	"golang.org/x/tools/go/ssa"
)

// FlattenPhi returns the non-phi leaves of v, looking through phis,
// ChangeType, ChangeInterface and MakeInterface.
func FlattenPhi(v ssa.Value) []ssa.Value {
	var out []ssa.Value
	seen := map[ssa.Value]bool{}
	var walk func(ssa.Value)
	walk = func(x ssa.Value) {
		if seen[x] {
			return
		}
		seen[x] = true
		switch t := x.(type) {
		case *ssa.Phi:
			for _, e := range t.Edges {
				walk(e)
			}
		case *ssa.ChangeType:
			walk(t.X)
		case *ssa.ChangeInterface:
			walk(t.X)
		case *ssa.MakeInterface:
			walk(t.X)
		default:
			out = append(out, x)
		}
	}
	walk(v)
	return out
}

// IsCallResult reports whether v is result #idx (or the only result when
// idx < 0) of a call to one of keys.
func IsCallResult(v ssa.Value, idx int, keys ...string) bool {
	c, i, ok := CallResult(v)
	if !ok {
		return false
	}
	if idx >= 0 && i != idx && !(i == -1 && idx == 0) {
		return false
	}
	k := CalleeKey(c.Common())
	for _, want := range keys {
		if k == want {
			return true
		}
	}
	return false
}

// TypeKey renders a type with module prefixes stripped.
func TypeKey(t types.Type) string { return Strip(types.TypeString(t, nil)) }

// NamedKey returns the stripped name of a named type (through aliases), or "".
func NamedKey(t types.Type) string {
	t = types.Unalias(t)
	if n, ok := t.(*types.Named); ok {
		return Strip(types.TypeString(n, nil))
	}
	return ""
}

// FnValue resolves a function-typed SSA value to the function it denotes:
// *ssa.Function, MakeClosure (incl. bound methods), through ChangeType and
// MakeInterface.  bound receives the bound values of a closure.
func FnValue(v ssa.Value) (fn *ssa.Function, bound []ssa.Value) {
	for {
		switch x := v.(type) {
		case *ssa.Function:
			return x, nil
		case *ssa.MakeClosure:
			f, _ := x.Fn.(*ssa.Function)
			return f, x.Bindings
		case *ssa.ChangeType:
			v = x.X
		case *ssa.MakeInterface:
			v = x.X
		case *ssa.ChangeInterface:
			v = x.X
		default:
			return nil, nil
		}
	}
}

// FreeVarOf returns the free variable v denotes: the FreeVar itself or a
// load through a by-reference capture.
func FreeVarOf(v ssa.Value) *ssa.FreeVar {
	switch x := v.(type) {
	case *ssa.FreeVar:
		return x
	case *ssa.UnOp:
		if fv, ok := x.X.(*ssa.FreeVar); ok {
			return fv
		}
	}
	return nil
}

// FreeVarElem returns the type of the captured variable (dereferencing
// by-reference captures).
func FreeVarElem(fv *ssa.FreeVar) types.Type {
	if p, ok := fv.Type().(*types.Pointer); ok {
		return p.Elem()
	}
	return fv.Type()
}

// CellOf returns the local cell (Alloc) a loaded value comes from, resolving
// by-reference captures to the Alloc of the enclosing function.
func CellOf(v ssa.Value) *ssa.Alloc {
	u, ok := v.(*ssa.UnOp)
	if !ok {
		return nil
	}
	return cellOfAddr(u.X)
}

func cellOfAddr(addr ssa.Value) *ssa.Alloc {
	switch a := addr.(type) {
	case *ssa.Alloc:
		return a
	case *ssa.FreeVar:
		fn := a.Parent()
		parent := fn.Parent()
		if parent == nil {
			return nil
		}
		idx := -1
		for i, fv := range fn.FreeVars {
			if fv == a {
				idx = i
			}
		}
		if idx < 0 {
			return nil
		}
		for _, b := range parent.Blocks {
			for _, in := range b.Instrs {
				mc, ok := in.(*ssa.MakeClosure)
				if !ok || mc.Fn != fn || idx >= len(mc.Bindings) {
					continue
				}
				return cellOfAddr(mc.Bindings[idx])
			}
		}
	}
	return nil
}

// CellStores returns the values stored into a local cell anywhere in its
// function and nested closures.
func CellStores(a *ssa.Alloc) (vals []ssa.Value) {
	for _, u := range Users(a) {
		if st, ok := u.(*ssa.Store); ok && st.Addr == a {
			vals = append(vals, st.Val)
		}
	}
	return vals
}
