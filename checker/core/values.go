package core

import (
	"fmt"
	"go/token"
	"go/types"

	"golang.org/x/tools/go/ssa"
)

// FlattenPhi returns the non-phi leaves of v, looking through phis,
// ChangeType, ChangeInterface and MakeInterface.
func FlattenPhi(v ssa.Value) []ssa.Value {
	var out []ssa.Value
	seen := map[ssa.Value]bool{}
	var walk func(ssa.Value)
	walk = func(x ssa.Value) {
		if seen[x] {
			return
		}
		seen[x] = true
		switch t := x.(type) {
		case *ssa.Phi:
			for _, e := range t.Edges {
				walk(e)
			}
		case *ssa.ChangeType:
			walk(t.X)
		case *ssa.ChangeInterface:
			walk(t.X)
		case *ssa.MakeInterface:
			walk(t.X)
		case *ssa.UnOp:
			// a load of a local cell (a named result or variable spilled because the function has a defer or
			// a closure): the stores that reach the load, like the edges of the phi it would have been
			if cell, ok := t.X.(*ssa.Alloc); ok && t.Op == token.MUL {
				vals, zero, clob := ReachingStores(cell, t)
				if !clob && (len(vals) > 0 || zero) {
					for _, sv := range vals {
						walk(sv)
					}
					if zero {
						out = append(out, ssa.NewConst(nil, t.Type()))
					}
					return
				}
			}
			out = append(out, x)
		default:
			out = append(out, x)
		}
	}
	walk(v)
	return out
}

// Leaves is FlattenPhi across the frames of helpers: the result of a static
// call of an unexported function of the module stands for the values that
// function returns, and a parameter of such a function for the values its
// static call sites pass (every site: the resolution is context-insensitive,
// which can only add leaves).  The leaves can therefore belong to different
// functions.  Exported functions, functions without a body or with unknown
// callers, and recursion stop the resolution at the call or parameter.
func Leaves(v ssa.Value) []ssa.Value {
	var out []ssa.Value
	seen := map[ssa.Value]bool{}
	var walk func(x ssa.Value, d int)
	walk = func(x ssa.Value, d int) {
		for _, l := range FlattenPhi(x) {
			if seen[l] {
				continue
			}
			seen[l] = true
			if d >= 4 {
				out = append(out, l)
				continue
			}
			switch y := l.(type) {
			case *ssa.Parameter:
				if args := ArgsOfParam(y); len(args) > 0 {
					for _, a := range args {
						walk(a, d+1)
					}
					continue
				}
			case *ssa.Call, *ssa.Extract:
				call, idx, ok := CallResult(l)
				if _, isTuple := l.Type().(*types.Tuple); isTuple {
					ok = false
				}
				if ok {
					if h := helperOf(call); h != nil {
						if idx < 0 {
							idx = 0
						}
						n := 0
						for _, b := range h.Blocks {
							if len(b.Instrs) == 0 || b == h.Recover {
								continue
							}
							if ret, isRet := AsReturn(b.Instrs[len(b.Instrs)-1]); isRet && idx < len(ret.Results) {
								n++
								walk(Res(ret, idx), d+1)
							}
						}
						if n > 0 {
							continue
						}
					}
				}
			}
			out = append(out, l)
		}
	}
	walk(v, 0)
	return out
}

// helperOf returns the unexported module function with a body that call
// invokes statically (a tuple-valued call included), or nil.
func helperOf(call *ssa.Call) *ssa.Function {
	h := Impl(call.Common().StaticCallee())
	if h == nil || len(h.Blocks) == 0 || !InModule(h) || h.Object() == nil || (h.Object().Exported() && !Transparent(h)) {
		return nil
	}
	if _, isTuple := call.Type().(*types.Tuple); isTuple && call.Common().IsInvoke() {
		return nil
	}
	return h
}

// IsCallResult reports whether v is result #idx (or the only result when
// idx < 0) of a call to one of keys.
func IsCallResult(v ssa.Value, idx int, keys ...string) bool {
	c, i, ok := CallResult(v)
	if !ok {
		return false
	}
	if idx >= 0 && i != idx && !(i == -1 && idx == 0) {
		return false
	}
	set := map[string]bool{}
	for _, want := range keys {
		set[want] = true
	}
	return calleeIn(c.Common(), set)
}

// TypeKey renders a type with module prefixes stripped.
func TypeKey(t types.Type) string { return Strip(types.TypeString(t, nil)) }

// NamedKey returns the stripped name of a named type (through aliases), or "".
func NamedKey(t types.Type) string {
	t = types.Unalias(t)
	if n, ok := t.(*types.Named); ok {
		return Strip(types.TypeString(n, nil))
	}
	return ""
}

// FnValue resolves a function-typed SSA value to the function it denotes:
// *ssa.Function, MakeClosure (incl. bound methods), through ChangeType and
// MakeInterface.  bound receives the bound values of a closure.
func FnValue(v ssa.Value) (fn *ssa.Function, bound []ssa.Value) {
	for {
		switch x := v.(type) {
		case *ssa.Function:
			return x, nil
		case *ssa.MakeClosure:
			f, _ := x.Fn.(*ssa.Function)
			return f, x.Bindings
		case *ssa.ChangeType:
			v = x.X
		case *ssa.MakeInterface:
			v = x.X
		case *ssa.ChangeInterface:
			v = x.X
		default:
			return nil, nil
		}
	}
}

// FreeVarOf returns the free variable v denotes: the FreeVar itself or a
// load through a by-reference capture.
func FreeVarOf(v ssa.Value) *ssa.FreeVar {
	switch x := v.(type) {
	case *ssa.FreeVar:
		return x
	case *ssa.UnOp:
		if fv, ok := x.X.(*ssa.FreeVar); ok {
			return fv
		}
	}
	return nil
}

// FreeVarElem returns the type of the captured variable (dereferencing
// by-reference captures).
func FreeVarElem(fv *ssa.FreeVar) types.Type {
	if p, ok := fv.Type().(*types.Pointer); ok {
		return p.Elem()
	}
	return fv.Type()
}

// CellOf returns the local cell (Alloc) a loaded value comes from, resolving
// by-reference captures to the Alloc of the enclosing function.
func CellOf(v ssa.Value) *ssa.Alloc {
	u, ok := v.(*ssa.UnOp)
	if !ok {
		return nil
	}
	return cellOfAddr(u.X)
}

func cellOfAddr(addr ssa.Value) *ssa.Alloc {
	switch a := addr.(type) {
	case *ssa.Alloc:
		return a
	case *ssa.FreeVar:
		fn := a.Parent()
		parent := fn.Parent()
		if parent == nil {
			return nil
		}
		idx := -1
		for i, fv := range fn.FreeVars {
			if fv == a {
				idx = i
			}
		}
		if idx < 0 {
			return nil
		}
		for _, b := range parent.Blocks {
			for _, in := range b.Instrs {
				mc, ok := in.(*ssa.MakeClosure)
				if !ok || mc.Fn != fn || idx >= len(mc.Bindings) {
					continue
				}
				return cellOfAddr(mc.Bindings[idx])
			}
		}
	}
	return nil
}

// CellStores returns the values stored into a local cell anywhere in its
// function and nested closures.
func CellStores(a *ssa.Alloc) (vals []ssa.Value) {
	for _, u := range Users(a) {
		if st, ok := u.(*ssa.Store); ok && st.Addr == a {
			vals = append(vals, st.Val)
		}
	}
	return vals
}

// ReachingStores returns the values that may be in local cell `cell` when
// instruction `at` executes: the stores that reach it without an
// intervening store.  zero is true when the cell may still hold its zero
// value; clobbered is true when an event that can modify the cell through
// an alias (RunDefers with a capturing deferred closure, a call that
// receives the cell's address or a closure capturing it) lies on a path.
func ReachingStores(cell *ssa.Alloc, at ssa.Instruction) (vals []ssa.Value, zero, clobbered bool) {
	captured := false
	for _, u := range Users(cell) {
		if _, ok := u.(*ssa.MakeClosure); ok {
			captured = true
		}
	}
	type pos struct {
		b *ssa.BasicBlock
		i int // scan instructions [0, i) backwards
	}
	start := PointOf(at)
	work := []pos{{start.Block, start.Idx}}
	seen := map[*ssa.BasicBlock]bool{}
	seenVal := map[ssa.Value]bool{}
	for len(work) > 0 {
		p := work[len(work)-1]
		work = work[:len(work)-1]
		stopped := false
		for i := p.i - 1; i >= 0 && !stopped; i-- {
			switch x := p.b.Instrs[i].(type) {
			case *ssa.Store:
				if x.Addr == ssa.Value(cell) {
					if !seenVal[x.Val] {
						seenVal[x.Val] = true
						vals = append(vals, x.Val)
					}
					stopped = true
				}
			case *ssa.Alloc:
				if x == cell {
					zero = true
					stopped = true
				}
			case *ssa.RunDefers:
				if captured {
					clobbered = true
					stopped = true
				}
			case ssa.CallInstruction:
				if _, isDefer := x.(*ssa.Defer); isDefer {
					continue
				}
				cc := x.Common()
				for _, a := range cc.Args {
					if a == ssa.Value(cell) {
						clobbered = true
						stopped = true
					}
				}
				if mc, ok := cc.Value.(*ssa.MakeClosure); ok {
					for _, b := range mc.Bindings {
						if b == ssa.Value(cell) {
							clobbered = true
							stopped = true
						}
					}
				}
			}
		}
		if stopped {
			continue
		}
		if len(p.b.Preds) == 0 {
			zero = true
			continue
		}
		for _, pr := range p.b.Preds {
			if !seen[pr] {
				seen[pr] = true
				work = append(work, pos{pr, len(pr.Instrs)})
			}
		}
	}
	return vals, zero, clobbered
}

// ResolveCellLoad resolves a load of a local cell to the unique value stored
// into it on every path, or returns v unchanged.
func ResolveCellLoad(v ssa.Value) ssa.Value {
	for i := 0; i < 4; i++ {
		u, ok := v.(*ssa.UnOp)
		if !ok {
			return v
		}
		cell, ok := u.X.(*ssa.Alloc)
		if !ok {
			// a variable captured by a function literal and assigned exactly once (a parameter, typically):
			// inside the literal it is that one value
			if fv, isFV := u.X.(*ssa.FreeVar); isFV && u.Op == token.MUL {
				if c := cellOfAddr(fv); c != nil {
					if st := CellStores(c); len(st) == 1 {
						if _, isParam := st[0].(*ssa.Parameter); isParam {
							v = st[0]
							continue
						}
						// ... or a local computed once before the literal was made
						if storedBeforeClosures(c) {
							v = st[0]
							continue
						}
					}
				}
			}
			return v
		}
		vals, zero, clob := ReachingStores(cell, u)
		if zero || clob || len(vals) != 1 {
			return v
		}
		v = vals[0]
	}
	return v
}

// Res returns result i of a return instruction, looking through a named
// result that was spilled to a local cell (functions with a defer store the
// results, run the defers and load them back): when exactly one store reaches
// the load that value is returned, otherwise the load itself.
func Res(ret *ssa.Return, i int) ssa.Value {
	if i < 0 || i >= len(ret.Results) {
		return nil
	}
	return ResolveCellLoad(ret.Results[i])
}

// AsReturn is in.(*ssa.Return) for the returns a caller can observe: the
// return in the function's recover block (present as soon as the function has
// a defer; it only re-loads the named results after a recovered panic) is not
// one of them.
func AsReturn(in ssa.Instruction) (*ssa.Return, bool) {
	ret, ok := in.(*ssa.Return)
	if !ok {
		return nil, false
	}
	if fn := ret.Parent(); fn != nil && fn.Recover != nil && ret.Block() == fn.Recover {
		return nil, false
	}
	return ret, true
}

// SameValue reports whether two SSA values denote the same runtime value:
// they are identical, or they are loads of local cells that resolve to the
// same single stored value (variables of a function with a defer or closure
// live in cells and every use is a fresh load).
func SameValue(a, b ssa.Value) bool {
	if a == b {
		return true
	}
	ra, rb := ResolveCellLoad(ResolveLocalLoad(a)), ResolveCellLoad(ResolveLocalLoad(b))
	if ra == rb {
		return true
	}
	// two loads of the same cell reached by the same set of stores
	la, oka := a.(*ssa.UnOp)
	lb, okb := b.(*ssa.UnOp)
	if oka && okb {
		ca, _ := la.X.(*ssa.Alloc)
		cb, _ := lb.X.(*ssa.Alloc)
		if ca != nil && ca == cb {
			va, za, xa := ReachingStores(ca, la)
			vb, zb, xb := ReachingStores(cb, lb)
			if !xa && !xb && za == zb && len(va) == len(vb) {
				set := map[ssa.Value]bool{}
				for _, v := range va {
					set[v] = true
				}
				for _, v := range vb {
					if !set[v] {
						return false
					}
				}
				return true
			}
		}
	}
	return false
}

// AccessPath renders v as a chain of field loads from a root value
// ("<root>.BlockedServices.Schedule"): two values with the same path are loads
// of the same field of the same object (stores between the loads are not
// looked at: the path names the place, not the content).
func AccessPath(v ssa.Value) string {
	v = ResolveCellLoad(v)
	switch x := v.(type) {
	case *ssa.UnOp:
		if x.Op == token.MUL {
			if fa, ok := x.X.(*ssa.FieldAddr); ok {
				fr, _ := FieldOfAddr(fa)
				return AccessPath(fa.X) + "." + fr.Field
			}
		}
	case *ssa.Field:
		fr, _ := FieldOfAddr(x)
		return AccessPath(x.X) + "." + fr.Field
	case *ssa.FieldAddr:
		fr, _ := FieldOfAddr(x)
		return AccessPath(x.X) + ".&" + fr.Field
	}
	return fmt.Sprintf("%s@%p", v.Name(), v)
}

// MayBeNil reports whether the (error or pointer) value v can be nil, as far
// as its construction shows: a value made by fmt.Errorf / errors.New / a
// conversion to an interface / an allocation cannot; errors.WithDeferred(a, b)
// can only if both can, errors.Annotate(a, …) only if a can; the result of a
// function literal or of a helper of the module is what it returns, with its
// parameters standing for the arguments.  Everything else can.
func MayBeNil(v ssa.Value) bool { return mayBeNil(v, nil, 0) }

func mayBeNil(v ssa.Value, env map[ssa.Value]ssa.Value, depth int) bool {
	for _, leaf := range FlattenPhi(ResolveLocalLoad(v)) {
		if mayBeNilLeaf(leaf, env, depth) {
			return true
		}
	}
	return false
}

func mayBeNilLeaf(v ssa.Value, env map[ssa.Value]ssa.Value, depth int) bool {
	if mapped, ok := env[v]; ok && depth < 6 {
		return mayBeNil(mapped, nil, depth+1)
	}
	switch x := v.(type) {
	case *ssa.Const:
		return x.IsNil()
	case *ssa.MakeInterface, *ssa.Alloc, *ssa.MakeMap, *ssa.MakeSlice, *ssa.MakeClosure, *ssa.FieldAddr, *ssa.IndexAddr:
		return false
	case *ssa.ChangeInterface:
		return mayBeNil(x.X, env, depth)
	case *ssa.Call:
		k := CalleeKey(x.Common())
		args := x.Common().Args
		switch k {
		case "fmt.Errorf", "errors.New", "github.com/AdguardTeam/golibs/errors.Error.Error":
			return false
		case "github.com/AdguardTeam/golibs/errors.WithDeferred":
			return len(args) != 2 || (mayBeNil(args[0], env, depth) && mayBeNil(args[1], env, depth))
		case "github.com/AdguardTeam/golibs/errors.Annotate":
			return len(args) < 1 || mayBeNil(args[0], env, depth)
		}
		if depth >= 3 {
			return true
		}
		// a function literal or a helper of the module: its returns
		var h *ssa.Function
		var bound ssa.Value
		if sc := Impl(x.Common().StaticCallee()); sc != nil {
			h = sc
		} else if ts := CallTargets(x.Common()); len(ts) == 1 {
			h, bound = ts[0].Fn, ts[0].Recv
		}
		if h == nil || len(h.Blocks) == 0 || !InModule(h) || h.Signature.Results().Len() != 1 || h == x.Parent() {
			return true
		}
		sub := map[ssa.Value]ssa.Value{}
		ps := h.Params
		if bound != nil && len(ps) > 0 {
			sub[ps[0]] = bound
			ps = ps[1:]
		}
		for i, prm := range ps {
			if i < len(args) {
				a := args[i]
				if m, ok := env[a]; ok {
					a = m
				}
				sub[prm] = a
			}
		}
		for _, b := range h.Blocks {
			if len(b.Instrs) == 0 || b == h.Recover {
				continue
			}
			if ret, ok := AsReturn(b.Instrs[len(b.Instrs)-1]); ok && len(ret.Results) == 1 {
				if mayBeNil(Res(ret, 0), sub, depth+1) {
					return true
				}
			}
		}
		return false
	}
	return true
}

// TableRows expands the arguments of a call made inside a range over a local
// table — a slice (or array) literal of structs, each argument being a field
// of the loop's element — into one argument list per row of the table: the
// call stands for that many calls.  ok is false when the arguments are not of
// that shape (or the table is used in any other way).
func TableRows(args []ssa.Value) (rows [][]ssa.Value, ok bool) {
	// the element: a struct value loaded from the table, read field by field (directly, or after being copied
	// into the loop variable's cell)
	var elem ssa.Value
	fields := make([]int, len(args))
	for i, a := range args {
		var x ssa.Value
		switch f := a.(type) {
		case *ssa.Field:
			x, fields[i] = f.X, f.Field
		case *ssa.UnOp:
			fa, isFA := f.X.(*ssa.FieldAddr)
			if f.Op != token.MUL || !isFA {
				return nil, false
			}
			cell, isCell := fa.X.(*ssa.Alloc)
			if !isCell {
				return nil, false
			}
			var whole []ssa.Value
			for _, u := range Users(cell) {
				switch y := u.(type) {
				case *ssa.Store:
					if y.Addr != ssa.Value(cell) {
						return nil, false
					}
					whole = append(whole, y.Val)
				case *ssa.FieldAddr:
					for _, u2 := range Users(y) {
						if ld, isLd := u2.(*ssa.UnOp); !isLd || ld.Op != token.MUL {
							if _, isDbg := u2.(*ssa.DebugRef); !isDbg {
								return nil, false
							}
						}
					}
				case *ssa.DebugRef:
				default:
					return nil, false
				}
			}
			if len(whole) != 1 {
				return nil, false
			}
			x, fields[i] = whole[0], fa.Field
		default:
			return nil, false
		}
		if elem != nil && x != elem {
			return nil, false
		}
		elem = x
	}
	ld, isLd := elem.(*ssa.UnOp)
	if !isLd || ld.Op != token.MUL {
		return nil, false
	}
	ia, isIA := ld.X.(*ssa.IndexAddr)
	if !isIA {
		return nil, false
	}
	var arr *ssa.Alloc
	switch x := ia.X.(type) {
	case *ssa.Slice:
		arr, _ = x.X.(*ssa.Alloc)
		// the slice itself is only ranged over
		for _, u := range Users(x) {
			switch y := u.(type) {
			case *ssa.IndexAddr, *ssa.DebugRef:
			case *ssa.Call:
				if b, isB := y.Call.Value.(*ssa.Builtin); !isB || b.Name() != "len" {
					return nil, false
				}
			default:
				return nil, false
			}
		}
	case *ssa.Alloc:
		arr = x
	}
	if arr == nil {
		return nil, false
	}
	at, isArr := arr.Type().Underlying().(*types.Pointer).Elem().Underlying().(*types.Array)
	if !isArr {
		return nil, false
	}
	cells := make([]map[int]ssa.Value, at.Len())
	for i := range cells {
		cells[i] = map[int]ssa.Value{}
	}
	// fieldStores collects "<base>.f = v" for a struct built in place at base
	fieldStores := func(base ssa.Value, into map[int]ssa.Value, allowLoad bool) bool {
		for _, u := range Users(base) {
			switch y := u.(type) {
			case *ssa.FieldAddr:
				for _, u3 := range Users(y) {
					st, isSt := u3.(*ssa.Store)
					if !isSt || st.Addr != ssa.Value(y) {
						if _, isDbg := u3.(*ssa.DebugRef); isDbg {
							continue
						}
						return false
					}
					if _, dup := into[y.Field]; dup {
						return false
					}
					into[y.Field] = st.Val
				}
			case *ssa.UnOp:
				if !allowLoad || y.Op != token.MUL {
					return false
				}
			case *ssa.DebugRef:
			case *ssa.Store:
				if y.Addr != base {
					return false
				}
			default:
				return false
			}
		}
		return true
	}
	for _, u := range Users(arr) {
		switch x := u.(type) {
		case *ssa.Slice, *ssa.DebugRef:
		case *ssa.IndexAddr:
			if x == ia {
				continue
			}
			k, isC := ConstInt(x.Index)
			if !isC || k < 0 || k >= at.Len() {
				return nil, false
			}
			// the row is built in place, or in a local composite that is then copied into the slot
			copied := false
			for _, u2 := range Users(x) {
				if st, isSt := u2.(*ssa.Store); isSt && st.Addr == ssa.Value(x) {
					src, isLoad := st.Val.(*ssa.UnOp)
					if !isLoad || src.Op != token.MUL {
						return nil, false
					}
					lit, isLit := src.X.(*ssa.Alloc)
					if !isLit || copied || !fieldStores(lit, cells[k], true) {
						return nil, false
					}
					copied = true
				}
			}
			if !copied && !fieldStores(x, cells[k], false) {
				return nil, false
			}
		default:
			return nil, false
		}
	}
	for _, row := range cells {
		var vals []ssa.Value
		for _, f := range fields {
			v, has := row[f]
			if !has {
				return nil, false // a field left at its zero value: not expanded
			}
			vals = append(vals, v)
		}
		rows = append(rows, vals)
	}
	return rows, len(rows) > 0
}

// storedBeforeClosures reports whether the single store into cell c comes, on
// every path, before every function literal that captures c is created (so
// that the literal can only ever see the stored value).
func storedBeforeClosures(c *ssa.Alloc) bool {
	var st *ssa.Store
	var mcs []*ssa.MakeClosure
	for _, u := range Users(c) {
		switch y := u.(type) {
		case *ssa.Store:
			if y.Addr != ssa.Value(c) || st != nil {
				return false
			}
			st = y
		case *ssa.MakeClosure:
			mcs = append(mcs, y)
		}
	}
	if st == nil || len(mcs) == 0 {
		return false
	}
	idx := func(in ssa.Instruction) int {
		for i, x := range in.Block().Instrs {
			if x == in {
				return i
			}
		}
		return -1
	}
	for _, mc := range mcs {
		if st.Block() == mc.Block() {
			if idx(st) > idx(mc) {
				return false
			}
		} else if !st.Block().Dominates(mc.Block()) {
			return false
		}
		// the literals must not assign to it themselves
		if lit, ok := mc.Fn.(*ssa.Function); ok {
			for i, b := range mc.Bindings {
				if b != ssa.Value(c) || i >= len(lit.FreeVars) {
					continue
				}
				for _, u := range Users(lit.FreeVars[i]) {
					if s2, isSt := u.(*ssa.Store); isSt && s2.Addr == ssa.Value(lit.FreeVars[i]) {
						return false
					}
					if _, isMC := u.(*ssa.MakeClosure); isMC {
						return false
					}
				}
			}
		}
	}
	return true
}
