package rules

import (
	"fmt"
	"go/token"
	"go/types"
	"sort"
	"strings"

	"aghverif/core"

	"golang.org/x/tools/go/ssa"
)

func init() {
	register(&Rule{
		ID:  "C08",
		Run: runC08,
		Explanation: "Ignored names/clients and anonymisation. Decided: (D1) record only after the decision: the query log's Add and the statistics' Update each have one caller in the DNS path, reached only on the true edge of shouldLog / shouldCountStat, which are true only via ShouldLog / ShouldCount, which are true only after the client flag was consulted and with a negative ignore-list lookup; the identifier list given to both decisions always contains the client address; " +
			"(D2) anonymise once, before both: the loaded anonymiser is applied to the address slice before both decisions and both records, the address handed to the log is that same slice, and the address string used for the client lookups and the statistics is computed from it after the call; (D3) the read side re-checks the ignore list and the client flag before returning a file entry and applies the anonymiser it is given before serialising; (D4) both configuration handlers install the anonymiser exactly when anonymisation is switched on; " +
			"(D5) mask widths: the anonymiser zeroes the constant regions [2:4) of the 4-byte form obtained from To4 and [6:16) of the 16-byte form. " +
			"(D6) the client cache of a log search, which memoises the per-client ignore decision, is a map made by that search and never stored in a field or package variable. " +
			"(D7) the record the query log uses to decide whether a stored entry is shown: on every path of clientOrArtificial on which a persistent client was found, its IgnoreQueryLog flag is copied into the record, whatever else is known about the address. " +
			"(D1, cont.) ShouldLog and ShouldCount are evaluated as truth tables over (client found, client's ignore flag / counted client, host on the ignore list); a recorder's caller may ask the subsystem directly instead of through the server's wrapper; (D4, cont.) the flag that switches the anonymiser is the one of the configuration being installed, not of the one it replaces; (D6, cont.) the client cache key is the lookup's input pair. " +
			"(D8) both client finders (behind the statistics decision and behind the query-log decision) look the client up under every identifier of the request, in a loop over the list. " +
			"Not decided: ignore-pattern semantics, case and trailing-dot normalisation, entries recorded before an ignore-list change.",
		RuleText:    "Who-may-call enumeration, CFG edge guards, value identity and must-pass ordering on SSA, constant slice bounds.",
		Assumptions: []string{"aghnet.IPMut stores/loads the function atomically", "net.IP.To4 returns the 4-byte form sharing memory with the original (stdlib)"},
		Trusted:     commonTrusted,
	})
}

func runC08(c *Ctx) {
	p, r := c.P, c.R
	const kAdd = "iface:(querylog.QueryLog).Add"
	const kUpdate = "iface:(stats.Interface).Update"
	// D1: callers
	var addCallers, updCallers []string
	for _, fn := range p.ModFns {
		if fn.Blocks == nil || core.IsNextPkg(fn) {
			continue
		}
		if len(core.CallsTo(fn, kAdd)) > 0 {
			addCallers = append(addCallers, core.FuncKey(fn))
		}
		if len(core.CallsTo(fn, kUpdate)) > 0 {
			updCallers = append(updCallers, core.FuncKey(fn))
		}
	}
	// one writer each: the recorder of that name, or — when the recorder was folded away — the one function that took it over
	oneWriter := func(callers []string, name string) bool {
		return len(callers) == 1 && (callers[0] == name || p.FnExact(name) == nil)
	}
	r.Check(oneWriter(addCallers, "(*dnsforward.Server).logQuery"), "C08-D1", "single-log-writer", "-",
		"the query log is written from one place (logQuery)", fmt.Sprintf("query log entries are added from %v", addCallers))
	r.Check(oneWriter(updCallers, "(*dnsforward.Server).updateStats"), "C08-D1", "single-stats-writer", "-",
		"statistics are updated from one place (updateStats)", fmt.Sprintf("statistics are updated from %v", updCallers))

	pq := p.Fn("(*dnsforward.Server).processQueryLogsAndStats")
	if pq == nil {
		r.Undecided("C08-D1", "processQueryLogsAndStats", "-", "anchor not found")
		return
	}
	boolTrue := func(keys ...string) func(core.Atom) (bool, bool) {
		return func(at core.Atom) (bool, bool) {
			if at.Op == token.ILLEGAL && core.IsCallResult(at.Base, -1, keys...) {
				return true, true
			}
			return false, false
		}
	}
	// the decision is the subsystem's own (ShouldLog / ShouldCount), asked directly or through the server's wrapper
	innerOf := map[string]string{
		"(*dnsforward.Server).shouldLog":       "iface:(querylog.QueryLog).ShouldLog",
		"(*dnsforward.Server).shouldCountStat": "iface:(stats.Interface).ShouldCount",
	}
	for _, pair := range [][4]string{
		{"(*dnsforward.Server).logQuery", "(*dnsforward.Server).shouldLog", "log", kAdd},
		{"(*dnsforward.Server).updateStats", "(*dnsforward.Server).shouldCountStat", "stats", kUpdate},
	} {
		// the write into the subsystem happens under a positive decision: either in the function that makes it,
		// or — when that function is a recorder that only builds and hands over the record — at every call of it
		n := 0
		guardedIn := func(fn *ssa.Function, sinkKey string) bool {
			g, ng := core.CondEdges(fn, boolTrue(pair[1], innerOf[pair[1]]))
			off, _ := core.UnguardedSinks(fn, core.IsCallTo(false, sinkKey), g)
			return ng > 0 && len(off) == 0
		}
		for _, w := range p.ModFnsIn("dnsforward") {
			if w.Blocks == nil || core.IsNextPkg(w) || len(core.CallsTo(w, pair[3])) == 0 {
				continue
			}
			wk := core.FuncKey(w)
			if guardedIn(w, pair[3]) {
				n++
				r.Ok("C08-D1", "record-after-decision:"+pair[2]+"@"+wk, p.FnPos(w), "the "+pair[2]+" write runs only on the true edge of "+pair[1])
				continue
			}
			nc := 0
			for _, fn := range p.ModFnsIn("dnsforward") {
				if len(core.CallsTo(fn, wk)) == 0 {
					continue
				}
				n++
				nc++
				g, ng := core.CondEdges(fn, boolTrue(pair[1], innerOf[pair[1]]))
				off, _ := core.UnguardedSinks(fn, core.IsCallTo(false, wk), g)
				r.Check(ng > 0 && len(off) == 0, "C08-D1", "record-after-decision:"+pair[2]+"@"+core.FuncKey(fn), p.FnPos(fn),
					wk+" runs only on the true edge of "+pair[1], "a query can be recorded ("+pair[2]+") without a positive "+pair[1]+" decision", traceOf(p, off)...)
			}
			if nc == 0 {
				r.Fail("C08-D1", "record-after-decision:"+pair[2]+"@"+wk, p.FnPos(w), "a query can be recorded ("+pair[2]+") without a positive "+pair[1]+" decision: "+wk+" writes unconditionally and no caller was found")
			}
		}
		r.Floor("C08-D1", "recorder-callers:"+pair[2], n, 1)
	}
	// shouldLog / shouldCountStat: true only via the subsystem's decision
	for fk, inner := range map[string]string{
		"(*dnsforward.Server).shouldLog":       "iface:(querylog.QueryLog).ShouldLog",
		"(*dnsforward.Server).shouldCountStat": "iface:(stats.Interface).ShouldCount",
	} {
		fn := p.FnExact(fk)
		if fn == nil {
			// the wrapper is gone: the recorder's caller must then ask the subsystem itself, which
			// record-after-decision above has just decided; a wrapper that is still called but not found is an alarm
			used := false
			for _, f := range p.ModFnsIn("dnsforward") {
				for _, call := range core.Calls(f) {
					if call.Key == fk {
						used = true
					}
				}
			}
			if used {
				r.Undecided("C08-D1", fk, "-", "anchor not found")
			}
			continue
		}
		okAll, n := true, 0
		for _, b := range fn.Blocks {
			if b == fn.Recover {
				continue
			}
			for _, in := range b.Instrs {
				ret, ok := core.AsReturn(in)
				if !ok {
					continue
				}
				for _, l := range core.FlattenPhi(core.ResolveLocalLoad(core.Res(ret, 0))) {
					if bv, isC := core.ConstBool(l); isC {
						if bv {
							okAll = false
						}
						continue
					}
					n++
					if !core.IsCallResult(l, -1, inner) {
						okAll = false
					}
				}
			}
		}
		r.Check(okAll && n > 0, "C08-D1", "decision-delegates:"+fk, p.FnPos(fn), fk+" is true only when "+inner+" is", fk+" can be true without asking "+inner)
	}
	// ShouldLog / ShouldCount
	type dec struct{ fk, ignoreCall, what string }
	for _, d := range []dec{
		{"(*querylog.queryLog).ShouldLog", "(*querylog.queryLog).isIgnored", "log"},
		{"(*stats.StatsCtx).ShouldCount", "(*stats.StatsCtx).isIgnored", "stats"},
	} {
		fn := p.Fn(d.fk)
		if fn == nil {
			r.Undecided("C08-D1", d.fk, "-", "anchor not found")
			continue
		}
		// the decision as a whole, for every combination of its inputs; the two shape rules below decide when the
		// evaluator cannot
		if c08DecisionTable(c, fn, d.what) {
			continue
		}
		// result true only as !isIgnored(host)
		okAll, n := true, 0
		for _, b := range fn.Blocks {
			if b == fn.Recover {
				continue
			}
			for _, in := range b.Instrs {
				ret, ok := core.AsReturn(in)
				if !ok {
					continue
				}
				for _, l := range core.FlattenPhi(core.ResolveCellLoad(core.ResolveLocalLoad(core.Res(ret, 0)))) {
					if bv, isC := core.ConstBool(l); isC {
						if bv {
							okAll = false
						}
						continue
					}
					n++
					u, isU := l.(*ssa.UnOp)
					if !isU || u.Op != token.NOT || !core.IsCallResult(u.X, -1, d.ignoreCall) {
						okAll = false
					} else if call, _, _ := core.CallResult(u.X); call.Common().Args[1] != ssa.Value(fn.Params[1]) {
						okAll = false // must test the host parameter
					}
				}
			}
		}
		r.Check(okAll && n > 0, "C08-D1", "decision-negates-ignore-list:"+d.fk, p.FnPos(fn),
			"the decision is true only as the negation of the ignore-list lookup for the queried host", "the decision can be true without a negative ignore-list lookup for the queried host")
		// client flag consulted before a true result
		mayTrue := func(in ssa.Instruction) bool {
			ret, ok := core.AsReturn(in)
			if !ok || in.Block() == fn.Recover {
				return false
			}
			bv, isC := core.ConstBool(core.ResolveLocalLoad(core.Res(ret, 0)))
			return !isC || bv
		}
		var g map[core.Edge]bool
		var ng int
		if d.what == "log" {
			g, ng = core.CondEdges(fn, func(at core.Atom) (bool, bool) {
				if at.Op == token.ILLEGAL {
					if fr, _, ok := core.LoadedField(at.Base); ok && fr.Type == "querylog.Client" && fr.Field == "IgnoreQueryLog" {
						return true, false
					}
				}
				// c == nil: no persistent client, nothing to ignore
				if (at.Op == token.EQL || at.Op == token.NEQ) && core.IsNilConst(at.Other) && core.TypeKey(at.Base.Type()) == "*querylog.Client" {
					return true, at.Op == token.EQL
				}
				return false, false
			})
		} else {
			g, ng = core.CondEdges(fn, boolTrue("(*stats.StatsCtx).shouldCountClient"))
			// the closure bound to shouldCountClient is a func field: match dynamic call through the field
			if ng == 0 {
				g, ng = core.CondEdges(fn, func(at core.Atom) (bool, bool) {
					if at.Op != token.ILLEGAL {
						return false, false
					}
					call, _, ok := core.CallResult(at.Base)
					if !ok {
						return false, false
					}
					if fr, _, ok := core.LoadedField(call.Common().Value); ok && fr.Field == "shouldCountClient" {
						return true, true
					}
					return false, false
				})
			}
		}
		off, ns := core.UnguardedSinks(fn, mayTrue, g)
		r.Check(ng > 0 && ns > 0 && len(off) == 0, "C08-D1", "decision-consults-client-flag:"+d.fk, p.FnPos(fn),
			"the decision can be true only after the client's ignore flag was consulted and found clear", "the decision can be true without the client's ignore flag having been consulted", traceOf(p, off)...)
	}

	c08Anonymise(c, pq)
	c08ReadSide(c)
	c08Switch(c)
	c08Mask(c)
	c08ClientCache(c)
	c08ReadSideFlag(c)
	c08EveryIdentifier(c)
}

// c08EveryIdentifier: D8 — a request can carry two identifiers (ClientID,
// address); a client marked as ignored may be known under either.  Both
// finders — the one behind the statistics decision and the one behind the
// query-log decision — look every identifier up, in a loop over the list they
// are given, before they conclude that there is no such client.
func c08EveryIdentifier(c *Ctx) {
	p, r := c.P, c.R
	for fk, lookup := range map[string]string{
		"(*home.clientsContainer).shouldCountClient": "(*client.Storage).Find",
		"(*home.clientsContainer).findMultiple":      "(*home.clientsContainer).clientOrArtificial",
	} {
		fn := p.Fn(fk)
		if fn == nil || len(fn.Params) < 2 {
			r.Undecided("C08-D8", fk, "-", "anchor not found")
			continue
		}
		ids := fn.Params[1]
		n, okLoop := 0, true
		for _, call := range core.CallsToDeep(fn, lookup) {
			// the identifier looked up is an element of the list, and the lookup sits in a loop over it
			idArg := call.Arg(len(call.Common.Args) - 1)
			fromIDs := false
			for _, o := range core.Origins(idArg, core.ProvOpts{Prog: p}) {
				if o.Val == ssa.Value(ids) {
					fromIDs = true
				}
			}
			if !fromIDs {
				continue
			}
			n++
			inLoop := core.InCycle(call.Instr.Block())
			isRange := false
			for _, b := range call.Instr.Parent().Blocks {
				if strings.HasPrefix(b.Comment, "rangeindex") && core.InCycle(b) {
					isRange = true
				}
			}
			if !inLoop || !isRange {
				okLoop = false
			}
		}
		r.Check(n > 0 && okLoop, "C08-D8", "every-identifier-looked-up:"+fk, p.FnPos(fn),
			"the client is looked up under every identifier of the request",
			"the client is looked up under one identifier only: a request that also carries an unknown ClientID is not recognised as coming from a client ignored by its address (counted, or logged, although the client is to be ignored)")
	}
}

// c08ReadSideFlag: D7 — the client record the query log works with when it
// decides whether to show a stored entry comes from clientOrArtificial; when a
// persistent client was found its IgnoreQueryLog flag is carried over on every
// path, whatever else is known about the address.
func c08ReadSideFlag(c *Ctx) {
	p, r := c.P, c.R
	fn := p.Fn("(*home.clientsContainer).clientOrArtificial")
	if fn == nil {
		r.Undecided("C08-D7", "clientOrArtificial", "-", "anchor not found")
		return
	}
	isFound := func(v ssa.Value) bool {
		return core.IsCallResult(core.ResolveCellLoad(v), 1, "(*client.Storage).FindLoose")
	}
	// edges on which no persistent client was found
	notFound, n := core.CondEdges(fn, func(at core.Atom) (bool, bool) {
		if at.Op == token.ILLEGAL && isFound(at.Base) {
			return true, false
		}
		return false, false
	})
	carries := func(in ssa.Instruction) bool {
		st, ok := in.(*ssa.Store)
		if !ok {
			return false
		}
		fr, ok := core.FieldOfAddr(st.Addr)
		if !ok || fr.Type != "querylog.Client" || fr.Field != "IgnoreQueryLog" {
			return false
		}
		src, _, isF := core.LoadedField(core.ResolveCellLoad(st.Val))
		return isF && src.Type == "client.Persistent" && src.Field == "IgnoreQueryLog"
	}
	nCarry := 0
	for _, b := range fn.Blocks {
		for _, in := range b.Instrs {
			if carries(in) {
				nCarry++
			}
		}
	}
	found, tr, _ := core.Reach(core.Query{From: []core.Point{core.Entry(fn)}, Target: core.IsReturn, Avoid: carries, AvoidEdges: notFound})
	r.Check(n > 0 && nCarry > 0 && !found, "C08-D7", "found-client-keeps-ignore-flag", p.FnPos(fn),
		"every path on which a persistent client was found copies its IgnoreQueryLog flag into the record given to the query log",
		"a persistent client can be reported to the query log without its IgnoreQueryLog flag (e.g. when a runtime record exists for the address too): its stored entries are shown although the client is to be ignored", p.TraceString(tr))
}

func c08Anonymise(c *Ctx, pq *ssa.Function) {
	p, r := c.P, c.R
	// The functions that make up the recording step: processQueryLogsAndStats and the unexported helpers of its
	// package it calls (an address or identifier computation extracted into its own function is part of the step).
	// logQuery and updateStats are the recorders themselves and are looked at separately below.
	recorders := map[string]bool{"(*dnsforward.Server).logQuery": true, "(*dnsforward.Server).updateStats": true,
		"(*dnsforward.Server).shouldLog": true, "(*dnsforward.Server).shouldCountStat": true}
	step := []*ssa.Function{pq}
	{
		seen := map[*ssa.Function]bool{pq: true}
		for i := 0; i < len(step) && i < 16; i++ {
			for _, call := range core.Calls(step[i]) {
				h := core.Callee(call.Common)
				if h == nil || seen[h] || len(h.Blocks) == 0 || h.Pkg != pq.Pkg || h.Object() == nil || h.Object().Exported() || recorders[core.FuncKey(h)] {
					continue
				}
				seen[h] = true
				step = append(step, h)
			}
		}
	}
	seenCall := map[core.Call]bool{}
	var stepCalls []core.Call
	for _, f := range step {
		for _, call := range core.Calls(f) {
			if !seenCall[call] {
				seenCall[call] = true
				stepCalls = append(stepCalls, call)
			}
		}
	}
	callsIn := func(keys ...string) (cs []core.Call) {
		for _, call := range stepCalls {
			for _, k := range keys {
				if call.Key == k {
					cs = append(cs, call)
				}
			}
		}
		return cs
	}
	// the anonymiser call: dynamic call whose function value is the result of (*aghnet.IPMut).Load
	var anonCall *ssa.Call
	nAnon := 0
	{
		for _, call := range stepCalls {
			if core.Callee(call.Common) != nil || call.Common.IsInvoke() {
				continue
			}
			if core.IsCallResult(core.ResolveCellLoad(call.Common.Value), -1, "(*aghnet.IPMut).Load") {
				if cc, ok := call.Instr.(*ssa.Call); ok {
					anonCall = cc
					nAnon++
				}
			}
		}
	}
	if anonCall == nil || nAnon != 1 {
		r.Fail("C08-D2", "anonymiser-applied", p.FnPos(pq), "the loaded anonymiser is no longer applied (exactly once) in processQueryLogsAndStats: client addresses reach the log and the statistics unmasked")
		return
	}
	ipV := anonCall.Common().Args[0]
	isAnon := func(in ssa.Instruction) bool { return in == ssa.Instruction(anonCall) }
	for _, k := range []string{"(*dnsforward.Server).shouldLog", "(*dnsforward.Server).shouldCountStat", "(*dnsforward.Server).logQuery", "(*dnsforward.Server).updateStats", "(net.IP).String"} {
		// in every function of the step that makes such a call, the call comes after the anonymiser (which may run inside a helper called before)
		found := false
		var tr []*ssa.BasicBlock
		for _, f := range step {
			if len(core.CallsTo(f, k)) == 0 {
				continue
			}
			if fnd, t, _ := core.Reach(core.Query{From: []core.Point{core.Entry(f)}, Target: core.IsCallTo(false, k), Avoid: isAnon}); fnd {
				// inside a helper that receives the already anonymised address the order was settled by its caller
				settled := false
				if f != pq {
					settled = true
					for _, site := range p.StaticCallers(f) {
						ci := p.CallInstr(site)
						if ci == nil {
							settled = false
							continue
						}
						if f2, _, _ := core.Reach(core.Query{From: []core.Point{core.Entry(ci.Parent())}, Target: func(x ssa.Instruction) bool { return x == ssa.Instruction(ci) }, Avoid: isAnon}); f2 {
							settled = false
						}
					}
				}
				if !settled {
					found, tr = true, t
				}
			}
		}
		r.Check(!found, "C08-D2", "anonymise-before:"+k, p.InstrPos(anonCall),
			"the anonymiser runs before "+k, k+" can run before the address was anonymised", p.TraceString(tr))
	}
	// value identity
	under := func(v ssa.Value) ssa.Value {
		for {
			switch x := v.(type) {
			case *ssa.ChangeType:
				v = x.X
				continue
			case *ssa.Convert:
				v = x.X
				continue
			}
			return v
		}
	}
	// is: every value v can stand for (through phis, helper results and helper parameters) is w
	is := func(v, w ssa.Value) bool {
		ls := core.Leaves(v)
		for _, l := range ls {
			same := false
			for _, lw := range core.Leaves(w) {
				if under(l) == under(lw) {
					same = true
				}
			}
			if !same {
				return false
			}
		}
		return len(ls) > 0
	}
	// which parameter of the recorders is the client address: the one that is stored into the record
	paramStoredInto := func(fk, typ, field string, dflt int) int {
		f := p.Fn(fk)
		if f == nil {
			return dflt
		}
		for _, b := range f.Blocks {
			for _, in := range b.Instrs {
				st, ok := in.(*ssa.Store)
				if !ok {
					continue
				}
				if fr, isF := core.FieldOfAddr(st.Addr); !isF || fr.Type != typ || fr.Field != field {
					continue
				}
				for _, leaf := range core.FlattenPhi(core.ResolveCellLoad(st.Val)) {
					for i, prm := range f.Params {
						if under(leaf) == ssa.Value(prm) {
							return i
						}
					}
				}
			}
		}
		return dflt
	}
	logIPIdx := paramStoredInto("(*dnsforward.Server).logQuery", "querylog.AddParams", "ClientIP", 2)
	statsIPIdx := paramStoredInto("(*dnsforward.Server).updateStats", "stats.Entry", "Client", 2)
	for _, call := range callsIn("(*dnsforward.Server).logQuery") {
		r.Check(is(call.Arg(logIPIdx), ipV), "C08-D2", "log-receives-anonymised-slice", p.InstrPos(call.Instr),
			"the address given to the log is the slice the anonymiser was applied to", "the log receives an address other than the anonymised slice")
	}
	var ipStr ssa.Value
	for _, call := range callsIn("(net.IP).String") {
		if is(call.Arg(0), ipV) {
			ipStr = call.Instr.(*ssa.Call)
		}
	}
	r.Check(ipStr != nil, "C08-D2", "address-string-from-anonymised-slice", p.FnPos(pq), "the address string is computed from the anonymised slice", "the address string is not computed from the anonymised slice")
	for _, call := range callsIn("(*dnsforward.Server).updateStats") {
		okS := ipStr != nil
		if okS && !is(call.Arg(statsIPIdx), ipStr) {
			sawAddr := false
			for _, leaf := range core.Leaves(call.Arg(statsIPIdx)) {
				if under(leaf) == ipStr {
					sawAddr = true
					continue
				}
				os := core.Origins(leaf, core.ProvOpts{Prog: p, Stop: func(v ssa.Value) string {
					if v == ipStr {
						return "anonymised-address"
					}
					return ""
				}})
				for _, o := range os {
					switch {
					case o.Kind == "stop":
						sawAddr = true
					case o.Kind == "field" && o.Key == "dnsforward.dnsContext.clientID":
					case o.Kind == "const":
					default:
						okS = false
					}
				}
			}
			okS = okS && sawAddr
		}
		r.Check(okS, "C08-D2", "stats-receive-anonymised-string", p.InstrPos(call.Instr),
			"statistics receive the string of the anonymised address", "statistics receive a client address other than the anonymised one")
	}
	// wherever the records are filled in: the log's address is the anonymised slice, the statistics' client is the
	// ClientID or the string of the anonymised address (whichever function holds the store, through its parameters)
	nLogIP, nStatClient := 0, 0
	for _, f := range p.ModFnsIn("dnsforward") {
		if f.Blocks == nil || core.IsNextPkg(f) {
			continue
		}
		for _, b := range f.Blocks {
			for _, in := range b.Instrs {
				st, isSt := in.(*ssa.Store)
				if !isSt {
					continue
				}
				fr, isF := core.FieldOfAddr(st.Addr)
				if !isF {
					continue
				}
				switch {
				case fr.Type == "querylog.AddParams" && fr.Field == "ClientIP":
					nLogIP++
					r.Check(is(st.Val, ipV), "C08-D2", fmt.Sprintf("log-record-address-is-anonymised#%d", nLogIP), p.InstrPos(in),
						"the address stored in the log record is the slice the anonymiser was applied to", "the log record is filled with an address other than the anonymised slice")
				case fr.Type == "stats.Entry" && fr.Field == "Client":
					nStatClient++
					okS := ipStr != nil
					for _, leaf := range core.Leaves(st.Val) {
						fr2, _, isF2 := core.LoadedField(leaf)
						if ipStr != nil && under(leaf) == ipStr || isF2 && fr2.Field == "clientID" {
							continue
						}
						okS = false
					}
					r.Check(okS, "C08-D2", fmt.Sprintf("stats-record-client-is-anonymised#%d", nStatClient), p.InstrPos(in),
						"the client stored in the statistics entry is the ClientID or the string of the anonymised address", "the statistics entry is filled with a client address other than the anonymised one")
				}
			}
		}
	}
	r.Floor("C08-D2", "log-record-address-stores", nLogIP, 1)
	r.Floor("C08-D2", "stats-record-client-stores", nStatClient, 1)
	// ids always contain the address string
	for _, k := range []string{"(*dnsforward.Server).shouldLog", "(*dnsforward.Server).shouldCountStat", "iface:(querylog.QueryLog).ShouldLog", "iface:(stats.Interface).ShouldCount"} {
		for _, call := range callsIn(k) {
			if len(call.Common.Args) == 0 {
				continue
			}
			ids := call.Common.Args[len(call.Common.Args)-1] // the identifier list is the last argument of all four
			okAll, n := true, 0
			for _, leaf := range core.Leaves(ids) {
				n++
				has := false
				for _, el := range sliceLiteralElems(leaf) {
					if ipStr != nil && is(el, ipStr) {
						has = true
					}
				}
				if !has {
					okAll = false
				}
			}
			r.Check(okAll && n > 0 && ipStr != nil, "C08-D1", "ids-contain-address:"+k, p.InstrPos(call.Instr),
				"every identifier list given to the decision contains the (anonymised) client address",
				"an identifier list given to the ignore decision lacks the client address: a client ignored by IP/CIDR/MAC is not recognised when the request also carries a ClientID")
		}
	}
	// inside logQuery / updateStats the parameter is what gets recorded
	if lq := p.Fn("(*dnsforward.Server).logQuery"); lq != nil && len(lq.Params) > logIPIdx {
		ok := false
		for _, b := range lq.Blocks {
			for _, in := range b.Instrs {
				if st, isSt := in.(*ssa.Store); isSt {
					if fr, isF := core.FieldOfAddr(st.Addr); isF && fr.Type == "querylog.AddParams" && fr.Field == "ClientIP" {
						ok = under(st.Val) == ssa.Value(lq.Params[logIPIdx])
					}
				}
			}
		}
		r.Check(ok, "C08-D2", "logQuery-records-its-parameter", p.FnPos(lq), "AddParams.ClientIP is the address parameter", "logQuery records an address other than the one it was given (e.g. the raw peer address)")
	}
	if us := p.Fn("(*dnsforward.Server).updateStats"); us != nil && len(us.Params) > statsIPIdx {
		ok, n := true, 0
		for _, b := range us.Blocks {
			for _, in := range b.Instrs {
				if st, isSt := in.(*ssa.Store); isSt {
					if fr, isF := core.FieldOfAddr(st.Addr); isF && fr.Type == "stats.Entry" && fr.Field == "Client" {
						n++
						for _, v := range core.FlattenPhi(core.ResolveCellLoad(st.Val)) {
							fr2, _, isF2 := core.LoadedField(v)
							if v != ssa.Value(us.Params[statsIPIdx]) && !(isF2 && fr2.Field == "clientID") {
								ok = false
							}
						}
					}
				}
			}
		}
		r.Check(ok && n > 0, "C08-D2", "updateStats-records-its-parameter", p.FnPos(us), "stats.Entry.Client is the ClientID or the address parameter", "updateStats records a client address other than the one it was given")
	}
}

func c08ReadSide(c *Ctx) {
	p, r := c.P, c.R
	rn := p.Fn("(*querylog.queryLog).readNextEntry")
	if rn == nil {
		r.Undecided("C08-D3", "readNextEntry", "-", "anchor not found")
		return
	}
	nonNilEntry := func(in ssa.Instruction) bool {
		ret, ok := core.AsReturn(in)
		if !ok || len(ret.Results) != 3 {
			return false
		}
		return !core.IsNilConst(core.ResolveCellLoad(core.ResolveLocalLoad(core.Res(ret, 0))))
	}
	g1, n1 := core.CondEdges(rn, func(at core.Atom) (bool, bool) {
		if at.Op == token.ILLEGAL && core.IsCallResult(at.Base, -1, "(*querylog.queryLog).isIgnored") {
			return true, false
		}
		return false, false
	})
	off1, ns := core.UnguardedSinks(rn, nonNilEntry, g1)
	r.Check(n1 > 0 && ns > 0 && len(off1) == 0, "C08-D3", "file-entry-ignore-list-recheck", p.FnPos(rn),
		"an entry read from the file is returned only if its name is not currently ignored", "a file entry can be returned without re-checking the ignore list", traceOf(p, off1)...)
	g2, n2 := core.CondEdges(rn, func(at core.Atom) (bool, bool) {
		if at.Op == token.ILLEGAL {
			if fr, _, ok := core.LoadedField(at.Base); ok && fr.Type == "querylog.Client" && fr.Field == "IgnoreQueryLog" {
				return true, false
			}
		}
		if (at.Op == token.EQL || at.Op == token.NEQ) && core.IsNilConst(at.Other) && core.TypeKey(at.Base.Type()) == "*querylog.Client" {
			return true, at.Op == token.EQL
		}
		return false, false
	})
	off2, _ := core.UnguardedSinks(rn, nonNilEntry, g2)
	r.Check(n2 > 0 && len(off2) == 0, "C08-D3", "file-entry-client-flag-recheck", p.FnPos(rn),
		"an entry read from the file is returned only if its client is not marked to be ignored", "a file entry can be returned without re-checking the client's ignore flag", traceOf(p, off2)...)
	// the isIgnored argument is the decoded entry's host
	for _, call := range core.CallsTo(rn, "(*querylog.queryLog).isIgnored") {
		fr, _, ok := core.LoadedField(call.Arg(1))
		r.Check(ok && fr.Type == "querylog.logEntry" && fr.Field == "QHost", "C08-D3", "recheck-uses-entry-host", p.InstrPos(call.Instr), "the ignore list is asked about the entry's own name", "the ignore list is asked about something other than the entry's name")
	}
	// entryToJSON applies the anonymiser before serialising the address
	ej := p.Fn("(*querylog.queryLog).entryToJSON")
	if ej == nil {
		r.Undecided("C08-D3", "entryToJSON", "-", "anchor not found")
	} else {
		var anonParam *ssa.Parameter
		for _, prm := range ej.Params {
			if core.NamedKey(prm.Type()) == "aghnet.IPMutFunc" {
				anonParam = prm
			}
		}
		var anon *ssa.Call
		for _, call := range core.Calls(ej) {
			if anonParam != nil && call.Common.Value == ssa.Value(anonParam) {
				anon, _ = call.Instr.(*ssa.Call)
			}
		}
		ok := false
		if anon != nil {
			// the map value stored under "client" is the slice the anonymiser was applied to
			for _, b := range ej.Blocks {
				for _, in := range b.Instrs {
					mu, isMU := in.(*ssa.MapUpdate)
					if !isMU {
						continue
					}
					if k, isK := mu.Key.(*ssa.Const); isK {
						if s, _ := core.ConstString(k); s == "client" {
							if mi, isMI := mu.Value.(*ssa.MakeInterface); isMI && mi.X == anon.Common().Args[0] {
								f, _, _ := core.Reach(core.Query{From: []core.Point{core.Entry(ej)}, Target: func(x ssa.Instruction) bool { return x == in }, Avoid: func(x ssa.Instruction) bool { return x == ssa.Instruction(anon) }})
								ok = !f
							}
						}
					}
				}
			}
		}
		r.Check(ok, "C08-D3", "api-address-anonymised", p.FnPos(ej), "the API reports the address slice the given anonymiser was applied to", "the API can report a client address the anonymiser was not applied to")
	}
	// handleQueryLog passes the loaded anonymiser
	hq := p.Fn("(*querylog.queryLog).handleQueryLog")
	if hq != nil {
		ok := false
		for _, call := range core.CallsTo(hq, "(*querylog.queryLog).entriesToJSON") {
			ok = core.IsCallResult(call.Arg(4), -1, "(*aghnet.IPMut).Load")
		}
		r.Check(ok, "C08-D3", "api-uses-current-anonymiser", p.FnPos(hq), "the query-log API serialises with the currently loaded anonymiser", "the query-log API no longer serialises with the currently loaded anonymiser")
	}
}

func c08Switch(c *Ctx) {
	p, r := c.P, c.R
	n := 0
	for _, fn := range p.ModFnsIn("querylog") {
		stores := core.CallsTo(fn, "(*aghnet.IPMut).Store")
		if len(stores) == 0 {
			continue
		}
		for _, call := range stores {
			n++
			fv, _ := core.FnValue(call.Arg(1))
			isAnon := fv != nil && core.FuncKey(fv) == "querylog.AnonymizeIP"
			isNil := core.IsNilConst(call.Arg(1))
			g, ng := core.CondEdges(fn, func(at core.Atom) (bool, bool) {
				if at.Op == token.ILLEGAL {
					v := core.ResolveCellLoad(at.Base)
					if fr, owner, ok := core.LoadedField(v); ok && strings.Contains(fr.Field, "AnonymizeClientIP") {
						// the setting of the configuration being installed (or of the request), not of the one
						// it replaces: a flag read through l.conf is the old value
						if fo, _, isF := core.LoadedField(core.ResolveCellLoad(owner)); isF && fo.Type == "querylog.queryLog" && fo.Field == "conf" {
							return false, false
						}
						return true, isAnon
					}
					// *bool request field dereferenced
					if u, ok := v.(*ssa.UnOp); ok && u.Op == token.MUL {
						if fr, _, ok := core.LoadedField(u.X); ok && strings.Contains(fr.Field, "AnonymizeClientIP") {
							return true, isAnon
						}
					}
				}
				return false, false
			})
			off, _ := core.UnguardedSinks(fn, func(x ssa.Instruction) bool { return x == call.Instr.(ssa.Instruction) }, g)
			what := "nil"
			if isAnon {
				what = "AnonymizeIP"
			}
			r.Check((isAnon || isNil) && ng > 0 && len(off) == 0, "C08-D4", fmt.Sprintf("anonymiser-switch:%s:%s#%d", core.FuncKey(fn), what, n), p.InstrPos(call.Instr),
				"the anonymiser is set to "+what+" exactly on the matching edge of the anonymize_client_ip setting",
				"the anonymiser is installed/removed on an edge that does not match the anonymize_client_ip setting")
		}
	}
	r.Floor("C08-D4", "anonymiser-switch-sites", n, 4)
}

func c08Mask(c *Ctx) {
	p, r := c.P, c.R
	fn := p.Fn("querylog.AnonymizeIP")
	if fn == nil || len(fn.Params) != 1 {
		r.Undecided("C08-D5", "AnonymizeIP", "-", "anchor not found")
		return
	}
	ip := fn.Params[0]
	var v4, v6 bool
	var v6site ssa.Instruction
	n := 0
	for _, call := range core.Calls(fn) {
		b, ok := call.Common.Value.(*ssa.Builtin)
		if !ok || (b.Name() != "copy" && b.Name() != "clear") {
			continue
		}
		// the destination: a slice expression, or one chosen by control flow (`masked = a[2:]` / `masked = b[6:]`, then one copy)
		for _, lf := range handlerLeaves(core.ResolveCellLoad(call.Common.Args[0])) {
			n++
			var dst *ssa.Slice
			for x := lf.v; dst == nil; {
				switch y := x.(type) {
				case *ssa.Slice:
					dst = y
				case *ssa.ChangeType:
					x = y.X
					continue
				}
				break
			}
			if dst == nil {
				r.Fail("C08-D5", fmt.Sprintf("mask#%d", n), p.InstrPos(call.Instr), "mask destination is not a constant-bounded slice")
				continue
			}
			lo, lok := core.ConstInt(dst.Low)
			if dst.Low == nil || !lok {
				r.Fail("C08-D5", fmt.Sprintf("mask#%d", n), p.InstrPos(call.Instr), "mask bounds are not compile-time constants")
				continue
			}
			base := core.ResolveCellLoad(dst.X)
			isTo4 := core.IsCallResult(base, -1, "(net.IP).To4")
			// an open upper bound is the length of the sliced value: 4 for the result of To4, 16 under the length guard
			hi, hok := int64(0), false
			switch {
			case dst.High != nil:
				hi, hok = core.ConstInt(dst.High)
			case isTo4:
				hi, hok = 4, true
			case base == ssa.Value(ip):
				hi, hok = 16, true // decided together with the len(ip) == 16 guard below
			}
			if !hok {
				r.Fail("C08-D5", fmt.Sprintf("mask#%d", n), p.InstrPos(call.Instr), "mask bounds are not compile-time constants")
				continue
			}
			// source long enough and constant zero
			srcOK := b.Name() == "clear"
			if b.Name() == "copy" {
				if s, ok := core.ConstString(call.Common.Args[1]); ok && int64(len(s)) >= hi-lo && strings.Trim(s, "\x00") == "" {
					srcOK = true
				}
			}
			switch {
			case lo == 2 && hi == 4:
				// destination must be the 4-byte form from To4
				r.Check(isTo4 && srcOK, "C08-D5", "mask-v4", p.InstrPos(call.Instr),
					"bytes [2:4) of the 4-byte form returned by To4 are zeroed (last 16 bits of an IPv4 address, in 4- or 16-byte representation)",
					"the IPv4 mask [2:4) is not applied to the 4-byte form returned by To4: for a 16-byte IPv4-mapped address it would zero bytes of the ::ffff: prefix and leave the address intact")
				v4 = isTo4 && srcOK
			case lo == 6 && hi == 16:
				isIP := base == ssa.Value(ip)
				// guarded by len(ip) == 16
				g, ng := core.CondEdges(fn, func(at core.Atom) (bool, bool) {
					if at.Op == token.EQL || at.Op == token.NEQ {
						if lc, ok := at.Base.(*ssa.Call); ok {
							if bb, ok := lc.Common().Value.(*ssa.Builtin); ok && bb.Name() == "len" && lc.Common().Args[0] == ssa.Value(ip) {
								if k, ok := core.ConstInt(at.Other); ok && k == 16 {
									return true, at.Op == token.EQL
								}
							}
						}
					}
					return false, false
				})
				site := ssa.Instruction(dst)
				v6site = site
				off, _ := core.UnguardedSinks(fn, func(x ssa.Instruction) bool { return x == site }, g)
				r.Check(isIP && srcOK && ng > 0 && len(off) == 0, "C08-D5", "mask-v6", p.InstrPos(call.Instr),
					"bytes [6:16) of a 16-byte address are zeroed (last 80 bits)", "the IPv6 mask is not the constant region [6:16) of the 16-byte address under a length guard")
				v6 = isIP && srcOK
			default:
				r.Fail("C08-D5", fmt.Sprintf("mask-region[%d:%d]", lo, hi), p.InstrPos(call.Instr), fmt.Sprintf("unexpected mask region [%d:%d): the specified widths are the last 2 bytes (IPv4) and last 10 bytes (IPv6)", lo, hi))
			}
		}
	}
	r.Check(v4 && v6, "C08-D5", "both-families-masked", p.FnPos(fn), "both address families are masked", "not both address families are masked")
	// the v4 branch is tried first (an IPv4-mapped 16-byte address must take the v4 mask)
	gV4, nV4 := core.CondEdges(fn, func(at core.Atom) (bool, bool) {
		if (at.Op == token.EQL || at.Op == token.NEQ) && core.IsNilConst(at.Other) && core.IsCallResult(at.Base, -1, "(net.IP).To4") {
			return true, at.Op == token.EQL
		}
		return false, false
	})
	// the v6 mask is reachable only when To4 returned nil
	v6call := v6site
	if v6call != nil {
		off, _ := core.UnguardedSinks(fn, func(x ssa.Instruction) bool { return x == v6call }, gV4)
		r.Check(nV4 > 0 && len(off) == 0, "C08-D5", "v4-form-takes-precedence", p.FnPos(fn),
			"the 80-bit mask applies only to addresses that have no 4-byte form", "an IPv4-mapped address can receive the IPv6 mask (its IPv4 bits would stay)")
	}
}

// c08ClientCache: D6.  The client cache of the log search memoises the
// "ignore this client" decision; it must not outlive one request, otherwise a
// client that has been set to ignored meanwhile is still reported on later
// pages.  Every cache handed to the record readers is a map made in the
// search function itself.
func c08ClientCache(c *Ctx) {
	p, r := c.P, c.R
	sf := p.Fn("(*querylog.queryLog).search")
	if sf == nil {
		r.Undecided("C08-D6", "search", "-", "anchor not found")
		return
	}
	n := 0
	bad := ""
	for _, call := range core.Calls(sf) {
		callee := core.Callee(call.Common)
		if callee == nil || core.PkgOf(callee) != "querylog" {
			continue
		}
		for i, a := range call.Common.Args {
			if core.TypeKey(a.Type()) != "querylog.clientCache" {
				continue
			}
			n++
			v := core.ResolveCellLoad(a)
			if ct, ok := v.(*ssa.ChangeType); ok {
				v = ct.X
			}
			if mm, ok := v.(*ssa.MakeMap); !ok || mm.Parent() != sf {
				bad = fmt.Sprintf("argument %d of %s at %s", i, core.FuncKey(callee), p.InstrPos(call.Instr))
			}
		}
	}
	// nobody keeps a client cache in a field or a package variable
	for _, fn := range p.ModFnsIn("querylog") {
		for _, b := range fn.Blocks {
			for _, in := range b.Instrs {
				if st, ok := in.(*ssa.Store); ok && core.TypeKey(st.Val.Type()) == "querylog.clientCache" {
					switch ad := st.Addr.(type) {
					case *ssa.FieldAddr:
						if _, local := ad.X.(*ssa.Alloc); !local { // a field of a local helper value lives as long as the call
							fr, _ := core.FieldOfAddr(ad)
							bad = "a client cache is stored in the field " + fr.String() + " at " + p.InstrPos(in)
						}
					case *ssa.Global:
						bad = "a client cache is stored in the package variable " + ad.Name() + " at " + p.InstrPos(in)
					}
				}
			}
		}
	}
	clientCacheKeyComplete(c, "C08-D6")
	r.Check(n >= 2 && bad == "", "C08-D6", "client-cache-per-request", p.FnPos(sf),
		"the client cache of a log search is created by that search and handed down; it cannot carry an outdated ignore decision into a later request",
		"the client cache of the log search outlives the request ("+bad+"): a client set to ignored after the first page is still reported on the following pages")
}

// c08DecisionTable evaluates ShouldLog / ShouldCount abstractly over their
// inputs — the client's ignore flag (for the log: a client was found, and its
// IgnoreQueryLog flag; for the statistics: the shouldCountClient callback) and
// the ignore-list lookup of the host parameter — and compares the result with
// "not ignored client and not ignored host" for every combination.  It returns
// false when some combination is undecided.
func c08DecisionTable(c *Ctx, fn *ssa.Function, what string) bool {
	p, r := c.P, c.R
	if len(fn.Params) < 2 {
		return false
	}
	host := fn.Params[1]
	isHost := func(v ssa.Value) bool { return core.ResolveCellLoad(v) == ssa.Value(host) }
	oracle := func(v ssa.Value) (string, bool) {
		switch x := v.(type) {
		case *ssa.Call:
			k := core.CalleeKey(x.Common())
			args := x.Common().Args
			switch {
			case (k == "(*querylog.queryLog).isIgnored" || k == "(*stats.StatsCtx).isIgnored") && len(args) == 2 && isHost(args[1]):
				return "ignored", true
			case k == "(*aghnet.IgnoreEngine).Has" && len(args) == 2 && isHost(args[1]):
				return "ignored", true
			case k == "(*stats.StatsCtx).shouldCountClient":
				return "client", true
			case k == "":
				if fr, _, ok := core.LoadedField(x.Common().Value); ok && fr.Field == "shouldCountClient" {
					return "client", true
				}
			}
		case *ssa.BinOp:
			if (x.Op == token.NEQ || x.Op == token.EQL) && core.IsNilConst(x.Y) && core.TypeKey(x.X.Type()) == "*querylog.Client" {
				if x.Op == token.NEQ {
					return "hasClient", true
				}
				return "noClient", true
			}
		case *ssa.UnOp:
			if x.Op == token.MUL {
				if fr, ok := core.FieldOfAddr(x.X); ok && fr.Type == "querylog.Client" && fr.Field == "IgnoreQueryLog" {
					return "flag", true
				}
			}
		}
		return "", false
	}
	m := core.AbsModel{
		Project:   func(string, core.AbsVal) (string, bool) { return "", false },
		Predicate: func(string, core.AbsVal) (string, bool) { return "", false },
		Oracle:    oracle,
	}
	var bad []string
	n := 0
	for i := 0; i < 16; i++ {
		ignored, client, has, flag := i&1 != 0, i&2 != 0, i&4 != 0, i&8 != 0
		if what == "log" && client {
			continue // not an input of the log decision
		}
		if what != "log" && (has || flag) {
			continue
		}
		f := core.AbsFacts{Pred: map[string][2]bool{"ignored": {ignored}, "client": {client}, "hasClient": {has}, "noClient": {!has}, "flag": {flag}}}
		res, ok, _ := core.AbsEvalResult(fn, m, f, 0)
		if !ok || res.Kind != core.AbsBool {
			return false
		}
		n++
		var want bool
		if what == "log" {
			want = !(has && flag) && !ignored
		} else {
			want = client && !ignored
		}
		if res.Bool != want {
			bad = append(bad, fmt.Sprintf("host ignored=%v, client found=%v ignore flag=%v, client counted=%v: decision=%v, must be %v", ignored, has, flag, client, res.Bool, want))
		}
	}
	r.Eval(n)
	r.Check(len(bad) == 0, "C08-D1", "decision-table:"+core.FuncKey(fn), p.FnPos(fn),
		"the decision equals (the client is not to be ignored) and (the host is not on the ignore list) for every combination of these inputs",
		"the record decision differs from 'client not ignored and host not ignored' for some inputs", bad...)
	return true
}

// clientCacheKeyComplete: the per-search client cache memoises the client
// lookup, whose result depends on both the ClientID and the address of a record
// (an unknown ClientID falls back to the address): the key under which a result
// is remembered and looked up carries exactly those two inputs of the lookup
// (shared by C07, where a shortened key makes a client-name search return
// another client's records, and C08, where it carries one client's ignore flag
// over to another).
func clientCacheKeyComplete(c *Ctx, rule string) {
	p, r := c.P, c.R
	fn := p.Fn("(*querylog.queryLog).client")
	if fn == nil || len(fn.Params) < 3 {
		r.Undecided(rule, "queryLog.client", "-", "anchor not found")
		return
	}
	want := map[string]ssa.Value{"clientID": fn.Params[1], "ip": fn.Params[2]}
	n := 0
	var bad []string
	checkKey := func(k ssa.Value, at ssa.Instruction) {
		n++
		st, ok := k.Type().Underlying().(*types.Struct)
		if !ok {
			bad = append(bad, "the cache key is not the (ClientID, address) struct at "+p.InstrPos(at))
			return
		}
		for i := 0; i < st.NumFields(); i++ {
			name := st.Field(i).Name()
			vals, okF := core.FieldContents(k, i, 0)
			if !okF {
				bad = append(bad, "field "+name+" of the cache key is not resolved at "+p.InstrPos(at))
				continue
			}
			for _, v := range vals {
				if core.ResolveCellLoad(v) != want[name] {
					bad = append(bad, "field "+name+" of the cache key can hold something other than the lookup's "+name+" ("+p.InstrPos(at)+")")
				}
			}
		}
	}
	for _, b := range fn.Blocks {
		for _, in := range b.Instrs {
			switch x := in.(type) {
			case *ssa.Lookup:
				if core.TypeKey(x.X.Type()) == "querylog.clientCache" {
					checkKey(x.Index, in)
				}
			case *ssa.MapUpdate:
				if core.TypeKey(x.Map.Type()) == "querylog.clientCache" {
					checkKey(x.Key, in)
				}
			}
		}
	}
	sort.Strings(bad)
	r.Check(n >= 2 && len(bad) == 0, rule, "client-cache-key-is-the-lookup-input", p.FnPos(fn),
		"the per-search client cache is read and written under the (ClientID, address) pair the client lookup is given",
		"the client cache is keyed by less than the client lookup depends on: records that share a ClientID but come from different addresses get the client of the record visited first", bad...)
}
