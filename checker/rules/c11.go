package rules

import (
	"fmt"
	"go/ast"
	"go/token"
	"go/types"
	"sort"
	"strconv"
	"strings"

	"aghverif/core"

	"golang.org/x/tools/go/ssa"
)

func init() {
	register(&Rule{
		ID:           "C11",
		Run:          runC11,
		ThoroughGOOS: []string{"darwin", "freebsd", "openbsd", "windows"},
		Exhaustive:   true,
		Explanation: "Exhaustive census of every HTTP route registration in the module (direct net/http mux calls, calls of home.httpRegister, calls through any aghhttp.RegisterFunc-typed value), each with constant pattern, constant method, resolved handler and the chain of wrapper functions around the handler. " +
			"Decided: (D1) patterns/methods are compile-time constants; (D2) every RegisterFunc-typed value in the program originates from home.httpRegister; (D3) every route carries the auth wrapper unless it is in the frozen public table taken from the property statement (login call, mobileconfig, DoH resolver, first-run install routes which must carry preInstall), and only the two /dns-query routes use the unauthenticated method \"\" branch of httpRegister; " +
			"(D4) in the closure returned by ensure the handler is reached only with the declared method and, for mutating methods, after the content-type check and under controlLock; (D5) in optionalAuth the wrapped handler is reached only when auth is not required, the path is a public resource or optionalAuthThird returned false, and optionalAuthThird returns false only on a positive session/basic-auth/GL-iNet result; (D6) every http.Server handler derives from the one mux. " +
			"(D8) whoever goes from a session's cookie text to its database record (refresh, expiry, logout) addresses the record with hex.DecodeString of that very text. " +
			"(D8, cont.) checkSession reports OK only for a token found in the table and unexpired, and moves the expiry forward only after it was found to lie in the future (shared with C12-D4). " +
			"Not decided: URL normalisation by net/http, credential and cookie value semantics, expiry arithmetic (C12).",
		RuleText: "Routes are enumerated from SSA call sites resolved by callee (never by name text); wrapper chains by walking the handler argument backwards through calls.",
		Assumptions: []string{
			"net/http.ServeMux dispatches only to registered patterns (trusted stdlib)",
			"the GL-iNet cookie hook (glProcessCookie) is an accepted authenticator, off unless glinet mode is configured",
			"internal/next is not linked into the shipped binary; checked: package main does not import it",
		},
		Trusted: commonTrusted,
	})
}

const (
	kMuxHandle       = "(*net/http.ServeMux).Handle"
	kMuxHandleFunc   = "(*net/http.ServeMux).HandleFunc"
	kHTTPHandle      = "net/http.Handle"
	kHTTPHandleFunc  = "net/http.HandleFunc"
	kHTTPRegister    = "home.httpRegister"
	tRegisterFunc    = "aghhttp.RegisterFunc"
	kOptionalAuth    = "home.optionalAuth"
	kOptionalAuthH   = "home.optionalAuthHandler"
	kPostInstall     = "home.postInstall"
	kPostInstallH    = "home.postInstallHandler"
	kPreInstall      = "home.preInstall"
	kPreInstallH     = "home.preInstallHandler"
	kEnsure          = "home.ensure"
	kEnsureHandler   = "home.ensureHandler"
	kEnsureGET       = "home.ensureGET"
	kEnsurePOST      = "home.ensurePOST"
	kWithMiddlewares = "home.withMiddlewares"
)

// route is one registration found in the program.
type route struct {
	kind    string // "mux" | "registrar"
	pattern string
	method  string
	patOK   bool
	methOK  bool
	handler string
	chain   []string
	pos     string
	fn      *ssa.Function
	instr   ssa.CallInstruction
	param   bool // pattern is a parameter of the enclosing registrar (httpRegister itself)
}

// c11PublicTable: routes that may lack the auth wrapper, with what they need
// instead.  Frozen from the property statement.
var c11PublicTable = map[string]struct {
	need   []string // at least one of these wrappers must be in the chain
	reason string
}{
	"/control/login":                 {[]string{kPostInstall, kPostInstallH}, "the login call itself"},
	"/apple/doh.mobileconfig":        {[]string{kPostInstall, kPostInstallH}, "mobileconfig generator (public by statement)"},
	"/apple/dot.mobileconfig":        {[]string{kPostInstall, kPostInstallH}, "mobileconfig generator (public by statement)"},
	"/install.html":                  {[]string{kPreInstall, kPreInstallH}, "first-run page; refuses once configured"},
	"/control/install/get_addresses": {[]string{kPreInstall, kPreInstallH}, "first-run API; refuses once configured"},
	"/control/install/check_config":  {[]string{kPreInstall, kPreInstallH}, "first-run API; refuses once configured"},
	"/control/install/configure":     {[]string{kPreInstall, kPreInstallH}, "first-run API; refuses once configured"},
}

// c11NoAuthMethodRoutes: the only patterns allowed to be registered with the
// empty method (no auth, no gzip, any method): the DNS-over-HTTPS resolver.
var c11NoAuthMethodRoutes = map[string]bool{"/dns-query": true, "/dns-query/": true}

func isWrapperKey(k string) bool {
	switch k {
	case kOptionalAuth, kOptionalAuthH, kPostInstall, kPostInstallH, kPreInstall, kPreInstallH,
		kEnsure, kEnsureHandler, kEnsureGET, kEnsurePOST, kWithMiddlewares,
		"github.com/NYTimes/gziphandler.GzipHandler":
		return true
	}
	return false
}

func isHandlerType(t types.Type) bool {
	s := core.TypeKey(t)
	if s == "net/http.Handler" || s == "net/http.HandlerFunc" {
		return true
	}
	if sig, ok := t.Underlying().(*types.Signature); ok {
		return sig.Params().Len() == 2 && sig.Results().Len() == 0 &&
			core.TypeKey(sig.Params().At(0).Type()) == "net/http.ResponseWriter"
	}
	return false
}

// wrapperChain walks the handler value backwards.
func wrapperChain(v ssa.Value, depth int) (chain []string, terminal string) {
	if depth > 12 {
		return nil, "?deep"
	}
	switch x := v.(type) {
	case *ssa.Call:
		k := core.CalleeKey(x.Common())
		if k == "" {
			return nil, "?dynamic-call"
		}
		chain = append(chain, k)
		if k == kWithMiddlewares {
			// withMiddlewares(h, mws...): mws is a slice literal of funcs
			var inner ssa.Value
			for i, a := range x.Common().Args {
				if i == 0 {
					inner = a
					continue
				}
				for _, f := range sliceLiteralElems(a) {
					if fn, _ := core.FnValue(f); fn != nil {
						chain = append(chain, core.FuncKey(fn))
					} else {
						chain = append(chain, "?mw")
					}
				}
			}
			c2, t := wrapperChain(inner, depth+1)
			return append(chain, c2...), t
		}
		// continue with the handler-typed argument
		var next ssa.Value
		for _, a := range x.Common().Args {
			if isHandlerType(a.Type()) {
				next = a
			}
		}
		if next == nil {
			return chain, "call:" + k
		}
		c2, t := wrapperChain(next, depth+1)
		return append(chain, c2...), t
	case *ssa.ChangeType:
		return wrapperChain(x.X, depth+1)
	case *ssa.MakeInterface:
		return wrapperChain(x.X, depth+1)
	case *ssa.ChangeInterface:
		return wrapperChain(x.X, depth+1)
	case *ssa.Function:
		return nil, core.FuncKey(x)
	case *ssa.MakeClosure:
		fn, _ := core.FnValue(x)
		return nil, core.FuncKey(fn)
	case *ssa.Parameter:
		return nil, "param:" + x.Name()
	case *ssa.Phi:
		return nil, "?phi"
	}
	return nil, fmt.Sprintf("value:%T", v)
}

// sliceLiteralElems returns the values stored into the backing array of a
// slice built by a variadic call or composite literal.
func sliceLiteralElems(v ssa.Value) (elems []ssa.Value) {
	sl, ok := v.(*ssa.Slice)
	if !ok {
		return nil
	}
	alloc, ok := sl.X.(*ssa.Alloc)
	if !ok {
		return nil
	}
	for _, u := range core.Users(alloc) {
		ia, ok := u.(*ssa.IndexAddr)
		if !ok {
			continue
		}
		for _, u2 := range core.Users(ia) {
			if st, ok := u2.(*ssa.Store); ok && st.Addr == ia {
				elems = append(elems, st.Val)
			}
		}
	}
	return elems
}

func chainHas(chain []string, keys ...string) bool {
	for _, c := range chain {
		for _, k := range keys {
			if c == k {
				return true
			}
		}
	}
	return false
}

// collectRoutes enumerates every registration sink of the module.
func collectRoutes(p *core.Prog, includeNext bool) (routes []route, sites int) {
	for _, fn := range p.ModFns {
		if fn.Blocks == nil {
			continue
		}
		if !includeNext && core.IsNextPkg(fn) {
			continue
		}
		for _, c := range core.Calls(fn) {
			sites++
			var rt route
			rt.fn, rt.instr, rt.pos = fn, c.Instr, p.InstrPos(c.Instr)
			var patV, methV, hV ssa.Value
			switch {
			case c.Key == kMuxHandle || c.Key == kMuxHandleFunc:
				rt.kind = "mux"
				patV, hV = c.Arg(1), c.Arg(2)
			case c.Key == kHTTPHandle || c.Key == kHTTPHandleFunc:
				rt.kind = "mux"
				patV, hV = c.Arg(0), c.Arg(1)
			case c.Key == kHTTPRegister:
				rt.kind = "registrar"
				methV, patV, hV = c.Arg(0), c.Arg(1), c.Arg(2)
			case !c.Common.IsInvoke() && core.Callee(c.Common) == nil && core.NamedKey(c.Common.Value.Type()) == tRegisterFunc:
				rt.kind = "registrar"
				methV, patV, hV = c.Arg(0), c.Arg(1), c.Arg(2)
			default:
				continue
			}
			if patV != nil {
				rt.pattern, rt.patOK = core.ConstString(patV)
				if _, isParam := patV.(*ssa.Parameter); isParam {
					rt.param = true
					rt.pattern = "<param " + patV.Name() + ">"
				}
			}
			if methV != nil {
				rt.method, rt.methOK = core.ConstString(methV)
			} else {
				rt.methOK = true
			}
			if hV != nil {
				// a handler chosen by control flow (`wrapped = a` / `wrapped = b`, then one registration) is as many
				// registrations as it has alternatives
				lvs := handlerLeaves(hV)
				for _, lf := range lvs[1:] {
					rt2 := rt
					rt2.chain, rt2.handler = wrapperChain(lf.v, 0)
					routes = append(routes, rt2)
				}
				rt.chain, rt.handler = wrapperChain(lvs[0].v, 0)
			}
			routes = append(routes, rt)
		}
	}
	sort.Slice(routes, func(i, j int) bool {
		if routes[i].pattern != routes[j].pattern {
			return routes[i].pattern < routes[j].pattern
		}
		return routes[i].pos < routes[j].pos
	})
	return routes, sites
}

func runC11(c *Ctx) {
	p, r := c.P, c.R

	// --- scope: internal/next is not linked into package main
	mainPkg := p.Pkg("main")
	if mainPkg == nil {
		r.Undecided("C11-scope", "main", "-", "package main not loaded")
	} else {
		// packages of the unreleased internal/next tree that register routes
		nextWithRoutes := map[string]bool{}
		allRoutes, _ := collectRoutes(p, true)
		for _, rt := range allRoutes {
			if core.IsNextPkg(rt.fn) {
				nextWithRoutes[core.ModInternal+core.PkgOf(rt.fn)] = true
			}
		}
		r.Info["next_packages_with_routes"] = len(nextWithRoutes)
		seen := map[string]bool{}
		var visit func(path string)
		var linkedNext []string
		visit = func(path string) {
			if seen[path] {
				return
			}
			seen[path] = true
			if nextWithRoutes[path] {
				linkedNext = append(linkedNext, path)
			}
			if pk := p.AllPkg[path]; pk != nil {
				for ip := range pk.Imports {
					visit(ip)
				}
			}
		}
		visit(core.ModPath)
		r.Check(len(linkedNext) == 0, "C11-scope", "next-not-linked", "main.go",
			"package main (default build tags) links no internal/next package that registers routes; those routes are outside the shipped binary",
			fmt.Sprintf("package main now links %v; its route registrations must be brought under the auth rules", linkedNext))
	}

	routes, sites := collectRoutes(p, false)
	r.Eval(sites)

	var nMux, nReg, nConst int
	var table []any
	for _, rt := range routes {
		table = append(table, fmt.Sprintf("%s %q method=%q handler=%s chain=%v @%s", rt.kind, rt.pattern, rt.method, rt.handler, shortChain(rt.chain), rt.pos))
		key := fmt.Sprintf("%s:%s@%s", rt.kind, rt.pattern, core.FuncKey(rt.fn))
		inRegistrar := core.FuncKey(rt.fn) == kHTTPRegister
		// D1: constants
		if rt.kind == "mux" {
			nMux++
			if inRegistrar && rt.param {
				// parametric sink inside httpRegister: handled by D3b
			} else {
				r.Check(rt.patOK, "C11-D1", "const-pattern:"+key, rt.pos,
					"pattern is a compile-time constant", "route pattern is not a compile-time constant; the census cannot decide which URL it serves")
			}
		} else {
			nReg++
			r.Check(rt.patOK && rt.methOK, "C11-D1", "const-args:"+key, rt.pos,
				"pattern and method are compile-time constants", "registrar called with a non-constant pattern or method; cannot decide which URL/method it serves")
		}
		if rt.patOK {
			nConst++
		}

		// D3: wrapper obligation
		switch rt.kind {
		case "mux":
			if inRegistrar && rt.param {
				continue
			}
			if !rt.patOK {
				continue
			}
			hasAuth := chainHas(rt.chain, kOptionalAuth, kOptionalAuthH)
			if pub, ok := c11PublicTable[rt.pattern]; ok {
				r.Check(chainHas(rt.chain, pub.need...) || hasAuth, "C11-D3", "public-route:"+rt.pattern, rt.pos,
					fmt.Sprintf("public by statement (%s); carries %v", pub.reason, shortChain(rt.chain)),
					fmt.Sprintf("public route %s must carry one of %v; chain is %v", rt.pattern, pub.need, shortChain(rt.chain)))
				if strings.HasPrefix(rt.pattern, "/control/install/") {
					wantM := chainHas(rt.chain, kEnsureGET, kEnsurePOST, kEnsure, kEnsureHandler)
					r.Check(wantM, "C11-D3", "install-method-guard:"+rt.pattern, rt.pos, "install route has a method guard", "install route lost its method/content-type guard (ensure*)")
				}
				if rt.pattern == "/control/login" {
					r.Check(chainHas(rt.chain, kEnsure, kEnsureHandler, kEnsurePOST), "C11-D3", "login-method-guard", rt.pos,
						"login accepts only its declared method and JSON", "login route lost its method/content-type guard")
				}
				continue
			}
			r.Check(hasAuth, "C11-D3", "auth-wrapper:"+rt.pattern, rt.pos,
				"direct mux route carries optionalAuth", fmt.Sprintf("route %q is registered directly on the mux without the auth wrapper (chain %v, handler %s)", rt.pattern, shortChain(rt.chain), rt.handler))
		case "registrar":
			if !rt.patOK || !rt.methOK {
				continue
			}
			if rt.method == "" {
				r.Check(c11NoAuthMethodRoutes[rt.pattern], "C11-D3", "noauth-method:"+rt.pattern, rt.pos,
					"DoH resolver route: public by statement",
					fmt.Sprintf("route %q is registered with the empty method, which skips authentication in httpRegister; only the DNS-over-HTTPS resolver may do that", rt.pattern))
			} else {
				switch rt.method {
				case "GET", "POST", "PUT", "DELETE", "HEAD", "PATCH", "OPTIONS":
					r.Ok("C11-D3", "registrar-route:"+rt.method+":"+rt.pattern, rt.pos, "registered through the authenticated branch of httpRegister")
				default:
					r.Fail("C11-D3", "registrar-route:"+rt.method+":"+rt.pattern, rt.pos, fmt.Sprintf("unknown method %q", rt.method))
				}
				if c11NoAuthMethodRoutes[rt.pattern] {
					// fine either way
				}
			}
		}
	}
	r.Info["routes_linux_table"] = table
	r.Floor("C11-D1", "mux-registrations", nMux, 11)
	r.Floor("C11-D1", "registrar-calls", nReg, 70)

	c11Registrar(c)
	c11Provenance(c)
	c11Ensure(c)
	c11OptionalAuth(c)
	c11Servers(c)
	c11WrapperShapes(c)
	c11AuthPredicate(c)
	sessionKeyForm(c, "C11-D8")
	sessionValidity(c, "C11-D8")
}

// c11AuthPredicate: D7 — "once an administrator account exists": the state
// authRequired consults must be kept in step with the user list by every
// function that changes the user list (sibling agreement).
func c11AuthPredicate(c *Ctx) {
	p, r := c.P, c.R
	ar := p.Fn("(*home.Auth).authRequired")
	if ar == nil || ar.Blocks == nil {
		r.Undecided("C11-D7", "authRequired", "-", "anchor (*home.Auth).authRequired not found")
		return
	}
	authFieldsOf := func(fn *ssa.Function, writeOnly bool) map[string]bool {
		out := map[string]bool{}
		for _, f := range core.WithAnon(fn) {
			for _, b := range f.Blocks {
				for _, in := range b.Instrs {
					fa, ok := in.(*ssa.FieldAddr)
					if !ok {
						continue
					}
					fr, ok := core.FieldOfAddr(fa)
					if !ok || fr.Type != "home.Auth" {
						continue
					}
					if !writeOnly {
						out[fr.Field] = true
						continue
					}
					for _, u := range core.Users(fa) {
						switch y := u.(type) {
						case *ssa.Store:
							if y.Addr == fa {
								out[fr.Field] = true
							}
						case ssa.CallInstruction:
							out[fr.Field] = true // address handed to a call (e.g. atomic Store)
						}
					}
				}
			}
		}
		return out
	}
	consulted := authFieldsOf(ar, false)
	delete(consulted, "lock")
	var cons []string
	for f := range consulted {
		cons = append(cons, f)
	}
	sort.Strings(cons)
	r.Check(len(cons) > 0, "C11-D7", "authRequired:consults-state", p.FnPos(ar),
		fmt.Sprintf("authRequired decides from Auth fields %v", cons), "authRequired no longer consults any Auth state")
	writers := 0
	for _, fn := range p.ModFnsIn("home") {
		if fn.Blocks == nil || fn.Parent() != nil {
			continue
		}
		w := authFieldsOf(fn, true)
		if !w["users"] {
			continue
		}
		writers++
		var missing []string
		for _, f := range cons {
			if f != "users" && !w[f] {
				missing = append(missing, f)
			}
		}
		r.Check(len(missing) == 0, "C11-D7", "user-list-writer:"+core.FuncKey(fn), p.FnPos(fn),
			"changes the user list and keeps everything authRequired consults in step",
			fmt.Sprintf("%s changes Auth.users but not %v, which authRequired consults: after this call the auth requirement is stale (e.g. first user added at run time leaves every endpoint open)", core.FuncKey(fn), missing))
	}
	r.Floor("C11-D7", "user-list-writers", writers, 2)
}

func shortChain(ch []string) []string {
	out := make([]string, len(ch))
	for i, s := range ch {
		s = strings.TrimPrefix(s, "home.")
		s = strings.TrimPrefix(s, "github.com/NYTimes/gziphandler.")
		out[i] = s
	}
	return out
}

// c11Registrar: inside home.httpRegister, the only sink without the auth
// wrapper lies on the method == "" edge; the other sink has auth + ensure.
func c11Registrar(c *Ctx) {
	p, r := c.P, c.R
	fn := p.Fn(kHTTPRegister)
	if fn == nil || fn.Blocks == nil {
		r.Undecided("C11-D3", "httpRegister", "-", "anchor home.httpRegister not found")
		return
	}
	if len(fn.Params) != 3 {
		r.Undecided("C11-D3", "httpRegister", p.FnPos(fn), "unexpected signature")
		return
	}
	methodParam := fn.Params[0]
	emptyEdges, n := core.CondEdges(fn, func(a core.Atom) (bool, bool) {
		if a.Base == methodParam && (a.Op == token.EQL || a.Op == token.NEQ) {
			if s, ok := core.ConstString(a.Other); ok && s == "" {
				return true, a.Op == token.EQL
			}
		}
		return false, false
	})
	_ = n
	sinks := 0
	for _, call := range core.CallsTo(fn, kMuxHandle, kMuxHandleFunc, kHTTPHandle, kHTTPHandleFunc) {
		hIdx := 2
		if call.Key == kHTTPHandle || call.Key == kHTTPHandleFunc {
			hIdx = 1
		}
		for _, lf := range handlerLeaves(call.Arg(hIdx)) {
			sinks++
			chain, term := wrapperChain(lf.v, 0)
			pos := p.InstrPos(call.Instr)
			key := fmt.Sprintf("httpRegister-sink:%v", shortChain(chain))
			if chainHas(chain, kOptionalAuth, kOptionalAuthH) {
				ok := chainHas(chain, kEnsure, kEnsureHandler) && chainHas(chain, kPostInstall, kPostInstallH)
				r.Check(ok, "C11-D3", key, pos, "authenticated branch: postInstall(optionalAuth(..ensure(method, h)))",
					fmt.Sprintf("authenticated branch of httpRegister lost ensure/postInstall: chain %v", shortChain(chain)))
				// ensure must receive the method parameter and the handler parameter
				for _, ec := range core.CallsTo(fn, kEnsure, kEnsureHandler) {
					okArgs := ec.Arg(0) == methodParam
					r.Check(okArgs, "C11-D3", "httpRegister-ensure-method", p.InstrPos(ec.Instr), "ensure receives the registrar's method parameter", "ensure is not given the method the route was registered with")
				}
				if term != "param:handler" && !strings.HasPrefix(term, "param:") {
					r.Fail("C11-D3", "httpRegister-handler", pos, "wrapped value is not the handler parameter: "+term)
				}
				continue
			}
			// unauthenticated sink: must be guarded by method == "" (for an alternative of a handler chosen by control
			// flow: the place the alternative comes from)
			target := ssa.Instruction(call.Instr)
			if lf.pred != nil {
				target = lf.pred.Instrs[len(lf.pred.Instrs)-1]
			}
			off, _ := core.UnguardedSinks(fn, func(in ssa.Instruction) bool { return in == target }, emptyEdges)
			r.Check(len(off) == 0, "C11-D3", key, pos,
				"unauthenticated branch is reached only when method == \"\"",
				"httpRegister registers a handler without the auth wrapper on a path not guarded by method == \"\"")
		}
	}
	r.Check(sinks >= 2, "C11-D3", "floor:httpRegister-sinks", p.FnPos(fn), "both registrar sinks found", "registrar sinks not found in httpRegister")
}

// c11Provenance: every aghhttp.RegisterFunc-typed value stored or passed in
// the module originates from home.httpRegister (or nil, or another
// RegisterFunc-typed location).
func c11Provenance(c *Ctx) {
	p, r := c.P, c.R
	n := 0
	roots := 0
	check := func(v ssa.Value, where ssa.Instruction, what string) {
		n++
		for _, leaf := range core.FlattenPhi(v) {
			pos := p.InstrPos(where)
			key := fmt.Sprintf("registrar-origin:%s@%s", what, core.FuncKey(where.Parent()))
			switch x := leaf.(type) {
			case *ssa.Function:
				if core.FuncKey(x) == kHTTPRegister {
					roots++
					r.Ok("C11-D2", key, pos, "origin home.httpRegister")
				} else {
					r.Fail("C11-D2", key, pos, fmt.Sprintf("a registrar other than home.httpRegister (%s) is handed out; routes registered through it bypass the auth wrapper", core.FuncKey(x)))
				}
			case *ssa.MakeClosure:
				fn, _ := core.FnValue(x)
				r.Fail("C11-D2", key, pos, fmt.Sprintf("a closure (%s) is used as registrar; routes registered through it bypass home.httpRegister", core.FuncKey(fn)))
			case *ssa.Const:
				if x.IsNil() {
					r.Ok("C11-D2", key, pos, "nil registrar")
				} else {
					r.Fail("C11-D2", key, pos, "constant registrar?")
				}
			case *ssa.Parameter, *ssa.FreeVar:
				if core.NamedKey(leaf.Type()) == tRegisterFunc {
					r.Ok("C11-D2", key, pos, "copy of a RegisterFunc-typed parameter")
				} else {
					r.Fail("C11-D2", key, pos, "registrar converted from an untyped function parameter")
				}
			case *ssa.UnOp:
				if core.NamedKey(x.Type()) == tRegisterFunc {
					r.Ok("C11-D2", key, pos, "copy of a RegisterFunc-typed location")
				} else {
					r.Fail("C11-D2", key, pos, "registrar loaded from a location of another type")
				}
			case *ssa.Field:
				if core.NamedKey(x.Type()) == tRegisterFunc {
					r.Ok("C11-D2", key, pos, "copy of a RegisterFunc-typed field")
				} else {
					r.Fail("C11-D2", key, pos, "registrar from a field of another type")
				}
			default:
				r.Fail("C11-D2", key, pos, fmt.Sprintf("registrar value of unrecognised origin (%T)", leaf))
			}
		}
	}
	for _, fn := range p.ModFns {
		if fn.Blocks == nil || core.IsNextPkg(fn) {
			continue
		}
		for _, b := range fn.Blocks {
			for _, in := range b.Instrs {
				switch x := in.(type) {
				case *ssa.Store:
					pt, ok := x.Addr.Type().Underlying().(*types.Pointer)
					if ok && core.NamedKey(pt.Elem()) == tRegisterFunc {
						what := "store"
						if fr, ok := core.FieldOfAddr(x.Addr); ok {
							what = "store:" + fr.String()
						}
						check(x.Val, in, what)
					}
				case ssa.CallInstruction:
					sig := x.Common().Signature()
					args := x.Common().Args
					off := 0
					if sig.Recv() != nil && !x.Common().IsInvoke() {
						off = 1
					}
					for i := 0; i < sig.Params().Len() && i+off < len(args); i++ {
						if core.NamedKey(sig.Params().At(i).Type()) == tRegisterFunc {
							check(args[i+off], in, fmt.Sprintf("arg%d:%s", i, core.CalleeKey(x.Common())))
						}
					}
				case *ssa.ChangeType:
					// conversion of some func to RegisterFunc outside a store/arg
					if core.NamedKey(x.Type()) == tRegisterFunc {
						used := false
						for _, u := range core.Users(x) {
							switch u.(type) {
							case *ssa.Store, ssa.CallInstruction:
								used = true
							}
						}
						if !used {
							check(x.X, in, "convert")
						}
					}
				}
			}
		}
	}
	r.Eval(n)
	r.Floor("C11-D2", "registrar-stores-and-args", n, 8)
	r.Floor("C11-D2", "registrar-roots", roots, 2)
}

// c11Ensure: D4 on the closure returned by home.ensure.
func c11Ensure(c *Ctx) {
	p, r := c.P, c.R
	outer := p.Fn(kEnsure)
	if outer == nil || len(outer.AnonFuncs) != 1 {
		r.Undecided("C11-D4", "ensure", "-", "anchor home.ensure with exactly one closure not found")
		return
	}
	fn := outer.AnonFuncs[0]
	var fvHandler, fvMethod *ssa.FreeVar
	for _, fv := range fn.FreeVars {
		switch {
		case isHandlerType(core.FreeVarElem(fv)):
			fvHandler = fv
		case types.Identical(core.FreeVarElem(fv).Underlying(), types.Typ[types.String]):
			fvMethod = fv
		}
	}
	if fvHandler == nil || fvMethod == nil {
		r.Undecided("C11-D4", "ensure", p.FnPos(fn), "closure does not capture (method, handler)")
		return
	}
	isSink := func(in ssa.Instruction) bool {
		call, ok := in.(*ssa.Call)
		return ok && core.FreeVarOf(call.Common().Value) == fvHandler
	}
	isReqMethod := func(v ssa.Value) bool {
		fr, _, ok := core.LoadedField(v)
		return ok && fr == core.FieldRef{Type: "net/http.Request", Field: "Method"}
	}
	// guard 1: r.Method == method
	g1, n1 := core.CondEdges(fn, func(a core.Atom) (bool, bool) {
		if a.Op != token.EQL && a.Op != token.NEQ {
			return false, false
		}
		if (isReqMethod(a.Base) && core.FreeVarOf(a.Other) == fvMethod) || (isReqMethod(a.Other) && core.FreeVarOf(a.Base) == fvMethod) {
			return true, a.Op == token.EQL
		}
		return false, false
	})
	off, ns := core.UnguardedSinks(fn, isSink, g1)
	r.Eval(ns + n1)
	if ns == 0 {
		r.Undecided("C11-D4", "ensure-sink", p.FnPos(fn), "call of the wrapped handler not found in ensure's closure")
		return
	}
	r.Check(len(off) == 0, "C11-D4", "ensure:method-guard", p.FnPos(fn),
		"handler reached only when r.Method equals the declared method",
		"the handler can be reached without the request method being compared with the declared method", traceOf(p, off)...)

	// guard 2: modifiesData(m) false, or ensureContentType true
	g2, _ := core.CondEdges(fn, func(a core.Atom) (bool, bool) {
		if a.Op != token.ILLEGAL {
			return false, false
		}
		if core.IsCallResult(a.Base, -1, "home.modifiesData") {
			return true, false
		}
		if core.IsCallResult(a.Base, -1, "home.ensureContentType") {
			return true, true
		}
		return false, false
	})
	// the path through modifiesData-true must pass ensureContentType-true:
	// remove "modifiesData false" and "ensureContentType true" edges: sink unreachable.
	off2, _ := core.UnguardedSinks(fn, isSink, g2)
	r.Check(len(off2) == 0, "C11-D4", "ensure:content-type-guard", p.FnPos(fn),
		"for mutating methods the handler is reached only after ensureContentType returned true",
		"a mutating request can reach the handler without the JSON content-type check", traceOf(p, off2)...)

	// guard 3: controlLock taken for mutating methods
	gMod, _ := core.CondEdges(fn, func(a core.Atom) (bool, bool) {
		if a.Op == token.ILLEGAL && core.IsCallResult(a.Base, -1, "home.modifiesData") {
			return true, false
		}
		return false, false
	})
	found, tr, _ := core.Reach(core.Query{
		From:       []core.Point{core.Entry(fn)},
		Target:     isSink,
		AvoidEdges: gMod,
		Avoid: func(in ssa.Instruction) bool {
			call, ok := in.(*ssa.Call)
			if !ok || core.CalleeKey(call.Common()) != "(*sync.Mutex).Lock" {
				return false
			}
			fr, ok := core.FieldOfAddr(call.Common().Args[0])
			return ok && fr.Field == "controlLock"
		},
	})
	r.Check(!found, "C11-D4", "ensure:control-lock", p.FnPos(fn),
		"for mutating methods the handler runs under controlLock",
		"a mutating request can reach the handler without controlLock", p.TraceString(tr))

	// modifiesData covers POST, PUT, DELETE
	md := p.Fn("home.modifiesData")
	if md == nil {
		r.Undecided("C11-D4", "modifiesData", "-", "anchor not found")
	} else {
		got := map[string]bool{}
		for _, b := range md.Blocks {
			for _, in := range b.Instrs {
				if bo, ok := in.(*ssa.BinOp); ok && bo.Op == token.EQL {
					if s, ok := core.ConstString(bo.Y); ok {
						got[s] = true
					}
					if s, ok := core.ConstString(bo.X); ok {
						got[s] = true
					}
				}
			}
		}
		r.Check(got["POST"] && got["PUT"] && got["DELETE"], "C11-D4", "modifiesData:methods", p.FnPos(md),
			"modifiesData recognises POST, PUT and DELETE", fmt.Sprintf("modifiesData no longer recognises all of POST/PUT/DELETE: %v", got))
	}

	// ensureContentType: every `return true` requires cType == application/json or (ContentLength == 0 and cType == "")
	ect := p.Fn("home.ensureContentType")
	if ect == nil {
		r.Undecided("C11-D4", "ensureContentType", "-", "anchor not found")
		return
	}
	gCT, nCT := core.CondEdges(ect, func(a core.Atom) (bool, bool) {
		if a.Op != token.EQL && a.Op != token.NEQ {
			return false, false
		}
		s, ok := core.ConstString(a.Other)
		if !ok {
			return false, false
		}
		if !core.IsCallResult(a.Base, -1, "(net/http.Header).Get") {
			return false, false
		}
		if s == "application/json" || s == "" {
			return true, a.Op == token.EQL
		}
		return false, false
	})
	offCT, nRet := core.UnguardedSinks(ect, func(in ssa.Instruction) bool {
		ret, ok := core.AsReturn(in)
		if !ok || len(ret.Results) != 1 {
			return false
		}
		b, isC := core.ConstBool(core.Res(ret, 0))
		return !isC || b
	}, gCT)
	r.Eval(nCT + nRet)
	r.Check(nRet > 0 && len(offCT) == 0, "C11-D4", "ensureContentType:true-only-json-or-empty", p.FnPos(ect),
		"ensureContentType returns true only when the content type equals application/json, or is empty",
		"ensureContentType can return true without the content type having been compared with application/json / empty", traceOf(p, offCT)...)
}

func traceOf(p *core.Prog, off []core.Offender) []string {
	var out []string
	for _, o := range off {
		out = append(out, "sink "+p.InstrPos(o.Instr)+" reachable via "+p.TraceString(o.Trace))
	}
	return out
}

// c11OptionalAuth: D5.
func c11OptionalAuth(c *Ctx) {
	p, r := c.P, c.R
	outer := p.Fn(kOptionalAuth)
	if outer == nil || len(outer.AnonFuncs) != 1 {
		r.Undecided("C11-D5", "optionalAuth", "-", "anchor home.optionalAuth with exactly one closure not found")
		return
	}
	fn := outer.AnonFuncs[0]
	var fvH *ssa.FreeVar
	for _, fv := range fn.FreeVars {
		if isHandlerType(core.FreeVarElem(fv)) {
			fvH = fv
		}
	}
	if fvH == nil {
		r.Undecided("C11-D5", "optionalAuth", p.FnPos(fn), "closure does not capture the handler")
		return
	}
	isSink := func(in ssa.Instruction) bool {
		call, ok := in.(*ssa.Call)
		return ok && core.FreeVarOf(call.Common().Value) == fvH
	}
	isURLPath := func(v ssa.Value) bool {
		fr, _, ok := core.LoadedField(v)
		return ok && fr == core.FieldRef{Type: "net/url.URL", Field: "Path"}
	}
	// authRequired: a value whose leaves are all either const false or the
	// result of (*Auth).authRequired
	isAuthRequired := func(v ssa.Value) bool {
		leaves := core.FlattenPhi(v)
		has := false
		for _, l := range leaves {
			if b, ok := core.ConstBool(l); ok && !b {
				continue
			}
			if core.IsCallResult(l, -1, "(*home.Auth).authRequired") {
				has = true
				continue
			}
			return false
		}
		return has
	}
	var unknownConds []string
	guards, n := core.CondEdges(fn, func(a core.Atom) (bool, bool) {
		switch {
		case a.Op == token.ILLEGAL && isAuthRequired(a.Base):
			return true, false // pass when auth not required
		case a.Op == token.ILLEGAL && core.IsCallResult(a.Base, -1, "home.optionalAuthThird"):
			return true, false // pass when no need to authenticate first
		case a.Op == token.ILLEGAL && core.IsCallResult(a.Base, -1, "home.isPublicResource"):
			return true, true
		case (a.Op == token.EQL || a.Op == token.NEQ) && isURLPath(a.Base):
			if s, ok := core.ConstString(a.Other); ok && s == "/login.html" {
				return true, a.Op == token.EQL
			}
		}
		return false, false
	})
	_ = unknownConds
	off, ns := core.UnguardedSinks(fn, isSink, guards)
	r.Eval(n + ns)
	if ns == 0 {
		r.Undecided("C11-D5", "optionalAuth-sink", p.FnPos(fn), "call of the wrapped handler not found")
	} else {
		r.Check(len(off) == 0, "C11-D5", "optionalAuth:handler-guard", p.FnPos(fn),
			"wrapped handler reached only via {auth not required, /login.html, public resource, optionalAuthThird == false}",
			"the wrapped handler can be reached on a path that passes none of the accepted auth decisions", traceOf(p, off)...)
	}
	// the /login.html bypass compares with exactly that constant (checked above), and
	// isPublicResource matches only the two constant patterns.
	ipr := p.Fn("home.isPublicResource")
	if ipr == nil {
		r.Undecided("C11-D5", "isPublicResource", "-", "anchor not found")
	} else {
		var pats []string
		okShape := true
		for _, call := range core.Calls(ipr) {
			if call.Key == "path.Match" {
				s, ok := core.ConstString(call.Arg(0))
				if ok {
					pats = append(pats, s)
					continue
				}
				// the patterns may sit in a package-level table that is ranged over: the pattern is then a field of
				// an element of that table, and the table's literal lists them all; nothing else may write the table
				tbl := c11TablePatterns(p, call.Arg(0))
				if tbl == nil {
					okShape = false
				}
				pats = append(pats, tbl...)
			}
		}
		sort.Strings(pats)
		want := []string{"/assets/*", "/login.*"}
		r.Check(okShape && fmt.Sprint(pats) == fmt.Sprint(want), "C11-D5", "isPublicResource:patterns", p.FnPos(ipr),
			"public resources are exactly /assets/* and /login.*",
			fmt.Sprintf("public-resource patterns changed: %v (statement allows only the login page and static assets)", pats))
		// every `return true`-capable return derives from the two match results only
		for _, b := range ipr.Blocks {
			for _, in := range b.Instrs {
				ret, ok := core.AsReturn(in)
				if !ok || len(ret.Results) != 1 {
					continue
				}
				for _, l := range core.FlattenPhi(core.Res(ret, 0)) {
					if _, isConst := core.ConstBool(l); isConst {
						if bv, _ := core.ConstBool(l); !bv {
							continue
						}
						// constant true leaf arises from `a || b` lowering: the edge from the block testing a.
						continue
					}
					if core.IsCallResult(l, 0, "path.Match") {
						continue
					}
					r.Fail("C11-D5", "isPublicResource:result-origin", p.InstrPos(in), fmt.Sprintf("isPublicResource result depends on something other than the two pattern matches (%T)", l))
				}
			}
		}
		// a const-true leaf must be guarded by a Match result: every path to return passes a true edge of a Match result or returns the other Match result
		gM, _ := core.CondEdges(ipr, func(a core.Atom) (bool, bool) {
			if a.Op == token.ILLEGAL && core.IsCallResult(a.Base, 0, "path.Match") {
				return true, true
			}
			return false, false
		})
		bad := 0
		for _, b := range ipr.Blocks {
			for _, in := range b.Instrs {
				ret, ok := core.AsReturn(in)
				if !ok || len(ret.Results) != 1 {
					continue
				}
				phi, isPhi := core.Res(ret, 0).(*ssa.Phi)
				if !isPhi {
					continue
				}
				for i, e := range phi.Edges {
					if bv, ok := core.ConstBool(e); ok && bv {
						// predecessor i must end in an If on a Match result with this edge being the true edge
						pred := phi.Block().Preds[i]
						okEdge := false
						for si, s := range pred.Succs {
							if s == phi.Block() && gM[core.Edge{From: pred, Succ: si}] {
								okEdge = true
							}
						}
						if !okEdge {
							bad++
						}
					}
				}
			}
		}
		r.Check(bad == 0, "C11-D5", "isPublicResource:true-only-on-match", p.FnPos(ipr), "true is produced only on a successful pattern match", "isPublicResource can yield true without a successful pattern match")
	}

	// optionalAuthThird: `return false` only after positive authentication
	oat := p.Fn("home.optionalAuthThird")
	if oat == nil {
		r.Undecided("C11-D5", "optionalAuthThird", "-", "anchor not found")
		return
	}
	positiveLeaf := func(l ssa.Value) bool {
		if core.IsCallResult(l, 1, "(*home.Auth).findUser") {
			return true
		}
		if bo, ok := l.(*ssa.BinOp); ok && bo.Op == token.EQL {
			isOK := func(v ssa.Value) bool {
				cst, ok := v.(*ssa.Const)
				return ok && core.NamedKey(cst.Type()) == "home.checkSessionResult" && isConstNamed(p, cst, "home", "checkSessionOK")
			}
			if (core.IsCallResult(bo.X, -1, "(*home.Auth).checkSession") && isOK(bo.Y)) ||
				(core.IsCallResult(bo.Y, -1, "(*home.Auth).checkSession") && isOK(bo.X)) {
				return true
			}
		}
		return false
	}
	isAuthenticated := func(v ssa.Value) bool {
		has := false
		for _, l := range core.FlattenPhi(v) {
			if b, ok := core.ConstBool(l); ok && !b {
				continue
			}
			if positiveLeaf(l) {
				has = true
				continue
			}
			return false
		}
		return has
	}
	g, n2 := core.CondEdges(oat, func(a core.Atom) (bool, bool) {
		if a.Op == token.ILLEGAL && core.IsCallResult(a.Base, -1, "home.glProcessCookie") {
			return true, true
		}
		if a.Op == token.ILLEGAL && isAuthenticated(a.Base) {
			return true, true
		}
		if a.Op == token.ILLEGAL && positiveLeaf(a.Base) {
			return true, true
		}
		// the session check compared in the branch itself: checkSession(...) == checkSessionOK
		if (a.Op == token.EQL || a.Op == token.NEQ) && core.IsCallResult(core.ResolveCellLoad(a.Base), -1, "(*home.Auth).checkSession") {
			if cst, ok := a.Other.(*ssa.Const); ok && core.NamedKey(cst.Type()) == "home.checkSessionResult" && isConstNamed(p, cst, "home", "checkSessionOK") {
				return true, a.Op == token.EQL
			}
		}
		return false, false
	})
	offT, nRet := core.UnguardedSinks(oat, func(in ssa.Instruction) bool {
		ret, ok := core.AsReturn(in)
		if !ok || len(ret.Results) != 1 {
			return false
		}
		b, isC := core.ConstBool(core.Res(ret, 0))
		return !isC || !b // may return false
	}, g)
	r.Eval(n2 + nRet)
	r.Check(nRet > 0 && len(offT) == 0, "C11-D5", "optionalAuthThird:false-only-when-authenticated", p.FnPos(oat),
		"optionalAuthThird lets a request through only after checkSession == OK, findUser ok, or the GL-iNet cookie",
		"optionalAuthThird can return false (let the request through) on a path with no positive authentication result", traceOf(p, offT)...)
}

// isConstNamed reports whether cst equals the declared constant pkg.name.
func isConstNamed(p *core.Prog, cst *ssa.Const, pkgShort, name string) bool {
	pk := p.Pkg(pkgShort)
	if pk == nil {
		return false
	}
	obj, ok := pk.Types.Scope().Lookup(name).(*types.Const)
	if !ok || cst.Value == nil {
		return false
	}
	return obj.Val().ExactString() == cst.Value.ExactString()
}

// c11WrapperShapes: the Handler forms delegate to the func forms.
func c11WrapperShapes(c *Ctx) {
	p, r := c.P, c.R
	// (*authHandler).ServeHTTP calls optionalAuth; optionalAuthHandler returns *authHandler
	type shape struct{ fn, mustCall, why string }
	for _, s := range []shape{
		{"(*home.authHandler).ServeHTTP", kOptionalAuth, "authHandler delegates to optionalAuth"},
		{"(*home.preInstallHandlerStruct).ServeHTTP", kPreInstall, "preInstallHandler delegates to preInstall"},
		{kEnsureHandler, kEnsure, "ensureHandler delegates to ensure"},
		{kEnsureGET, kEnsure, "ensureGET delegates to ensure"},
		{kEnsurePOST, kEnsure, "ensurePOST delegates to ensure"},
	} {
		fn := p.Fn(s.fn)
		if (s.fn == kEnsureGET || s.fn == kEnsurePOST) && p.FnExact(s.fn) == nil && fn != nil {
			// the convenience wrapper was folded into its callers, which now call ensure with the method themselves
			// (the registrations are judged per URL)
			r.Ok("C11-D3", "wrapper-shape:"+s.fn, p.FnPos(fn), s.fn+" is gone: its callers call ensure themselves")
			continue
		}
		if fn == nil {
			r.Undecided("C11-D3", "wrapper-shape:"+s.fn, "-", "anchor not found")
			continue
		}
		// every path to return passes a call of mustCall
		found, tr, _ := core.Reach(core.Query{From: []core.Point{core.Entry(fn)}, Target: core.IsReturn, Avoid: core.IsCallTo(false, s.mustCall)})
		r.Check(!found, "C11-D3", "wrapper-shape:"+s.fn, p.FnPos(fn), s.why, s.fn+" can return without going through "+s.mustCall, p.TraceString(tr))
	}
	// ensureGET/POST pass the right constant
	for fnk, m := range map[string]string{kEnsureGET: "GET", kEnsurePOST: "POST"} {
		fn := p.FnExact(fnk)
		if fn == nil {
			continue
		}
		for _, call := range core.CallsTo(fn, kEnsure) {
			s, ok := core.ConstString(call.Arg(0))
			r.Check(ok && s == m, "C11-D3", "wrapper-method:"+fnk, p.InstrPos(call.Instr), fnk+" passes "+m, fnk+" passes a different method: "+s)
		}
	}
	// preInstall: handler only when firstRun
	pre := p.Fn(kPreInstall)
	if pre == nil || len(pre.AnonFuncs) != 1 {
		r.Undecided("C11-D3", "preInstall", "-", "anchor home.preInstall with one closure not found")
	} else {
		fn := pre.AnonFuncs[0]
		var fvH *ssa.FreeVar
		for _, fv := range fn.FreeVars {
			if isHandlerType(core.FreeVarElem(fv)) {
				fvH = fv
			}
		}
		g, _ := core.CondEdges(fn, func(a core.Atom) (bool, bool) {
			if a.Op == token.ILLEGAL {
				if fr, _, ok := core.LoadedField(a.Base); ok && fr.Field == "firstRun" {
					return true, true
				}
			}
			return false, false
		})
		off, ns := core.UnguardedSinks(fn, func(in ssa.Instruction) bool {
			call, ok := in.(*ssa.Call)
			return ok && fvH != nil && core.FreeVarOf(call.Common().Value) == fvH
		}, g)
		r.Check(ns > 0 && len(off) == 0, "C11-D3", "preInstall:first-run-only", p.FnPos(fn),
			"install handlers run only while firstRun is true", "preInstall lets the handler run after the first run", traceOf(p, off)...)
	}
	// optionalAuthHandler returns an *authHandler wrapping its argument
	oah := p.Fn(kOptionalAuthH)
	if oah == nil {
		r.Undecided("C11-D3", "optionalAuthHandler", "-", "anchor not found")
	} else {
		ok := false
		for _, b := range oah.Blocks {
			for _, in := range b.Instrs {
				if ret, isRet := core.AsReturn(in); isRet && len(ret.Results) == 1 {
					for _, l := range core.FlattenPhi(core.Res(ret, 0)) {
						if core.TypeKey(l.Type()) == "*home.authHandler" {
							ok = true
						} else {
							ok = false
						}
					}
				}
			}
		}
		r.Check(ok, "C11-D3", "optionalAuthHandler:returns-authHandler", p.FnPos(oah), "optionalAuthHandler returns *authHandler", "optionalAuthHandler no longer returns the authenticating handler")
	}
}

// c11Servers: D6 — every http.Server / http3.Server Handler in home derives
// from globalContext.mux (or is the pprof debug mux).
func c11Servers(c *Ctx) {
	p, r := c.P, c.R
	n := 0
	for _, fn := range p.ModFnsIn("home") {
		if fn.Blocks == nil {
			continue
		}
		for _, b := range fn.Blocks {
			for _, in := range b.Instrs {
				st, ok := in.(*ssa.Store)
				if !ok {
					continue
				}
				fr, ok := core.FieldOfAddr(st.Addr)
				if !ok || fr.Field != "Handler" {
					continue
				}
				if fr.Type != "net/http.Server" && fr.Type != "github.com/quic-go/quic-go/http3.Server" {
					continue
				}
				n++
				ok2, why := derivesFromMux(st.Val, 0)
				r.Check(ok2, "C11-D6", fmt.Sprintf("server-handler:%s@%s", fr.Type, core.FuncKey(fn)), p.InstrPos(in),
					"server handler derives from globalContext.mux: "+why,
					"an HTTP server in home serves a handler that does not derive from the authenticated mux: "+why)
			}
		}
		// http.ListenAndServe(addr, h) / http.Serve
		for _, call := range core.CallsTo(fn, "net/http.ListenAndServe", "net/http.ListenAndServeTLS", "net/http.Serve") {
			n++
			h := call.Arg(1)
			if call.Key == "net/http.ListenAndServeTLS" {
				h = call.Arg(3)
			}
			// accepted: the pprof debug mux (local NewServeMux whose only registrations come from httputil.RoutePprof)
			okP := isPprofMux(h)
			r.Check(okP, "C11-D6", "listen:"+core.FuncKey(fn), p.InstrPos(call.Instr),
				"debug pprof server: fresh mux populated only by httputil.RoutePprof (opt-in, local debug listener)",
				"a second HTTP listener serves a handler outside the authenticated mux")
		}
	}
	r.Eval(n)
	r.Floor("C11-D6", "server-handlers", n, 3)
}

func derivesFromMux(v ssa.Value, depth int) (bool, string) {
	if depth > 10 {
		return false, "too deep"
	}
	switch x := v.(type) {
	case *ssa.MakeInterface:
		return derivesFromMux(x.X, depth+1)
	case *ssa.ChangeInterface:
		return derivesFromMux(x.X, depth+1)
	case *ssa.ChangeType:
		return derivesFromMux(x.X, depth+1)
	case *ssa.UnOp:
		if fr, _, ok := core.LoadedField(x); ok {
			if fr.Type == "home.homeContext" && fr.Field == "mux" {
				return true, "globalContext.mux"
			}
			return false, "field " + fr.String()
		}
		return false, "load"
	case *ssa.Call:
		k := core.CalleeKey(x.Common())
		for _, a := range x.Common().Args {
			if isHandlerType(a.Type()) || core.TypeKey(a.Type()) == "*net/http.ServeMux" {
				if ok, why := derivesFromMux(a, depth+1); ok {
					return true, k + "(" + why + ")"
				}
			}
		}
		return false, "call " + k
	case *ssa.Phi:
		for _, e := range x.Edges {
			if ok, why := derivesFromMux(e, depth+1); !ok {
				return false, why
			}
		}
		return true, "phi"
	}
	return false, fmt.Sprintf("%T", v)
}

func isPprofMux(v ssa.Value) bool {
	for {
		switch x := v.(type) {
		case *ssa.MakeInterface:
			v = x.X
			continue
		case *ssa.ChangeInterface:
			v = x.X
			continue
		}
		break
	}
	// resolve a local / captured variable to the values stored into it
	var vals []ssa.Value
	var cell *ssa.Alloc
	if cell = core.CellOf(v); cell != nil {
		vals = core.CellStores(cell)
	} else {
		vals = []ssa.Value{v}
	}
	if len(vals) != 1 {
		return false
	}
	call, ok := vals[0].(*ssa.Call)
	if !ok || core.CalleeKey(call.Common()) != "net/http.NewServeMux" {
		return false
	}
	// every use of the mux (directly or through loads of its cell, in the
	// function and its closures) is RoutePprof, ListenAndServe or a conversion
	okUse := func(in ssa.Instruction) bool {
		switch y := in.(type) {
		case *ssa.Call:
			k := core.CalleeKey(y.Common())
			return k == "github.com/AdguardTeam/golibs/netutil/httputil.RoutePprof" || k == "net/http.ListenAndServe"
		case *ssa.DebugRef:
			return true
		case *ssa.Store:
			return cell != nil && y.Addr == cell
		}
		return false
	}
	var checkUses func(val ssa.Value, depth int) bool
	checkUses = func(val ssa.Value, depth int) bool {
		if depth > 4 {
			return false
		}
		for _, u := range core.Users(val) {
			switch y := u.(type) {
			case *ssa.MakeInterface:
				if !checkUses(y, depth+1) {
					return false
				}
			case *ssa.ChangeInterface:
				if !checkUses(y, depth+1) {
					return false
				}
			default:
				if !okUse(u) {
					return false
				}
			}
		}
		return true
	}
	if !checkUses(call, 0) {
		return false
	}
	if cell != nil {
		fns := core.WithAnon(cell.Parent())
		for _, fn := range fns {
			for _, b := range fn.Blocks {
				for _, in := range b.Instrs {
					u, ok := in.(*ssa.UnOp)
					if !ok || core.CellOf(u) != cell {
						continue
					}
					if !checkUses(u, 0) {
						return false
					}
				}
			}
		}
	}
	return true
}

// handlerLeaf is one alternative of a handler value chosen by control flow;
// pred is the block the alternative comes from (nil for a value that is not
// chosen by a phi).
type handlerLeaf struct {
	v    ssa.Value
	pred *ssa.BasicBlock
}

func handlerLeaves(v ssa.Value) (out []handlerLeaf) {
	var walk func(x ssa.Value, pred *ssa.BasicBlock, d int)
	walk = func(x ssa.Value, pred *ssa.BasicBlock, d int) {
		if ph, ok := x.(*ssa.Phi); ok && d < 4 {
			for i, e := range ph.Edges {
				walk(e, ph.Block().Preds[i], d+1)
			}
			return
		}
		out = append(out, handlerLeaf{x, pred})
	}
	walk(v, nil, 0)
	return out
}

// c11TablePatterns resolves a pattern that is read from a field of an element
// of a package-level slice variable to the string literals that field has in
// the variable's initialiser; nil if the shape is different or the variable is
// assigned anywhere else.
func c11TablePatterns(p *core.Prog, v ssa.Value) []string {
	fr, owner, ok := core.LoadedField(core.ResolveCellLoad(v))
	if !ok {
		return nil
	}
	var g *ssa.Global
	for _, o := range core.Origins(owner, core.ProvOpts{Prog: p}) {
		if o.Kind == "global" {
			if gg, isG := o.Val.(*ssa.UnOp); isG {
				g, _ = gg.X.(*ssa.Global)
			} else if gg, isG := o.Val.(*ssa.Global); isG {
				g = gg
			}
		}
	}
	if g == nil || g.Pkg == nil {
		return nil
	}
	// no store to the variable outside the package initialiser
	for _, fn := range p.ModFns {
		if fn.Name() == "init" || strings.HasPrefix(fn.Name(), "init#") {
			continue
		}
		for _, b := range fn.Blocks {
			for _, in := range b.Instrs {
				if st, isSt := in.(*ssa.Store); isSt && st.Addr == ssa.Value(g) {
					return nil
				}
			}
		}
	}
	pk := p.AllPkg[g.Pkg.Pkg.Path()]
	if pk == nil {
		return nil
	}
	lit := core.PkgVarLit(pk, g.Name())
	if lit == nil {
		return nil
	}
	var out []string
	for _, el := range lit.Elts {
		cl, isCL := el.(*ast.CompositeLit)
		if !isCL {
			return nil
		}
		found := false
		for _, kv := range cl.Elts {
			kve, isKV := kv.(*ast.KeyValueExpr)
			if !isKV {
				return nil
			}
			if id, isID := kve.Key.(*ast.Ident); isID && id.Name == fr.Field {
				if bl, isBL := kve.Value.(*ast.BasicLit); isBL && bl.Kind == token.STRING {
					if sv, err := strconv.Unquote(bl.Value); err == nil {
						out = append(out, sv)
						found = true
					}
				}
			}
		}
		if !found {
			return nil
		}
	}
	return out
}
