package rules

import (
	"fmt"
	"go/token"
	"go/types"
	"sort"
	"strings"

	"aghverif/core"

	"golang.org/x/tools/go/ssa"
)

func init() {
	register(&Rule{
		ID:  "C09",
		Run: runC09,
		Explanation: "Statistics conservation, structural part. Decided: (D1) swap-then-persist: the hourly flush swaps the current unit and persists the swapped-out one inside one hold of both locks; what is persisted is exactly the serialisation of that unit (not merged with or replaced by anything read back), under that unit's own id; updates add to the current unit only under the unit lock; " +
			"(D2) counted exactly once: adding an entry increments the total and exactly one result slot, once, outside any loop; an entry is added at most once per update and only after validation bounded its result code to the slots that exist; (D3) persist on shutdown, reload on start: a clean close persists the current unit's serialisation under its id, and start-up reloads the unit with the very id it gives the new current unit; " +
			"(D4) the window is assembled on every read from the database and the live current unit — never from a cache kept across flushes. " +
			"(D5) the rollover transaction is rolled back only on an edge where an operation returned an error, and the retention handed to the rollover is derived from state that every writer of the retention limit updates. " +
			"(D7) serialize hands out a snapshot: none of the slices/maps of the serialized unit is the live unit's own (the snapshot is encoded and summed without the unit's lock). " +
			"(D1, cont.) once the hour id differs from the current unit's, flush always goes on to the rollover (nothing else short-circuits it). " +
			"(D3, cont.) start-up pruning deletes a stored unit only when its id is strictly below the bound, and the bound handed in is current hour - retention + k with k <= 1: nothing inside the retention window is pruned. " +
			"Not decided: hour/window arithmetic (id - limit, first id, gaps of many hours), 'daily never exceeds totals', top-N merging.",
		RuleText:    "Lock dominance, value identity and referrer sets on SSA, provenance of the assembled window, increment counting.",
		Assumptions: []string{"bbolt transactions are atomic", "encoding/gob round-trips unitDB"},
		Trusted:     commonTrusted,
	})
}

func runC09(c *Ctx) {
	p, r := c.P, c.R
	const kFlushUnit = "(*stats.StatsCtx).flushUnitToDB"
	const kSerialize = "(*stats.unit).serialize"
	const kLoadUnit = "(*stats.StatsCtx).loadUnitFromDB"
	lockOf := func(field string, write bool) func(ssa.Instruction) bool {
		return func(in ssa.Instruction) bool {
			call, ok := in.(*ssa.Call)
			if !ok {
				return false
			}
			k := core.CalleeKey(call.Common())
			if k != "(*sync.RWMutex).Lock" && (write || k != "(*sync.RWMutex).RLock") {
				return false
			}
			fr, _, ok := core.LoadedField(call.Common().Args[0])
			return ok && fr.Type == "stats.StatsCtx" && fr.Field == field
		}
	}
	noExplicitUnlock := func(fn *ssa.Function) bool {
		for _, call := range core.Calls(fn) {
			if _, isDefer := call.Instr.(*ssa.Defer); !isDefer && (call.Key == "(*sync.RWMutex).Unlock" || call.Key == "(*sync.RWMutex).RUnlock") {
				return false
			}
		}
		return true
	}
	fl := p.Fn("(*stats.StatsCtx).flush")
	fdb := p.Fn("(*stats.StatsCtx).flushDB")
	if fl == nil || fdb == nil {
		r.Undecided("C09-D1", "flush/flushDB", "-", "anchors not found")
		return
	}
	f1, _, _ := core.Reach(core.Query{From: []core.Point{core.Entry(fl)}, Target: core.IsCallTo(false, "(*stats.StatsCtx).flushDB"), Avoid: lockOf("currMu", true)})
	r.Check(!f1 && noExplicitUnlock(fl), "C09-D1", "flush-holds-unit-lock", p.FnPos(fl),
		"the rollover (swap + persist) runs with the unit lock held for writing until it returns", "the rollover can run without the unit write lock held throughout: an update can land in a unit after it was serialised and before it is replaced (lost count)")
	// once the hour id differs from the current unit's, the rollover is not short-circuited by anything else: the
	// current unit keeps its hour id until it is swapped, so every entry counted meanwhile lands in the old hour
	{
		isUnitID := func(v ssa.Value) bool {
			fr, _, ok := core.LoadedField(core.ResolveCellLoad(v))
			return ok && fr.Type == "stats.unit" && fr.Field == "id"
		}
		gDiff, nDiff := core.CondEdges(fl, func(at core.Atom) (bool, bool) {
			if (at.Op == token.EQL || at.Op == token.NEQ) && (isUnitID(at.Base) != isUnitID(at.Other)) {
				return true, at.Op == token.NEQ
			}
			return false, false
		})
		rolls := func(in ssa.Instruction) bool {
			if core.IsCallTo(false, "(*stats.StatsCtx).flushDB")(in) {
				return true
			}
			if st, ok := in.(*ssa.Store); ok {
				if fr, ok := core.FieldOfAddr(st.Addr); ok && fr.Type == "stats.StatsCtx" && fr.Field == "curr" {
					return true
				}
			}
			return false
		}
		var starts []core.Point
		for e := range gDiff {
			starts = append(starts, core.AfterEdge(e))
		}
		found := true
		var trD []*ssa.BasicBlock
		if len(starts) > 0 {
			found, trD, _ = core.Reach(core.Query{From: starts, Target: core.IsReturn, Avoid: rolls})
		}
		r.Check(nDiff > 0 && !found, "C09-D1", "new-hour-always-rolls-over", p.FnPos(fl),
			"when the hour id differs from the current unit's, flush always goes on to the rollover",
			"flush can return although the hour has changed, without swapping the current unit: the entries counted until the next attempt are added to the old hour's unit (wrong slot, or outside the retention window after a long idle period)", p.TraceString(trD))
	}
	callers := callerFuncs(p, fdb)
	r.Check(len(callers) == 1 && callers[0] == fl, "C09-D1", "flushDB-only-from-flush", p.FnPos(fdb), "flushDB is called only by flush (under the locks)", fmt.Sprintf("flushDB is called from %d places", len(callers)))
	// What a call of flushUnitToDB persists: the serialisation of which unit, under whose id.  Either the caller
	// serialises and hands over (serialisation, id) — then both come from one unit — or it hands over the unit and
	// flushUnitToDB serialises it and names the bucket after its id.
	type persisted struct {
		unit ssa.Value
		ser  *ssa.Call
		ok   bool
	}
	isUnitPtr := func(t types.Type) bool { return core.TypeKey(t) == "*stats.unit" }
	persistedUnit := func(call core.Call) (pu persisted) {
		var serArg *ssa.Call
		var idBase ssa.Value
		for _, a := range call.Common.Args {
			a = core.ResolveCellLoad(a)
			if sc, _, isSer := core.CallResult(a); isSer && core.CalleeKey(sc.Common()) == kSerialize {
				serArg = sc
			}
			if fr, base, ok := core.LoadedField(a); ok && fr.Type == "stats.unit" && fr.Field == "id" {
				idBase = base
			}
		}
		if serArg != nil && idBase != nil {
			x := serArg.Common().Args[0]
			if core.SameValue(x, idBase) || core.AccessPath(x) == core.AccessPath(idBase) {
				return persisted{unit: x, ser: serArg, ok: true}
			}
			return pu
		}
		fu := p.Fn(kFlushUnit)
		if fu == nil {
			return pu
		}
		for i, prm := range fu.Params {
			if !isUnitPtr(prm.Type()) || i >= len(call.Common.Args) {
				continue
			}
			var ser *ssa.Call
			for _, sc := range core.CallsTo(fu, kSerialize) {
				if sc.Arg(0) == ssa.Value(prm) {
					ser, _ = sc.Instr.(*ssa.Call)
				}
			}
			named := false
			for _, nc := range core.CallsTo(fu, "stats.idToUnitName") {
				if fr, base, ok := core.LoadedField(nc.Arg(0)); ok && fr.Type == "stats.unit" && fr.Field == "id" && base == ssa.Value(prm) {
					named = true
				}
			}
			if ser != nil && named {
				return persisted{unit: call.Common.Args[i], ser: ser, ok: true}
			}
		}
		return pu
	}
	isCurr := func(v ssa.Value) bool {
		fr, _, ok := core.LoadedField(core.ResolveCellLoad(v))
		return ok && fr.Type == "stats.StatsCtx" && fr.Field == "curr"
	}
	// the unit the rollover works on: a parameter that flush feeds with the current unit, or the current unit read
	// by the rollover itself before it swaps
	var ptr ssa.Value
	for i, prm := range fdb.Params {
		if isUnitPtr(prm.Type()) && i > 0 {
			ptr = prm
			for _, call := range core.CallsTo(fl, "(*stats.StatsCtx).flushDB") {
				r.Check(i < len(call.Common.Args) && isCurr(call.Common.Args[i]), "C09-D1", "rollover-persists-current-unit", p.InstrPos(call.Instr),
					"the unit handed to the rollover is the current unit", "the rollover is handed something other than the current unit")
			}
		}
	}
	{
		var ser *ssa.Call
		okPersist, nPersist := true, 0
		for _, call := range core.CallsTo(fdb, kFlushUnit) {
			nPersist++
			pu := persistedUnit(call)
			if !pu.ok {
				okPersist = false
				continue
			}
			ser = pu.ser
			u := core.ResolveCellLoad(pu.unit)
			switch {
			case ptr != nil:
				if !core.SameValue(u, ptr) {
					okPersist = false
				}
			case isCurr(u):
				// read in place: the read must come before the swap
				ld, _ := u.(ssa.Instruction)
				for _, b := range fdb.Blocks {
					for _, in := range b.Instrs {
						st, isSt := in.(*ssa.Store)
						if !isSt {
							continue
						}
						if fr, ok := core.FieldOfAddr(st.Addr); ok && fr.Type == "stats.StatsCtx" && fr.Field == "curr" {
							before := ld != nil && (ld.Block() == b && instrIndex(ld) < instrIndex(in) || ld.Block() != b && ld.Block().Dominates(b))
							if !before {
								okPersist = false
							}
						}
					}
				}
				r.Ok("C09-D1", "rollover-persists-current-unit", p.FnPos(fdb), "the rollover reads the current unit itself, before swapping it")
			default:
				okPersist = false
			}
		}
		r.Check(okPersist && nPersist > 0, "C09-D1", "persist-swapped-unit-under-its-id", p.FnPos(fdb),
			"the rollover persists the swapped-out unit's serialisation under that unit's id", "the rollover does not persist exactly the swapped-out unit's serialisation under its own id (counts land in the wrong hour or are lost)")
		if ser != nil {
			var extra []string
			for _, u := range core.Users(ser) {
				switch y := u.(type) {
				case *ssa.DebugRef:
				case *ssa.Call:
					k := core.CalleeKey(y.Common())
					if k != kFlushUnit {
						extra = append(extra, k)
					}
				case *ssa.MakeInterface:
					// handed to the encoder inside flushUnitToDB
					if core.FuncKey(ser.Parent()) != kFlushUnit {
						extra = append(extra, "converted to an interface")
					}
				case *ssa.FieldAddr:
					// reading a field for logging is fine if not stored to
					for _, u2 := range core.Users(y) {
						if st, ok := u2.(*ssa.Store); ok && st.Addr == ssa.Value(y) {
							extra = append(extra, "store to field")
						}
					}
				default:
					extra = append(extra, fmt.Sprintf("%T", u))
				}
			}
			r.Check(len(extra) == 0, "C09-D1", "serialised-unit-persisted-unmodified", p.InstrPos(ser),
				"the serialised unit goes straight to the database",
				fmt.Sprintf("the serialised unit is handed to %v before it is persisted: merging it with what the database already holds double-counts queries that were reloaded at start-up", extra))
		}
		r.Check(len(core.CallsToDeep(fdb, kLoadUnit)) == 0, "C09-D1", "rollover-does-not-read-back", p.FnPos(fdb), "the rollover does not read units back from the database", "the rollover reads a unit back from the database (merging it double-counts reloaded queries)")
		// swap happens
		swap := false
		for _, b := range fdb.Blocks {
			for _, in := range b.Instrs {
				if st, ok := in.(*ssa.Store); ok {
					if fr, ok := core.FieldOfAddr(st.Addr); ok && fr.Type == "stats.StatsCtx" && fr.Field == "curr" {
						swap = core.IsCallResult(st.Val, -1, "stats.newUnit")
						if call, _, ok := core.CallResult(st.Val); ok && swap {
							swap = call.Common().Args[0] == ssa.Value(fdb.Params[1])
						}
					}
				}
			}
		}
		r.Check(swap, "C09-D1", "rollover-installs-new-unit-for-new-hour", p.FnPos(fdb), "the rollover installs a fresh unit for the new hour id", "the rollover does not install a fresh unit for the new hour id")
	}
	// Update: add under the unit write lock, once, after validate
	up := p.Fn("(*stats.StatsCtx).Update")
	if up == nil {
		r.Undecided("C09-D2", "Update", "-", "anchor not found")
	} else {
		const kAdd = "(*stats.unit).add"
		f2, _, _ := core.Reach(core.Query{From: []core.Point{core.Entry(up)}, Target: core.IsCallTo(false, kAdd), Avoid: lockOf("currMu", true)})
		r.Check(!f2 && noExplicitUnlock(up), "C09-D1", "update-under-unit-lock", p.FnPos(up), "an update adds to the current unit under the unit write lock", "an update can add to the current unit without the unit write lock")
		adds := core.CallsTo(up, kAdd)
		inLoop := false
		for _, h := range loopHeaders(up) {
			for _, a := range adds {
				if h.Dominates(a.Instr.Block()) {
					inLoop = true
				}
			}
		}
		r.Check(len(adds) == 1 && !inLoop, "C09-D2", "update-adds-once", p.FnPos(up), "an update adds the entry exactly once", fmt.Sprintf("an update adds the entry %d times (or inside a loop)", len(adds)))
		g, n := core.CondEdges(up, func(at core.Atom) (bool, bool) {
			if (at.Op == token.EQL || at.Op == token.NEQ) && core.IsNilConst(at.Other) && core.IsCallResult(at.Base, -1, "(*stats.Entry).validate") {
				return true, at.Op == token.EQL
			}
			return false, false
		})
		off, _ := core.UnguardedSinks(up, core.IsCallTo(false, kAdd), g)
		r.Check(n > 0 && len(off) == 0, "C09-D2", "add-after-validation", p.FnPos(up), "an entry is added only after validation succeeded", "an entry can be added without validation (an out-of-range result code indexes past the result slots)", traceOf(p, off)...)
		// the unit added to is the current one
		for _, a := range adds {
			fr, _, ok := core.LoadedField(a.Arg(0))
			r.Check(ok && fr.Field == "curr", "C09-D2", "add-to-current-unit", p.InstrPos(a.Instr), "the entry is added to the current unit", "the entry is added to something other than the current unit")
		}
	}
	// validate bounds Result
	if vf := p.Fn("(*stats.Entry).validate"); vf != nil {
		isRes := func(v ssa.Value) bool {
			fr, _, ok := core.LoadedField(v)
			return ok && fr.Type == "stats.Entry" && fr.Field == "Result"
		}
		for name, match := range map[string]func(core.Atom) (bool, bool){
			"result-not-zero": func(at core.Atom) (bool, bool) {
				if isRes(at.Base) {
					if k, ok := core.ConstInt(at.Other); ok && k == 0 {
						switch at.Op {
						case token.EQL:
							return true, false
						case token.NEQ, token.GTR:
							return true, true
						}
					}
				}
				return false, false
			},
			"result-below-last": func(at core.Atom) (bool, bool) {
				if isRes(at.Base) {
					if _, ok := core.ConstInt(at.Other); ok {
						switch at.Op {
						case token.GEQ, token.GTR:
							return true, false
						case token.LSS, token.LEQ:
							return true, true
						}
					}
				}
				return false, false
			},
		} {
			g, n := core.CondEdges(vf, match)
			off, ns := core.UnguardedSinks(vf, func(in ssa.Instruction) bool { return isSuccessReturn(vf, in) }, g)
			r.Check(n > 0 && ns > 0 && len(off) == 0, "C09-D2", "validate:"+name, p.FnPos(vf), "validation accepts an entry only if "+name, "validation can accept an entry without "+name, traceOf(p, off)...)
		}
	}
	// unit.add increments
	ua := p.Fn("(*stats.unit).add")
	if ua == nil {
		r.Undecided("C09-D2", "unit.add", "-", "anchor not found")
	} else {
		nTotal, nRes := 0, 0
		inLoop := false
		hdrs := loopHeaders(ua)
		for _, b := range ua.Blocks {
			for _, in := range b.Instrs {
				st, ok := in.(*ssa.Store)
				if !ok {
					continue
				}
				bo, ok := st.Val.(*ssa.BinOp)
				if !ok || bo.Op != token.ADD {
					continue
				}
				one, isOne := core.ConstInt(bo.Y)
				isCounter := false
				if fr, ok := core.FieldOfAddr(st.Addr); ok && fr.Type == "stats.unit" && fr.Field == "nTotal" {
					nTotal++
					isCounter = true
					if !isOne || one != 1 {
						nTotal += 10
					}
				}
				if ia, ok := st.Addr.(*ssa.IndexAddr); ok {
					if fr, _, ok := core.LoadedField(ia.X); ok && fr.Type == "stats.unit" && fr.Field == "nResult" {
						nRes++
						isCounter = true
						if f2, _, ok := core.LoadedField(ia.Index); !ok || f2.Field != "Result" {
							nRes += 10
						}
						if !isOne || one != 1 {
							nRes += 10
						}
					}
				}
				if isCounter {
					for _, h := range hdrs {
						if h.Dominates(b) {
							inLoop = true
						}
					}
					// on every path: the store's block dominates all returns
					for _, b2 := range ua.Blocks {
						for _, in2 := range b2.Instrs {
							if _, isRet := core.AsReturn(in2); isRet && !b.Dominates(b2) {
								inLoop = true
							}
						}
					}
				}
			}
		}
		r.Check(nTotal == 1 && nRes == 1 && !inLoop, "C09-D2", "counted-exactly-once", p.FnPos(ua),
			"adding an entry increments the total by one and the entry's own result slot by one, once, on every path and outside loops",
			fmt.Sprintf("adding an entry does not increment the total (%d) and exactly its own result slot (%d) by one exactly once on every path", nTotal, nRes))
	}

	// start-up pruning keeps the retention window: a stored unit is deleted only if its id is strictly below the
	// bound handed in, and the bound is at most the first hour of the window (now - limit + 1)
	if du := p.Fn("(*stats.StatsCtx).deleteOldUnits"); du == nil {
		r.Undecided("C09-D3", "deleteOldUnits", "-", "anchor not found")
	} else {
		// the bound: whatever the stored unit's id is compared with
		var bounds []ssa.Value
		okStrict, nDel := true, 0
		for _, f := range core.WithAnon(du) {
			isDel := core.IsCallTo(false, "(*go.etcd.io/bbolt.Tx).DeleteBucket")
			g, n := core.CondEdges(f, func(at core.Atom) (bool, bool) {
				// a bucket whose name is not a unit id at all is garbage and goes too
				if at.Op == token.ILLEGAL && core.IsCallResult(core.ResolveCellLoad(at.Base), 1, "stats.unitNameToID") {
					return true, false
				}
				if at.Other == nil || !core.IsCallResult(core.ResolveCellLoad(at.Base), 0, "stats.unitNameToID") {
					return false, false
				}
				switch at.Op {
				case token.GEQ: // id >= bound: kept
					bounds = append(bounds, core.ResolveCellLoad(at.Other))
					return true, false
				case token.LSS: // id < bound: may be deleted
					bounds = append(bounds, core.ResolveCellLoad(at.Other))
					return true, true
				}
				return false, false
			})
			off, ns := core.UnguardedSinksLocal(f, isDel, g)
			nDel += ns
			if ns > 0 && (n == 0 || len(off) > 0) {
				okStrict = false
			}
		}
		r.Check(okStrict && nDel > 0 && len(bounds) > 0, "C09-D3", "prune-strictly-below-bound", p.FnPos(du),
			"a stored unit is deleted at start-up only when its id is strictly below the bound",
			"start-up pruning can delete the unit whose id equals the bound (or units not compared with it): an hour that is still inside the retention window is lost on restart")
		// bound = current hour - retention hours + k with k <= 1, computed by the caller or in place
		formOK := func(v ssa.Value) bool {
			bo, isBO := v.(*ssa.BinOp)
			if !isBO {
				return false
			}
			if c, isC := core.ConstInt(bo.Y); isC && (bo.Op == token.SUB || bo.Op == token.ADD) {
				k := c
				if bo.Op == token.SUB {
					k = -c
				}
				inner, isIn := bo.X.(*ssa.BinOp)
				return isIn && inner.Op == token.SUB && k <= 1
			}
			return bo.Op == token.SUB
		}
		nForms := 0
		seenB := map[ssa.Value]bool{}
		for _, bnd := range bounds {
			if seenB[bnd] {
				continue
			}
			seenB[bnd] = true
			if prm, isPrm := bnd.(*ssa.Parameter); isPrm {
				for _, a := range core.ArgsOfParam(prm) {
					nForms++
					pos := p.FnPos(du)
					if ai, isI := a.(ssa.Instruction); isI {
						pos = p.InstrPos(ai)
					}
					r.Check(formOK(a), "C09-D3", fmt.Sprintf("prune-bound-not-inside-window#%d", nForms), pos,
						"the pruning bound is (current hour - retention hours + k) with k <= 1: nothing inside the window is pruned",
						"the pruning bound handed to deleteOldUnits is not of the form current hour - retention + k (k <= 1): hours inside the retention window can be deleted at start-up")
				}
				continue
			}
			nForms++
			r.Check(formOK(bnd), "C09-D3", fmt.Sprintf("prune-bound-not-inside-window#%d", nForms), p.FnPos(du),
				"the pruning bound is (current hour - retention hours + k) with k <= 1: nothing inside the window is pruned",
				"the pruning bound is not of the form current hour - retention + k (k <= 1): hours inside the retention window can be deleted at start-up")
		}
		r.Floor("C09-D3", "prune-call-sites", nForms, 1)
	}
	// D3
	cl := p.Fn("(*stats.StatsCtx).Close")
	if cl == nil {
		r.Undecided("C09-D3", "Close", "-", "anchor not found")
	} else {
		okC := false
		for _, call := range core.CallsTo(cl, kFlushUnit) {
			if pu := persistedUnit(call); pu.ok && isCurr(pu.unit) {
				okC = true
			}
		}
		r.Check(okC, "C09-D3", "close-persists-current-unit", p.FnPos(cl), "a clean close persists the current unit's serialisation under its id", "a clean close does not persist the current unit's serialisation under its own id (counts of the last hour are lost on restart)")
		// every success return of Close with a non-nil db passed flushUnitToDB
		gNoDB, _ := core.CondEdges(cl, func(at core.Atom) (bool, bool) {
			if (at.Op == token.EQL || at.Op == token.NEQ) && core.IsNilConst(at.Other) && strings.Contains(core.TypeKey(at.Base.Type()), "bbolt.DB") {
				return true, at.Op == token.EQL
			}
			return false, false
		})
		found, tr, _ := core.Reach(core.Query{From: []core.Point{core.Entry(cl)}, Target: func(in ssa.Instruction) bool { return isSuccessReturn(cl, in) },
			Avoid: core.IsCallTo(false, kFlushUnit), AvoidEdges: gNoDB})
		r.Check(!found, "C09-D3", "close-always-persists", p.FnPos(cl), "with an open database a successful close always persists the current unit", "a close can succeed without persisting the current unit", p.TraceString(tr))
	}
	nw := p.Fn("stats.New")
	if nw == nil {
		r.Undecided("C09-D3", "New", "-", "anchor not found")
	} else {
		var idLoad, idNew ssa.Value
		var loaded ssa.Value
		for _, call := range core.CallsTo(nw, kLoadUnit) {
			idLoad = call.Arg(2)
			loaded = call.Instr.(*ssa.Call)
		}
		for _, call := range core.CallsTo(nw, "stats.newUnit") {
			idNew = call.Arg(0)
		}
		okD := false
		for _, call := range core.CallsTo(nw, "(*stats.unit).deserialize") {
			if loaded != nil && core.ResolveCellLoad(call.Arg(1)) == loaded {
				okD = true
			}
		}
		r.Check(idLoad != nil && idLoad == idNew && okD, "C09-D3", "start-reloads-same-hour", p.FnPos(nw),
			"start-up reloads the stored unit of the very hour id it gives the new current unit and deserialises it into that unit",
			"start-up does not reload (and deserialise) the stored unit of the hour it starts in: counts of the current hour are lost or misplaced by a restart")
	}

	// D4 window assembly
	lu := p.Fn("(*stats.StatsCtx).loadUnits")
	if lu == nil {
		r.Undecided("C09-D4", "loadUnits", "-", "anchor not found")
		return
	}
	n := 0
	for _, b := range lu.Blocks {
		if b == lu.Recover {
			continue
		}
		for _, in := range b.Instrs {
			ret, ok := core.AsReturn(in)
			if !ok {
				continue
			}
			n++
			os := core.Origins(core.ResolveCellLoad(core.ResolveLocalLoad(core.Res(ret, 0))), core.ProvOpts{Prog: p})
			var bad []string
			for _, o := range os {
				switch {
				case o.Kind == "call" && (o.Key == kLoadUnit || o.Key == kSerialize || strings.HasPrefix(o.Key, "builtin:")):
				case o.Kind == "alloc", o.Kind == "const":
				case o.Kind == "field" && o.Key == "stats.StatsCtx.curr":
				default:
					bad = append(bad, o.String())
				}
			}
			r.Check(len(bad) == 0, "C09-D4", fmt.Sprintf("window-from-database:return#%d", n), p.InstrPos(in),
				"the reported window is assembled from units read from the database and the live current unit",
				fmt.Sprintf("the reported window can come from %v — state kept across flushes; after an hour gap it reports counts in the wrong hours or outside the retention window", bad))
		}
	}
	r.Floor("C09-D4", "loadUnits-returns", n, 2)
	c09Rollover(c)
	c09Totals(c)
	c09Snapshot(c)
}

// c09Rollover: D5.  The rollover transaction is abandoned only because of an
// error, and the retention (which bucket the rollover deletes) is derived from
// state that every writer of the retention limit keeps up to date.
func c09Rollover(c *Ctx) {
	p, r := c.P, c.R
	fdb := p.Fn("(*stats.StatsCtx).flushDB")
	fl := p.Fn("(*stats.StatsCtx).flush")
	if fdb == nil || fl == nil {
		r.Undecided("C09-D5", "flush/flushDB", "-", "anchors not found")
		return
	}
	// (a) the commit flag is cleared only on an edge where some error is non-nil
	var flag *ssa.Alloc
	for _, call := range core.CallsTo(fdb, "stats.finishTxn") {
		_ = call
	}
	for _, an := range append([]*ssa.Function{fdb}, fdb.AnonFuncs...) {
		for _, call := range core.CallsTo(an, "stats.finishTxn") {
			if len(call.Common.Args) == 2 {
				flag = core.CellOf(call.Common.Args[1])
			}
		}
	}
	if flag == nil {
		r.Undecided("C09-D5", "commit-flag", p.FnPos(fdb), "the commit flag handed to finishTxn was not found")
	} else {
		errNonNil, nE := core.CondEdges(fdb, func(at core.Atom) (bool, bool) {
			if (at.Op == token.NEQ || at.Op == token.EQL) && core.IsNilConst(at.Other) && at.Base.Type().String() == "error" {
				return true, at.Op == token.NEQ
			}
			return false, false
		})
		isClear := func(in ssa.Instruction) bool {
			st, ok := in.(*ssa.Store)
			if !ok || st.Addr != ssa.Value(flag) {
				return false
			}
			b, isC := core.ConstBool(st.Val)
			return isC && !b
		}
		off, ns := core.UnguardedSinks(fdb, isClear, errNonNil)
		r.Check(nE > 0 && ns > 0 && len(off) == 0, "C09-D5", "rollback-only-on-error", p.FnPos(fdb),
			"the rollover transaction is rolled back only on a path where an error was returned (a successful delete of the expired bucket commits)",
			"the rollover transaction can be rolled back although every operation succeeded: the hour that just ended is lost (and the expired bucket stays, so every later rollover fails the same way)", traceOf(p, off)...)
	}
	// (b) coherence of the retention used for the deletion
	calls := []core.Call{}
	for _, call := range core.Calls(fl) {
		if core.SameFn(core.Callee(call.Common), fdb) {
			calls = append(calls, call)
		}
	}
	if len(calls) != 1 || len(calls[0].Common.Args) < 3 {
		r.Undecided("C09-D5", "retention-source", p.FnPos(fl), "the flushDB call in flush was not found")
		return
	}
	writers := func(field string) map[string]bool {
		out := map[string]bool{}
		for _, fn := range p.ModFnsIn("stats") {
			for _, b := range fn.Blocks {
				for _, in := range b.Instrs {
					if st, ok := in.(*ssa.Store); ok {
						if fr, ok := core.FieldOfAddr(st.Addr); ok && fr.Type == "stats.StatsCtx" && fr.Field == field {
							k := core.FuncKey(fn)
							if fn.Parent() != nil {
								k = core.FuncKey(fn.Parent())
							}
							out[k] = true
						}
					}
				}
			}
		}
		return out
	}
	var srcs []string
	for _, o := range core.Origins(calls[0].Common.Args[2], core.ProvOpts{Prog: p, Transparent: map[string]bool{"(time.Duration).Hours": true}}) {
		if o.Kind == "field" && strings.HasPrefix(o.Key, "stats.StatsCtx.") {
			srcs = append(srcs, strings.TrimPrefix(o.Key, "stats.StatsCtx."))
		}
	}
	sort.Strings(srcs)
	if len(srcs) == 0 {
		r.Fail("C09-D5", "retention-source", p.InstrPos(calls[0].Instr), "the retention handed to the rollover does not come from the statistics configuration")
		return
	}
	base := writers("limit")
	var missing []string
	for _, f := range srcs {
		if f == "limit" {
			continue
		}
		wf := writers(f)
		for w := range base {
			if !wf[w] {
				missing = append(missing, fmt.Sprintf("%s sets the limit but not %s", w, f))
			}
		}
	}
	sort.Strings(missing)
	r.Check(len(missing) == 0, "C09-D5", "retention-follows-limit", p.InstrPos(calls[0].Instr),
		fmt.Sprintf("the bucket the rollover deletes is computed from %v, which every writer of the retention limit keeps up to date", srcs),
		fmt.Sprintf("the bucket the rollover deletes is computed from %v, which is not updated by every writer of the retention limit: after a limit change buckets inside the reported window are deleted (or expired ones kept)", srcs), missing...)
}

// c09Totals: D6.  The totals of the report are sums over all units of the
// window.  The per-day series are cut to whole days for long windows, so a
// total computed from a series would lose the oldest hours: no total may be
// derived from the series fields of the response.
func c09Totals(c *Ctx) {
	p, r := c.P, c.R
	fn := p.Fn("(*stats.StatsCtx).dataFromUnits")
	if fn == nil {
		r.Undecided("C09-D6", "dataFromUnits", "-", "anchor not found")
		return
	}
	fns := []*ssa.Function{fn}
	for h := range core.StaticReach(fn, 2) {
		if h != fn && core.PkgOf(h) == "stats" {
			fns = append(fns, h)
		}
	}
	series := map[string]bool{"DNSQueries": true, "BlockedFiltering": true, "ReplacedSafebrowsing": true, "ReplacedParental": true}
	n := 0
	var bad []string
	for _, f := range fns {
		for _, b := range f.Blocks {
			for _, in := range b.Instrs {
				st, ok := in.(*ssa.Store)
				if !ok {
					continue
				}
				fr, ok := core.FieldOfAddr(st.Addr)
				if !ok || fr.Type != "stats.StatsResp" || !strings.HasPrefix(fr.Field, "Num") {
					continue
				}
				n++
				for _, o := range core.Origins(st.Val, core.ProvOpts{Prog: p, IntoModuleCalls: true, InterprocDepth: 2}) {
					if o.Kind == "field" && strings.HasPrefix(o.Key, "stats.StatsResp.") && series[strings.TrimPrefix(o.Key, "stats.StatsResp.")] {
						bad = append(bad, fmt.Sprintf("%s at %s is computed from the series %s", fr.Field, p.InstrPos(in), o.Key))
					}
				}
			}
		}
	}
	sort.Strings(bad)
	r.Check(n >= 4 && len(bad) == 0, "C09-D6", "totals-not-from-series", p.FnPos(fn),
		fmt.Sprintf("the %d total counters are not derived from the (day-aligned, possibly shortened) series", n),
		"a total is computed from a per-interval series, which is cut to whole days for long windows: queries counted in the oldest hours of the window drop out of the total", bad...)
}

// c09Snapshot: D7 — serialize hands out a snapshot of the unit: the unit's
// counters keep changing under the unit's own lock while the snapshot is
// encoded or summed without it, so no slice or map of the snapshot may be the
// unit's own.
func c09Snapshot(c *Ctx) {
	p, r := c.P, c.R
	fn := p.Fn("(*stats.unit).serialize")
	if fn == nil {
		r.Undecided("C09-D7", "serialize", "-", "anchor not found")
		return
	}
	n := 0
	var shared []string
	for _, b := range fn.Blocks {
		for _, in := range b.Instrs {
			st, ok := in.(*ssa.Store)
			if !ok {
				continue
			}
			fr, ok := core.FieldOfAddr(st.Addr)
			if !ok || fr.Type != "stats.unitDB" {
				continue
			}
			switch st.Val.Type().Underlying().(type) {
			case *types.Slice, *types.Map, *types.Pointer:
			default:
				continue
			}
			n++
			for _, leaf := range core.FlattenPhi(core.ResolveCellLoad(st.Val)) {
				if src, _, isF := core.LoadedField(leaf); isF && src.Type == "stats.unit" {
					shared = append(shared, fr.Field+" = unit."+src.Field+" at "+p.InstrPos(in))
				}
				// a re-slice of the unit's own array is the unit's own memory too
				if sl, isS := leaf.(*ssa.Slice); isS {
					if src, _, isF := core.LoadedField(sl.X); isF && src.Type == "stats.unit" {
						shared = append(shared, fr.Field+" = unit."+src.Field+"[:] at "+p.InstrPos(in))
					}
				}
			}
		}
	}
	r.Check(n >= 4 && len(shared) == 0, "C09-D7", "snapshot-shares-nothing-with-the-unit", p.FnPos(fn),
		fmt.Sprintf("none of the %d slices of the serialized unit is the live unit's own", n),
		"the serialized unit shares memory with the live unit: it is encoded and summed without the unit's lock while DNS workers keep counting, so stored and reported counts are torn", shared...)
}
