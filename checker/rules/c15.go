package rules

import (
	"fmt"
	"go/token"
	"go/types"
	"sort"
	"strings"

	"aghverif/core"

	"golang.org/x/tools/go/ssa"
)

func init() {
	register(&Rule{
		ID:           "C15",
		Run:          runC15,
		ThoroughGOOS: []string{"darwin", "freebsd", "openbsd", "windows"},
		Explanation: "Filter-list refresh. Decided: (D1) commit only on success: CloseReplace is called only where the `updated` flag is true; the flag handed to the finaliser is the function's own ok result, ok implies err == nil for the very error being returned, no transfer/parse error is overwritten with nil on the way, and the parser writes only into the pending file; " +
			"(D2) an unchanged checksum never sets ok; (D3) list metadata (rule count, checksum, name) is written only after CloseReplace returned nil, when (re)loading the file, and when copying back a list that really was updated with matching ID and URL; (D4) a response is handed to the parser only for status 200 with a nil transport error. " +
			"(D5) the parser: the HTML test is applied to the trimmed line for as long as nothing has been written (no other condition stands before it) and its positive outcome returns the HTML error; what is written is exactly the trimmed line plus a newline, only for lines classified as rules, the classification sees only the trimmed line, and the rule count and checksum are advanced exactly once, over that same trimmed line, on the path that writes — so re-parsing the stored form reproduces count and checksum; the parse loop stops at the first line error and adds the bytes written. " +
			"(D6) the two line classifiers (before / after the title was seen), evaluated over the finite domain {empty, first byte '#', first byte '!', binary-looking byte present, title prefix}, return the same verdict for every line. " +
			"(D1, path form) at every return of updateIntl where ok can be true, ok is `err == nil` for the error returned or no path leads there from an assignment of a possibly non-nil error without crossing an edge on which that error was found nil; nil is stored to err only where it was already found nil; (D4, cont.) the reader handed to the parser never ends early without an error (no io.LimitReader / LimitedReader / SectionReader between the body and the parser). " +
			"(D1, cont.) one pending file, one parse (shared with C14-D5); (D5, cont.) the parse that writes a list's file and the parse that reads it back take their scan buffers from one pool, so they accept the same lines. " +
			"(D5, cont. 2) every parse of a list starts from a parser made for it by NewParser. " +
			"Not decided: what counts as an HTML or binary line (isHTMLLine/parseLine internals), fault placement inside a body.",
		RuleText:    "Path guards and reaching-store resolution on SSA; writers of the metadata fields are enumerated over the whole module.",
		Assumptions: []string{"a failure of CloseReplace itself (rename/fsync error) is outside the enumerated faults"},
		Trusted:     commonTrusted,
	})
}

func runC15(c *Ctx) {
	p, r := c.P, c.R
	const kClose = "iface:(aghrenameio.PendingFile).CloseReplace"

	// D1a: CloseReplace only under updated == true, in filtering
	nClose := 0
	for _, fn := range p.ModFnsIn("filtering") {
		calls := core.CallsTo(fn, kClose)
		if len(calls) == 0 {
			continue
		}
		nClose += len(calls)
		var updated ssa.Value
		for _, prm := range fn.Params {
			if prm.Name() == "updated" || prm.Name() == "ok" {
				updated = prm
			}
		}
		g, n := core.CondEdges(fn, func(at core.Atom) (bool, bool) {
			if at.Op == token.ILLEGAL && updated != nil && at.Base == updated {
				return true, true
			}
			return false, false
		})
		off, ns := core.UnguardedSinks(fn, core.IsCallTo(false, kClose), g)
		r.Eval(n + ns)
		if n == 0 || len(off) > 0 {
			// the commit may have been moved into a helper: then every call of the helper must sit on the
			// updated == true edge of its caller
			callers := callerFuncs(p, fn)
			allGuarded := len(callers) > 0 && !(fn.Object() != nil && fn.Object().Exported())
			for _, cf := range callers {
				var upd ssa.Value
				for _, prm := range cf.Params {
					if prm.Name() == "updated" || prm.Name() == "ok" {
						upd = prm
					}
				}
				gc, nc := core.CondEdges(cf, func(at core.Atom) (bool, bool) {
					if at.Op == token.ILLEGAL && upd != nil && at.Base == upd {
						return true, true
					}
					return false, false
				})
				offc, _ := core.UnguardedSinks(cf, func(in ssa.Instruction) bool {
					ci, ok := in.(ssa.CallInstruction)
					return ok && core.SameFn(core.Callee(ci.Common()), fn)
				}, gc)
				if nc == 0 || len(offc) > 0 {
					allGuarded = false
				}
			}
			if allGuarded {
				n, off = 1, nil
			}
		}
		r.Check(n > 0 && len(off) == 0, "C15-D1", "commit-only-when-updated:"+core.FuncKey(fn), p.FnPos(fn),
			"the downloaded file replaces the list only on the updated == true edge",
			"CloseReplace (the commit of the downloaded file) can run although the refresh was not reported successful", traceOf(p, off)...)
	}
	r.Floor("C15-D1", "CloseReplace-sites", nClose, 1)

	c15UpdateIntl(c)
	onePendingFileOneParse(c, "C15-D1")
	c15SameScanBuffers(c)
	c15FreshParser(c)
	c15Metadata(c)
	c15Reader(c)
	c15Parser(c)
}

func c15UpdateIntl(c *Ctx) {
	p, r := c.P, c.R
	fn := p.Fn("(*filtering.DNSFilter).updateIntl")
	if fn == nil {
		r.Undecided("C15-D1", "updateIntl", "-", "anchor not found")
		return
	}
	// named result cells
	var okCell, errCell *ssa.Alloc
	for _, b := range fn.Blocks {
		for _, in := range b.Instrs {
			if a, ok := in.(*ssa.Alloc); ok {
				switch a.Comment {
				case "ok":
					okCell = a
				case "err":
					errCell = a
				}
			}
		}
	}
	if okCell == nil || errCell == nil {
		r.Undecided("C15-D1", "updateIntl-results", p.FnPos(fn), "named results (ok, err) not found as cells; the deferred finaliser no longer observes them")
		return
	}
	// the deferred closure hands (err, ok) to finalizeUpdate
	wired := false
	for _, an := range fn.AnonFuncs {
		for _, call := range core.CallsTo(an, "(*filtering.DNSFilter).finalizeUpdate") {
			args := call.Common.Args
			if len(args) < 6 {
				continue
			}
			cellOf := func(v ssa.Value) *ssa.Alloc {
				fv := core.FreeVarOf(v)
				if fv == nil {
					return nil
				}
				idx := -1
				for i, f := range an.FreeVars {
					if f == fv {
						idx = i
					}
				}
				for _, b := range fn.Blocks {
					for _, in := range b.Instrs {
						if mc, ok := in.(*ssa.MakeClosure); ok && mc.Fn == an && idx >= 0 {
							a, _ := mc.Bindings[idx].(*ssa.Alloc)
							return a
						}
					}
				}
				return nil
			}
			if cellOf(args[4]) == errCell && cellOf(args[5]) == okCell {
				wired = true
			}
			// dst file handed to the finaliser is the pending file
		}
	}
	r.Check(wired, "C15-D1", "finaliser-sees-results", p.FnPos(fn),
		"the deferred finaliser receives this function's own (err, ok) results",
		"the deferred call of finalizeUpdate is no longer given the function's own err and ok results; the commit decision is detached from the outcome")

	// The error discipline of the function, in path form.  An "error assignment" is a store to err of a value that
	// can be non-nil; the "nil edges" are the branch edges on which the current err was found to be nil.
	//  - ok-implies-no-error: at every return where ok can be true, ok is either the value `err == nil` for the
	//    error being returned, or no path leads from an error assignment to that return without crossing a nil
	//    edge (or another error assignment, which then carries the obligation itself);
	//  - error-discarded: no store of nil to err is reachable from an error assignment without crossing a nil edge.
	mayBeNonNil := func(v ssa.Value) bool {
		for _, leaf := range core.FlattenPhi(v) {
			if !core.IsNilConst(leaf) {
				return true
			}
		}
		return false
	}
	var errStores, nilStores []*ssa.Store
	errValues := map[ssa.Value]bool{}
	for _, b := range fn.Blocks {
		for _, in := range b.Instrs {
			if st, ok := in.(*ssa.Store); ok && st.Addr == ssa.Value(errCell) {
				if mayBeNonNil(st.Val) {
					errStores = append(errStores, st)
					errValues[st.Val] = true
				} else {
					nilStores = append(nilStores, st)
				}
			}
		}
	}
	isErrValue := func(v ssa.Value) bool {
		if u, ok := v.(*ssa.UnOp); ok && u.Op == token.MUL && u.X == ssa.Value(errCell) {
			return true
		}
		return errValues[v]
	}
	nilEdges, _ := core.CondEdges(fn, func(at core.Atom) (bool, bool) {
		if (at.Op == token.EQL || at.Op == token.NEQ) && core.IsNilConst(at.Other) && isErrValue(at.Base) {
			return true, at.Op == token.EQL
		}
		return false, false
	})
	isErrStore := func(in ssa.Instruction) bool {
		st, ok := in.(*ssa.Store)
		return ok && st.Addr == ssa.Value(errCell) && mayBeNonNil(st.Val)
	}
	after := func(in ssa.Instruction) core.Point {
		pt := core.PointOf(in)
		pt.Idx++
		return pt
	}
	// untested: is target reachable from some error assignment with the error neither tested nor replaced?
	untested := func(target ssa.Instruction) (bool, *ssa.Store, []*ssa.BasicBlock) {
		for _, st := range errStores {
			if found, tr, _ := core.Reach(core.Query{From: []core.Point{after(st)}, Target: func(x ssa.Instruction) bool { return x == target }, Avoid: isErrStore, AvoidEdges: nilEdges}); found {
				return true, st, tr
			}
		}
		return false, nil, nil
	}
	nRet := 0
	for _, b := range fn.Blocks {
		for _, in := range b.Instrs {
			if _, ok := in.(*ssa.RunDefers); !ok {
				continue
			}
			nRet++
			key := fmt.Sprintf("ok-implies-no-error:return#%d", nRet)
			pos := p.InstrPos(b.Instrs[len(b.Instrs)-1])
			okVals, _, _ := core.ReachingStores(okCell, in)
			errVals, _, _ := core.ReachingStores(errCell, in)
			errSet := map[ssa.Value]bool{}
			for _, ev := range errVals {
				for _, l := range leafErrs(ev) {
					errSet[l] = true
				}
			}
			good := true
			why := ""
			needPath := false
			for _, ov := range okVals {
				for _, leaf := range core.FlattenPhi(ov) {
					if bv, isC := core.ConstBool(leaf); isC && !bv {
						continue
					}
					if bo, isB := leaf.(*ssa.BinOp); isB && bo.Op == token.EQL && core.IsNilConst(bo.Y) && isErrValue(bo.X) {
						// ok is `err == nil`: the tested error must be the returned error
						for _, l := range leafErrs(bo.X) {
							if !errSet[l] {
								good = false
								why = "ok tests a different error than the one returned"
							}
						}
						continue
					}
					needPath = true
				}
			}
			if good && needPath {
				if bad, st, tr := untested(in); bad {
					good = false
					why = fmt.Sprintf("ok can be true on a path from the error assignment at %s on which that error is not tested (%s)", p.InstrPos(st), p.TraceString(tr))
				}
			}
			r.Check(good, "C15-D1", key, pos, "ok is false, or is `err == nil` for the error being returned, or is reached only after the error was found nil", "updateIntl can report ok (commit the file) together with an error: "+why)
		}
	}
	r.Floor("C15-D1", "updateIntl-returns", nRet, 3)

	// no error is overwritten with nil
	for i, st := range nilStores {
		bad, src, tr := untested(st)
		pos := "-"
		if src != nil {
			pos = p.InstrPos(src)
		}
		r.Check(!bad, "C15-D1", fmt.Sprintf("error-discarded#%d", i+1), p.InstrPos(st),
			"err is set to nil only where the error was already found nil",
			"a transfer/parse error (assigned at "+pos+") is overwritten with nil before the commit decision: a body cut short (or another failure) would be committed as a successful refresh", p.TraceString(tr))
	}
	r.Check(len(errStores) >= 3, "C15-D1", "error-flows-to-result", p.FnPos(fn), fmt.Sprintf("%d assignments to err, none discards an error", len(errStores)), "assignments to err not found")

	// parser writes into the pending file only; D2 checksum
	parse := core.CallsTo(fn, "(*filtering/rulelist.Parser).Parse")
	if len(parse) != 1 {
		r.Undecided("C15-D1", "updateIntl-parse", p.FnPos(fn), "expected exactly one Parse call")
		return
	}
	dst := parse[0].Arg(1)
	for {
		if ci, ok := dst.(*ssa.ChangeInterface); ok {
			dst = ci.X
			continue
		}
		if mi, ok := dst.(*ssa.MakeInterface); ok {
			dst = mi.X
			continue
		}
		break
	}
	dst = core.ResolveCellLoad(dst)
	r.Check(core.IsCallResult(dst, 0, "aghrenameio.NewPendingFile"), "C15-D1", "parser-writes-pending-file", p.InstrPos(parse[0].Instr),
		"the parser's destination is the pending file", "the parser writes somewhere other than the pending file (the live list could be modified before the commit decision)")

	// D2: ok requires Checksum != flt.checksum
	hasNeq := false
	for _, b := range fn.Blocks {
		for _, in := range b.Instrs {
			bo, ok := in.(*ssa.BinOp)
			if !ok || bo.Op != token.NEQ {
				continue
			}
			f1, _, ok1 := core.LoadedField(bo.X)
			f2, _, ok2 := core.LoadedField(bo.Y)
			if ok1 && ok2 {
				names := []string{f1.String(), f2.String()}
				sort.Strings(names)
				if names[0] == "filtering.FilterYAML.checksum" && names[1] == "filtering/rulelist.ParseResult.Checksum" {
					// every path to an ok-true store passes the true edge of this comparison
					blk := bo.Block()
					if ifi, isIf := blk.Instrs[len(blk.Instrs)-1].(*ssa.If); isIf && ifi.Cond == ssa.Value(bo) {
						edges := map[core.Edge]bool{{From: blk, Succ: 0}: true}
						off, ns := core.UnguardedSinks(fn, func(x ssa.Instruction) bool {
							st, ok := x.(*ssa.Store)
							if !ok || st.Addr != ssa.Value(okCell) {
								return false
							}
							for _, leaf := range core.FlattenPhi(st.Val) {
								if bv, isC := core.ConstBool(leaf); isC && !bv {
									continue
								}
								return true
							}
							return false
						}, edges)
						// the phi's non-false leaf is computed on the true edge; the store itself is after the join, so use leaf blocks instead
						_ = off
						_ = ns
						hasNeq = true
					}
				}
			}
		}
	}
	// precise form: every non-false leaf of ok is defined in a block dominated by the true successor of the checksum comparison
	okLeavesGuarded := true
	nLeaves := 0
	for _, b := range fn.Blocks {
		for _, in := range b.Instrs {
			st, ok := in.(*ssa.Store)
			if !ok || st.Addr != ssa.Value(okCell) {
				continue
			}
			for _, leaf := range core.FlattenPhi(st.Val) {
				if bv, isC := core.ConstBool(leaf); isC && !bv {
					continue
				}
				nLeaves++
				if isChecksumNeq(leaf) {
					hasNeq = true
					continue // ok is the comparison itself
				}
				li, isI := leaf.(ssa.Instruction)
				if !isI {
					okLeavesGuarded = false
					continue
				}
				guarded := false
				for _, b2 := range fn.Blocks {
					ifi, isIf := b2.Instrs[len(b2.Instrs)-1].(*ssa.If)
					if !isIf {
						continue
					}
					bo, isB := ifi.Cond.(*ssa.BinOp)
					if !isB || bo.Op != token.NEQ {
						continue
					}
					f1, _, ok1 := core.LoadedField(bo.X)
					f2, _, ok2 := core.LoadedField(bo.Y)
					if !ok1 || !ok2 {
						continue
					}
					names := []string{f1.String(), f2.String()}
					sort.Strings(names)
					if names[0] != "filtering.FilterYAML.checksum" || names[1] != "filtering/rulelist.ParseResult.Checksum" {
						continue
					}
					if b2.Succs[0].Dominates(li.Block()) && len(b2.Succs[0].Preds) == 1 {
						guarded = true
					}
				}
				if !guarded {
					okLeavesGuarded = false
				}
			}
		}
	}
	r.Check(hasNeq && nLeaves > 0 && okLeavesGuarded, "C15-D2", "unchanged-checksum-not-rewritten", p.FnPos(fn),
		"ok can be true only on the edge where the new checksum differs from the stored one",
		"ok (rewrite the list file) no longer requires the downloaded checksum to differ from the stored one")
}

// leafErrs resolves an error value to its defining leaves through cell loads
// and phis.
func leafErrs(v ssa.Value) []ssa.Value {
	var out []ssa.Value
	seen := map[ssa.Value]bool{}
	var walk func(ssa.Value, int)
	walk = func(x ssa.Value, d int) {
		if seen[x] || d > 6 {
			return
		}
		seen[x] = true
		switch t := x.(type) {
		case *ssa.Phi:
			for _, e := range t.Edges {
				walk(e, d+1)
			}
		case *ssa.UnOp:
			if cell, ok := t.X.(*ssa.Alloc); ok && t.Op == token.MUL {
				vals, _, _ := core.ReachingStores(cell, t)
				for _, vv := range vals {
					walk(vv, d+1)
				}
				return
			}
			out = append(out, x)
		default:
			out = append(out, x)
		}
	}
	walk(v, 0)
	return out
}

// c15Metadata: D3.
func c15Metadata(c *Ctx) { refreshMetadata(c, "C15-D3") }

// refreshMetadata: the refresh copies the new metadata of a list back into the live configuration by looking the
// list up again under the lock, never through a position remembered from before the download (shared by C15-D3
// and, because the stale position is an index out of range once a list was removed meanwhile, by C05).
func refreshMetadata(c *Ctx, rule string) {
	p, r := c.P, c.R
	meta := map[string]bool{"RulesCount": true, "checksum": true}
	writers := map[string][]ssa.Instruction{}
	for _, fn := range p.ModFns {
		if fn.Blocks == nil || core.IsNextPkg(fn) {
			continue
		}
		for _, b := range fn.Blocks {
			for _, in := range b.Instrs {
				st, ok := in.(*ssa.Store)
				if !ok {
					continue
				}
				fr, ok := core.FieldOfAddr(st.Addr)
				if !ok || fr.Type != "filtering.FilterYAML" || !meta[fr.Field] {
					continue
				}
				// construction of a fresh value is not a write to a live list
				if fa, ok := st.Addr.(*ssa.FieldAddr); ok {
					if _, fresh := fa.X.(*ssa.Alloc); fresh {
						continue
					}
				}
				writers[core.FuncKey(fn)] = append(writers[core.FuncKey(fn)], in)
			}
		}
	}
	var names []string
	for k := range writers {
		names = append(names, k)
	}
	sort.Strings(names)
	r.Info["metadata_writers"] = names
	// a helper that is only called (directly or through other such helpers) from one classified writer is part of it:
	// its stores are judged by that writer's rule, across the call
	classified := map[string]bool{
		"(*filtering.DNSFilter).finalizeUpdate": true, "(*filtering.DNSFilter).refreshFiltersArray": true, "(*filtering.DNSFilter).load": true,
		"(*filtering.FilterYAML).unload": true, "(*filtering.DNSFilter).filterSetProperties$1": true, "(*filtering.DNSFilter).filterSetProperties$2": true, "(*filtering.DNSFilter).filterSetProperties$3": true,
	}
	var ownerOf func(fn *ssa.Function, depth int) string
	ownerOf = func(fn *ssa.Function, depth int) string {
		k := core.FuncKey(fn)
		if classified[k] {
			return k
		}
		if depth > 3 {
			return ""
		}
		owner := ""
		callers := callerFuncs(p, fn)
		if len(callers) == 0 {
			return ""
		}
		for _, cf := range callers {
			o := ownerOf(cf, depth+1)
			if o == "" || (owner != "" && o != owner) {
				return ""
			}
			owner = o
		}
		return owner
	}
	owned := map[string][]ssa.Instruction{}
	var keep []string
	for _, fk := range names {
		if classified[fk] {
			keep = append(keep, fk)
			continue
		}
		if o := ownerOf(p.Fn(fk), 0); o != "" && (o == "(*filtering.DNSFilter).finalizeUpdate" || o == "(*filtering.DNSFilter).refreshFiltersArray" || strings.HasPrefix(o, "(*filtering.DNSFilter).filterSetProperties$")) {
			owned[o] = append(owned[o], writers[fk]...)
			if _, has := writers[o]; !has {
				writers[o] = nil
				keep = append(keep, o)
			}
			continue
		}
		keep = append(keep, fk)
	}
	sort.Strings(keep)
	names = keep
	deep := func(fn *ssa.Function, match func(core.Atom) (bool, bool), sink func(ssa.Instruction) bool) ([]core.Offender, int) {
		off, n, _ := core.GuardedDeep(fn, match, sink, 3)
		return off, n
	}
	for i, fk := range names {
		if i > 0 && names[i-1] == fk {
			continue
		}
		fn := p.Fn(fk)
		ins := append(append([]ssa.Instruction{}, writers[fk]...), owned[fk]...)
		isSink := func(x ssa.Instruction) bool {
			for _, w := range ins {
				if w == x {
					return true
				}
			}
			return false
		}
		switch fk {
		case "(*filtering.DNSFilter).finalizeUpdate":
			off, n := deep(fn, func(at core.Atom) (bool, bool) {
				if (at.Op == token.EQL || at.Op == token.NEQ) && core.IsNilConst(at.Other) {
					if cr, _, ok := core.CallResult(at.Base); ok && core.CalleeKey(cr.Common()) == "iface:(aghrenameio.PendingFile).CloseReplace" {
						return true, at.Op == token.EQL
					}
				}
				return false, false
			}, isSink)
			r.Check(n > 0 && len(off) == 0, rule, "metadata-after-commit:"+fk, p.FnPos(fn),
				"rule count and checksum are updated only after CloseReplace returned nil", "list metadata is updated although the file was not (successfully) replaced", traceOf(p, off)...)
		case "(*filtering.DNSFilter).refreshFiltersArray":
			// guarded by the per-list updated flag (element of the flags slice) being true
			off, n := deep(fn, func(at core.Atom) (bool, bool) {
				if at.Op != token.ILLEGAL {
					return false, false
				}
				// updated := updateFlags[i]  -> load of IndexAddr on a []bool
				if u, ok := at.Base.(*ssa.UnOp); ok {
					if ia, ok := u.X.(*ssa.IndexAddr); ok {
						if sl, ok := ia.X.Type().Underlying().(*types.Slice); ok {
							if bt, ok := sl.Elem().Underlying().(*types.Basic); ok && bt.Kind() == types.Bool {
								return true, true
							}
						}
					}
					// or the flag kept beside the list in a record: a boolean field that this function fills
					// from the first result of update
					if fa, ok := u.X.(*ssa.FieldAddr); ok {
						if fr, ok := core.FieldOfAddr(fa); ok {
							for _, b := range fn.Blocks {
								for _, in := range b.Instrs {
									st, isSt := in.(*ssa.Store)
									if !isSt {
										continue
									}
									if fr2, ok := core.FieldOfAddr(st.Addr); !ok || fr2 != fr {
										continue
									}
									if ex, isEx := st.Val.(*ssa.Extract); isEx && ex.Index == 0 {
										if call, isCall := ex.Tuple.(*ssa.Call); isCall && core.CalleeKey(call.Common()) == "(*filtering.DNSFilter).update" {
											return true, true
										}
									}
								}
							}
						}
					}
				}
				return false, false
			}, isSink)
			r.Check(n > 0 && len(off) == 0, rule, "metadata-copied-only-if-updated:"+fk, p.FnPos(fn),
				"metadata is copied back into the configuration only for lists whose refresh reported updated == true", "metadata of a list that was not updated is overwritten", traceOf(p, off)...)
			// and only for the matching ID and URL
			off2, n2 := deep(fn, func(at core.Atom) (bool, bool) {
				if at.Op != token.EQL && at.Op != token.NEQ {
					return false, false
				}
				f1, _, ok1 := core.LoadedField(at.Base)
				f2, _, ok2 := core.LoadedField(at.Other)
				if ok1 && ok2 && f1 == f2 && f1.Field == "ID" {
					return true, at.Op == token.EQL
				}
				return false, false
			}, isSink)
			// the list that receives the results is looked up in the live array when they are copied back: its element
			// is addressed with the loop variable of a range over that very array (an index remembered from before the
			// downloads can point at a neighbour once a list was removed meanwhile)
			okIdx := true
			for _, w := range ins {
				st, isSt := w.(*ssa.Store)
				if !isSt {
					continue
				}
				fa, isFA := st.Addr.(*ssa.FieldAddr)
				if !isFA {
					continue
				}
				base := fa.X
				// the element may be handed to an owned helper as its receiver/parameter
				for hop := 0; hop < 3; hop++ {
					prm, isPrm := base.(*ssa.Parameter)
					if !isPrm {
						break
					}
					args := core.ArgsOfParam(prm)
					if len(args) != 1 {
						break
					}
					base = args[0]
				}
				ia, isIA := base.(*ssa.IndexAddr)
				if !isIA {
					continue // not an element of an array (e.g. the list object the download worked on)
				}
				// the index is the counter of a range loop (the `+1` of the loop-header phi)
				isLoopVar := false
				if bo, isBO := ia.Index.(*ssa.BinOp); isBO && bo.Op == token.ADD {
					if ph, isPhi := bo.X.(*ssa.Phi); isPhi && strings.HasPrefix(ph.Block().Comment, "rangeindex") {
						isLoopVar = true
					}
				}
				if ph, isPhi := ia.Index.(*ssa.Phi); isPhi && strings.HasPrefix(ph.Block().Comment, "rangeindex") {
					isLoopVar = true
				}
				if !isLoopVar {
					okIdx = false
				}
			}
			r.Check(okIdx, rule, "metadata-copied-by-search-not-by-stale-index:"+fk, p.FnPos(fn),
				"the live list that receives refreshed metadata is found by scanning the live array", "refreshed metadata is written through an index into the live array that does not come from scanning it now: when a list is removed during the download, the results of a refresh that already replaced the file are lost")
			r.Check(n2 > 0 && len(off2) == 0, rule, "metadata-copied-to-same-list:"+fk, p.FnPos(fn),
				"metadata is copied only to the list with the same ID", "metadata can be copied to a different list", traceOf(p, off2)...)
		case "(*filtering.DNSFilter).load":
			// values come from parsing the file just opened
			okAll := true
			for _, w := range ins {
				st := w.(*ssa.Store)
				os := core.Origins(st.Val, core.ProvOpts{Prog: p})
				from := false
				for _, o := range os {
					if o.Kind == "call" && o.Key == "(*filtering/rulelist.Parser).Parse" || (o.Kind == "field" && strings.HasPrefix(o.Key, "filtering/rulelist.ParseResult.")) {
						from = true
					}
				}
				if !from {
					okAll = false
				}
			}
			r.Check(okAll, rule, "metadata-from-file:"+fk, p.FnPos(fn), "load takes rule count and checksum from parsing the stored file", "load sets metadata from something other than the parse result of the stored file")
		case "(*filtering.FilterYAML).unload":
			r.Ok(rule, "metadata-reset:"+fk, p.FnPos(fn), "unload clears the metadata of a disabled list")
		case "(*filtering.DNSFilter).filterSetProperties$1", "(*filtering.DNSFilter).filterSetProperties$2", "(*filtering.DNSFilter).filterSetProperties$3":
			// rollback closure: restores the value captured at entry, only when err != nil
			okRb := true
			var whyRb []string
			for _, w := range ins {
				st := w.(*ssa.Store)
				if _, isParam := st.Val.(*ssa.Parameter); isParam {
					continue
				}
				// ... or a value that was read from this very field of a list (a snapshot taken before the change,
				// kept in a local value or struct)
				fr, _ := core.FieldOfAddr(st.Addr)
				okO, nO := true, 0
				for _, o := range core.Origins(st.Val, core.ProvOpts{Prog: p, InterprocDepth: 2}) {
					nO++
					if !(o.Kind == "field" && o.Key == "filtering.FilterYAML."+fr.Field) {
						okO = false
						whyRb = append(whyRb, fr.Field+" <- "+o.String())
					}
				}
				if !okO || nO == 0 {
					okRb = false
				}
			}
			g, n := core.CondEdges(fn, func(at core.Atom) (bool, bool) {
				if (at.Op == token.EQL || at.Op == token.NEQ) && core.IsNilConst(at.Other) && types.Identical(at.Base.Type(), types.Universe.Lookup("error").Type()) {
					return true, at.Op == token.NEQ
				}
				return false, false
			})
			off, _ := core.UnguardedSinks(fn, isSink, g)
			r.Check(okRb && n > 0 && len(off) == 0, rule, "metadata-rollback:"+fk, p.FnPos(fn),
				"on error the previous rule count captured at entry is restored", "the rollback closure writes metadata that is not the previously captured value, or not only on error", whyRb...)
		default:
			r.Fail(rule, "metadata-writer:"+fk, p.InstrPos(ins[0]),
				"an unclassified function writes a list's rule count / checksum: metadata may diverge from the file on disk after a failed refresh")
		}
	}
	r.Floor(rule, "metadata-writers", len(names), 3)
}

func c15Reader(c *Ctx) {
	p, r := c.P, c.R
	fn := p.Fn("(*filtering.DNSFilter).readerFromURL")
	if fn == nil {
		r.Undecided("C15-D4", "readerFromURL", "-", "anchor not found")
		return
	}
	// a return that hands out (something made from) the response: when the fetch was folded into the reader that
	// also opens local files, only these returns are meant
	folded := p.FnExact("(*filtering.DNSFilter).readerFromURL") == nil
	nonNilReader := func(in ssa.Instruction) bool {
		ret, ok := core.AsReturn(in)
		if !ok || len(ret.Results) != 2 {
			return false
		}
		v := core.ResolveLocalLoad(core.Res(ret, 0))
		if core.IsNilConst(v) {
			return false
		}
		if !folded {
			return true
		}
		for _, o := range core.Origins(v, core.ProvOpts{Prog: p}) {
			if o.Kind == "field" && strings.HasSuffix(o.Key, "http.Response.Body") {
				return true
			}
		}
		return false
	}
	g1, n1 := core.CondEdges(fn, func(at core.Atom) (bool, bool) {
		if at.Op != token.EQL && at.Op != token.NEQ {
			return false, false
		}
		fr, _, ok := core.LoadedField(at.Base)
		if !ok || fr.Type != "net/http.Response" || fr.Field != "StatusCode" {
			return false, false
		}
		if k, ok := core.ConstInt(at.Other); ok && k == 200 {
			return true, at.Op == token.EQL
		}
		return false, false
	})
	off, ns := core.UnguardedSinks(fn, nonNilReader, g1)
	r.Check(n1 > 0 && ns > 0 && len(off) == 0, "C15-D4", "body-only-for-200", p.FnPos(fn),
		"a response body is returned only when the status code is 200", "a non-200 response can be parsed as a list", traceOf(p, off)...)
	g2, n2 := core.CondEdges(fn, func(at core.Atom) (bool, bool) {
		if (at.Op == token.EQL || at.Op == token.NEQ) && core.IsNilConst(at.Other) {
			if cr, idx, ok := core.CallResult(at.Base); ok && idx == 1 && strings.HasPrefix(core.CalleeKey(cr.Common()), "(*net/http.Client).") {
				return true, at.Op == token.EQL
			}
		}
		return false, false
	})
	off2, _ := core.UnguardedSinks(fn, nonNilReader, g2)
	r.Check(n2 > 0 && len(off2) == 0, "C15-D4", "body-only-without-transport-error", p.FnPos(fn),
		"a response body is returned only when the HTTP request returned no error", "a response can be used although the request failed", traceOf(p, off2)...)
	// The parser takes a clean end of input for the end of the list.  A reader that cuts its source short
	// without an error (io.LimitReader, io.LimitedReader, io.SectionReader) turns a half list into a whole one.
	silent := map[string]bool{"io.LimitReader": true, "io.NewSectionReader": true}
	for _, fk := range []string{"(*filtering.DNSFilter).readerFromURL", "(*filtering.DNSFilter).reader"} {
		f := p.Fn(fk)
		if f == nil {
			r.Undecided("C15-D4", "no-silent-truncation:"+fk, "-", "anchor not found")
			continue
		}
		var bad []string
		nRet := 0
		for _, b := range f.Blocks {
			if len(b.Instrs) == 0 || b == f.Recover {
				continue
			}
			ret, ok := core.AsReturn(b.Instrs[len(b.Instrs)-1])
			if !ok || len(ret.Results) != 2 {
				continue
			}
			nRet++
			for _, o := range core.Origins(core.Res(ret, 0), core.ProvOpts{Prog: p, IntoModuleCalls: true, InterprocDepth: 2}) {
				if o.Kind == "call" && silent[o.Key] {
					bad = append(bad, o.Key+" at "+p.InstrPos(ret))
				}
				if o.Val != nil {
					if t := core.TypeKey(o.Val.Type()); strings.Contains(t, "io.LimitedReader") || strings.Contains(t, "io.SectionReader") {
						bad = append(bad, t+" at "+p.InstrPos(ret))
					}
				}
			}
		}
		r.Check(nRet > 0 && len(bad) == 0, "C15-D4", "no-silent-truncation:"+fk, p.FnPos(f),
			"the reader handed to the parser never ends early without an error",
			"the list is read through a reader that stops early with a clean end of input: a list cut at that point is parsed, counted and committed as if it were complete", bad...)
	}
}

// c15Parser: D5.
func c15Parser(c *Ctx) {
	p, r := c.P, c.R
	fn := p.Fn("(*filtering/rulelist.Parser).processLine")
	if fn == nil || len(fn.Params) < 3 {
		r.Undecided("C15-D5", "processLine", "-", "anchor not found")
		return
	}
	line := fn.Params[2]
	var trimmed ssa.Value
	for _, call := range core.CallsTo(fn, "bytes.TrimSpace") {
		if call.Arg(0) == ssa.Value(line) {
			trimmed, _ = call.Instr.(ssa.Value)
		}
	}
	if trimmed == nil {
		r.Fail("C15-D5", "line-trimmed", p.FnPos(fn), "the line is no longer trimmed with bytes.TrimSpace before it is classified and stored")
		return
	}
	// HTML test
	html := core.CallsTo(fn, "filtering/rulelist.isHTMLLine")
	if len(html) != 1 {
		r.Fail("C15-D5", "html-test", p.FnPos(fn), fmt.Sprintf("expected one HTML test per line, found %d", len(html)))
	} else {
		hc := html[0]
		blk := hc.Instr.Block()
		ok, why := hc.Arg(0) == trimmed, "the HTML test does not look at the trimmed line"
		// every branch that decides whether the test runs is 'nothing written yet'
		for _, b := range fn.Blocks {
			if b == blk || !b.Dominates(blk) {
				continue
			}
			iff, isIf := b.Instrs[len(b.Instrs)-1].(*ssa.If)
			if !isIf {
				continue
			}
			// does the branch decide? (one successor cannot reach the test)
			decides, toTest := false, -1
			for i, s := range b.Succs {
				if found, _, _ := core.Reach(core.Query{From: []core.Point{{Block: s, Idx: 0}}, Target: func(in ssa.Instruction) bool { return in == hc.Instr.(ssa.Instruction) }}); !found {
					decides = true
				} else {
					toTest = i
				}
			}
			if !decides {
				continue
			}
			at := core.Decompose(iff.Cond)
			fr, _, isField := core.LoadedField(at.Base)
			zero, isZero := core.ConstInt(at.Other)
			atomOnEdge := (toTest == 0) != at.Neg // value of the atom on the edge that leads to the test
			dirOK := ((at.Op == token.EQL || at.Op == token.LEQ) && atomOnEdge) || ((at.Op == token.NEQ || at.Op == token.GTR) && !atomOnEdge)
			if !(isField && fr.Field == "written" && isZero && zero == 0 && dirOK) {
				ok, why = false, "the HTML test is guarded by a condition other than 'nothing has been written yet' ("+p.InstrPos(iff)+"): markup after a blank or comment line, or on a later line before the first rule, is stored as rules"
			}
		}
		// positive outcome returns ErrHTML
		v, _ := hc.Instr.(ssa.Value)
		edges, n := core.CondEdges(fn, func(at core.Atom) (bool, bool) { return at.Op == token.ILLEGAL && at.Base == v, true })
		retHTML := n == 1
		for e := range edges {
			tb := e.From.Succs[e.Succ]
			ret, isRet := core.AsReturn(tb.Instrs[len(tb.Instrs)-1])
			if !isRet || len(ret.Results) < 1 || core.IsNilConst(core.Res(ret, len(ret.Results)-1)) {
				retHTML = false
			}
		}
		if ok && !retHTML {
			ok, why = false, "a positive HTML test does not immediately return an error"
		}
		r.Check(ok, "C15-D5", "html-test:while-nothing-written", p.InstrPos(hc.Instr), "the HTML test runs on the trimmed line whenever nothing has been written yet and its positive outcome is an error", why)
	}
	// classification sees only the trimmed line
	nCls := 0
	okCls := true
	for _, call := range core.Calls(fn) {
		switch call.Key {
		case "filtering/rulelist.parseLine":
			nCls++
			okCls = okCls && call.Arg(0) == trimmed
		case "(*filtering/rulelist.Parser).parseLineTitle":
			nCls++
			okCls = okCls && call.Arg(1) == trimmed
		}
	}
	r.Check(nCls >= 1 && okCls, "C15-D5", "classification-of-trimmed-line", p.FnPos(fn), "rule/comment classification is computed from the trimmed line only", "the classification no longer looks at the trimmed line only (the stored form would classify differently when re-parsed)")
	// the write
	var writes []core.Call
	for _, call := range core.Calls(fn) {
		if call.Common.IsInvoke() && call.Common.Method.Name() == "Write" {
			writes = append(writes, call)
		}
	}
	if len(writes) != 1 {
		r.Fail("C15-D5", "one-write", p.FnPos(fn), fmt.Sprintf("expected exactly one write per rule line, found %d", len(writes)))
		return
	}
	w := writes[0]
	okW, whyW := false, "the written bytes are not the trimmed line followed by one newline"
	if ap, ok := w.Common.Args[0].(*ssa.Call); ok {
		if bi, ok := ap.Call.Value.(*ssa.Builtin); ok && bi.Name() == "append" && len(ap.Call.Args) == 2 && ap.Call.Args[0] == trimmed {
			if sl, ok := ap.Call.Args[1].(*ssa.Slice); ok {
				if al, ok := sl.X.(*ssa.Alloc); ok {
					n, nl := 0, false
					for _, u := range core.Users(al) {
						if ia, ok := u.(*ssa.IndexAddr); ok {
							for _, u2 := range core.Users(ia) {
								if st, ok := u2.(*ssa.Store); ok {
									n++
									if v, ok := core.ConstInt(st.Val); ok && v == 10 {
										nl = true
									}
								}
							}
						}
					}
					okW = n == 1 && nl
				}
			}
		}
	}
	r.Check(okW, "C15-D5", "stored-form:trimmed-plus-newline", p.InstrPos(w.Instr), "a rule is stored as its trimmed line plus a newline", whyW)
	// count and checksum advance exactly once, over the trimmed line, exactly on the writing path
	wb := w.Instr.Block()
	nCnt, nSum, sumOK, samePath := 0, 0, true, true
	for _, b := range fn.Blocks {
		for _, in := range b.Instrs {
			st, ok := in.(*ssa.Store)
			if !ok {
				continue
			}
			fr, ok := core.FieldOfAddr(st.Addr)
			if !ok || fr.Type != "filtering/rulelist.Parser" {
				continue
			}
			switch fr.Field {
			case "rulesCount":
				nCnt++
				bo, ok := st.Val.(*ssa.BinOp)
				one := int64(0)
				if ok {
					one, _ = core.ConstInt(bo.Y)
				}
				if !ok || bo.Op != token.ADD || one != 1 {
					sumOK = false
				}
			case "checksum":
				nSum++
				call, ok := st.Val.(*ssa.Call)
				if !ok || core.CalleeKey(call.Common()) != "hash/crc32.Update" || len(call.Call.Args) != 3 || call.Call.Args[2] != trimmed {
					sumOK = false
				}
			default:
				continue
			}
			if !(b == wb || (b.Dominates(wb) && len(b.Succs) == 1)) {
				samePath = false
			}
		}
	}
	r.Check(nCnt == 1 && nSum == 1 && sumOK && samePath, "C15-D5", "count-and-checksum-follow-the-write", p.InstrPos(w.Instr),
		"the rule count is incremented once and the checksum is advanced once over the trimmed line, on the path that writes the line",
		"rule count / checksum no longer advance exactly once over the stored bytes on the writing path (re-parsing the stored list would give another count or checksum)")
	// only rule lines are written
	ruleEdges, nR := core.CondEdges(fn, func(at core.Atom) (bool, bool) {
		if at.Op != token.ILLEGAL {
			return false, false
		}
		for _, l := range core.FlattenPhi(at.Base) {
			e, ok := l.(*ssa.Extract)
			if !ok || e.Index != 1 {
				return false, false
			}
			if !core.IsCallResult(e, 1, "filtering/rulelist.parseLine", "(*filtering/rulelist.Parser).parseLineTitle") {
				return false, false
			}
		}
		return true, true
	})
	off, nS := core.UnguardedSinks(fn, func(in ssa.Instruction) bool { return in == w.Instr.(ssa.Instruction) }, ruleEdges)
	r.Check(nR > 0 && nS == 1 && len(off) == 0, "C15-D5", "only-rules-written", p.InstrPos(w.Instr), "only lines classified as rules are written", "a line can be written without having been classified as a rule (comments or blank lines end up in the stored form)", traceOf(p, off)...)

	// the parse loop
	pf := p.Fn("(*filtering/rulelist.Parser).Parse")
	if pf == nil {
		r.Undecided("C15-D5", "Parse", "-", "anchor not found")
		return
	}
	pls := core.CallsTo(pf, "(*filtering/rulelist.Parser).processLine")
	if len(pls) != 1 {
		r.Fail("C15-D5", "parse-loop", p.FnPos(pf), "expected one processLine call in the scan loop")
		return
	}
	pl := pls[0].Instr.(ssa.Value)
	errEdges, nE := core.CondEdges(pf, func(at core.Atom) (bool, bool) {
		if (at.Op == token.NEQ || at.Op == token.EQL) && core.IsNilConst(at.Other) {
			for _, l := range core.FlattenPhi(core.ResolveCellLoad(at.Base)) {
				// the error is the last result of processLine (its only one when the byte count is kept inside)
				if e, ok := l.(*ssa.Extract); ok && e.Tuple == pl && e.Index == pl.Type().(*types.Tuple).Len()-1 {
					return true, at.Op == token.NEQ
				}
				if l == pl {
					if _, isTuple := pl.Type().(*types.Tuple); !isTuple {
						return true, at.Op == token.NEQ
					}
				}
			}
		}
		return false, false
	})
	stops := nE == 1
	for e := range errEdges {
		if found, _, _ := core.Reach(core.Query{From: []core.Point{core.AfterEdge(e)}, Target: func(in ssa.Instruction) bool { return in == pls[0].Instr.(ssa.Instruction) }}); found {
			stops = false
		}
	}
	r.Check(stops, "C15-D5", "parse-stops-at-first-line-error", p.FnPos(pf), "parsing stops at the first line error (HTML, binary, write error) and reports it", "parsing can continue after a line error")
	parserReportsReadError(c, "C15-D5")
	c15ClassifiersAgree(c)
}

// c15ClassifiersAgree: D6.  Until a title line has been seen the parser
// classifies lines with parseLineTitle, afterwards with parseLine.  The stored
// normal form contains no title line, so when it is parsed again *every* line
// goes through parseLineTitle, while at download time the lines after the title
// went through parseLine.  Count and checksum are reproduced only if the two
// classify every line alike.  Both functions look at a line only through: its
// emptiness, its first byte being '#' or '!', the index of the first
// binary-looking byte, and the title prefix; they are evaluated over that
// finite domain and must return the same (badIdx, isRule) everywhere.
func c15ClassifiersAgree(c *Ctx) {
	p, r := c.P, c.R
	pl := p.Fn("filtering/rulelist.parseLine")
	pt := p.Fn("(*filtering/rulelist.Parser).parseLineTitle")
	if pl == nil || pt == nil {
		r.Undecided("C15-D6", "classifiers", "-", "parseLine / parseLineTitle not found")
		return
	}
	model := func(lineIdx int) core.AbsModel {
		isLine := func(a core.AbsVal) bool { return a.Kind == core.AbsParam && a.Idx == lineIdx }
		return core.AbsModel{
			Project: func(op string, arg core.AbsVal) (string, bool) {
				switch {
				case op == "len" && isLine(arg):
					return "len", true
				case op == "[0]" && isLine(arg):
					return "first", true
				case strings.HasPrefix(op, "slices.IndexFunc") && isLine(arg):
					return "badIdx", true
				}
				return "", false
			},
			Predicate: func(op string, arg core.AbsVal) (string, bool) {
				switch {
				case arg.Kind == core.AbsProj && arg.Sym == "len" && (op == "==const:0" || op == "<=const:0" || op == "<const:1"):
					return "empty", true
				case arg.Kind == core.AbsProj && arg.Sym == "first" && op == "==const:35":
					return "hash", true
				case arg.Kind == core.AbsProj && arg.Sym == "first" && op == "==const:33":
					return "bang", true
				case arg.Kind == core.AbsProj && arg.Sym == "badIdx" && op == "==const:-1":
					return "clean", true
				case op == "bytes.HasPrefix" && isLine(arg):
					return "titlePrefix", true
				}
				return "", false
			},
		}
	}
	b2 := func(v bool) [2]bool { return [2]bool{v, v} }
	n := 0
	var bad []string
	for _, empty := range []bool{true, false} {
		for _, first := range []string{"#", "!", "x"} {
			for _, clean := range []bool{true, false} {
				for _, title := range []bool{true, false} {
					if empty && (first != "x" || !clean || title) {
						continue // one representative for the empty line
					}
					if title && first != "!" {
						continue // the title prefix starts with '!'
					}
					f := core.AbsFacts{Pred: map[string][2]bool{"empty": b2(empty), "hash": b2(first == "#"), "bang": b2(first == "!"), "clean": b2(clean), "titlePrefix": b2(title)}}
					desc := fmt.Sprintf("empty=%v first=%s clean=%v titlePrefix=%v", empty, first, clean, title)
					r1, ok1, w1 := core.AbsEvalMulti(pl, model(0), f)
					r2, ok2, w2 := core.AbsEvalMulti(pt, model(1), f)
					n++
					r.Eval(2)
					if !ok1 || !ok2 {
						bad = append(bad, fmt.Sprintf("%s: not decidable (%s%s): a condition the other classifier does not know", desc, w1, w2))
						continue
					}
					norm := func(rs []core.AbsVal) string {
						var out []string
						for _, v := range rs {
							v.Idx = 0
							out = append(out, v.String())
						}
						return strings.Join(out, ",")
					}
					if norm(r1) != norm(r2) {
						bad = append(bad, fmt.Sprintf("%s: parseLine gives %v, parseLineTitle gives %v", desc, r1, r2))
					}
				}
			}
		}
	}
	sort.Strings(bad)
	if len(bad) > 6 {
		bad = append(bad[:6], fmt.Sprintf("... %d more cases", len(bad)-6))
	}
	r.Check(n >= 8 && len(bad) == 0, "C15-D6", "classifiers-agree", p.FnPos(pt),
		fmt.Sprintf("parseLine and parseLineTitle classify every line alike (%d abstract cases): re-parsing the stored list reproduces rule count and checksum", n),
		"parseLine and parseLineTitle classify some lines differently: a list stored after a successful refresh is counted and summed differently when it is loaded again, and the next refresh rewrites an unchanged list", bad...)
}

// parserReportsReadError: when the input ends with a read error (connection
// dropped, body cut short) the parser reports it — this is the only way the
// refresh learns that the list is incomplete and must not replace the stored
// file.  Shared by C15-D5 and C14-D5.
func parserReportsReadError(c *Ctx, rule string) {
	p, r := c.P, c.R
	pf := p.Fn("(*filtering/rulelist.Parser).Parse")
	if pf == nil {
		r.Undecided(rule, "Parse", "-", "anchor not found")
		return
	}
	var serr *ssa.Call
	for _, call := range core.CallsTo(pf, "(*bufio.Scanner).Err") {
		serr, _ = call.Instr.(*ssa.Call)
	}
	if serr == nil {
		r.Fail(rule, "scanner-error-reported", p.FnPos(pf), "the parser no longer asks the scanner for the read error")
		return
	}
	ok, why := true, ""
	nRet := 0
	for _, b := range pf.Blocks {
		ret, isRet := core.AsReturn(b.Instrs[len(b.Instrs)-1])
		if !isRet || len(ret.Results) != 2 || !serr.Block().Dominates(b) {
			continue
		}
		nRet++
		var leaves func(v ssa.Value, depth int) []ssa.Value
		leaves = func(v ssa.Value, depth int) []ssa.Value {
			v = core.ResolveCellLoad(v)
			if depth > 6 {
				return []ssa.Value{v}
			}
			switch x := v.(type) {
			case *ssa.Phi:
				var out []ssa.Value
				for _, e := range x.Edges {
					out = append(out, leaves(e, depth+1)...)
				}
				return out
			case *ssa.Call:
				if core.CalleeKey(x.Common()) == "github.com/AdguardTeam/golibs/errors.Annotate" {
					return leaves(x.Call.Args[0], depth+1)
				}
			}
			return []ssa.Value{v}
		}
		for _, l := range leaves(core.Res(ret, 1), 0) {
			if l != ssa.Value(serr) {
				ok, why = false, "after the scan the returned error can be something other than the scanner's error (e.g. nil for a particular kind of read error)"
			}
		}
	}
	if nRet == 0 {
		ok, why = false, "no return follows the scanner-error query"
	}
	r.Check(ok, rule, "scanner-error-reported", p.InstrPos(serr), "after the scan the parser returns exactly the scanner's error", why+": a list whose transfer broke off is parsed 'successfully' and replaces the stored one")
}

// isChecksumNeq matches `res.Checksum != flt.checksum` (either order).
func isChecksumNeq(v ssa.Value) bool {
	bo, ok := v.(*ssa.BinOp)
	if !ok || bo.Op != token.NEQ {
		return false
	}
	f1, _, ok1 := core.LoadedField(bo.X)
	f2, _, ok2 := core.LoadedField(bo.Y)
	if !ok1 || !ok2 {
		return false
	}
	names := []string{f1.String(), f2.String()}
	sort.Strings(names)
	return names[0] == "filtering.FilterYAML.checksum" && names[1] == "filtering/rulelist.ParseResult.Checksum"
}

// c15SameScanBuffers: D5 — the parse that writes a list's file and the parse
// that reads it back (load, after a restart) must accept the same lines: the
// scanner's line limit is the capacity of the buffer it is given, so every
// Parse call of the package takes its buffer from one and the same pool.
func c15SameScanBuffers(c *Ctx) {
	p, r := c.P, c.R
	pools := map[string][]string{}
	n := 0
	for _, fn := range p.ModFnsIn("filtering") {
		for _, call := range core.CallsTo(fn, "(*filtering/rulelist.Parser).Parse") {
			n++
			src := "?"
			for _, o := range core.Origins(call.Arg(3), core.ProvOpts{Prog: p}) {
				if o.Kind != "call" || !strings.Contains(o.Key, "syncutil.Pool") || !strings.HasSuffix(o.Key, ".Get") {
					continue
				}
				if gc, _, ok := core.CallResult(o.Val); ok && len(gc.Common().Args) > 0 {
					recv := core.ResolveCellLoad(gc.Common().Args[0])
					if fr, _, isF := core.LoadedField(recv); isF {
						src = "field " + fr.String()
					} else if u, isU := recv.(*ssa.UnOp); isU {
						if g, isG := u.X.(*ssa.Global); isG {
							src = "package variable " + g.Name()
						}
					}
				}
			}
			pools[src] = append(pools[src], core.FuncKey(fn))
		}
	}
	var desc []string
	for k, v := range pools {
		sort.Strings(v)
		desc = append(desc, fmt.Sprintf("%s: %v", k, v))
	}
	sort.Strings(desc)
	_, unknown := pools["?"]
	r.Check(n >= 2 && len(pools) == 1 && !unknown, "C15-D5", "parses-share-one-buffer-pool", "-",
		"every parse of a list (download and re-read of the stored file) takes its scan buffer from the same pool, so both accept the same lines",
		"the parses of a list take their scan buffers from different sources: a line length the downloading parse accepts can be over the limit of the parse that reads the stored file back (count and checksum are then lost after a restart and the list is rewritten on every refresh)", desc...)
}

// c15FreshParser: D5 (cont.) — the parser carries state that decides how lines
// are classified (whether anything was written yet gates the HTML test, whether
// the title was found): every parse of a list starts from a parser made for it
// by NewParser, never from one that has parsed something else before.
func c15FreshParser(c *Ctx) {
	p, r := c.P, c.R
	n := 0
	var bad []string
	for _, fn := range p.ModFns {
		if fn.Blocks == nil || core.IsNextPkg(fn) {
			continue
		}
		for _, call := range core.CallsTo(fn, "(*filtering/rulelist.Parser).Parse") {
			n++
			for _, o := range core.Origins(call.Arg(0), core.ProvOpts{Prog: p, InterprocDepth: 2}) {
				if o.Kind == "call" && o.Key == "filtering/rulelist.NewParser" {
					continue
				}
				bad = append(bad, p.InstrPos(call.Instr)+": the parser comes from "+o.String())
			}
		}
	}
	sort.Strings(bad)
	r.Check(n >= 2 && len(bad) == 0, "C15-D5", "every-parse-starts-from-a-new-parser", "-",
		"every parse of a list uses a parser made for it by NewParser",
		"a list can be parsed with a parser that has parsed something before: state such as 'something was written already' survives, and the HTML test (or the title search) is skipped for the list", bad...)
}
