package rules

import (
	"fmt"
	"go/token"
	"go/types"
	"sort"
	"strings"

	"aghverif/core"

	"golang.org/x/tools/go/ssa"
)

func init() {
	register(&Rule{
		ID:  "C13",
		Run: runC13,
		Explanation: "Panic obligations and table agreement for the configuration upgrade (package configmigrate, every function incl. generic instantiations). " +
			"Decided: (D1) every map store writes into a map proven non-nil (fresh map, parameter whose every caller passes a non-nil map, result of a typed accessor whose summary 'ok implies non-nil' is itself verified with static folding of type assertions, comma-ok assertion under its ok edge, local cell re-made after it escaped to the YAML decoder); no map value that may be nil is stored into the document; no single-result type assertion, no explicit panic, no integer division; every non-constant index/slice operation is a range-loop index or is dominated by the version validation; " +
			"(D2) every return of Migrate whose error may be non-nil returns the original body and false; (D3) the step table has exactly LastSchemaVersion non-nil slots and slot i stamps schema_version i+1 on every path that returns nil; the table is indexed only after validateVersion succeeded. " +
			"(D4) path independence, type part: a value a step stores into the document whose Go type is not what the YAML decoder would give back for it (e.g. timeutil.Duration, which is written to the file as a string) is never read by a later step through a typed accessor or type assertion — otherwise the outcome depends on whether the two steps run in one call (typed value in memory) or in two (decoded string). " +
			"(D5) a step that walks a list of the document (clients, upstreams, filters) handles every element: inside such a loop a step returns only with an error; 'nothing to do for this element' continues with the next one. " +
			"(D6) every element of the document gets an object of its own: no map or slice made outside a loop is put into the document inside the loop. " +
			"Not decided: the value part of path independence, idempotence, preservation of unrelated settings and loader acceptance (value-level equalities over documents).",
		RuleText: "Obligations are SSA instructions that can panic on attacker-shaped YAML; each is discharged by an enumerated rule or fails.",
		Assumptions: []string{
			"yaml.v3 decodes a YAML null into an untyped nil interface (never a typed nil map) and yields only map[string]any / []any / scalars for untyped targets",
			"stdlib and yaml.v3 callees do not panic on the values passed",
			"nil-pointer dereference of the *Migrator receiver is out of scope (constructed by New)",
		},
		Trusted: commonTrusted,
	})
}

type c13 struct {
	*Ctx
	pkgFns   []*ssa.Function
	summ     map[string]bool // memo for result summaries
	visiting map[string]bool
}

func runC13(c *Ctx) {
	p, r := c.P, c.R
	a := &c13{Ctx: c, summ: map[string]bool{}, visiting: map[string]bool{}}
	for _, fn := range p.ModFns {
		if core.PkgOf(fn) == "configmigrate" && fn.Blocks != nil {
			if fn.TypeParams().Len() > 0 && len(fn.TypeArgs()) == 0 {
				continue // generic origin body; instances are analysed
			}
			a.pkgFns = append(a.pkgFns, fn)
		}
	}
	r.Floor("C13-D1", "configmigrate-functions", len(a.pkgFns), 50)

	var nStore, nAssert, nIdx int
	for _, fn := range a.pkgFns {
		fk := core.FuncKey(fn)
		perKind := map[string]int{}
		for _, b := range fn.Blocks {
			for _, in := range b.Instrs {
				r.Eval(1)
				switch x := in.(type) {
				case *ssa.MapUpdate:
					if _, isMap := x.Map.Type().Underlying().(*types.Map); !isMap {
						continue
					}
					nStore++
					perKind["store"]++
					key := fmt.Sprintf("map-store:%s#%d", fk, perKind["store"])
					ok, why := a.nonNil(x.Map, in, 4)
					r.Check(ok, "C13-D1", key, p.InstrPos(in), "map proven non-nil: "+why,
						"store into a map that may be nil (panics with \"assignment to entry in nil map\"): "+why)
					// value stored: a possibly-nil map must not enter the document
					if mi, isMI := x.Value.(*ssa.MakeInterface); isMI {
						if _, isMap := mi.X.Type().Underlying().(*types.Map); isMap {
							perKind["storeval"]++
							ok2, why2 := a.nonNil(mi.X, in, 4)
							r.Check(ok2, "C13-D1", fmt.Sprintf("map-value-stored:%s#%d", fk, perKind["storeval"]), p.InstrPos(in),
								"stored map value is non-nil: "+why2,
								"a map value that may be nil is stored into the document; a later step asserting it to an object and writing into it would panic: "+why2)
						}
					}
				case *ssa.TypeAssert:
					nAssert++
					perKind["assert"]++
					r.Check(x.CommaOk, "C13-D1", fmt.Sprintf("type-assert:%s#%d", fk, perKind["assert"]), p.InstrPos(in),
						"comma-ok type assertion", "single-result type assertion on document data panics on an unexpected type")
				case *ssa.Panic:
					perKind["panic"]++
					r.Fail("C13-D1", fmt.Sprintf("explicit-panic:%s#%d", fk, perKind["panic"]), p.InstrPos(in), "explicit panic in the upgrade path")
				case *ssa.BinOp:
					if x.Op == token.QUO || x.Op == token.REM {
						if bt, ok := x.X.Type().Underlying().(*types.Basic); ok && bt.Info()&types.IsInteger != 0 {
							if _, isC := x.Y.(*ssa.Const); !isC {
								perKind["div"]++
								r.Fail("C13-D1", fmt.Sprintf("int-division:%s#%d", fk, perKind["div"]), p.InstrPos(in), "integer division by a non-constant value")
							}
						}
					}
				case *ssa.IndexAddr:
					if _, isC := x.Index.(*ssa.Const); isC {
						if _, isArr := derefArray(x.X.Type()); isArr {
							continue
						}
					}
					nIdx++
					perKind["index"]++
					ok, why := a.indexSafe(fn, x.X, x.Index, in)
					r.Check(ok, "C13-D1", fmt.Sprintf("index:%s#%d", fk, perKind["index"]), p.InstrPos(in), why, "index operation not proven in bounds: "+why)
				case *ssa.Index:
					nIdx++
					perKind["index"]++
					ok, why := a.indexSafe(fn, x.X, x.Index, in)
					r.Check(ok, "C13-D1", fmt.Sprintf("index:%s#%d", fk, perKind["index"]), p.InstrPos(in), why, "index operation not proven in bounds: "+why)
				case *ssa.Slice:
					if x.Low == nil && x.High == nil && x.Max == nil {
						continue
					}
					nIdx++
					perKind["slice"]++
					ok, why := a.sliceSafe(fn, x)
					r.Check(ok, "C13-D1", fmt.Sprintf("slice:%s#%d", fk, perKind["slice"]), p.InstrPos(in), why, "slice expression not proven in bounds: "+why)
				case *ssa.SliceToArrayPointer:
					perKind["s2a"]++
					r.Fail("C13-D1", fmt.Sprintf("slice-to-array:%s#%d", fk, perKind["s2a"]), p.InstrPos(in), "slice-to-array conversion can panic")
				}
			}
		}
	}
	r.Floor("C13-D1", "map-stores", nStore, 100)
	r.Floor("C13-D1", "type-assertions", nAssert, 12)
	r.Info["index_or_slice_ops"] = nIdx

	a.migrateReturns()
	a.table()
	a.roundTripStable()
	a.loopsProcessAll()
	a.noSharedObjects()
}

func isFuncArray(t types.Type) bool {
	arr, ok := derefArray(t)
	if !ok {
		return false
	}
	_, isSig := arr.Elem().Underlying().(*types.Signature)
	return isSig
}

func derefArray(t types.Type) (*types.Array, bool) {
	if p, ok := t.Underlying().(*types.Pointer); ok {
		t = p.Elem()
	}
	arr, ok := t.Underlying().(*types.Array)
	return arr, ok
}

// mayBe evaluates whether a boolean SSA value can be `want`, folding
// constants, negations and type assertions on statically typed operands.
func mayBe(v ssa.Value, want bool) bool {
	switch x := v.(type) {
	case *ssa.Const:
		if b, ok := core.ConstBool(x); ok {
			return b == want
		}
	case *ssa.UnOp:
		if x.Op == token.NOT {
			return mayBe(x.X, !want)
		}
	case *ssa.Phi:
		for _, e := range x.Edges {
			if mayBe(e, want) {
				return true
			}
		}
		return false
	case *ssa.Extract:
		if ta, ok := x.Tuple.(*ssa.TypeAssert); ok && x.Index == 1 {
			if res, known := foldAssert(ta); known {
				return res == want
			}
		}
	}
	return true
}

// foldAssert decides a type assertion whose operand is a MakeInterface of a
// statically typed value.
func foldAssert(ta *ssa.TypeAssert) (result, known bool) {
	var x ssa.Value = ta.X
	for {
		if ct, ok := x.(*ssa.ChangeType); ok {
			x = ct.X
			continue
		}
		if ci, ok := x.(*ssa.ChangeInterface); ok {
			x = ci.X
			continue
		}
		break
	}
	mi, ok := x.(*ssa.MakeInterface)
	if !ok {
		return false, false
	}
	st := mi.X.Type()
	if types.IsInterface(ta.AssertedType) {
		return types.Implements(st, ta.AssertedType.Underlying().(*types.Interface)), true
	}
	return types.Identical(st, ta.AssertedType), true
}

// nonNil decides whether map value v is non-nil when instruction at runs.
func (a *c13) nonNil(v ssa.Value, at ssa.Instruction, depth int) (bool, string) {
	fn := at.Parent()
	guardedByNotNil := func() bool {
		g, n := core.CondEdges(fn, func(at core.Atom) (bool, bool) {
			if (at.Op == token.NEQ || at.Op == token.EQL) && at.Base == v && core.IsNilConst(at.Other) {
				return true, at.Op == token.NEQ
			}
			return false, false
		})
		if n == 0 {
			return false
		}
		off, _ := core.UnguardedSinks(fn, func(in ssa.Instruction) bool { return in == at }, g)
		return len(off) == 0
	}
	switch x := v.(type) {
	case *ssa.MakeMap:
		return true, "fresh map"
	case *ssa.Const:
		return false, "nil constant"
	case *ssa.ChangeType:
		return a.nonNil(x.X, at, depth)
	case *ssa.Phi:
		for _, e := range x.Edges {
			if ok, why := a.nonNil(e, at, depth); !ok {
				if guardedByNotNil() {
					return true, "nil-checked"
				}
				return false, "phi edge: " + why
			}
		}
		return true, "all phi edges non-nil"
	case *ssa.Parameter:
		if guardedByNotNil() {
			return true, "parameter nil-checked"
		}
		return a.paramNonNil(x, depth)
	case *ssa.Extract:
		switch t := x.Tuple.(type) {
		case *ssa.Call:
			callee := core.Callee(t.Common())
			if callee == nil || !core.InModule(callee) {
				return false, "result of a dynamic or foreign call"
			}
			sig := callee.Signature.Results()
			// find a bool result acting as ok
			for j := 0; j < sig.Len(); j++ {
				if j == x.Index {
					continue
				}
				if b, ok := sig.At(j).Type().Underlying().(*types.Basic); !ok || b.Kind() != types.Bool {
					continue
				}
				if !a.summaryNonNilWhen(callee, x.Index, j, depth) {
					continue
				}
				// guarded by result j true?
				g, n := core.CondEdges(fn, func(at core.Atom) (bool, bool) {
					if at.Op != token.ILLEGAL {
						return false, false
					}
					if c, idx, ok := core.CallResult(at.Base); ok && c == t && idx == j {
						return true, true
					}
					return false, false
				})
				if n > 0 {
					off, _ := core.UnguardedSinks(fn, func(in ssa.Instruction) bool { return in == at }, g)
					if len(off) == 0 {
						return true, fmt.Sprintf("result of %s under its ok edge (summary: ok ⇒ non-nil verified)", core.FuncKey(callee))
					}
				}
			}
			if a.summaryNonNilWhen(callee, x.Index, -1, depth) {
				return true, "callee always returns a non-nil map"
			}
			if guardedByNotNil() {
				return true, "nil-checked"
			}
			return false, fmt.Sprintf("result #%d of %s is used without its ok guard, or the accessor may return (nil, ok=true)", x.Index, core.FuncKey(callee))
		case *ssa.TypeAssert:
			if x.Index != 0 || !t.CommaOk {
				return false, "type assertion"
			}
			g, n := core.CondEdges(fn, func(at core.Atom) (bool, bool) {
				if at.Op != token.ILLEGAL {
					return false, false
				}
				if e, ok := at.Base.(*ssa.Extract); ok && e.Tuple == t && e.Index == 1 {
					return true, true
				}
				return false, false
			})
			if n > 0 {
				off, _ := core.UnguardedSinks(fn, func(in ssa.Instruction) bool { return in == at }, g)
				if len(off) == 0 {
					return true, "comma-ok assertion under its ok edge (documents hold no typed-nil maps: every stored map value is itself proven non-nil)"
				}
			}
			if guardedByNotNil() {
				return true, "nil-checked"
			}
			return false, "asserted map used outside the ok edge of its assertion"
		}
	case *ssa.Call:
		callee := core.Callee(x.Common())
		if callee != nil && core.InModule(callee) && a.summaryNonNilWhen(callee, 0, -1, depth) {
			return true, "callee always returns a non-nil map"
		}
		return false, "result of a call not proven non-nil"
	case *ssa.UnOp:
		if x.Op == token.MUL {
			if cell, ok := x.X.(*ssa.Alloc); ok {
				return a.cellNonNil(cell, x, depth)
			}
			if fv, ok := x.X.(*ssa.FreeVar); ok {
				_ = fv
				return false, "captured variable"
			}
		}
	}
	if guardedByNotNil() {
		return true, "nil-checked"
	}
	return false, fmt.Sprintf("unrecognised origin %T", v)
}

// summaryNonNilWhen verifies: on every return of callee where result
// okIdx may be true (okIdx < 0: always), result idx is a non-nil map.
func (a *c13) summaryNonNilWhen(callee *ssa.Function, idx, okIdx, depth int) bool {
	if callee.Blocks == nil || depth <= 0 {
		return false
	}
	key := fmt.Sprintf("%s|%d|%d", callee.String(), idx, okIdx)
	if v, ok := a.summ[key]; ok {
		return v
	}
	if a.visiting[key] {
		return true // optimistic on recursion; fixpoint would confirm
	}
	a.visiting[key] = true
	defer delete(a.visiting, key)
	res := true
	nret := 0
	for _, b := range callee.Blocks {
		for _, in := range b.Instrs {
			ret, ok := core.AsReturn(in)
			if !ok || idx >= len(ret.Results) {
				continue
			}
			nret++
			if okIdx >= 0 && !mayBe(core.Res(ret, okIdx), true) {
				continue
			}
			if ok, _ := a.nonNil(core.Res(ret, idx), in, depth-1); !ok {
				res = false
			}
		}
	}
	if nret == 0 {
		res = false
	}
	a.summ[key] = res
	return res
}

// paramNonNil: every caller passes a non-nil map.
func (a *c13) paramNonNil(x *ssa.Parameter, depth int) (bool, string) {
	if depth <= 0 {
		return false, "parameter (interprocedural depth exhausted)"
	}
	fn := x.Parent()
	idx := -1
	for i, p := range fn.Params {
		if p == x {
			idx = i
		}
	}
	sites := a.P.StaticCallers(fn)
	type site struct {
		arg ssa.Value
		at  ssa.Instruction
	}
	var ss []site
	for _, cc := range sites {
		if idx < len(cc.Args) {
			at := a.instrOf(cc)
			if at != nil {
				// synthetic pointer-receiver wrappers that nobody calls are not callers
				if pf := at.Parent(); pf.Synthetic != "" && !strings.HasSuffix(pf.Name(), "$bound") && len(a.P.StaticCallers(pf)) == 0 && !a.usedAsStep(pf) {
					continue
				}
			}
			ss = append(ss, site{cc.Args[idx], at})
		}
	}
	// functions stored in the step table are invoked by the dynamic calls of upgradeConfigSchema
	if a.usedAsStep(fn) {
		up := a.P.Fn("(*configmigrate.Migrator).upgradeConfigSchema")
		if up != nil {
			for _, call := range core.Calls(up) {
				if _, isBuiltin := call.Common.Value.(*ssa.Builtin); isBuiltin {
					continue
				}
				if core.Callee(call.Common) == nil && !call.Common.IsInvoke() && len(call.Common.Args) == 1 {
					ss = append(ss, site{call.Common.Args[0], call.Instr})
				}
			}
		}
	}
	if len(ss) == 0 {
		if fn.Object() != nil && fn.Object().Exported() {
			return false, "parameter of an exported function with no callers in the module"
		}
		return false, "parameter with no resolvable callers"
	}
	for _, s := range ss {
		if s.at == nil {
			return false, "caller instruction not found"
		}
		d := depth - 1
		if core.WrapperOf(fn) == s.at.Parent() {
			d = depth + 1 // the thin wrapper fn is known by only hands its own parameter on: no depth is spent on it
		}
		if ok, why := a.nonNil(s.arg, s.at, d); !ok {
			return false, fmt.Sprintf("caller %s at %s passes a possibly nil map (%s)", core.FuncKey(s.at.Parent()), a.P.InstrPos(s.at), why)
		}
	}
	return true, fmt.Sprintf("parameter: all %d call sites pass a non-nil map", len(ss))
}

func (a *c13) instrOf(cc *ssa.CallCommon) ssa.Instruction {
	for _, fn := range append(append([]*ssa.Function{}, a.P.ModFns...), a.P.Wrappers()...) {
		for _, b := range fn.Blocks {
			for _, in := range b.Instrs {
				if ci, ok := in.(ssa.CallInstruction); ok && ci.Common() == cc {
					return in
				}
			}
		}
	}
	return nil
}

// usedAsStep reports whether fn (or its bound-method thunk) is stored in the
// upgrades table.
func (a *c13) usedAsStep(fn *ssa.Function) bool {
	for _, s := range a.steps() {
		if s == fn || core.SameFn(s, fn) && core.WrapperOf(fn) != s {
			return true
		}
	}
	return false
}

var c13StepsCache []*ssa.Function

// steps returns the functions stored into the table of upgradeConfigSchema,
// resolving bound-method thunks to the method.
func (a *c13) steps() []*ssa.Function {
	if c13StepsCache != nil && len(c13StepsCache) > 0 && c13StepsCache[0].Prog == a.P.SSA {
		return c13StepsCache
	}
	up := a.P.Fn("(*configmigrate.Migrator).upgradeConfigSchema")
	if up == nil {
		return nil
	}
	var out []*ssa.Function
	for _, b := range up.Blocks {
		for _, in := range b.Instrs {
			st, ok := in.(*ssa.Store)
			if !ok {
				continue
			}
			ia, isIdx := st.Addr.(*ssa.IndexAddr)
			if !isIdx || !isFuncArray(ia.X.Type()) {
				continue
			}
			f, _ := core.FnValue(st.Val)
			if f == nil {
				continue
			}
			out = append(out, f)
			if strings.HasSuffix(f.Name(), "$bound") {
				for _, call := range core.Calls(f) {
					if sc := core.Callee(call.Common); sc != nil {
						out = append(out, sc)
					}
				}
			}
		}
	}
	c13StepsCache = out
	return out
}

// cellNonNil: the load `ld` of local cell reads a non-nil map: on every path
// from an invalidating event (function entry, a call that receives the
// cell's address, a store of a possibly-nil value) to the load there is a
// store of a non-nil map or a passed `*cell != nil` guard.
func (a *c13) cellNonNil(cell *ssa.Alloc, ld *ssa.UnOp, depth int) (bool, string) {
	fn := cell.Parent()
	isLoadOfCell := func(v ssa.Value) bool {
		u, ok := v.(*ssa.UnOp)
		return ok && u.Op == token.MUL && u.X == ssa.Value(cell)
	}
	guard, _ := core.CondEdges(fn, func(at core.Atom) (bool, bool) {
		if (at.Op == token.NEQ || at.Op == token.EQL) && isLoadOfCell(at.Base) && core.IsNilConst(at.Other) {
			return true, at.Op == token.NEQ
		}
		return false, false
	})
	validating := func(in ssa.Instruction) bool {
		st, ok := in.(*ssa.Store)
		if !ok || st.Addr != ssa.Value(cell) {
			return false
		}
		ok2, _ := a.nonNil(st.Val, in, depth-1)
		return ok2
	}
	// values that carry the cell's address (interface conversions)
	escapes := map[ssa.Value]bool{}
	for _, u := range core.Users(cell) {
		switch y := u.(type) {
		case *ssa.MakeInterface:
			escapes[y] = true
		case *ssa.ChangeType:
			escapes[y] = true
		case *ssa.MakeClosure:
			// a function literal that only reads the variable (or changes the map through it) cannot make it nil:
			// fine unless the literal assigns to the captured variable
			lit, _ := y.Fn.(*ssa.Function)
			assigns := lit == nil
			if lit != nil {
				for i, bnd := range y.Bindings {
					if bnd != ssa.Value(cell) || i >= len(lit.FreeVars) {
						continue
					}
					for _, u2 := range core.Users(lit.FreeVars[i]) {
						switch z := u2.(type) {
						case *ssa.UnOp, *ssa.DebugRef:
						case *ssa.Store:
							if z.Addr == ssa.Value(lit.FreeVars[i]) {
								assigns = true
							}
						default:
							assigns = true // handed on: not followed
						}
					}
				}
			}
			if assigns {
				return false, "local map captured by a closure that assigns to it"
			}
		}
	}
	// a variable that is assigned once (it is a cell only because a function literal reads it) is its value:
	// the question is then asked about that value at the place of the load, where the guards on it count
	if len(escapes) == 0 {
		var only *ssa.Store
		nStores, handed := 0, false
		for _, u := range core.Users(cell) {
			switch y := u.(type) {
			case *ssa.Store:
				if y.Addr == ssa.Value(cell) {
					nStores++
					only = y
				} else {
					handed = true
				}
			case ssa.CallInstruction:
				if _, isClosure := u.(*ssa.MakeClosure); !isClosure {
					handed = true
				}
			}
		}
		if nStores == 1 && !handed && only.Block() != nil && ld.Block() != nil &&
			(only.Block() == ld.Block() && instrIndex(only) < instrIndex(ld) || only.Block() != ld.Block() && only.Block().Dominates(ld.Block())) {
			if ok, _ := a.nonNil(only.Val, ld, depth-1); ok {
				return true, ""
			}
		}
	}
	var starts []core.Point
	for _, b := range fn.Blocks {
		for i, in := range b.Instrs {
			switch x := in.(type) {
			case *ssa.Alloc:
				if x == cell {
					starts = append(starts, core.Point{Block: b, Idx: i + 1})
				}
			case *ssa.Store:
				if x.Addr == ssa.Value(cell) && !validating(in) {
					starts = append(starts, core.Point{Block: b, Idx: i + 1})
				}
			case ssa.CallInstruction:
				for _, arg := range x.Common().Args {
					if arg == ssa.Value(cell) || escapes[arg] {
						starts = append(starts, core.Point{Block: b, Idx: i + 1})
					}
				}
			}
		}
	}
	// the `*cell != nil` guard only protects loads made while the cell is unchanged;
	// between guard and use no invalidating event may occur — covered because
	// invalidating events are themselves start points.
	found, tr, _ := core.Reach(core.Query{
		From:       starts,
		Target:     func(in ssa.Instruction) bool { return in == ssa.Instruction(ld) },
		Avoid:      validating,
		AvoidEdges: guard,
	})
	if found {
		return false, "local map variable may be nil here (e.g. zeroed by the YAML decoder for a null document) via " + a.P.TraceString(tr)
	}
	return true, "local map re-made or nil-checked on every path since it last escaped"
}

// indexSafe: index operations are range-loop indices or constant indices
// into fixed arrays.
func (a *c13) indexSafe(fn *ssa.Function, x, idx ssa.Value, at ssa.Instruction) (bool, string) {
	if arr, ok := derefArray(x.Type()); ok {
		if c, ok := core.ConstInt(idx); ok && c >= 0 && c < arr.Len() {
			return true, "constant index into a fixed array"
		}
	}
	// range loop: idx is a phi incremented by 1 and compared with len(x) in the loop header
	if rangeIndex(idx, x) {
		return true, "range-loop index bounded by len of the same slice"
	}
	// constant index under a dominating length guard
	if c, ok := core.ConstInt(idx); ok && c >= 0 {
		if lengthGuarded(fn, x, c, at) {
			return true, fmt.Sprintf("constant index %d under a dominating length guard", c)
		}
	}
	// the step table indexed by a counter that runs from `current` up to (excluding) `target`: both were validated
	// by validateVersion before the call (checked by C13-D3), the counter is 1-incremented and tested against target
	if fn == a.P.Fn("(*configmigrate.Migrator).upgradeConfigSchema") {
		if _, isArr := derefArray(x.Type()); isArr {
			if phi, isPhi := idx.(*ssa.Phi); isPhi && len(phi.Edges) == 2 {
				fromParam, incremented := false, false
				for _, e := range phi.Edges {
					if prm, ok := e.(*ssa.Parameter); ok && prm.Name() == "current" {
						fromParam = true
					}
					if bo, ok := e.(*ssa.BinOp); ok && bo.Op == token.ADD && bo.X == ssa.Value(phi) {
						if k, isC := core.ConstInt(bo.Y); isC && k == 1 {
							incremented = true
						}
					}
				}
				g, n := core.CondEdges(fn, func(at core.Atom) (bool, bool) {
					prm, ok := at.Other.(*ssa.Parameter)
					if !ok || prm.Name() != "target" || at.Base != ssa.Value(phi) {
						return false, false
					}
					switch at.Op {
					case token.LSS:
						return true, true
					case token.GEQ:
						return true, false
					}
					return false, false
				})
				off, _ := core.UnguardedSinks(fn, func(in ssa.Instruction) bool { return in == at }, g)
				if fromParam && incremented && n > 0 && len(off) == 0 {
					return true, "counter from current to target (validated by validateVersion before the call, C13-D3)"
				}
			}
		}
	}
	return false, fmt.Sprintf("index %s into %s", idx.Name(), x.Name())
}

// lengthGuarded: every path to `at` passes an edge implying len(x) > c.
func lengthGuarded(fn *ssa.Function, x ssa.Value, c int64, at ssa.Instruction) bool {
	isLenOfX := func(v ssa.Value) bool {
		call, ok := v.(*ssa.Call)
		if !ok {
			return false
		}
		b, ok := call.Common().Value.(*ssa.Builtin)
		return ok && b.Name() == "len" && len(call.Common().Args) == 1 && call.Common().Args[0] == x
	}
	g, n := core.CondEdges(fn, func(a core.Atom) (bool, bool) {
		if isLenOfX(a.Base) {
			k, ok := core.ConstInt(a.Other)
			if !ok {
				return false, false
			}
			switch a.Op {
			case token.EQL:
				return k > c, true
			case token.NEQ:
				return k > c, false
			case token.GEQ:
				return k > c, true
			case token.GTR:
				return k >= c, true
			case token.LSS:
				return k > c, false
			case token.LEQ:
				return k >= c, false
			}
		}
		if a.Base == x && c == 0 {
			if s, ok := core.ConstString(a.Other); ok && s == "" {
				switch a.Op {
				case token.EQL:
					return true, false
				case token.NEQ:
					return true, true
				}
			}
		}
		return false, false
	})
	if n == 0 {
		return false
	}
	off, _ := core.UnguardedSinks(fn, func(in ssa.Instruction) bool { return in == at }, g)
	return len(off) == 0
}

func rangeIndex(idx, x ssa.Value) bool {
	phi, ok := idx.(*ssa.Phi)
	if !ok {
		// rotated loops: idx = phi + 1 ?
		if bo, ok := idx.(*ssa.BinOp); ok && bo.Op == token.ADD {
			if p2, ok := bo.X.(*ssa.Phi); ok {
				phi = p2
			}
		}
		if phi == nil {
			return false
		}
	}
	// some user of phi (or phi+1) is compared `< len(x)`
	check := func(v ssa.Value) bool {
		for _, u := range core.Users(v) {
			bo, ok := u.(*ssa.BinOp)
			if !ok || bo.Op != token.LSS || bo.X != v {
				continue
			}
			if call, ok := bo.Y.(*ssa.Call); ok {
				if b, ok := call.Common().Value.(*ssa.Builtin); ok && b.Name() == "len" && len(call.Common().Args) == 1 {
					if sameSlice(call.Common().Args[0], x) {
						return true
					}
				}
			}
		}
		return false
	}
	if check(phi) {
		return true
	}
	for _, u := range core.Users(phi) {
		if bo, ok := u.(*ssa.BinOp); ok && bo.Op == token.ADD && check(bo) {
			return true
		}
	}
	return false
}

func sameSlice(a, b ssa.Value) bool {
	if a == b {
		return true
	}
	return false
}

// sliceSafe: the only slicing with non-constant bounds allowed is
// upgrades[current:target] after validateVersion.
func (a *c13) sliceSafe(fn *ssa.Function, x *ssa.Slice) (bool, string) {
	if fn == a.P.Fn("(*configmigrate.Migrator).upgradeConfigSchema") {
		if _, ok := derefArray(x.X.Type()); ok {
			lowP, lok := x.Low.(*ssa.Parameter)
			highP, hok := x.High.(*ssa.Parameter)
			if lok && hok && lowP.Name() == "current" && highP.Name() == "target" {
				return true, "upgrades[current:target]: bounds validated by validateVersion before the call (checked by C13-D3)"
			}
		}
	}
	// constant bounds on arrays
	if arr, ok := derefArray(x.X.Type()); ok {
		lo, lok := int64(0), true
		if x.Low != nil {
			lo, lok = core.ConstInt(x.Low)
		}
		hi, hok := arr.Len(), true
		if x.High != nil {
			hi, hok = core.ConstInt(x.High)
		}
		if lok && hok && lo >= 0 && lo <= hi && hi <= arr.Len() {
			return true, "constant bounds within a fixed array"
		}
	}
	return false, "non-constant slice bounds"
}

// migrateReturns: D2.
func (a *c13) migrateReturns() {
	p, r := a.P, a.R
	fn := p.Fn("(*configmigrate.Migrator).Migrate")
	if fn == nil || len(fn.Params) < 2 {
		r.Undecided("C13-D2", "Migrate", "-", "anchor (*Migrator).Migrate not found")
		return
	}
	body := fn.Params[1]
	n := 0
	for _, b := range fn.Blocks {
		for _, in := range b.Instrs {
			ret, ok := core.AsReturn(in)
			if !ok || len(ret.Results) != 3 {
				continue
			}
			n++
			key := fmt.Sprintf("Migrate-return#%d", n)
			errV := core.ResolveLocalLoad(core.Res(ret, 2))
			bodyV := core.ResolveLocalLoad(core.Res(ret, 0))
			upV := core.ResolveLocalLoad(core.Res(ret, 1))
			if core.IsNilConst(errV) {
				// success or no-op return
				if bodyV == ssa.Value(body) {
					up, isC := core.ConstBool(upV)
					r.Check(isC && !up, "C13-D2", key, p.InstrPos(in), "no-op return: original body, upgraded=false", "returns the original body but reports upgraded=true")
				} else {
					r.Ok("C13-D2", key, p.InstrPos(in), "success return with the new document")
				}
				continue
			}
			up, isC := core.ConstBool(upV)
			r.Check(bodyV == ssa.Value(body) && isC && !up, "C13-D2", key, p.InstrPos(in),
				"error return hands back the original body and upgraded=false",
				"a return whose error may be non-nil does not return the original input bytes with upgraded=false")
		}
	}
	r.Floor("C13-D2", "Migrate-returns", n, 6)

	// current == target returns without running steps; steps run only after validateVersion == nil
	gv, nv := core.CondEdges(fn, func(at core.Atom) (bool, bool) {
		if (at.Op == token.NEQ || at.Op == token.EQL) && core.IsNilConst(at.Other) && core.IsCallResult(at.Base, -1, "configmigrate.validateVersion") {
			return true, at.Op == token.EQL
		}
		return false, false
	})
	off, ns := core.UnguardedSinks(fn, core.IsCallTo(false, "(*configmigrate.Migrator).upgradeConfigSchema"), gv)
	r.Check(nv > 0 && ns > 0 && len(off) == 0, "C13-D3", "steps-after-validateVersion", p.FnPos(fn),
		"upgradeConfigSchema (which slices the table by [current:target]) runs only after validateVersion returned nil",
		"the step table can be indexed with unvalidated versions", traceOf(p, off)...)

	// validateVersion: returns nil only if current <= target <= LastSchemaVersion
	vv := p.Fn("configmigrate.validateVersion")
	if vv == nil || len(vv.Params) != 2 {
		r.Undecided("C13-D3", "validateVersion", "-", "anchor not found")
		return
	}
	cur, tgt := vv.Params[0], vv.Params[1]
	need := map[string]bool{}
	gAll, _ := core.CondEdges(vv, func(at core.Atom) (bool, bool) {
		// passing edges: current > target false ; target > Last false
		switch {
		case at.Base == ssa.Value(cur) && at.Other == ssa.Value(tgt) && at.Op == token.GTR:
			need["cur<=tgt"] = true
			return false, false
		case at.Base == ssa.Value(tgt) && at.Other == ssa.Value(cur) && at.Op == token.LSS:
			need["cur<=tgt"] = true
			return false, false
		}
		return false, false
	})
	_ = gAll
	// path check: a `return nil` must be unreachable when the edge (current > target) true is taken, and when (target > Last) true is taken
	badEdges := func(match func(core.Atom) (bool, bool)) bool {
		edges, n := core.CondEdges(vv, match)
		if n == 0 {
			return true
		}
		// from those edges' successors, can a `return nil` be reached?
		var starts []core.Point
		for e := range edges {
			starts = append(starts, core.AfterEdge(e))
		}
		found, _, _ := core.Reach(core.Query{From: starts, Target: func(in ssa.Instruction) bool {
			ret, ok := core.AsReturn(in)
			return ok && len(ret.Results) == 1 && core.IsNilConst(core.Res(ret, 0))
		}})
		return found
	}
	last := int64(-1)
	if pk := p.Pkg("configmigrate"); pk != nil {
		if cst, ok := pk.Types.Scope().Lookup("LastSchemaVersion").(*types.Const); ok {
			if v, ok := constantInt(cst); ok {
				last = v
			}
		}
	}
	bad1 := badEdges(func(at core.Atom) (bool, bool) {
		if at.Base == ssa.Value(cur) && at.Other == ssa.Value(tgt) && (at.Op == token.GTR) {
			return true, true
		}
		if at.Base == ssa.Value(tgt) && at.Other == ssa.Value(cur) && (at.Op == token.LSS) {
			return true, true
		}
		return false, false
	})
	bad2 := badEdges(func(at core.Atom) (bool, bool) {
		if at.Base == ssa.Value(tgt) && at.Op == token.GTR {
			if v, ok := core.ConstInt(at.Other); ok && v == last {
				return true, true
			}
		}
		return false, false
	})
	r.Check(!bad1 && !bad2 && last > 0, "C13-D3", "validateVersion-bounds", p.FnPos(vv),
		fmt.Sprintf("validateVersion returns nil only when current <= target <= LastSchemaVersion (%d)", last),
		"validateVersion can return nil although current > target or target > LastSchemaVersion; upgrades[current:target] would panic")
}

func constantInt(c *types.Const) (int64, bool) {
	s := c.Val().ExactString()
	var v int64
	_, err := fmt.Sscan(s, &v)
	return v, err == nil
}

// table: D3 — table ↔ stamp agreement.
func (a *c13) table() {
	p, r := a.P, a.R
	up := p.Fn("(*configmigrate.Migrator).upgradeConfigSchema")
	if up == nil {
		r.Undecided("C13-D3", "upgradeConfigSchema", "-", "anchor not found")
		return
	}
	last := int64(-1)
	if pk := p.Pkg("configmigrate"); pk != nil {
		if cst, ok := pk.Types.Scope().Lookup("LastSchemaVersion").(*types.Const); ok {
			last, _ = constantInt(cst)
		}
	}
	slots := map[int64]*ssa.Function{}
	var arrLen int64 = -1
	for _, b := range up.Blocks {
		for _, in := range b.Instrs {
			st, ok := in.(*ssa.Store)
			if !ok {
				continue
			}
			ia, ok := st.Addr.(*ssa.IndexAddr)
			if !ok {
				continue
			}
			arr, ok := derefArray(ia.X.Type())
			if !ok || !isFuncArray(ia.X.Type()) {
				continue
			}
			arrLen = arr.Len()
			i, ok := core.ConstInt(ia.Index)
			if !ok {
				continue
			}
			f, _ := core.FnValue(st.Val)
			if f != nil && strings.HasSuffix(f.Name(), "$bound") {
				for _, call := range core.Calls(f) {
					if sc := core.Callee(call.Common); sc != nil {
						f = sc
					}
				}
			}
			slots[i] = f
		}
	}
	r.Check(arrLen == last && last > 0, "C13-D3", "table-length", p.FnPos(up),
		fmt.Sprintf("step table has LastSchemaVersion (%d) slots", last), fmt.Sprintf("step table length %d differs from LastSchemaVersion %d", arrLen, last))
	var idxs []int64
	for i := range slots {
		idxs = append(idxs, i)
	}
	sort.Slice(idxs, func(i, j int) bool { return idxs[i] < idxs[j] })
	for i := int64(0); i < last; i++ {
		f := slots[i]
		key := fmt.Sprintf("slot:%d", i)
		if f == nil {
			r.Fail("C13-D3", key, p.FnPos(up), fmt.Sprintf("slot %d of the step table is empty (nil function): upgrading across version %d panics", i, i+1))
			continue
		}
		// stamp: every path entry -> `return nil` passes a MapUpdate on the param map with key "schema_version" and value const i+1
		if len(f.Params) == 0 {
			r.Fail("C13-D3", key, p.FnPos(f), "step has no document parameter")
			continue
		}
		doc := f.Params[len(f.Params)-1]
		var wrong []string
		isStamp := func(in ssa.Instruction) bool {
			mu, ok := in.(*ssa.MapUpdate)
			if !ok || mu.Map != ssa.Value(doc) {
				return false
			}
			k, ok := core.ConstString(mu.Key)
			if !ok || k != "schema_version" {
				return false
			}
			mi, ok := mu.Value.(*ssa.MakeInterface)
			if !ok {
				return false
			}
			v, ok := core.ConstInt(mi.X)
			if !ok || v != i+1 {
				wrong = append(wrong, fmt.Sprintf("stamps %v at %s", mi.X, p.InstrPos(in)))
				return false
			}
			return true
		}
		found, tr, _ := core.Reach(core.Query{
			From: []core.Point{core.Entry(f)},
			Target: func(in ssa.Instruction) bool {
				ret, ok := core.AsReturn(in)
				if !ok || len(ret.Results) != 1 {
					return false
				}
				// returns that may be nil error
				return mayBeNilErr(core.Res(ret, 0))
			},
			Avoid: isStamp,
		})
		r.Check(!found, "C13-D3", key, p.FnPos(f),
			fmt.Sprintf("%s stamps schema_version %d on every path that can return nil", core.FuncKey(f), i+1),
			fmt.Sprintf("step %s can return success without having stamped schema_version %d %v", core.FuncKey(f), i+1, wrong), p.TraceString(tr))
	}
}

// mayBeNilErr: an error result that may be nil (conservatively true unless
// it is provably a fresh error).
func mayBeNilErr(v ssa.Value) bool { return core.MayBeNil(v) }

// c13Stable: the dynamic types the YAML decoder produces for untyped targets
// (a value of such a type is the same in memory and after a write/read of
// the file).
func c13Stable(t types.Type) bool {
	switch core.TypeKey(types.Unalias(t)) {
	case "string", "bool", "int", "float64", "untyped nil", "[]any", "[]interface{}", "map[string]any", "map[string]interface{}", "any", "interface{}":
		return true
	}
	return false
}

type c13KeyFact struct {
	typ  string
	step int
	pos  string
}

// roundTripStable: D4.
func (a *c13) roundTripStable() {
	p, r := a.P, a.R
	up := p.Fn("(*configmigrate.Migrator).upgradeConfigSchema")
	if up == nil {
		r.Undecided("C13-D4", "steps", "-", "upgradeConfigSchema not found")
		return
	}
	// slot -> step function
	slots := map[int]*ssa.Function{}
	for _, b := range up.Blocks {
		for _, in := range b.Instrs {
			st, ok := in.(*ssa.Store)
			if !ok {
				continue
			}
			ia, isIdx := st.Addr.(*ssa.IndexAddr)
			if !isIdx || !isFuncArray(ia.X.Type()) {
				continue
			}
			i, ok := core.ConstInt(ia.Index)
			f, _ := core.FnValue(st.Val)
			if !ok || f == nil {
				continue
			}
			if strings.HasSuffix(f.Name(), "$bound") || strings.HasSuffix(f.Name(), "$thunk") {
				for _, call := range core.Calls(f) {
					if sc := core.Callee(call.Common); sc != nil {
						f = sc
						break
					}
				}
			}
			slots[int(i)] = f
		}
	}
	if len(slots) < 20 {
		r.Undecided("C13-D4", "steps", p.FnPos(up), fmt.Sprintf("only %d steps resolved from the table", len(slots)))
		return
	}
	isHelper := func(fn *ssa.Function) (name string, targ types.Type, ok bool) {
		k := core.FuncKey(fn)
		for _, h := range []string{"configmigrate.fieldVal", "configmigrate.moveVal", "configmigrate.moveSameVal"} {
			if strings.HasPrefix(k, h+"[") && len(fn.TypeArgs()) == 1 {
				return strings.TrimPrefix(h, "configmigrate."), fn.TypeArgs()[0], true
			}
		}
		return "", nil, false
	}
	unstable := map[string]c13KeyFact{}
	nWrites, nReads := 0, 0
	var order []int
	for i := range slots {
		order = append(order, i)
	}
	sort.Ints(order)
	for _, slot := range order {
		step := slots[slot]
		// the step and its non-helper callees in the package
		fns := []*ssa.Function{}
		seen := map[*ssa.Function]bool{}
		var walk func(fn *ssa.Function)
		walk = func(fn *ssa.Function) {
			if fn == nil || seen[fn] || fn.Blocks == nil || core.PkgOf(fn) != "configmigrate" {
				return
			}
			if _, _, h := isHelper(fn); h {
				return
			}
			seen[fn] = true
			fns = append(fns, fn)
			for _, call := range core.Calls(fn) {
				walk(core.Callee(call.Common))
			}
			for _, an := range fn.AnonFuncs {
				walk(an)
			}
		}
		walk(step)
		type wr struct {
			key string
			f   c13KeyFact
		}
		var writes []wr
		var moved [][2]string
		var cleared []string
		var sectionOf func(v ssa.Value, depth int) string
		sectionOf = func(v ssa.Value, depth int) string {
			if depth > 6 {
				return "*"
			}
			switch x := v.(type) {
			case *ssa.Parameter:
				if x.Parent() == step && x.Type().String() == step.Params[len(step.Params)-1].Type().String() {
					if _, isMap := x.Type().Underlying().(*types.Map); isMap {
						return ""
					}
				}
				return "*"
			case *ssa.Extract:
				if call, ok := x.Tuple.(*ssa.Call); ok && x.Index == 0 {
					if callee := core.Callee(&call.Call); callee != nil {
						if name, _, ok := isHelper(callee); ok && name == "fieldVal" {
							if k, ok := core.ConstString(call.Call.Args[1]); ok {
								return sectionOf(call.Call.Args[0], depth+1) + "/" + k
							}
						}
					}
				}
				if ta, ok := x.Tuple.(*ssa.TypeAssert); ok && x.Index == 0 {
					return sectionOf(ta.X, depth+1)
				}
				if lk, ok := x.Tuple.(*ssa.Lookup); ok && x.Index == 0 {
					if k, ok := core.ConstString(lk.Index); ok {
						return sectionOf(lk.X, depth+1) + "/" + k
					}
				}
				return "*"
			case *ssa.Lookup:
				if k, ok := core.ConstString(x.Index); ok {
					return sectionOf(x.X, depth+1) + "/" + k
				}
				return "*"
			case *ssa.TypeAssert:
				return sectionOf(x.X, depth+1)
			case *ssa.MakeMap:
				for _, u := range core.Users(x) {
					if mi, ok := u.(*ssa.MakeInterface); ok {
						for _, u2 := range core.Users(mi) {
							if mu, ok := u2.(*ssa.MapUpdate); ok && mu.Value == ssa.Value(mi) {
								if k, ok := core.ConstString(mu.Key); ok {
									return sectionOf(mu.Map, depth+1) + "/" + k
								}
							}
						}
					}
				}
				return "new"
			case *ssa.Phi:
				sec := ""
				for i, e := range x.Edges {
					se := sectionOf(e, depth+1)
					if i > 0 && se != sec {
						return "*"
					}
					sec = se
				}
				return sec
			case *ssa.UnOp:
				if cell, ok := x.X.(*ssa.Alloc); ok {
					vals := core.CellStores(cell)
					sec := "*"
					for i, sv := range vals {
						se := sectionOf(sv, depth+1)
						if i > 0 && se != sec {
							return "*"
						}
						sec = se
					}
					return sec
				}
			}
			return "*"
		}
		readTyped := func(key string, t types.Type, at ssa.Instruction, how string) {
			nReads++
			u, bad := unstable[key]
			if !bad {
				// an access through an object of unknown position ("*") matches by key name
				base := key[strings.LastIndex(key, "/")+1:]
				for uk, uv := range unstable {
					if uk[strings.LastIndex(uk, "/")+1:] == base && (strings.HasPrefix(key, "*") || strings.HasPrefix(uk, "*")) {
						u, bad = uv, true
					}
				}
			}
			if bad {
				r.Fail("C13-D4", fmt.Sprintf("typed-read-of-unstable-key:%s@step%d", key, slot+1), p.InstrPos(at),
					fmt.Sprintf("step %d reads %q %s as %s, but step %d stores a %s there (%s): in one run the value in memory is a %s, after a write/read of the file it is what YAML decodes — the result of the upgrade depends on where it is split", slot+1, key, how, core.TypeKey(t), u.step, u.typ, u.pos, u.typ))
			}
		}
		for _, fn := range fns {
			for _, b := range fn.Blocks {
				for _, in := range b.Instrs {
					switch x := in.(type) {
					case *ssa.MapUpdate:
						k, ok := core.ConstString(x.Key)
						if !ok {
							continue
						}
						nWrites++
						k = sectionOf(x.Map, 0) + "/" + k
						if mi, ok := x.Value.(*ssa.MakeInterface); ok {
							if !c13Stable(mi.X.Type()) {
								writes = append(writes, wr{k, c13KeyFact{core.TypeKey(mi.X.Type()), slot + 1, p.InstrPos(in)}})
							} else {
								cleared = append(cleared, k)
							}
						}
					case *ssa.TypeAssert:
						// direct assertion on obj[key]
						if c13Stable(x.AssertedType) && core.TypeKey(x.AssertedType) == "any" {
							continue
						}
						var lk *ssa.Lookup
						switch y := x.X.(type) {
						case *ssa.Lookup:
							lk = y
						case *ssa.Extract:
							lk, _ = y.Tuple.(*ssa.Lookup)
						}
						if lk != nil {
							if k, ok := core.ConstString(lk.Index); ok {
								readTyped(sectionOf(lk.X, 0)+"/"+k, x.AssertedType, in, "with a type assertion")
							}
						}
					case *ssa.Call:
						callee := core.Callee(&x.Call)
						if callee == nil {
							continue
						}
						name, targ, ok := isHelper(callee)
						if !ok {
							continue
						}
						isAny := core.TypeKey(targ) == "any" || core.TypeKey(targ) == "interface{}"
						switch name {
						case "fieldVal":
							if k, ok := core.ConstString(x.Call.Args[1]); ok && !isAny {
								readTyped(sectionOf(x.Call.Args[0], 0)+"/"+k, targ, in, "through fieldVal")
							}
						case "moveVal", "moveSameVal":
							k1, ok1 := core.ConstString(x.Call.Args[2])
							k2 := k1
							ok2 := ok1
							if name == "moveVal" {
								k2, ok2 = core.ConstString(x.Call.Args[3])
							}
							k1 = sectionOf(x.Call.Args[0], 0) + "/" + k1
							k2 = sectionOf(x.Call.Args[1], 0) + "/" + k2
							if ok1 && !isAny {
								readTyped(k1, targ, in, "through "+name)
							}
							if ok1 && ok2 {
								moved = append(moved, [2]string{k1, k2})
							}
						}
					}
				}
			}
		}
		for _, m := range moved {
			if u, ok := unstable[m[0]]; ok {
				delete(unstable, m[0])
				unstable[m[1]] = u
			}
		}
		for _, k := range cleared {
			_ = k // a stable overwrite on some path does not clear the fact: other paths may keep the typed value
		}
		for _, w := range writes {
			unstable[w.key] = w.f
		}
	}
	var keys []string
	for k, u := range unstable {
		keys = append(keys, fmt.Sprintf("%s (%s, step %d)", k, u.typ, u.step))
	}
	sort.Strings(keys)
	r.Info["keys_holding_non_round_trip_types"] = keys
	r.Eval(nWrites + nReads)
	r.Floor("C13-D4", "constant-key-stores", nWrites, 60)
	r.Floor("C13-D4", "typed-reads", nReads, 60)
	r.Ok("C13-D4", "typed-reads-of-stable-keys", "-", fmt.Sprintf("%d typed reads examined against %d key(s) that hold a non-round-trip-stable in-memory type", nReads, len(unstable)))
}

// loopsProcessAll: D5.
func (a *c13) loopsProcessAll() {
	p, r := a.P, a.R
	n := 0
	for _, fn := range a.pkgFns {
		if !strings.Contains(core.FuncKey(fn), "migrateTo") {
			continue
		}
		for _, h := range loopHeaders(fn) {
			if !strings.HasPrefix(h.Comment, "rangeindex") && !strings.HasPrefix(h.Comment, "rangeiter") {
				continue
			}
			n++
			for _, b := range fn.Blocks {
				if b == h || !h.Dominates(b) {
					continue
				}
				ret, ok := core.AsReturn(b.Instrs[len(b.Instrs)-1])
				if !ok || len(ret.Results) != 1 {
					continue
				}
				// is b inside the loop region (reached from the body, not from the loop exit)?
				inBody := false
				for _, s := range h.Succs {
					if !strings.HasSuffix(s.Comment, ".done") && (s == b || func() bool {
						f, _, _ := core.Reach(core.Query{From: []core.Point{{Block: s, Idx: 0}}, Target: func(in ssa.Instruction) bool { return in.Block() == b }, Avoid: func(in ssa.Instruction) bool { return in.Block() == h }})
						return f
					}()) {
						inBody = true
					}
				}
				if !inBody {
					continue
				}
				nilRet := false
				for _, l := range core.FlattenPhi(core.ResolveCellLoad(core.Res(ret, 0))) {
					if core.IsNilConst(l) {
						nilRet = true
					}
				}
				r.Check(!nilRet, "C13-D5", fmt.Sprintf("loop-handles-every-element:%s:%s", core.FuncKey(fn), h.Comment+fmt.Sprint(h.Index)), p.InstrPos(ret),
					"returns inside the element loop carry an error", "the step returns successfully from inside the loop over the document's elements: the remaining elements keep their old form although the document is stamped with the new version")
			}
		}
	}
	r.Info["element_loops_in_steps"] = n
	r.Floor("C13-D5", "element-loops", n, 5)
}

// noSharedObjects: D6 — every element of the document gets an object of its
// own: a map or slice made before a loop is not put into the document inside
// the loop (all elements would then share one object, and what a later
// iteration writes for its element shows up in all the others: a setting of one
// client replaces another's).
func (a *c13) noSharedObjects() {
	p, r := a.P, a.R
	n := 0
	var bad []string
	for _, fn := range a.pkgFns {
		if !strings.Contains(core.FuncKey(fn), "migrateTo") {
			continue
		}
		for _, b := range fn.Blocks {
			if !core.InCycle(b) {
				continue
			}
			for _, in := range b.Instrs {
				var stored ssa.Value
				switch x := in.(type) {
				case *ssa.MapUpdate:
					stored = x.Value
				case *ssa.Store:
					if _, isIdx := x.Addr.(*ssa.IndexAddr); isIdx {
						stored = x.Val
					}
				}
				if stored == nil {
					continue
				}
				n++
				for _, leaf := range core.FlattenPhi(stored) {
					for {
						switch y := leaf.(type) {
						case *ssa.MakeInterface:
							leaf = y.X
							continue
						case *ssa.ChangeType:
							leaf = y.X
							continue
						}
						break
					}
					mk, isMap := leaf.(*ssa.MakeMap)
					if isMap && !core.InCycle(mk.Block()) {
						bad = append(bad, fmt.Sprintf("%s: the map made at %s (outside the loop) is stored into the document on every iteration", p.InstrPos(in), p.InstrPos(mk)))
					}
					if ms, isSl := leaf.(*ssa.MakeSlice); isSl && !core.InCycle(ms.Block()) {
						bad = append(bad, fmt.Sprintf("%s: the slice made at %s (outside the loop) is stored into the document on every iteration", p.InstrPos(in), p.InstrPos(ms)))
					}
				}
			}
		}
	}
	sort.Strings(bad)
	r.Info["C13-D6_stores_in_loops_examined"] = n
	r.Check(len(bad) == 0, "C13-D6", "every-element-gets-its-own-object", "-",
		"no map or slice made outside a loop is put into the document inside it",
		"one map/slice object is put into several elements of the document: the elements share it, and the value written for the last one replaces the others' (a setting the step does not concern is lost)", bad...)
}

// instrIndex is the position of in within its block.
func instrIndex(in ssa.Instruction) int {
	for i, x := range in.Block().Instrs {
		if x == in {
			return i
		}
	}
	return -1
}
