package rules

import (
	"fmt"
	"go/ast"
	"go/token"
	"go/types"
	"sort"
	"strings"

	"aghverif/core"

	"golang.org/x/tools/go/ssa"
)

func init() {
	register(&Rule{
		ID:  "C07",
		Run: runC07,
		Explanation: "Structural rules for the query log. Decided: (D1) codec agreement: every JSON key that encoding/json emits for querylog.logEntry, filtering.Result, filtering.ResultRule and filtering.DNSRewriteResult has a case in the hand-written streaming decoder at the matching nesting level, and each scalar handler asserts the JSON token kind its Go field is encoded with — so no recorded field is silently lost or mis-typed when an entry is read back from the file; " +
			"(D2) 'no parameter value makes the request crash': the request integers limit/offset are stored into searchParams only behind sign and overflow guards, no other writer stores possibly negative values, and every slice expression in search/searchMemory/searchFiles/readEntries with a non-constant bound is dominated by a length guard on the same slice; " +
			"(D3) one funnel: the ring buffer is pushed only by Add, the file is opened for writing only by flushToFile in append mode, and the buffer is encoded and cleared in one bufferLock critical section. " +
			"(D5, cont.) while positioning the file reader for a cursor one record is read and discarded only when the seek landed on the cursor's own record (a cursor newer than all file records, i.e. an entry still in memory, skips nothing); (D6) the address mutator is applied only to copies: no value passed to an aghnet.IPMutFunc in the query log aliases the IP field of an entry, so recorded entries keep the client they were recorded with. " +
			"(D7) the per-search client cache is keyed by exactly the (ClientID, address) pair the client lookup depends on. " +
			"(D8) the quick match looks at the undecoded line of a file record only through whole field values (readJSONValue), never through substring tests on the raw line. " +
			"(D4, cont.) the file a flush writes to is opened by name during that very flush (no handle kept across flushes, which clear or rotate would leave pointing at an unlinked file). " +
			"Not decided: exactly-once / newest-first over memory+file+rotated file, cursor and offset partitioning, search-term semantics (history- and value-level).",
		RuleText: "Key sets are computed from go/types struct tags following encoding/json naming, and from the typed AST of the decoder (map literal keys, switch cases, == comparisons).",
		Assumptions: []string{
			"encoding/json naming rules (tags, omitempty, exported fields)",
			"legacy keys known only to the decoder are allowed",
		},
		Trusted: commonTrusted,
	})
}

func runC07(c *Ctx) {
	c07QuickMatchFields(c)
	clientCacheKeyComplete(c, "C07-D7")
	c07Codec(c)
	c07Ints(c)
	c07Funnel(c)
	c07ShutdownFlush(c)
	c07Cursor(c)
	c07RecordedImmutable(c)
	c07FlushOpensByName(c)
}

// c07FlushOpensByName: D4 (cont.) — whatever a flush writes goes to the file that carries the log's name at that
// moment: the handle written to was opened, by name, during that very flush.  A handle kept from an earlier flush
// keeps pointing at a file that clear or rotate has since unlinked or renamed: the records are written without
// an error and can never be read back.
func c07FlushOpensByName(c *Ctx) {
	p, r := c.P, c.R
	fn := p.Fn("(*querylog.queryLog).flushToFile")
	if fn == nil {
		r.Undecided("C07-D4", "flushToFile", "-", "anchor (*queryLog).flushToFile not found")
		return
	}
	n := 0
	var bad []string
	for _, call := range core.CallsToDeep(fn, "(*os.File).Write", "(*os.File).WriteString", "(*os.File).WriteAt", "(*os.File).ReadFrom", "(*bufio.Writer).Write", "io.Copy", "iface:(io.Writer).Write") {
		if len(call.Common.Args) == 0 {
			continue
		}
		n++
		for _, o := range core.Origins(call.Arg(0), core.ProvOpts{Prog: p, IntoModuleCalls: true, InterprocDepth: 2}) {
			switch {
			case o.Kind == "call" && (o.Key == "os.OpenFile" || o.Key == "os.Create" || o.Key == "os.Open"):
			case o.Kind == "const", o.Kind == "alloc":
			default:
				bad = append(bad, o.String())
			}
		}
	}
	sort.Strings(bad)
	r.Check(n > 0 && len(bad) == 0, "C07-D4", "flush-writes-to-a-file-opened-by-name-now", p.FnPos(fn),
		"the file a flush writes to is opened by name during that flush",
		fmt.Sprintf("a flush can write through a file handle that was not opened during this flush (%v): after the files were cleared or rotated the handle points at an unlinked or renamed file and the flushed records are never found again", bad))
}

// c07ShutdownFlush: D4 — entries still in memory are flushed to the file on
// shutdown whenever file logging is enabled (restart is part of the
// property's histories).
func c07ShutdownFlush(c *Ctx) {
	p, r := c.P, c.R
	fn := p.Fn("(*querylog.queryLog).Shutdown")
	if fn == nil {
		r.Undecided("C07-D4", "Shutdown", "-", "anchor (*queryLog).Shutdown not found")
		return
	}
	g, n := core.CondEdges(fn, func(at core.Atom) (bool, bool) {
		if at.Op != token.ILLEGAL {
			return false, false
		}
		if fr, _, ok := core.LoadedField(at.Base); ok && fr.Type == "querylog.Config" && fr.Field == "FileEnabled" {
			return true, false // leaving through "file logging disabled" is fine
		}
		return false, false
	})
	found, tr, _ := core.Reach(core.Query{
		From:       []core.Point{core.Entry(fn)},
		Target:     core.IsReturn,
		Avoid:      core.IsCallTo(false, "(*querylog.queryLog).flushLogBuffer"),
		AvoidEdges: g,
	})
	r.Eval(n + 1)
	r.Check(n > 0 && !found, "C07-D4", "shutdown-flushes-memory", p.FnPos(fn),
		"Shutdown returns without flushing the memory buffer only when file logging is disabled",
		"Shutdown can return without flushing the memory buffer although file logging is enabled: entries recorded before a restart are lost", p.TraceString(tr))
}

// c07Cursor: D5 — the older_than cursor handed back by the file scan is the
// timestamp of the last record scanned in this call, whether or not it
// matched the search; otherwise paging stops early or skips records.
func c07Cursor(c *Ctx) {
	p, r := c.P, c.R
	fn := p.Fn("(*querylog.queryLog).readEntries")
	if fn == nil {
		r.Undecided("C07-D5", "readEntries", "-", "anchor (*queryLog).readEntries not found")
		return
	}
	calls := core.CallsTo(fn, "(*querylog.queryLog).readNextEntry")
	if len(calls) != 1 {
		r.Undecided("C07-D5", "readEntries", p.FnPos(fn), "expected exactly one call of readNextEntry")
		return
	}
	callV := calls[0].Instr.(*ssa.Call)
	callBlock := callV.Block()
	bad := []string{}
	nEdges := 0
	seen := map[*ssa.Phi]bool{}
	var visit func(v ssa.Value)
	visit = func(v ssa.Value) {
		// the cursor may be handed back as a time: time.Unix(0, nanoseconds), or the zero time for "none"
		if tc, _, isCall := core.CallResult(v); isCall && core.CalleeKey(tc.Common()) == "time.Unix" && len(tc.Common().Args) == 2 {
			visit(tc.Common().Args[1])
			return
		}
		phi, ok := v.(*ssa.Phi)
		if !ok || seen[phi] {
			return
		}
		seen[phi] = true
		isTime := core.TypeKey(phi.Type()) == "time.Time"
		for i, e := range phi.Edges {
			if isTime {
				// a join of "no cursor" and the converted one: follow the converted value
				if cst, isC := e.(*ssa.Const); isC && cst.Value == nil {
					continue
				}
				visit(e)
				continue
			}
			pred := phi.Block().Preds[i]
			if !callBlock.Dominates(pred) {
				// value from before a record was read in this iteration
				if inner, ok := e.(*ssa.Phi); ok {
					visit(inner)
				}
				continue
			}
			nEdges++
			if ex, ok := e.(*ssa.Extract); ok && ex.Tuple == ssa.Value(callV) && ex.Index == 1 {
				continue
			}
			if k, ok := core.ConstInt(e); ok && k == 0 {
				continue // EOF: no more records
			}
			bad = append(bad, fmt.Sprintf("edge from block %d carries %s", pred.Index, e.Name()))
		}
	}
	for _, b := range fn.Blocks {
		for _, in := range b.Instrs {
			if ret, ok := core.AsReturn(in); ok && len(ret.Results) >= 2 {
				visit(core.Res(ret, 1))
				// the cursor kept in a local cell (the function has a defer or closure): after a record was read,
				// the next read or the return is reached only through a store of that record's timestamp (or 0)
				if ld, isLoad := ret.Results[1].(*ssa.UnOp); isLoad {
					if cell, isCell := ld.X.(*ssa.Alloc); isCell {
						okStore := func(i2 ssa.Instruction) bool {
							st, ok := i2.(*ssa.Store)
							if !ok || st.Addr != ssa.Value(cell) {
								return false
							}
							if ex, ok := st.Val.(*ssa.Extract); ok && ex.Tuple == ssa.Value(callV) && ex.Index == 1 {
								return true
							}
							k, isC := core.ConstInt(st.Val)
							return isC && k == 0
						}
						pt := core.PointOf(callV)
						pt.Idx++
						found, tr, _ := core.Reach(core.Query{From: []core.Point{pt}, Avoid: okStore, Target: func(i2 ssa.Instruction) bool {
							if i2 == ssa.Instruction(callV) {
								return true
							}
							rt, isRet := core.AsReturn(i2)
							if !isRet {
								return false
							}
							// the spilled form re-stores the loaded results right before the return: look at the load feeding it
							_ = rt
							return true
						}})
						nEdges++
						if found {
							// a path to a return that re-stores the cell's own value is fine only if a proper store came first: Reach already avoided those
							bad = append(bad, "a path from the read of a record to the next read or the return does not store its timestamp: "+p.TraceString(tr))
						}
					}
				}
			}
		}
	}
	r.Eval(nEdges)
	r.Check(nEdges > 0 && len(bad) == 0, "C07-D5", "cursor-follows-every-scanned-record", p.FnPos(fn),
		"after a record was scanned, the returned cursor is always that record's timestamp (or 0 at end of file)",
		fmt.Sprintf("the returned paging cursor does not advance for some scanned records (%v): a page of non-matching records returns a stale or empty cursor and older matches become unreachable", bad))
	c07SkipOnExactHit(c)
}

// c07SkipOnExactHit: positioning the file reader for a cursor reads and
// discards one record — the one *with* the cursor's timestamp.  That is right
// only when the seek really landed on that record; when the cursor is newer
// than everything in the files (it is the time of an entry still in memory)
// the reader stands at the newest record, which must not be discarded.
func c07SkipOnExactHit(c *Ctx) {
	p, r := c.P, c.R
	fn := p.Fn("(*querylog.qLogReader).seekRecord")
	if fn == nil {
		r.Undecided("C07-D5", "seekRecord", "-", "anchor not found")
		return
	}
	var skips []*ssa.Call
	for _, call := range core.CallsTo(fn, "(*querylog.qLogReader).ReadNext") {
		ci, ok := call.Instr.(*ssa.Call)
		if !ok {
			continue
		}
		used := false
		for _, u := range core.Users(ci) {
			if e, ok := u.(*ssa.Extract); ok && e.Index == 0 && len(core.Users(e)) > 0 {
				used = true
			}
		}
		if !used {
			skips = append(skips, ci)
		}
	}
	if len(skips) == 0 {
		r.Ok("C07-D5", "skip-only-on-exact-hit", p.FnPos(fn), "no record is discarded while positioning the reader")
		return
	}
	// the seek call whose 'found' result guards the skip
	var seek *ssa.Call
	for _, call := range core.Calls(fn) {
		ci, ok := call.Instr.(*ssa.Call)
		if !ok || core.Callee(&ci.Call) == nil || !strings.Contains(strings.ToLower(core.Callee(&ci.Call).Name()), "seekts") {
			continue
		}
		seek = ci
	}
	okGuard := false
	why := "the record read and discarded after the seek is not conditional on the seek having found the cursor's own record"
	if seek != nil {
		guard, n := core.CondEdges(fn, func(at core.Atom) (bool, bool) {
			if at.Op != token.ILLEGAL {
				return false, false
			}
			e, ok := at.Base.(*ssa.Extract)
			if !ok || e.Tuple != ssa.Value(seek) {
				return false, false
			}
			bt, ok := e.Type().Underlying().(*types.Basic)
			return ok && bt.Kind() == types.Bool, true
		})
		if n > 0 {
			okGuard = true
			for _, sk := range skips {
				off, _ := core.UnguardedSinks(fn, func(in ssa.Instruction) bool { return in == ssa.Instruction(sk) }, guard)
				if len(off) > 0 {
					okGuard = false
				}
			}
		}
		// the seek reports 'found' only for an exact hit: false on the too-late / seek-to-start path
		if okGuard {
			callee := core.Callee(&seek.Call)
			bad := false
			for _, b := range callee.Blocks {
				ret, ok := core.AsReturn(b.Instrs[len(b.Instrs)-1])
				if !ok || len(ret.Results) != 2 {
					continue
				}
				fv, isC := core.ConstBool(core.Res(ret, 0))
				if !isC {
					bad, why = true, "the seek's 'found' result is not a constant per return"
					continue
				}
				// a return whose error comes from SeekStart (the too-late path) must say not found
				if fv {
					for _, l := range core.FlattenPhi(core.Res(ret, 1)) {
						if core.IsCallResult(l, -1, "(*querylog.qLogReader).SeekStart") {
							bad, why = true, "the seek reports 'found' although it only moved to the start of the newest file"
						}
					}
					if !core.IsNilConst(core.Res(ret, 1)) {
						bad, why = true, "the seek reports 'found' together with an error"
					}
				}
			}
			okGuard = !bad
		}
	}
	r.Check(okGuard, "C07-D5", "skip-only-on-exact-hit", p.InstrPos(skips[0]),
		"the record with the cursor's timestamp is skipped only when the seek landed on it; a cursor newer than all file records (an entry still in memory) skips nothing",
		why+": paging with a cursor that lies in the memory buffer drops the newest record of the file")
}

// handlerAssertKind: the token kind the handler literal asserts on its token
// parameter: "string", "bool", "number" or "".
func handlerAssertKind(info *types.Info, fl *ast.FuncLit) string {
	if fl.Type.Params == nil || len(fl.Type.Params.List) == 0 || len(fl.Type.Params.List[0].Names) == 0 {
		return ""
	}
	tokObj := info.Defs[fl.Type.Params.List[0].Names[0]]
	kind := ""
	ast.Inspect(fl.Body, func(n ast.Node) bool {
		ta, ok := n.(*ast.TypeAssertExpr)
		if !ok || ta.Type == nil {
			return true
		}
		id, ok := ast.Unparen(ta.X).(*ast.Ident)
		if !ok || info.Uses[id] != tokObj {
			return true
		}
		t := info.TypeOf(ta.Type)
		switch core.TypeKey(t) {
		case "string":
			kind = "string"
		case "bool":
			kind = "bool"
		case "encoding/json.Number", "float64":
			kind = "number"
		}
		return true
	})
	return kind
}

func c07Codec(c *Ctx) {
	p, r := c.P, c.R
	ql := p.Pkg("querylog")
	fl := p.Pkg("filtering")
	if ql == nil || fl == nil {
		r.Undecided("C07-D1", "packages", "-", "querylog/filtering not loaded")
		return
	}
	lookupType := func(pk string, name string) types.Type {
		pkg := p.Pkg(pk)
		if pkg == nil {
			return nil
		}
		o := pkg.Types.Scope().Lookup(name)
		if o == nil {
			return nil
		}
		return o.Type()
	}
	funcBody := func(recvName string) (*ast.FuncDecl, types.Object) {
		fd, _ := p.FuncDecl("querylog", recvName)
		if fd == nil {
			return nil, nil
		}
		return fd, nil
	}
	paramObj := func(fd *ast.FuncDecl, name string) types.Object {
		for _, f := range fd.Type.Params.List {
			for _, n := range f.Names {
				if n.Name == name {
					return ql.TypesInfo.Defs[n]
				}
			}
		}
		return nil
	}
	localObj := func(fd *ast.FuncDecl, name string) types.Object {
		var obj types.Object
		ast.Inspect(fd.Body, func(n ast.Node) bool {
			if id, ok := n.(*ast.Ident); ok && id.Name == name && obj == nil {
				if o := ql.TypesInfo.Defs[id]; o != nil {
					obj = o
				}
			}
			return true
		})
		return obj
	}

	type level struct {
		name     string
		typ      types.Type
		mapVar   string // package var with handler map
		fn       string // function comparing the key
		keyVar   string // name of the key variable/param in fn
		keyLocal bool
	}
	levels := []level{
		{"logEntry", lookupType("querylog", "logEntry"), "logEntryHandlers", "queryLog.decodeLogEntry", "key", true},
		{"Result", lookupType("filtering", "Result"), "resultHandlers", "queryLog.resultDecHandler", "name", false},
		{"ResultRule", lookupType("filtering", "ResultRule"), "", "queryLog.decodeResultRuleKey", "key", false},
		{"DNSRewriteResult", lookupType("filtering", "DNSRewriteResult"), "", "queryLog.decodeResultDNSRewriteResultKey", "key", false},
	}
	total := 0
	for _, lv := range levels {
		if lv.typ == nil {
			r.Undecided("C07-D1", "type:"+lv.name, "-", "type not found")
			continue
		}
		fields := core.JSONFields(lv.typ)
		decKeys := map[string]string{} // key -> asserted kind ("" unknown/complex)
		if lv.mapVar != "" {
			lit := core.PkgVarLit(ql, lv.mapVar)
			if lit == nil {
				r.Undecided("C07-D1", "decoder-table:"+lv.mapVar, "-", "handler table not found")
				continue
			}
			keys, vals := core.StringLitKeys(ql.TypesInfo, lit)
			for i, k := range keys {
				kind := ""
				if f, ok := vals[i].(*ast.FuncLit); ok {
					kind = handlerAssertKind(ql.TypesInfo, f)
				}
				decKeys[k] = kind
			}
		}
		fd, _ := funcBody(lv.fn)
		if fd == nil {
			r.Undecided("C07-D1", "decoder-func:"+lv.fn, "-", "decoder function not found")
			continue
		}
		var obj types.Object
		if lv.keyLocal {
			obj = localObj(fd, lv.keyVar)
		} else {
			obj = paramObj(fd, lv.keyVar)
		}
		if obj == nil {
			r.Undecided("C07-D1", "decoder-key:"+lv.fn, p.Pos(fd.Pos()), "key variable not found in decoder function")
			continue
		}
		for _, s := range core.ComparedStrings(ql.TypesInfo, fd.Body, obj) {
			if _, ok := decKeys[s]; !ok {
				decKeys[s] = "complex"
			}
		}
		r.Eval(len(fields) + len(decKeys))
		for _, f := range fields {
			total++
			key := fmt.Sprintf("codec:%s.%s(%q)", lv.name, f.GoName, f.Key)
			kind, ok := decKeys[f.Key]
			if !ok {
				r.Fail("C07-D1", key, p.Pos(fd.Pos()),
					fmt.Sprintf("the file encoder writes key %q for %s.%s but the streaming decoder has no case for it at this level: the value is silently dropped from every entry read back from disk", f.Key, lv.name, f.GoName))
				continue
			}
			want := core.JSONKind(f.Type)
			if kind == "complex" || kind == "" || want == "other" {
				r.Ok("C07-D1", key, p.Pos(fd.Pos()), "decoder has a case for this key")
				continue
			}
			r.Check(kind == want, "C07-D1", key, p.Pos(fd.Pos()),
				fmt.Sprintf("decoder has a case and asserts a %s token, as encoded", kind),
				fmt.Sprintf("decoder handler for %q asserts a %s token but encoding/json writes %s.%s (%s) as %s: the value is never restored", f.Key, kind, lv.name, f.GoName, core.TypeKey(f.Type), want))
		}
	}
	r.Floor("C07-D1", "encoded-keys", total, 27)

	// decodeLogEntry dispatches "Result" to decodeResult, which dispatches to resultDecHandler and resultHandlers
	for fnk, must := range map[string][]string{
		"(*querylog.queryLog).decodeLogEntry":               {"(*querylog.queryLog).decodeResult"},
		"(*querylog.queryLog).decodeResult":                 {"(*querylog.queryLog).resultDecHandler"},
		"(*querylog.queryLog).resultDecHandler":             {"(*querylog.queryLog).decodeResultRules", "(*querylog.queryLog).decodeResultDNSRewriteResult", "(*querylog.queryLog).decodeResultIPList"},
		"(*querylog.queryLog).decodeResultRuleToken":        {"(*querylog.queryLog).decodeResultRuleKey"},
		"(*querylog.queryLog).decodeResultDNSRewriteResult": {"(*querylog.queryLog).decodeResultDNSRewriteResultKey"},
	} {
		fn := p.Fn(fnk)
		if fn == nil {
			r.Undecided("C07-D1", "dispatch:"+fnk, "-", "anchor not found")
			continue
		}
		for _, m := range must {
			r.Check(len(core.CallsToDeep(fn, m)) > 0, "C07-D1", "dispatch:"+fnk+"->"+m, p.FnPos(fn), "decoder level is wired", fnk+" no longer calls "+m)
		}
	}
	// the file reader uses this decoder
	rn := p.Fn("(*querylog.queryLog).readNextEntry")
	if rn == nil {
		r.Undecided("C07-D1", "readNextEntry", "-", "anchor not found")
	} else {
		r.Check(len(core.CallsToDeep(rn, "(*querylog.queryLog).decodeLogEntry")) > 0, "C07-D1", "file-reader-uses-decoder", p.FnPos(rn), "readNextEntry decodes with decodeLogEntry", "readNextEntry no longer uses decodeLogEntry")
	}
	// the file writer uses encoding/json on *logEntry
	ee := p.Fn("(*querylog.queryLog).encodeEntries")
	if ee == nil {
		r.Undecided("C07-D1", "encodeEntries", "-", "anchor not found")
	} else {
		ok := false
		for _, f := range core.WithAnon(ee) {
			for _, call := range core.CallsTo(f, "(*encoding/json.Encoder).Encode") {
				if mi, isMI := call.Arg(1).(*ssa.MakeInterface); isMI && core.TypeKey(mi.X.Type()) == "*querylog.logEntry" {
					ok = true
				}
			}
		}
		r.Check(ok, "C07-D1", "file-writer-uses-encoding-json", p.FnPos(ee), "entries are written with json.Encoder.Encode(*logEntry)", "encodeEntries no longer encodes *logEntry with encoding/json; the key agreement rule does not apply")
	}
}

// c07Ints: D2.
func c07Ints(c *Ctx) {
	p, r := c.P, c.R
	isParamField := func(fr core.FieldRef) bool {
		return fr.Type == "querylog.searchParams" && (fr.Field == "limit" || fr.Field == "offset")
	}
	nStores := 0
	overflowGuard := false
	for _, fn := range p.ModFnsIn("querylog") {
		if fn.Blocks == nil {
			continue
		}
		perFn := 0
		for _, b := range fn.Blocks {
			for _, in := range b.Instrs {
				st, ok := in.(*ssa.Store)
				if !ok {
					continue
				}
				fr, ok := core.FieldOfAddr(st.Addr)
				if !ok || !isParamField(fr) {
					continue
				}
				nStores++
				perFn++
				key := fmt.Sprintf("store:%s@%s#%d", fr.Field, core.FuncKey(fn), perFn)
				if v, ok := core.ConstInt(st.Val); ok {
					r.Check(v >= 0, "C07-D2", key, p.InstrPos(in), "non-negative constant", "negative constant stored into a slice-bound parameter")
					continue
				}
				// value (through int conversions)
				var src ssa.Value = st.Val
				for {
					if cv, ok := src.(*ssa.Convert); ok {
						src = cv.X
						continue
					}
					break
				}
				g, n := core.CondEdges(fn, func(at core.Atom) (bool, bool) {
					if at.Base != src && at.Base != st.Val {
						return false, false
					}
					k, ok := core.ConstInt(at.Other)
					if !ok {
						return false, false
					}
					switch at.Op {
					case token.LSS: // v < k  (k <= 0): pass on false
						return k <= 0, false
					case token.GEQ: // v >= k (k >= 0): pass on true
						return k >= 0, true
					case token.GTR: // v > k (k >= -1): pass on true
						return k >= -1, true
					case token.LEQ: // v <= k (k < 0): pass on false
						return k < 0, false
					}
					return false, false
				})
				off, _ := core.UnguardedSinks(fn, func(x ssa.Instruction) bool { return x == in }, g)
				r.Eval(n + 1)
				r.Check(n > 0 && len(off) == 0, "C07-D2", key, p.InstrPos(in),
					"request integer stored only after a sign guard",
					fmt.Sprintf("a request-derived integer reaches searchParams.%s without a non-negativity guard; search slices with it (negative value => slice bounds panic)", fr.Field), traceOf(p, off)...)
				// overflow guard: v > (BIG - other)
				g2, n2 := core.CondEdges(fn, func(at core.Atom) (bool, bool) {
					if at.Base != src && at.Base != st.Val {
						return false, false
					}
					sub, ok := at.Other.(*ssa.BinOp)
					if !ok || sub.Op != token.SUB {
						return false, false
					}
					big, ok := core.ConstInt(sub.X)
					if !ok || big < (1<<31)-1 {
						return false, false
					}
					switch at.Op {
					case token.GTR, token.GEQ:
						return true, false
					case token.LSS, token.LEQ:
						return true, true
					}
					return false, false
				})
				if n2 > 0 {
					off2, _ := core.UnguardedSinks(fn, func(x ssa.Instruction) bool { return x == in }, g2)
					if len(off2) == 0 {
						overflowGuard = true
					}
				}
			}
		}
	}
	r.Floor("C07-D2", "searchParams-int-stores", nStores, 3)
	r.Check(overflowGuard, "C07-D2", "sum-overflow-guard", "-",
		"offset is stored only when offset <= MaxInt - limit, so offset+limit cannot wrap negative",
		"no overflow guard protects offset+limit; a huge offset makes the sum negative and search panics on entries[:totalLimit]")

	// every non-constant slice bound in the search path is dominated by a length guard on the same slice
	nSlices := 0
	sliceFns := []string{"(*querylog.queryLog).search", "(*querylog.queryLog).searchMemory", "(*querylog.queryLog).searchFiles", "(*querylog.queryLog).readEntries"}
	// helpers of the package that these call directly and that receive request integers (a part of the paging
	// arithmetic moved into its own function)
	for _, fk := range append([]string{}, sliceFns...) {
		if fn := p.Fn(fk); fn != nil {
			for _, call := range core.Calls(fn) {
				h := core.Callee(call.Common)
				if h == nil || h.Blocks == nil || core.PkgOf(h) != "querylog" {
					continue
				}
				hk := core.FuncKey(h)
				dup := false
				for _, k := range sliceFns {
					dup = dup || k == hk
				}
				takesInt := false
				for _, prm := range h.Params {
					if bt, ok := prm.Type().Underlying().(*types.Basic); ok && bt.Kind() == types.Int {
						takesInt = true
					}
				}
				if !dup && takesInt {
					sliceFns = append(sliceFns, hk)
				}
			}
		}
	}
	for _, fk := range sliceFns {
		fn := p.Fn(fk)
		if fn == nil {
			r.Undecided("C07-D2", "slice-fn:"+fk, "-", "anchor not found")
			continue
		}
		per := 0
		for _, b := range fn.Blocks {
			for _, in := range b.Instrs {
				sl, ok := in.(*ssa.Slice)
				if !ok {
					continue
				}
				for _, bound := range []ssa.Value{sl.Low, sl.High} {
					if bound == nil {
						continue
					}
					if _, isC := bound.(*ssa.Const); isC {
						continue
					}
					nSlices++
					per++
					key := fmt.Sprintf("slice-bound:%s#%d", fk, per)
					ok := boundGuarded(fn, sl.X, bound, in)
					r.Check(ok, "C07-D2", key, p.InstrPos(in),
						"slice bound dominated by a length guard on the same slice (and non-negative by the parameter invariant)",
						"slice expression with a request-derived bound is not dominated by a length guard on the same slice")
				}
			}
		}
	}
	r.Floor("C07-D2", "guarded-slice-bounds", nSlices, 2)
}

// sameValue: identical SSA values, or loads of the same field of the same base.
func sameValue(a, b ssa.Value) bool {
	if a == b {
		return true
	}
	fa, ba, oka := core.LoadedField(a)
	fb, bb, okb := core.LoadedField(b)
	return oka && okb && fa == fb && ba == bb
}

func boundGuarded(fn *ssa.Function, x, bound ssa.Value, at ssa.Instruction) bool {
	isLenOfX := func(v ssa.Value) bool {
		call, ok := v.(*ssa.Call)
		if !ok {
			return false
		}
		b, ok := call.Common().Value.(*ssa.Builtin)
		return ok && b.Name() == "len" && len(call.Common().Args) == 1 && core.SameValue(call.Common().Args[0], x)
	}
	g, n := core.CondEdges(fn, func(a core.Atom) (bool, bool) {
		switch {
		case isLenOfX(a.Base) && sameValue(a.Other, bound):
			switch a.Op {
			case token.GTR, token.GEQ:
				return true, true
			case token.LSS, token.LEQ:
				return true, false
			}
		case isLenOfX(a.Other) && sameValue(a.Base, bound):
			switch a.Op {
			case token.LSS, token.LEQ:
				return true, true
			case token.GTR, token.GEQ:
				return true, false
			}
		}
		return false, false
	})
	if n == 0 {
		return false
	}
	off, _ := core.UnguardedSinks(fn, func(in ssa.Instruction) bool { return in == at }, g)
	return len(off) == 0
}

// c07Funnel: D3.
func c07Funnel(c *Ctx) {
	p, r := c.P, c.R
	// buffer.Push only in Add
	var pushers, clearers []string
	for _, fn := range p.ModFnsIn("querylog") {
		for _, call := range core.Calls(fn) {
			if !strings.Contains(call.Key, "RingBuffer") {
				continue
			}
			fr, _, ok := core.LoadedField(call.Arg(0))
			if !ok || fr.Type != "querylog.queryLog" || fr.Field != "buffer" {
				continue
			}
			outer := fn
			for outer.Parent() != nil {
				outer = outer.Parent()
			}
			switch {
			case strings.HasSuffix(call.Key, ".Push"):
				pushers = append(pushers, core.FuncKey(outer))
			case strings.HasSuffix(call.Key, ".Clear"):
				clearers = append(clearers, core.FuncKey(outer))
			}
		}
	}
	sort.Strings(pushers)
	sort.Strings(clearers)
	r.Check(len(pushers) == 1 && pushers[0] == "(*querylog.queryLog).Add", "C07-D3", "buffer-push-only-in-Add", "-",
		"the ring buffer is pushed only by Add", fmt.Sprintf("ring buffer pushed from %v", pushers))
	okClear := len(clearers) >= 1
	for _, cfn := range clearers {
		if cfn != "(*querylog.queryLog).encodeEntries" && cfn != "(*querylog.queryLog).clear" {
			okClear = false
		}
	}
	r.Check(okClear, "C07-D3", "buffer-clear-sites", "-", fmt.Sprintf("the ring buffer is cleared only by %v", clearers), fmt.Sprintf("ring buffer cleared from unexpected places: %v", clearers))

	// encodeEntries: Range over buffer and Clear happen under one bufferLock hold
	ee := p.Fn("(*querylog.queryLog).encodeEntries")
	if ee == nil {
		r.Undecided("C07-D3", "encodeEntries", "-", "anchor not found")
	} else {
		isLock := func(in ssa.Instruction, name string) bool {
			var cc *ssa.CallCommon
			switch x := in.(type) {
			case *ssa.Call:
				cc = x.Common()
			default:
				return false
			}
			if core.CalleeKey(cc) != "(*sync.RWMutex)."+name && core.CalleeKey(cc) != "(*sync.Mutex)."+name {
				return false
			}
			fr, ok := core.FieldOfAddr(cc.Args[0])
			return ok && fr.Field == "bufferLock"
		}
		isBuf := func(suffix string) func(ssa.Instruction) bool {
			return func(in ssa.Instruction) bool {
				call, ok := in.(*ssa.Call)
				if !ok {
					return false
				}
				k := core.CalleeKey(call.Common())
				return strings.Contains(k, "RingBuffer") && strings.HasSuffix(k, suffix)
			}
		}
		// no Unlock between Range and Clear; Range and Clear both after Lock
		var rangePts []core.Point
		for _, b := range ee.Blocks {
			for i, in := range b.Instrs {
				if isBuf(".Range")(in) {
					rangePts = append(rangePts, core.Point{Block: b, Idx: i + 1})
				}
			}
		}
		okShape := len(rangePts) > 0
		// (a) Clear reachable from Range only without passing Unlock
		foundUnlocked, _, _ := core.Reach(core.Query{From: rangePts, Target: isBuf(".Clear"), Avoid: nil})
		if !foundUnlocked {
			okShape = false
		}
		// is there a path Range -> Unlock -> Clear?  check: from Range, reach Unlock avoiding Clear, then from that Unlock reach Clear
		badPath := false
		for _, b := range ee.Blocks {
			for i, in := range b.Instrs {
				if isLock(in, "Unlock") {
					f1, _, _ := core.Reach(core.Query{From: rangePts, Target: func(x ssa.Instruction) bool { return x == in }, Avoid: isBuf(".Clear")})
					f2, _, _ := core.Reach(core.Query{From: []core.Point{{Block: b, Idx: i + 1}}, Target: isBuf(".Clear")})
					if f1 && f2 {
						badPath = true
					}
				}
			}
		}
		// (b) Range not reachable from entry without Lock
		f3, _, _ := core.Reach(core.Query{From: []core.Point{core.Entry(ee)}, Target: isBuf(".Range"), Avoid: func(in ssa.Instruction) bool { return isLock(in, "Lock") }})
		r.Check(okShape && !badPath && !f3, "C07-D3", "encode-and-clear-atomic", p.FnPos(ee),
			"the buffer is encoded and cleared inside one bufferLock critical section (an entry is never both on disk and in memory, never in neither)",
			"the buffer is encoded and cleared in different critical sections (or without the lock): entries recorded in between are lost or duplicated")
	}

	// file opened for writing only in flushToFile, append mode
	n := 0
	for _, fn := range p.ModFnsIn("querylog") {
		for _, call := range core.CallsTo(fn, "os.OpenFile", "os.Create", "os.WriteFile") {
			flag, isC := constIntOf(call.Arg(1))
			if call.Key == "os.OpenFile" && isC && flag&0x3 == 0 {
				continue // read-only
			}
			n++
			key := "file-writer:" + core.FuncKey(fn)
			okw := core.FuncKey(fn) == "(*querylog.queryLog).flushToFile" && call.Key == "os.OpenFile" && isC && osFlag(p, "O_APPEND") > 0 && flag&osFlag(p, "O_APPEND") != 0 && flag&osFlag(p, "O_TRUNC") == 0
			r.Check(okw, "C07-D3", key, p.InstrPos(call.Instr), "the log file is opened for writing only by flushToFile, in append mode without truncation",
				"the query log file is opened for writing outside flushToFile or not in append mode: recorded entries can be overwritten")
		}
	}
	r.Floor("C07-D3", "file-writers", n, 1)
}

// c07RecordedImmutable: D6.  Entries in the memory buffer are shared with
// every search result (shallow clones); rendering must not change them.  The
// address mutator (anonymiser) is therefore applied only to a copy: no value
// passed to an aghnet.IPMutFunc in the query log aliases the IP field of an
// entry.
func c07RecordedImmutable(c *Ctx) {
	p, r := c.P, c.R
	n := 0
	var bad []string
	stop := func(v ssa.Value) string {
		if call, ok := v.(*ssa.Call); ok {
			k := core.CalleeKey(call.Common())
			if strings.HasPrefix(k, "slices.Clone") || strings.HasPrefix(k, "bytes.Clone") || strings.HasSuffix(k, "netip.Addr).AsSlice") {
				return "copy"
			}
			if bi, ok := call.Common().Value.(*ssa.Builtin); ok && bi.Name() == "append" && len(call.Common().Args) > 0 {
				if core.IsNilConst(call.Common().Args[0]) {
					return "copy"
				}
			}
		}
		return ""
	}
	for _, fn := range p.ModFnsIn("querylog") {
		for _, call := range core.Calls(fn) {
			if call.Common.IsInvoke() || core.Callee(call.Common) != nil || len(call.Common.Args) != 1 {
				continue
			}
			if !strings.HasSuffix(core.TypeKey(call.Common.Value.Type()), "aghnet.IPMutFunc") {
				continue
			}
			n++
			for _, o := range core.Origins(call.Common.Args[0], core.ProvOpts{Prog: p, Stop: stop, InterprocDepth: 2}) {
				if o.Kind == "field" && strings.HasSuffix(o.Key, "logEntry.IP") {
					bad = append(bad, fmt.Sprintf("%s at %s mutates the recorded address itself", core.FuncKey(fn), p.InstrPos(call.Instr)))
				}
			}
		}
	}
	sort.Strings(bad)
	r.Check(n > 0 && len(bad) == 0, "C07-D6", "anonymiser-on-copies-only", "-",
		fmt.Sprintf("the %d applications of the address mutator in the query log work on copies; recorded entries keep the client they were recorded with", n),
		"the address mutator is applied to the stored address of an entry: entries still in memory (and then the file) lose the client they were recorded with", bad...)
}

// c07QuickMatchFields: D8 — the quick match decides on the undecoded line of a
// record in the file whether the full match needs to run; records in memory do
// not go through it.  The two views of the log agree only if the quick match
// looks at the line the way the decoder does: through whole field values taken
// out with readJSONValue.  A substring test on the raw line (a number's prefix
// is a prefix of longer numbers, a key can occur inside a value) drops or keeps
// other records than the decoded match — for file records only.
func c07QuickMatchFields(c *Ctx) {
	p, r := c.P, c.R
	fn := p.Fn("(*querylog.searchCriterion).quickMatch")
	if fn == nil {
		r.Undecided("C07-D8", "quickMatch", "-", "anchor not found")
		return
	}
	var line *ssa.Parameter
	for _, prm := range fn.Params {
		if prm.Name() == "line" {
			line = prm
		}
	}
	if line == nil {
		for _, prm := range fn.Params {
			if bt, ok := prm.Type().Underlying().(*types.Basic); ok && bt.Kind() == types.String {
				line = prm
			}
		}
	}
	if line == nil {
		r.Undecided("C07-D8", "quickMatch-line", p.FnPos(fn), "the raw line parameter was not found")
		return
	}
	n := 0
	var bad []string
	var scan func(f *ssa.Function, isLine func(ssa.Value) bool, depth int)
	scan = func(f *ssa.Function, isLine func(ssa.Value) bool, depth int) {
		for _, call := range core.Calls(f) {
			for i, a := range call.Common.Args {
				if !isLine(core.ResolveCellLoad(a)) {
					continue
				}
				n++
				switch {
				case call.Key == "querylog.readJSONValue":
				default:
					// a helper of the package that is handed the line: same obligation inside it
					if h := core.Callee(call.Common); h != nil && core.PkgOf(h) == "querylog" && len(h.Blocks) > 0 && depth < 2 && i < len(h.Params) {
						prm := h.Params[i]
						scan(h, func(v ssa.Value) bool { return v == ssa.Value(prm) }, depth+1)
						continue
					}
					bad = append(bad, fmt.Sprintf("%s: the raw line is handed to %s", p.InstrPos(call.Instr), call.Key))
				}
			}
		}
		// slicing or indexing the raw line is a substring test too
		for _, b := range f.Blocks {
			for _, in := range b.Instrs {
				switch x := in.(type) {
				case *ssa.Slice:
					if isLine(core.ResolveCellLoad(x.X)) {
						bad = append(bad, p.InstrPos(in)+": the raw line is sliced")
					}
				case *ssa.Lookup:
					if isLine(core.ResolveCellLoad(x.X)) {
						bad = append(bad, p.InstrPos(in)+": the raw line is indexed")
					}
				}
			}
		}
	}
	scan(fn, func(v ssa.Value) bool { return v == ssa.Value(line) }, 0)
	sort.Strings(bad)
	r.Check(n > 0 && len(bad) == 0, "C07-D8", "quick-match-reads-whole-field-values", p.FnPos(fn),
		"the quick match looks at the undecoded line only through readJSONValue (whole field values)",
		"the quick match tests the undecoded line otherwise than through whole field values: records in the files are then kept or dropped differently from the same records in memory", bad...)
}
