package rules

import (
	"fmt"
	"go/token"
	"os"
	"sort"
	"strings"

	"aghverif/core"

	"golang.org/x/tools/go/ssa"
)

func init() {
	register(&Rule{
		ID:  "C03",
		Run: runC03,
		Explanation: "Access lists. Decided: (D1) the server installs itself as the proxy's pre-request hook, and in the pinned dnsproxy the request handler (and the default resolver) run only after that hook returned nil, a reply being sent only for a BeforeRequestError; (D2) admission: the hook returns nil only when the client is not blocked and (for single-question requests) the name is not on the blocked-hosts list, and nothing reachable from the hook touches the query log, the statistics or an upstream; " +
			"(D3) silent drop vs REFUSED: for UDP and DNSCrypt the hook returns a plain error (no reply), for every other transport a BeforeRequestError whose response is built by makeResponseREFUSED; (D4) allow-list vs block-list mode: allow-list mode is decided from all three allowed collections; the allowed collections are consulted only in allow-list mode and the disallowed ones only otherwise; a client is reported blocked only when (allow-list mode and both address and ClientID are excluded) or (block-list mode and at least one is excluded); the decision reads one snapshot of the access manager under the server lock. " +
			"(D5) no configured entry is dropped: in the list builder every iteration that does not return an error records the entry — the parsed address in the address set, the parsed prefix appended to the network list, or the string in the ClientID set — and both lists of the access manager are built by it from the configured slices; the address check tests every stored network (the scan leaves the loop early only by returning a match). " +
			"(D4, cont.) the blocked decision of IsBlockedClient is evaluated abstractly for all 16 combinations of (address given, address excluded, allow-list mode, ClientID excluded) and must equal the access rule, through whatever helpers and control flow compute it; (D5, cont.) every configured blocked-host rule is lower-cased where the engine's rule text is built (request names are matched lower-cased). " +
			"(D2, cont.) the blocked-hosts list is consulted with the question's own name and type. " +
			"Not decided: CIDR containment and zone handling, ClientID case, blocked-host pattern semantics (value-level).",
		RuleText:    "CFG edge guards on SSA, phi-leaf classification of the decision inputs, call-graph reachability restricted to static module callees.",
		Assumptions: []string{"dnsproxy v0.75.3 shape asserted on its loaded source (handleBefore before RequestHandler)"},
		Trusted:     commonTrusted,
	})
}

func runC03(c *Ctx) {
	p, r := c.P, c.R
	// D1a: BeforeRequestHandler is the server
	n := 0
	for _, fn := range p.ModFnsIn("dnsforward") {
		for _, b := range fn.Blocks {
			for _, in := range b.Instrs {
				st, ok := in.(*ssa.Store)
				if !ok {
					continue
				}
				fr, ok := core.FieldOfAddr(st.Addr)
				if !ok || fr.Type != "github.com/AdguardTeam/dnsproxy/proxy.Config" || fr.Field != "BeforeRequestHandler" {
					continue
				}
				n++
				mi, isMI := st.Val.(*ssa.MakeInterface)
				r.Check(isMI && core.TypeKey(mi.X.Type()) == "*dnsforward.Server", "C03-D1", "hook-installed:"+core.FuncKey(fn), p.InstrPos(in),
					"the proxy's pre-request hook is the server itself", "the proxy's pre-request hook is not the server (access lists are not enforced before processing)")
			}
		}
	}
	r.Floor("C03-D1", "hook-installations", n, 1)
	// D1b: dnsproxy shape
	var hdr *ssa.Function
	for fn := range p.Fns {
		if fn.String() == "(*github.com/AdguardTeam/dnsproxy/proxy.Proxy).handleDNSRequest" {
			hdr = fn
		}
	}
	if hdr == nil || hdr.Blocks == nil {
		r.Undecided("C03-D1", "dnsproxy-handleDNSRequest", "-", "dnsproxy (*Proxy).handleDNSRequest not found")
	} else {
		g, ng := core.CondEdges(hdr, func(at core.Atom) (bool, bool) {
			if at.Op == token.ILLEGAL && core.IsCallResult(at.Base, -1, "(*github.com/AdguardTeam/dnsproxy/proxy.Proxy).handleBefore") {
				return true, true
			}
			return false, false
		})
		sink := func(in ssa.Instruction) bool {
			call, ok := in.(*ssa.Call)
			if !ok {
				return false
			}
			if core.CalleeKey(call.Common()) == "(*github.com/AdguardTeam/dnsproxy/proxy.Proxy).Resolve" {
				return true
			}
			if fr, _, ok := core.LoadedField(call.Common().Value); ok && fr.Field == "RequestHandler" {
				return true
			}
			return false
		}
		off, ns := core.UnguardedSinks(hdr, sink, g)
		r.Check(ng > 0 && ns >= 1 && len(off) == 0, "C03-D1", "dnsproxy:hook-before-handler", "dnsproxy/proxy/server.go",
			"in the pinned dnsproxy the request handler runs only after handleBefore returned true", "dnsproxy no longer runs the pre-request hook before the request handler")
	}

	hb := p.Fn("(*dnsforward.Server).HandleBefore")
	if hb == nil {
		r.Undecided("C03-D2", "HandleBefore", "-", "anchor not found")
		return
	}
	admit := func(in ssa.Instruction) bool {
		ret, ok := core.AsReturn(in)
		return ok && len(ret.Results) == 1 && core.IsNilConst(core.ResolveLocalLoad(core.Res(ret, 0)))
	}
	gNotBlocked, n1 := core.CondEdges(hb, func(at core.Atom) (bool, bool) {
		if at.Op == token.ILLEGAL && core.IsCallResult(at.Base, 0, "(*dnsforward.Server).IsBlockedClient") {
			return true, false
		}
		return false, false
	})
	off, ns := core.UnguardedSinks(hb, admit, gNotBlocked)
	r.Check(n1 > 0 && ns > 0 && len(off) == 0, "C03-D2", "admit-only-unblocked-client", p.FnPos(hb),
		"a request is admitted only if IsBlockedClient reported not blocked", "a request can be admitted without a negative IsBlockedClient result", traceOf(p, off)...)
	gHost, n2 := core.CondEdges(hb, func(at core.Atom) (bool, bool) {
		if at.Op == token.ILLEGAL && core.IsCallResult(at.Base, -1, "(*dnsforward.accessManager).isBlockedHost") {
			return true, false
		}
		// requests without exactly one question are not name-checked
		if at.Op == token.EQL || at.Op == token.NEQ {
			if lc, ok := at.Base.(*ssa.Call); ok {
				if b, ok := lc.Common().Value.(*ssa.Builtin); ok && b.Name() == "len" {
					if k, ok := core.ConstInt(at.Other); ok && k == 1 {
						return true, at.Op == token.NEQ
					}
				}
			}
		}
		return false, false
	})
	off2, _ := core.UnguardedSinks(hb, admit, gHost)
	r.Check(n2 >= 2 && len(off2) == 0, "C03-D2", "admit-only-unblocked-name", p.FnPos(hb),
		"a single-question request is admitted only if its name is not on the blocked-hosts list", "a request can be admitted without its name having been checked against the blocked-hosts list", traceOf(p, off2)...)
	// the blocked-hosts engine is asked about this request's own name and type (typed rules, $dnstype, decide on it)
	{
		nQ := 0
		var badQ []string
		for _, call := range core.CallsToDeep(hb, "(*dnsforward.accessManager).isBlockedHost") {
			if len(call.Common.Args) < 3 {
				continue
			}
			nQ++
			for idx, want := range map[int]string{1: "Name", 2: "Qtype"} {
				okArg, nO := true, 0
				vals, okRoot := core.InRoot(call.Arg(idx), hb)
				if !okRoot {
					vals = []ssa.Value{call.Arg(idx)}
				}
				for _, v := range vals {
					tr := map[string]bool{"aghnet.NormalizeDomain": true}
					for k := range core.DefaultTransparent {
						tr[k] = true
					}
					for _, o := range core.Origins(v, core.ProvOpts{Prog: p, Transparent: tr}) {
						if o.Kind == "const" {
							continue
						}
						nO++
						if !(o.Kind == "field" && o.Key == "github.com/miekg/dns.Question."+want) {
							okArg = false
						}
					}
				}
				if !okArg || nO == 0 {
					badQ = append(badQ, fmt.Sprintf("argument %d of isBlockedHost at %s is not the question's %s", idx, p.InstrPos(call.Instr), want))
				}
			}
		}
		sort.Strings(badQ)
		r.Check(nQ > 0 && len(badQ) == 0, "C03-D2", "blocked-hosts-asked-about-the-question", p.FnPos(hb),
			"the blocked-hosts list is consulted with the question's name and type",
			"the blocked-hosts list is consulted with something other than the question's own name and type (a class where the type belongs, say): typed rules then refuse the wrong requests and admit the ones they name", badQ...)
	}
	// blocked -> preBlockedResponse
	for _, key := range []string{"(*dnsforward.Server).IsBlockedClient", "(*dnsforward.accessManager).isBlockedHost"} {
		idx := -1
		if key == "(*dnsforward.Server).IsBlockedClient" {
			idx = 0
		}
		gB, _ := core.CondEdges(hb, func(at core.Atom) (bool, bool) {
			if at.Op == token.ILLEGAL && core.IsCallResult(at.Base, idx, key) {
				return true, true
			}
			return false, false
		})
		var starts []core.Point
		for e := range gB {
			starts = append(starts, core.AfterEdge(e))
		}
		found := true
		var trB []*ssa.BasicBlock
		if os.Getenv("AGHVERIF_DEBUG") != "" {
			fmt.Println("DEBUG", key, "guards", len(gB), "starts", len(starts), "blocks", len(hb.Blocks))
		}
		if len(starts) > 0 {
			found, trB, _ = core.Reach(core.Query{From: starts, Target: core.IsReturn, Avoid: core.IsCallTo(false, "(*dnsforward.Server).preBlockedResponse")})
		}
		r.Check(!found, "C03-D2", "blocked-goes-to-preBlockedResponse:"+key, p.FnPos(hb), "a blocked request leaves the hook through preBlockedResponse", "a blocked request can leave the hook without preBlockedResponse", p.TraceString(trB))
	}
	// nothing reachable from the hook records or resolves
	forbidden := map[string]bool{
		"iface:(querylog.QueryLog).Add": true, "iface:(stats.Interface).Update": true,
		"(*github.com/AdguardTeam/dnsproxy/proxy.Proxy).Resolve":             true,
		"iface:(github.com/AdguardTeam/dnsproxy/upstream.Upstream).Exchange": true,
		"(*github.com/AdguardTeam/dnsproxy/proxy.Proxy).LookupNetIP":         true,
		"(*dnsforward.Server).logQuery":                                      true, "(*dnsforward.Server).updateStats": true,
	}
	seen := map[*ssa.Function]bool{}
	var hits []string
	var visit func(fn *ssa.Function, depth int)
	visit = func(fn *ssa.Function, depth int) {
		if seen[fn] || depth > 6 {
			return
		}
		seen[fn] = true
		for _, call := range core.Calls(fn) {
			if forbidden[call.Key] {
				hits = append(hits, core.FuncKey(fn)+" -> "+call.Key)
			}
			if callee := core.Callee(call.Common); callee != nil && core.InModule(callee) && callee.Blocks != nil {
				visit(callee, depth+1)
			}
		}
	}
	visit(hb, 0)
	r.Eval(len(seen))
	r.Check(len(hits) == 0, "C03-D2", "hook-does-not-record-or-resolve", p.FnPos(hb),
		fmt.Sprintf("none of the %d functions statically reachable from the hook logs, counts or resolves", len(seen)), fmt.Sprintf("the pre-request hook reaches %v", hits))

	c03PreBlocked(c)
	c03Modes(c)
	c03Entries(c)
}

// c03IsProto: v is the transport of the request: the Proto field of the proxy context, or a parameter to which every
// caller hands that.
func c03IsProto(v ssa.Value, depth int) bool {
	v = core.ResolveCellLoad(v)
	if fr, _, ok := core.LoadedField(v); ok {
		return fr.Field == "Proto"
	}
	if prm, ok := v.(*ssa.Parameter); ok && depth < 3 {
		args := core.ArgsOfParam(prm)
		if len(args) == 0 {
			return false
		}
		for _, a := range args {
			if !c03IsProto(a, depth+1) {
				return false
			}
		}
		return true
	}
	return false
}

func c03PreBlocked(c *Ctx) {
	p, r := c.P, c.R
	fn := p.Fn("(*dnsforward.Server).preBlockedResponse")
	if fn == nil {
		r.Undecided("C03-D3", "preBlockedResponse", "-", "anchor not found")
		return
	}
	isReply := func(in ssa.Instruction) (reply, known bool) {
		ret, ok := core.AsReturn(in)
		if !ok || len(ret.Results) != 1 {
			return false, false
		}
		leaves := core.FlattenPhi(core.ResolveLocalLoad(core.Res(ret, 0)))
		rep, non := 0, 0
		for _, l := range leaves {
			if core.TypeKey(l.Type()) == "*github.com/AdguardTeam/dnsproxy/proxy.BeforeRequestError" {
				rep++
			} else {
				non++
			}
		}
		if rep > 0 && non > 0 {
			return false, false
		}
		return rep > 0, true
	}
	protoEdges := func(want bool) map[core.Edge]bool {
		g, _ := core.CondEdges(fn, func(at core.Atom) (bool, bool) {
			if at.Op != token.EQL && at.Op != token.NEQ {
				return false, false
			}
			if !c03IsProto(at.Base, 0) {
				return false, false
			}
			s, ok := core.ConstString(at.Other)
			if !ok || (s != "udp" && s != "dnscrypt") {
				return false, false
			}
			return true, (at.Op == token.EQL) == want
		})
		return g
	}
	dropEdges := protoEdges(true)
	r.Check(len(dropEdges) == 2, "C03-D3", "drop-protocols", p.FnPos(fn), "exactly UDP and DNSCrypt are tested for the silent drop", fmt.Sprintf("the silent-drop test no longer covers exactly UDP and DNSCrypt (%d comparisons)", len(dropEdges)))
	// (a) plain-error returns only via a drop edge
	offA, nA := core.UnguardedSinks(fn, func(in ssa.Instruction) bool {
		rep, known := isReply(in)
		return known && !rep
	}, dropEdges)
	r.Check(nA > 0 && len(offA) == 0, "C03-D3", "no-reply-only-for-udp-dnscrypt", p.FnPos(fn),
		"the request is dropped without a reply only for UDP and DNSCrypt", "a transport other than UDP/DNSCrypt can be dropped without the REFUSED reply", traceOf(p, offA)...)
	// (b) from a drop edge, no reply return is reachable
	var starts []core.Point
	for e := range dropEdges {
		starts = append(starts, core.AfterEdge(e))
	}
	foundReply := false
	var trR []*ssa.BasicBlock
	if len(starts) > 0 {
		foundReply, trR, _ = core.Reach(core.Query{From: starts, Target: func(in ssa.Instruction) bool {
			if _, isRet := core.AsReturn(in); !isRet {
				return false
			}
			rep, known := isReply(in)
			return !known || rep
		}})
	}
	r.Check(!foundReply, "C03-D3", "udp-dnscrypt-never-replied", p.FnPos(fn),
		"over UDP and DNSCrypt a blocked request never gets a reply (no amplification)", "a blocked UDP/DNSCrypt request can be answered with a packet (amplification vector)", p.TraceString(trR))
	// (c) the reply is REFUSED
	okRef := false
	for _, b := range fn.Blocks {
		for _, in := range b.Instrs {
			if st, ok := in.(*ssa.Store); ok {
				if fr, ok := core.FieldOfAddr(st.Addr); ok && fr.Type == "github.com/AdguardTeam/dnsproxy/proxy.BeforeRequestError" && fr.Field == "Response" {
					okRef = core.IsCallResult(st.Val, -1, "(*dnsforward.Server).makeResponseREFUSED")
				}
			}
		}
	}
	r.Check(okRef, "C03-D3", "reply-is-REFUSED", p.FnPos(fn), "the reply for other transports is built by makeResponseREFUSED", "the reply for a blocked request is not the REFUSED response")
	mr := p.Fn("(*dnsforward.Server).makeResponseREFUSED")
	if mr != nil {
		hasRcode := false
		for _, f := range []*ssa.Function{mr} {
			for _, call := range core.Calls(f) {
				for _, a := range call.Common.Args {
					if k, ok := core.ConstInt(a); ok && k == 5 {
						hasRcode = true
					}
				}
			}
		}
		r.Check(hasRcode, "C03-D3", "REFUSED-rcode", p.FnPos(mr), "makeResponseREFUSED sets rcode 5 (REFUSED)", "makeResponseREFUSED no longer sets rcode REFUSED")
	}
}

func c03Modes(c *Ctx) {
	p, r := c.P, c.R
	const tAM = "dnsforward.accessManager"
	am := p.Fn("(*dnsforward.accessManager).allowlistMode")
	if am == nil {
		r.Undecided("C03-D4", "allowlistMode", "-", "anchor not found")
		return
	}
	fields := map[string]bool{}
	for _, b := range am.Blocks {
		for _, in := range b.Instrs {
			if fa, ok := in.(*ssa.FieldAddr); ok {
				if fr, ok := core.FieldOfAddr(fa); ok && fr.Type == tAM {
					fields[fr.Field] = true
				}
			}
		}
	}
	var fl []string
	for f := range fields {
		fl = append(fl, f)
	}
	sort.Strings(fl)
	r.Check(fmt.Sprint(fl) == "[allowedClientIDs allowedIPs allowedNets]", "C03-D4", "allowlistMode:reads-all-allowed-collections", p.FnPos(am),
		"allow-list mode is decided from the allowed IPs, CIDRs and ClientIDs", fmt.Sprintf("allow-list mode is decided from %v (must be exactly the three allowed collections)", fl))

	modeEdge := func(fn *ssa.Function, want bool) (map[core.Edge]bool, int) {
		return core.CondEdges(fn, func(at core.Atom) (bool, bool) {
			if at.Op == token.ILLEGAL && core.IsCallResult(core.ResolveCellLoad(at.Base), -1, "(*dnsforward.accessManager).allowlistMode") {
				return true, want
			}
			return false, false
		})
	}
	fieldUse := func(fn *ssa.Function, names ...string) func(ssa.Instruction) bool {
		return func(in ssa.Instruction) bool {
			fa, ok := in.(*ssa.FieldAddr)
			if !ok {
				return false
			}
			fr, ok := core.FieldOfAddr(fa)
			if !ok || fr.Type != tAM {
				return false
			}
			for _, n := range names {
				if fr.Field == n {
					return true
				}
			}
			return false
		}
	}
	for _, fk := range []string{"(*dnsforward.accessManager).isBlockedIP", "(*dnsforward.accessManager).isBlockedClientID"} {
		fn := p.Fn(fk)
		if fn == nil {
			r.Undecided("C03-D4", fk, "-", "anchor not found")
			continue
		}
		gT, nT := modeEdge(fn, true)
		offA, nsA := core.UnguardedSinks(fn, fieldUse(fn, "allowedIPs", "allowedNets", "allowedClientIDs"), gT)
		r.Check(nT > 0 && nsA > 0 && len(offA) == 0, "C03-D4", "allowed-lists-only-in-allowlist-mode:"+fk, p.FnPos(fn),
			"the allowed collections are consulted only in allow-list mode", "the allowed collections are consulted outside allow-list mode", traceOf(p, offA)...)
	}
	// isBlockedClientID: blocked ClientIDs only when not in allow-list mode
	if fn := p.Fn("(*dnsforward.accessManager).isBlockedClientID"); fn != nil {
		gF, nF := modeEdge(fn, false)
		off, ns := core.UnguardedSinks(fn, fieldUse(fn, "blockedClientIDs"), gF)
		r.Check(nF > 0 && ns > 0 && len(off) == 0, "C03-D4", "blocked-clientids-only-in-blocklist-mode", p.FnPos(fn),
			"the disallowed ClientIDs are consulted only in block-list mode (the disallowed list is ignored when an allowed list exists)", "the disallowed ClientIDs are consulted in allow-list mode", traceOf(p, off)...)
	}
	// isBlockedIP: the collections actually tested are the allowed ones on the allow-list edge, the blocked ones otherwise
	if fn := p.Fn("(*dnsforward.accessManager).isBlockedIP"); fn != nil {
		okSel, nSel := true, 0
		gT, _ := modeEdge(fn, true)
		var allowBlocks []*ssa.BasicBlock
		for e := range gT {
			allowBlocks = append(allowBlocks, e.From.Succs[e.Succ])
		}
		for _, b := range fn.Blocks {
			for _, in := range b.Instrs {
				phi, ok := in.(*ssa.Phi)
				if !ok {
					continue
				}
				for i, e := range phi.Edges {
					fr, _, isF := core.LoadedField(e)
					if !isF || fr.Type != tAM {
						continue
					}
					nSel++
					pred := phi.Block().Preds[i]
					fromAllow := false
					for _, ab := range allowBlocks {
						if ab.Dominates(pred) {
							fromAllow = true
						}
					}
					isAllowed := strings.HasPrefix(fr.Field, "allowed")
					if isAllowed != fromAllow {
						okSel = false
					}
				}
			}
		}
		if nSel == 0 {
			// the other idiom: no "default to the disallowed sets, override on the allow-list edge", but each set is
			// read on its own edge of the mode test (possibly handed to a matching helper)
			gF, nF := modeEdge(fn, false)
			offA, nsA := core.UnguardedSinks(fn, fieldUse(fn, "allowedIPs", "allowedNets"), gT)
			offB, nsB := core.UnguardedSinks(fn, fieldUse(fn, "blockedIPs", "blockedNets"), gF)
			if nF > 0 && nsA >= 2 && nsB >= 2 && len(offA) == 0 && len(offB) == 0 {
				okSel, nSel = true, nsA+nsB
			}
		}
		r.Check(okSel && nSel >= 4, "C03-D4", "isBlockedIP:collection-selection", p.FnPos(fn),
			"the address is tested against the allowed sets exactly on the allow-list edge and against the disallowed sets otherwise", "the address is tested against the wrong collection for the mode")
	}

	// IsBlockedClient
	ib := p.Fn("(*dnsforward.Server).IsBlockedClient")
	if ib == nil {
		r.Undecided("C03-D4", "IsBlockedClient", "-", "anchor not found")
		return
	}
	var blockedCell *ssa.Alloc
	for _, b := range ib.Blocks {
		for _, in := range b.Instrs {
			if a, ok := in.(*ssa.Alloc); ok && a.Comment == "blocked" {
				blockedCell = a
			}
		}
	}
	isMode := func(v ssa.Value) bool {
		return core.IsCallResult(core.ResolveCellLoad(v), -1, "(*dnsforward.accessManager).allowlistMode")
	}
	isByIP := func(v ssa.Value) bool {
		has := false
		for _, l := range core.FlattenPhi(core.ResolveCellLoad(v)) {
			if bv, isC := core.ConstBool(l); isC && !bv {
				continue
			}
			if core.IsCallResult(l, 0, "(*dnsforward.accessManager).isBlockedIP") {
				has = true
				continue
			}
			return false
		}
		return has
	}
	isByCID := func(v ssa.Value) bool {
		return core.IsCallResult(core.ResolveCellLoad(v), -1, "(*dnsforward.accessManager).isBlockedClientID")
	}
	edges := func(pred func(ssa.Value) bool, want bool) map[core.Edge]bool {
		g, _ := core.CondEdges(ib, func(at core.Atom) (bool, bool) {
			if at.Op == token.ILLEGAL && pred(at.Base) {
				return true, want
			}
			return false, false
		})
		return g
	}
	union := func(ms ...map[core.Edge]bool) map[core.Edge]bool {
		out := map[core.Edge]bool{}
		for _, m := range ms {
			for e := range m {
				out[e] = true
			}
		}
		return out
	}
	// First the decision as a whole: the blocked result evaluated abstractly for every combination of the four
	// inputs (address given, address excluded, allow-list mode, ClientID excluded), through whatever helpers and
	// control flow compute it.  When the evaluator cannot decide some combination, the path rule below decides.
	if !c03DecisionTable(c, ib) {
		nTrue := 0
		// places where the result becomes true: stores of true into the result cell, or
		// constant-true leaves of the returned value (phi edges are attributed to the end of their predecessor block)
		var trueSites []ssa.Instruction
		for _, b := range ib.Blocks {
			if b == ib.Recover {
				continue
			}
			for _, in := range b.Instrs {
				switch x := in.(type) {
				case *ssa.Store:
					if blockedCell == nil || x.Addr != ssa.Value(blockedCell) {
						continue
					}
					bv, isC := core.ConstBool(x.Val)
					if isC && bv {
						trueSites = append(trueSites, in)
					} else if !isC {
						if u, ok := x.Val.(*ssa.UnOp); ok && u.X == ssa.Value(blockedCell) {
							continue
						}
						r.Fail("C03-D4", "IsBlockedClient:blocked-not-constant", p.InstrPos(in), "the blocked result is computed by an unrecognised expression")
					}
				case *ssa.Return:
					if blockedCell != nil || len(x.Results) < 1 {
						continue
					}
					var walk func(v ssa.Value, at ssa.Instruction, depth int)
					walk = func(v ssa.Value, at ssa.Instruction, depth int) {
						if depth > 4 {
							return
						}
						if bv, isC := core.ConstBool(v); isC {
							if bv {
								trueSites = append(trueSites, at)
							}
							return
						}
						if phi, ok := v.(*ssa.Phi); ok {
							for i, e := range phi.Edges {
								pred := phi.Block().Preds[i]
								walk(e, pred.Instrs[len(pred.Instrs)-1], depth+1)
							}
							return
						}
						r.Fail("C03-D4", "IsBlockedClient:blocked-not-constant", p.InstrPos(at), "the blocked result is computed by an unrecognised expression")
					}
					walk(core.Res(x, 0), in, 0)
				}
			}
		}
		for _, in := range trueSites {
			{
				nTrue++
				sink := func(x ssa.Instruction) bool { return x == in }
				un := func(g map[core.Edge]bool) bool { off, _ := core.UnguardedSinks(ib, sink, g); return len(off) == 0 }
				caseA := un(edges(isMode, true)) && un(edges(isByIP, true)) && un(edges(isByCID, true))
				caseB := un(edges(isMode, false)) && un(union(edges(isByIP, true), edges(isByCID, true)))
				r.Check(caseA || caseB, "C03-D4", fmt.Sprintf("IsBlockedClient:blocked-true#%d", nTrue), p.InstrPos(in),
					"blocked is set only when (allow-list mode and address and ClientID are both excluded) or (block-list mode and one of them is excluded)",
					"a client can be reported blocked on a path that satisfies neither the allow-list rule (both excluded) nor the block-list rule (one excluded)")
			}
		}
		r.Floor("C03-D4", "blocked-true-assignments", nTrue, 2)
	}
	// converse: in allow-list mode with address admitted OR ClientID admitted -> not blocked is covered by the above (true only under the rules);
	// completeness of blocking: from the (mode true, byIP true, byCID true) edge every path sets blocked
	// one snapshot under the lock
	var recvs []ssa.Value
	for _, call := range core.Calls(ib) {
		switch call.Key {
		case "(*dnsforward.accessManager).isBlockedIP", "(*dnsforward.accessManager).allowlistMode", "(*dnsforward.accessManager).isBlockedClientID":
			recvs = append(recvs, call.Arg(0))
		}
	}
	same := len(recvs) == 3
	for _, v := range recvs {
		if v != recvs[0] {
			same = false
		}
	}
	underLock := true
	for _, v := range recvs {
		fr, _, ok := core.LoadedField(v)
		if !ok || fr.Type != "dnsforward.Server" || fr.Field != "access" {
			underLock = false
			continue
		}
		ld := v.(ssa.Instruction)
		isLock := func(in ssa.Instruction) bool {
			call, ok := in.(*ssa.Call)
			if !ok {
				return false
			}
			k := core.CalleeKey(call.Common())
			if k != "(*sync.RWMutex).RLock" && k != "(*sync.RWMutex).Lock" {
				return false
			}
			f2, ok := core.FieldOfAddr(call.Common().Args[0])
			return ok && f2.Field == "serverLock"
		}
		found, _, _ := core.Reach(core.Query{From: []core.Point{core.Entry(ib)}, Target: func(x ssa.Instruction) bool { return x == ld }, Avoid: isLock})
		if found {
			underLock = false
		}
		// no explicit unlock call (only the deferred one)
		for _, call := range core.Calls(ib) {
			if _, isDefer := call.Instr.(*ssa.Defer); !isDefer && (call.Key == "(*sync.RWMutex).RUnlock" || call.Key == "(*sync.RWMutex).Unlock") {
				underLock = false
			}
		}
	}
	r.Check(len(recvs) == 3 && (same || underLock), "C03-D4", "IsBlockedClient:one-snapshot", p.FnPos(ib),
		"the three parts of the decision read the access manager under one hold of the server lock (or from one snapshot)",
		"the parts of the access decision read the access manager at different times without holding the server lock across them: a concurrent switch between block-list and allow-list mode can combine a stale address verdict with the new mode and admit an excluded client")
}

// c03Entries: D5.
// c03HostRuleCase: the blocked-hosts rules are matched against lower-cased
// request names (the matcher lower-cases the name, not the rule), so every
// configured rule, wherever it comes from, is lower-cased where the rule text
// of the engine is built.
func c03HostRuleCase(c *Ctx) {
	p, r := c.P, c.R
	fn := p.Fn("dnsforward.newAccessCtx")
	if fn == nil || len(fn.Params) != 3 {
		r.Undecided("C03-D5", "newAccessCtx", "-", "anchor not found")
		return
	}
	hosts := fn.Params[2]
	n := 0
	for _, call := range core.CallsTo(fn, "github.com/AdguardTeam/golibs/stringutil.WriteToBuilder") {
		// the strings written: elements of the variadic slice
		for i := 1; i < len(call.Common.Args); i++ {
			for _, el := range sliceLiteralElems(call.Arg(i)) {
				if _, isConst := el.(*ssa.Const); isConst {
					continue
				}
				n++
				okLower := true
				var bad []string
				for _, leaf := range core.Leaves(el) {
					if !core.IsCallResult(leaf, -1, "strings.ToLower") {
						okLower = false
						bad = append(bad, leaf.Name())
						continue
					}
					// of an element of the configured list
					lc, _, _ := core.CallResult(leaf)
					fromHosts := false
					for _, o := range core.Origins(lc.Common().Args[0], core.ProvOpts{Prog: p}) {
						if o.Val == ssa.Value(hosts) {
							fromHosts = true
						}
					}
					if !fromHosts {
						okLower = false
						bad = append(bad, "lower-cased value is not an element of the configured list")
					}
				}
				r.Check(okLower, "C03-D5", fmt.Sprintf("blocked-host-rule-lower-cased#%d", n), p.InstrPos(call.Instr),
					"every configured blocked-host rule is lower-cased where the engine's rule text is built",
					"a configured blocked-host rule reaches the engine in the case it was written in: request names are matched lower-cased, so a rule with a capital letter (from the configuration file, for one) never matches", bad...)
			}
		}
	}
	// the rule text may also be put together from strings (Join, concatenation, Sprintf): then everything that is
	// not a constant in what is stored as the engine's text is a lower-cased element of the configured list
	for _, b := range fn.Blocks {
		for _, in := range b.Instrs {
			st, isSt := in.(*ssa.Store)
			if !isSt {
				continue
			}
			if fr, ok := core.FieldOfAddr(st.Addr); !ok || fr.Field != "RulesText" || !strings.HasSuffix(fr.Type, "filterlist.StringRuleList") {
				continue
			}
			var lowered []ssa.Value
			os := core.Origins(st.Val, core.ProvOpts{Prog: p, Stop: func(v ssa.Value) string {
				if core.IsCallResult(v, -1, "strings.ToLower") {
					lowered = append(lowered, v)
					return "lower-cased"
				}
				return ""
			}})
			var bad []string
			for _, o := range os {
				switch o.Kind {
				case "stop", "const", "alloc":
				case "call":
					if o.Key != "github.com/AdguardTeam/golibs/stringutil.WriteToBuilder" { // its writes were judged above
						bad = append(bad, o.String())
					}
				default:
					bad = append(bad, o.String())
				}
			}
			if len(lowered) == 0 && len(bad) == 0 {
				continue // built in a strings.Builder: the writes into it were judged above
			}
			n++
			okLower := len(bad) == 0
			for _, lv := range lowered {
				lc, _, _ := core.CallResult(lv)
				fromHosts := false
				for _, o := range core.Origins(lc.Common().Args[0], core.ProvOpts{Prog: p}) {
					if o.Val == ssa.Value(hosts) {
						fromHosts = true
					}
				}
				if !fromHosts {
					okLower = false
					bad = append(bad, "lower-cased value is not an element of the configured list")
				}
			}
			r.Check(okLower, "C03-D5", fmt.Sprintf("blocked-host-rule-lower-cased#%d", n), p.InstrPos(in),
				"every configured blocked-host rule is lower-cased where the engine's rule text is built",
				"a configured blocked-host rule reaches the engine in the case it was written in: request names are matched lower-cased, so a rule with a capital letter (from the configuration file, for one) never matches", bad...)
		}
	}
	r.Floor("C03-D5", "blocked-host-rule-text-writes", n, 1)
}

func c03Entries(c *Ctx) {
	c03HostRuleCase(c)
	p, r := c.P, c.R
	fn := p.Fn("dnsforward.processAccessClients")
	if fn == nil {
		r.Undecided("C03-D5", "processAccessClients", "-", "anchor not found")
		return
	}
	hdrs := loopHeaders(fn)
	if len(hdrs) != 1 || len(fn.Params) != 4 {
		r.Undecided("C03-D5", "processAccessClients", p.FnPos(fn), "expected one loop over the configured strings and the (strings, ips, nets, clientIDs) parameters")
		return
	}
	hdr := hdrs[0]
	ips, nets, ids := fn.Params[1], fn.Params[2], fn.Params[3]
	kinds := map[string]int{}
	record := func(in ssa.Instruction) bool {
		switch x := in.(type) {
		case *ssa.Call:
			k := core.CalleeKey(x.Common())
			if strings.Contains(k, "container.MapSet") && strings.HasSuffix(k, ".Add") && len(x.Call.Args) == 2 {
				switch x.Call.Args[0] {
				case ssa.Value(ips):
					if core.IsCallResult(x.Call.Args[1], 0, "net/netip.ParseAddr", "netip.ParseAddr") {
						kinds["address"]++
						return true
					}
				case ssa.Value(ids):
					kinds["clientid"]++
					return true
				}
			}
		case *ssa.Store:
			if x.Addr != ssa.Value(nets) {
				return false
			}
			ap, ok := x.Val.(*ssa.Call)
			if !ok {
				return false
			}
			if bi, ok := ap.Call.Value.(*ssa.Builtin); !ok || bi.Name() != "append" || len(ap.Call.Args) != 2 {
				return false
			}
			if ld, ok := ap.Call.Args[0].(*ssa.UnOp); !ok || ld.X != ssa.Value(nets) {
				return false
			}
			// the appended element is the parsed prefix
			if sl, ok := ap.Call.Args[1].(*ssa.Slice); ok {
				if al, ok := sl.X.(*ssa.Alloc); ok {
					for _, u := range core.Users(al) {
						if ia, ok := u.(*ssa.IndexAddr); ok {
							for _, u2 := range core.Users(ia) {
								if st, ok := u2.(*ssa.Store); ok && core.IsCallResult(st.Val, 0, "net/netip.ParsePrefix", "netip.ParsePrefix") {
									kinds["network"]++
									return true
								}
							}
						}
					}
				}
			}
		}
		return false
	}
	// from the start of the loop body, the next iteration or the nil return is reached only through a record
	var body *ssa.BasicBlock
	for _, s := range hdr.Succs {
		if hdr.Dominates(s) && s != hdr {
			if found, _, _ := core.Reach(core.Query{From: []core.Point{{Block: s, Idx: 0}}, Target: func(in ssa.Instruction) bool { return in.Block() == hdr }}); found {
				body = s
			}
		}
	}
	if body == nil {
		r.Undecided("C03-D5", "processAccessClients", p.FnPos(fn), "loop body not identified")
		return
	}
	found, trace, _ := core.Reach(core.Query{
		From: []core.Point{{Block: body, Idx: 0}},
		Target: func(in ssa.Instruction) bool {
			if in.Block() == hdr {
				return true
			}
			if ret, ok := core.AsReturn(in); ok && len(ret.Results) == 1 && core.IsNilConst(core.Res(ret, 0)) {
				return true
			}
			return false
		},
		Avoid: record,
	})
	var det []string
	if found {
		det = append(det, "path without a record: "+p.TraceString(trace))
	}
	r.Check(!found && kinds["address"] > 0 && kinds["network"] > 0 && kinds["clientid"] > 0, "C03-D5", "every-entry-recorded", p.FnPos(fn),
		"every configured client entry that is accepted is stored: address in the address set, prefix appended to the network list, otherwise the ClientID",
		"a configured client entry can be accepted without being stored (it then neither excludes nor admits anybody)", det...)

	// both lists are built by it from the configured slices into the manager's own collections
	na := p.Fn("dnsforward.newAccessCtx")
	if na == nil {
		r.Undecided("C03-D5", "newAccessCtx", "-", "anchor not found")
		return
	}
	got := map[string]bool{}
	for _, call := range core.CallsTo(na, "dnsforward.processAccessClients") {
		if len(call.Common.Args) != 4 || len(na.Params) < 2 {
			continue
		}
		// one call per list, or one call in a loop over a table that has a row per list
		argLists := [][]ssa.Value{call.Common.Args}
		if rows, isTable := core.TableRows(call.Common.Args); isTable {
			argLists = rows
		}
		for _, args := range argLists {
			var which string
			switch core.ResolveCellLoad(args[0]) {
			case ssa.Value(na.Params[0]):
				which = "allowed"
			case ssa.Value(na.Params[1]):
				which = "blocked"
			default:
				continue
			}
			f1, _, ok1 := core.LoadedField(args[1])
			f2, ok2 := core.FieldOfAddr(args[2])
			f3, _, ok3 := core.LoadedField(args[3])
			if ok1 && ok2 && ok3 && f1.Field == which+"IPs" && f2.Field == which+"Nets" && f3.Field == which+"ClientIDs" {
				got[which] = true
			}
		}
	}
	r.Check(got["allowed"] && got["blocked"], "C03-D5", "lists-built-from-configuration", p.FnPos(na),
		"the allowed and the disallowed collections are filled from the respective configured lists", "the allowed/disallowed collections are not filled from the respective configured lists")

	// the exact-address set is probed with the address as it came in: the keys are the parsed addresses, zone included
	{
		probeFns := []*ssa.Function{}
		if ibf := p.Fn("(*dnsforward.accessManager).isBlockedIP"); ibf != nil {
			probeFns = append(probeFns, ibf)
			for h := range core.StaticReach(ibf, 2) {
				if h != ibf && core.PkgOf(h) == "dnsforward" {
					probeFns = append(probeFns, h)
				}
			}
		}
		nProbe := 0
		var badProbe []string
		stop := func(v ssa.Value) string {
			if call, ok := v.(*ssa.Call); ok {
				k := core.CalleeKey(call.Common())
				if strings.HasSuffix(k, "netip.Addr).WithZone") || strings.HasSuffix(k, "netip.Addr).Unmap") || strings.HasSuffix(k, "netip.Addr).Prev") || strings.HasSuffix(k, "netip.Addr).Next") {
					return k
				}
			}
			return ""
		}
		for _, pf := range probeFns {
			for _, call := range core.Calls(pf) {
				if !strings.Contains(call.Key, "container.MapSet") || !strings.HasSuffix(call.Key, ".Has") || len(call.Common.Args) != 2 {
					continue
				}
				if !strings.Contains(call.Arg(1).Type().String(), "netip.Addr") {
					continue
				}
				nProbe++
				for _, o := range core.Origins(call.Arg(1), core.ProvOpts{Prog: p, Stop: stop, InterprocDepth: 2}) {
					if o.Kind == "stop" {
						badProbe = append(badProbe, fmt.Sprintf("%s at %s probes the set with %s of the client address", core.FuncKey(pf), p.InstrPos(call.Instr), o.Key))
					}
				}
			}
		}
		r.Check(nProbe > 0 && len(badProbe) == 0, "C03-D5", "address-set-probed-with-address-as-given", "-",
			"the exact-address set is probed with the client address unchanged (its keys are the parsed entries, zone included)",
			"the exact-address set is probed with a transformed address, but its keys are the entries as parsed: a listed zoned address no longer matches", badProbe...)
	}
	// the address check tests every stored network
	ib := p.Fn("(*dnsforward.accessManager).isBlockedIP")
	if ib == nil {
		r.Undecided("C03-D5", "isBlockedIP", "-", "anchor not found")
		return
	}
	okScan := false
	var why string
	// the scan may be a library search over the whole list (in isBlockedIP or a matching helper of the package)
	scanFns := []*ssa.Function{ib}
	for h := range core.StaticReach(ib, 2) {
		if h != ib && core.PkgOf(h) == "dnsforward" {
			scanFns = append(scanFns, h)
		}
	}
	for _, sf := range scanFns {
		for _, call := range core.Calls(sf) {
			k := call.Key
			if i := strings.IndexByte(k, '['); i > 0 {
				k = k[:i]
			}
			if (k == "slices.IndexFunc" || k == "slices.ContainsFunc") && len(call.Common.Args) == 2 && strings.Contains(call.Arg(0).Type().String(), "netip.Prefix") {
				okScan = true
			}
		}
		if sf != ib && !okScan {
			for _, h := range loopHeaders(sf) {
				if strings.HasPrefix(h.Comment, "rangeindex") && len(core.CallsToDeep(sf, "(net/netip.Prefix).Contains")) > 0 {
					ib = sf // the loop lives in the helper: judge it there
				}
			}
		}
	}
	for _, h := range loopHeaders(ib) {
		if okScan {
			break
		}
		if !strings.HasPrefix(h.Comment, "rangeindex") {
			why = "the scan of the networks is not a plain range loop"
			continue
		}
		okScan = true
		// every exit from the loop other than the header's own is a return
		for _, b := range ib.Blocks {
			if !h.Dominates(b) || b == h {
				continue
			}
			inLoop, _, _ := core.Reach(core.Query{From: []core.Point{{Block: b, Idx: 0}}, Target: func(in ssa.Instruction) bool { return in.Block() == h }})
			if !inLoop {
				continue
			}
			for _, s := range b.Succs {
				back, _, _ := core.Reach(core.Query{From: []core.Point{{Block: s, Idx: 0}}, Target: func(in ssa.Instruction) bool { return in.Block() == h }})
				if s == h || back {
					continue
				}
				if _, isRet := core.AsReturn(s.Instrs[len(s.Instrs)-1]); !isRet {
					okScan, why = false, "the scan of the networks can stop before all networks were tested without returning a match ("+p.InstrPos(s.Instrs[0])+")"
				}
			}
		}
	}
	r.Check(okScan, "C03-D5", "all-networks-tested", p.FnPos(ib), "the address is tested against every stored network unless a match is returned", "not every stored network is tested: "+why)
}

// c03DecisionTable evaluates the blocked result of IsBlockedClient for all 16 combinations of its inputs and compares
// it with: allow-list mode ? (address excluded && ClientID excluded) : (address excluded || ClientID excluded), where
// "address excluded" is false when no address is given.  It returns false when the evaluation is undecided.
func c03DecisionTable(c *Ctx, ib *ssa.Function) (decided bool) {
	p, r := c.P, c.R
	isAddrParam := func(v ssa.Value) bool {
		prm, ok := v.(*ssa.Parameter)
		return ok && core.TypeKey(prm.Type()) == "net/netip.Addr"
	}
	m := core.AbsModel{
		Project:   func(string, core.AbsVal) (string, bool) { return "", false },
		Predicate: func(string, core.AbsVal) (string, bool) { return "", false },
		Oracle: func(v ssa.Value) (string, bool) {
			switch x := v.(type) {
			case *ssa.Call:
				switch {
				case core.IsCallResult(x, -1, "(*dnsforward.accessManager).allowlistMode"):
					return "mode", true
				case core.IsCallResult(x, -1, "(*dnsforward.accessManager).isBlockedClientID"):
					return "cid", true
				case core.IsCallResult(x, -1, "(net/netip.Addr).IsValid") && len(x.Call.Args) == 1 && isAddrParam(x.Call.Args[0]):
					return "given", true
				}
			case *ssa.Extract:
				if x.Index == 0 && core.IsCallResult(x, 0, "(*dnsforward.accessManager).isBlockedIP") {
					return "ip", true
				}
			case *ssa.BinOp:
				if x.Op == token.NEQ {
					if cst, ok := x.Y.(*ssa.Const); ok && cst.Value == nil && isAddrParam(x.X) {
						return "given", true
					}
				}
			}
			return "", false
		},
	}
	var bad []string
	for i := 0; i < 16; i++ {
		given, ip, mode, cid := i&1 != 0, i&2 != 0, i&4 != 0, i&8 != 0
		f := core.AbsFacts{Pred: map[string][2]bool{"given": {given}, "ip": {ip}, "mode": {mode}, "cid": {cid}}}
		res, ok, why := core.AbsEvalResult(ib, m, f, 0)
		if !ok || res.Kind != core.AbsBool {
			r.Info["C03-D4:IsBlockedClient:decision-table"] = "not decided by abstract evaluation (" + why + "); decided by the path rule instead"
			return false
		}
		byIP := given && ip
		want := (mode && byIP && cid) || (!mode && (byIP || cid))
		if res.Bool != want {
			bad = append(bad, fmt.Sprintf("address given=%v excluded=%v, allow-list mode=%v, ClientID excluded=%v: blocked=%v, must be %v", given, ip, mode, cid, res.Bool, want))
		}
	}
	c.R.Eval(16)
	r.Check(len(bad) == 0, "C03-D4", "IsBlockedClient:decision-table", p.FnPos(ib),
		"blocked equals (allow-list mode: address and ClientID both excluded; block-list mode: one of them excluded) for all 16 input combinations",
		"the blocked result differs from the access rule for some input combination", bad...)
	return true
}
