package rules

import (
	"fmt"
	"go/token"
	"strings"

	"aghverif/core"

	"golang.org/x/tools/go/ssa"
)

// loopBody returns the blocks of the natural loop with header h.
func loopBody(h *ssa.BasicBlock) map[*ssa.BasicBlock]bool {
	body := map[*ssa.BasicBlock]bool{h: true}
	var stack []*ssa.BasicBlock
	for _, pr := range h.Preds {
		if h.Dominates(pr) && !body[pr] {
			body[pr] = true
			stack = append(stack, pr)
		}
	}
	for len(stack) > 0 {
		b := stack[len(stack)-1]
		stack = stack[:len(stack)-1]
		for _, pr := range b.Preds {
			if !body[pr] && h.Dominates(pr) {
				body[pr] = true
				stack = append(stack, pr)
			}
		}
	}
	return body
}

// everyCyclePasses reports whether every path from a successor of h (inside
// the loop) back to h passes an instruction satisfying pred.
func everyCyclePasses(h *ssa.BasicBlock, body map[*ssa.BasicBlock]bool, pred func(ssa.Instruction) bool) (bool, []*ssa.BasicBlock) {
	var starts []core.Point
	// instructions of h itself after its phis belong to the cycle too
	starts = append(starts, core.Point{Block: h, Idx: 0})
	avoidEdges := map[core.Edge]bool{}
	for b := range body {
		for i, s := range b.Succs {
			if !body[s] {
				avoidEdges[core.Edge{From: b, Succ: i}] = true
			}
		}
	}
	// search: start at h, follow edges inside the loop, target: arriving at h again through a back edge
	type st struct {
		b *ssa.BasicBlock
	}
	visited := map[*ssa.BasicBlock]bool{}
	parent := map[*ssa.BasicBlock]*ssa.BasicBlock{}
	work := []*ssa.BasicBlock{h}
	first := true
	for len(work) > 0 {
		b := work[0]
		work = work[1:]
		if b == h && !first {
			var tr []*ssa.BasicBlock
			seen := map[*ssa.BasicBlock]bool{}
			for x := parent[h]; x != nil && !seen[x]; x = parent[x] {
				seen[x] = true
				tr = append([]*ssa.BasicBlock{x}, tr...)
				if x == h {
					break
				}
			}
			return false, append(tr, h)
		}
		if visited[b] && !(b == h && first) {
			continue
		}
		visited[b] = true
		first = false
		blocked := false
		for _, in := range b.Instrs {
			if pred(in) {
				blocked = true
				break
			}
		}
		if blocked {
			continue
		}
		for i, s := range b.Succs {
			if avoidEdges[core.Edge{From: b, Succ: i}] || !body[s] {
				continue
			}
			if s == h {
				parent[h] = b
				work = append(work, h)
				continue
			}
			if !visited[s] {
				if _, ok := parent[s]; !ok {
					parent[s] = b
				}
				work = append(work, s)
			}
		}
	}
	return true, nil
}

// definedOutside: v does not depend on the loop (constant, parameter, or
// instruction in a block outside body).
func definedOutside(v ssa.Value, body map[*ssa.BasicBlock]bool) bool {
	switch x := v.(type) {
	case *ssa.Const, *ssa.Parameter, *ssa.FreeVar, *ssa.Global:
		return true
	case *ssa.Convert:
		return definedOutside(x.X, body)
	case *ssa.ChangeType:
		return definedOutside(x.X, body)
	case *ssa.BinOp:
		if !body[x.Block()] {
			return true
		}
		return definedOutside(x.X, body) && definedOutside(x.Y, body)
	case ssa.Instruction:
		return !body[x.Block()]
	}
	return false
}

// loopVariant finds a ranking argument for the natural loop with header h in
// one of the recognised idioms.
func loopVariant(fn *ssa.Function, h *ssa.BasicBlock) (kind string, ok bool) {
	body := loopBody(h)
	if strings.HasPrefix(h.Comment, "rangeindex") || strings.HasPrefix(h.Comment, "rangeiter") || strings.HasPrefix(h.Comment, "rangeint") || strings.HasPrefix(h.Comment, "rangechan") {
		return "range loop (counted by the compiler-generated index)", true
	}
	// exits of the loop: If instructions in body with a successor outside
	type exit struct {
		ifi  *ssa.If
		succ int
	}
	var exits []exit
	for b := range body {
		if ifi, isIf := b.Instrs[len(b.Instrs)-1].(*ssa.If); isIf {
			for i, s := range b.Succs {
				if !body[s] {
					exits = append(exits, exit{ifi, i})
				}
			}
		}
	}
	// (a) counted loop / budget counter: an integer phi at the header stepping by a non-zero constant on
	// every back edge, compared with a loop-invariant bound, the comparison's exit edge leaving the loop,
	// and every cycle passing the comparison.
	for _, in := range h.Instrs {
		phi, isPhi := in.(*ssa.Phi)
		if !isPhi {
			break
		}
		var step int64
		okStep := true
		nBack := 0
		var stepped []ssa.Value
		for i, e := range phi.Edges {
			if !body[h.Preds[i]] {
				continue
			}
			nBack++
			bo, isB := e.(*ssa.BinOp)
			if !isB || (bo.Op != token.ADD && bo.Op != token.SUB) || bo.X != ssa.Value(phi) {
				// the step may be applied to the phi through another phi-free copy only
				okStep = false
				continue
			}
			k, isK := core.ConstInt(bo.Y)
			if !isK || k == 0 {
				okStep = false
				continue
			}
			if bo.Op == token.SUB {
				k = -k
			}
			if step != 0 && (step > 0) != (k > 0) {
				okStep = false
			}
			step = k
			stepped = append(stepped, bo)
		}
		if !okStep || nBack == 0 || step == 0 {
			continue
		}
		// find an exit comparing phi (or a stepped value) with an invariant bound in the right direction
		for _, ex := range exits {
			at := core.Decompose(ex.ifi.Cond)
			isVar := at.Base == ssa.Value(phi)
			for _, sv := range stepped {
				if at.Base == sv {
					isVar = true
				}
			}
			if !isVar || !definedOutside(at.Other, body) {
				continue
			}
			// direction: for step>0 the loop continues while var < / <= / != bound ; for step<0 while var > / >= bound
			contSucc := 1 - ex.succ
			contWhenAtomTrue := (contSucc == 0) != at.Neg
			dirOK := false
			switch at.Op {
			case token.LSS, token.LEQ:
				dirOK = (step > 0) == contWhenAtomTrue
			case token.GTR, token.GEQ:
				dirOK = (step < 0) == contWhenAtomTrue
			}
			if !dirOK {
				continue
			}
			cmpBlock := ex.ifi.Block()
			okCyc, _ := everyCyclePasses(h, body, func(x ssa.Instruction) bool { return x == ssa.Instruction(ex.ifi) })
			if cmpBlock == h || okCyc {
				if _, isConst := at.Other.(*ssa.Const); isConst && cmpBlock != h {
					return fmt.Sprintf("budget counter %s stepping by %d with constant limit %s on every cycle", phi.Comment, step, at.Other.Name()), true
				}
				return fmt.Sprintf("counted loop on %s stepping by %d towards a loop-invariant bound", phi.Comment, step), true
			}
		}
	}
	// (a') budget counter kept in a local cell (a named result spilled because of a defer)
	for _, ex := range exits {
		at := core.Decompose(ex.ifi.Cond)
		upper := at.Op == token.GEQ || at.Op == token.GTR // `cell >= limit` leaves the loop
		lower := at.Op == token.LSS || at.Op == token.LEQ // `cell < limit` stays in it
		if !upper && !lower {
			continue
		}
		if _, isC := at.Other.(*ssa.Const); !isC {
			continue
		}
		var cell *ssa.Alloc
		if u, ok := at.Base.(*ssa.UnOp); ok && u.Op == token.MUL {
			cell, _ = u.X.(*ssa.Alloc)
		}
		if cell == nil {
			continue
		}
		captured := false
		for _, u := range core.Users(cell) {
			if _, ok := u.(*ssa.MakeClosure); ok {
				captured = true
			}
		}
		if captured {
			continue
		}
		// the loop continues on the false side of `cell >= const` (the true side of `cell < const`)
		contSucc := 1 - ex.succ
		contWhenAtomTrue := (contSucc == 0) != at.Neg
		if contWhenAtomTrue != lower {
			continue
		}
		isInc := func(in ssa.Instruction) bool {
			st, ok := in.(*ssa.Store)
			if !ok || st.Addr != ssa.Value(cell) {
				return false
			}
			bo, ok := st.Val.(*ssa.BinOp)
			if !ok || bo.Op != token.ADD {
				return false
			}
			ld, ok := bo.X.(*ssa.UnOp)
			k, isK := core.ConstInt(bo.Y)
			return ok && ld.X == ssa.Value(cell) && isK && k > 0
		}
		other := false
		for b := range body {
			for _, in := range b.Instrs {
				if st, ok := in.(*ssa.Store); ok && st.Addr == ssa.Value(cell) && !isInc(in) {
					other = true
				}
			}
		}
		okInc, _ := everyCyclePasses(h, body, isInc)
		okCmp, _ := everyCyclePasses(h, body, func(x ssa.Instruction) bool { return x == ssa.Instruction(ex.ifi) })
		if okInc && okCmp && !other {
			return fmt.Sprintf("budget counter %s incremented on every cycle and tested against the constant limit %s", cell.Comment, at.Other.Name()), true
		}
	}
	// (b) field decrement: the loop condition tests a field against a constant lower bound and every cycle
	// stores field-1 into that field, with no other store to it in the loop.
	for _, ex := range exits {
		at := core.Decompose(ex.ifi.Cond)
		fr, base, isF := core.LoadedField(at.Base)
		if !isF {
			continue
		}
		if _, isC := at.Other.(*ssa.Const); !isC {
			continue
		}
		// the loop goes on while the field is >= (>) the constant: `for f >= 0 {` in the header, or
		// `f--; if f < 0 { return }` anywhere on the cycle
		contSucc := 1 - ex.succ
		contWhenAtomTrue := (contSucc == 0) != at.Neg
		switch at.Op {
		case token.GEQ, token.GTR:
			if !contWhenAtomTrue {
				continue
			}
		case token.LSS, token.LEQ:
			if contWhenAtomTrue {
				continue
			}
		default:
			continue
		}
		if ex.ifi.Block() != h {
			if okTest, _ := everyCyclePasses(h, body, func(x ssa.Instruction) bool { return x == ssa.Instruction(ex.ifi) }); !okTest {
				continue
			}
		}
		isDec := func(in ssa.Instruction) bool {
			st, ok := in.(*ssa.Store)
			if !ok {
				return false
			}
			f2, ok := core.FieldOfAddr(st.Addr)
			if !ok || f2 != fr {
				return false
			}
			bo, ok := st.Val.(*ssa.BinOp)
			if !ok || bo.Op != token.SUB {
				return false
			}
			f3, b3, ok := core.LoadedField(bo.X)
			k, isK := core.ConstInt(bo.Y)
			return ok && f3 == fr && b3 == base && isK && k > 0
		}
		otherStore := false
		for b := range body {
			for _, in := range b.Instrs {
				if st, ok := in.(*ssa.Store); ok {
					if f2, ok := core.FieldOfAddr(st.Addr); ok && f2 == fr && !isDec(in) {
						otherStore = true
					}
				}
			}
		}
		okCyc, _ := everyCyclePasses(h, body, isDec)
		if okCyc && !otherStore {
			return "field " + fr.String() + " decremented on every cycle, loop runs while it is >= a constant", true
		}
	}
	return "", false
}
