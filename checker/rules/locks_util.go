package rules

import (
	"fmt"

	"aghverif/core"

	"golang.org/x/tools/go/ssa"
)

// underLockSpec: every function (in pkgs) that touches field Type.Field
// through a non-fresh base must hold Type.Lock itself or be called only by
// functions that do (depth-limited over static callers).
type underLockSpec struct {
	Rule         string
	Pkgs         []string
	OwnerType    string            // struct owning the lock
	Lock         string            // lock field name
	AccessType   string            // struct whose field is accessed
	Fields       []string          // accessed fields
	Constructors map[string]string // function key -> reason (init phase)
	Floor        int
}

func locksField(fn *ssa.Function, ownerType, lock string) bool {
	for _, call := range core.Calls(fn) {
		switch call.Key {
		case "(*sync.Mutex).Lock", "(*sync.RWMutex).Lock", "(*sync.RWMutex).RLock":
			if fr, ok := core.FieldOfAddr(call.Arg(0)); ok && fr.Type == ownerType && fr.Field == lock {
				return true
			}
			if fr, _, ok := core.LoadedField(call.Arg(0)); ok && fr.Type == ownerType && fr.Field == lock {
				return true
			}
		}
	}
	return false
}

func callerFuncs(p *core.Prog, fn *ssa.Function) []*ssa.Function {
	var out []*ssa.Function
	seen := map[*ssa.Function]bool{}
	for _, f := range p.ModFns {
		if core.WrapperOf(fn) == f {
			continue // the thin wrapper fn is known by
		}
		for _, b := range f.Blocks {
			for _, in := range b.Instrs {
				switch x := in.(type) {
				case ssa.CallInstruction:
					if core.SameFn(core.Callee(x.Common()), fn) && !seen[f] {
						seen[f] = true
						out = append(out, f)
					}
				case *ssa.MakeClosure:
					if x.Fn == ssa.Value(fn) && !seen[f] {
						seen[f] = true
						out = append(out, f)
					}
				}
			}
		}
	}
	return out
}

func heldByCallers(p *core.Prog, fn *ssa.Function, ownerType, lock string, depth int, seen map[*ssa.Function]bool) bool {
	if locksField(fn, ownerType, lock) {
		return true
	}
	if depth <= 0 || seen[fn] {
		return false
	}
	seen[fn] = true
	callers := callerFuncs(p, fn)
	if len(callers) == 0 {
		return false
	}
	for _, cf := range callers {
		if !heldByCallers(p, cf, ownerType, lock, depth-1, seen) {
			return false
		}
	}
	return true
}

func checkUnderLock(c *Ctx, sp underLockSpec) {
	p, r := c.P, c.R
	fieldSet := map[string]bool{}
	for _, f := range sp.Fields {
		fieldSet[f] = true
	}
	n := 0
	for _, fn := range p.ModFnsIn(sp.Pkgs...) {
		if fn.Blocks == nil {
			continue
		}
		touched := ""
		for _, b := range fn.Blocks {
			for _, in := range b.Instrs {
				fa, ok := in.(*ssa.FieldAddr)
				if !ok {
					continue
				}
				fr, ok := core.FieldOfAddr(fa)
				if !ok || fr.Type != sp.AccessType || !fieldSet[fr.Field] {
					continue
				}
				if _, fresh := fa.X.(*ssa.Alloc); fresh {
					continue
				}
				touched = fr.Field
			}
		}
		if touched == "" {
			continue
		}
		fk := core.FuncKey(fn)
		if why, ok := sp.Constructors[fk]; ok {
			r.Ok(sp.Rule, fmt.Sprintf("under-lock:%s.%s@%s", sp.AccessType, touched, fk), p.FnPos(fn), "init phase: "+why)
			continue
		}
		n++
		ok := heldByCallers(p, fn, sp.OwnerType, sp.Lock, 4, map[*ssa.Function]bool{})
		r.Check(ok, sp.Rule, fmt.Sprintf("under-lock:%s.%s@%s", sp.AccessType, touched, fk), p.FnPos(fn),
			fmt.Sprintf("%s.%s is accessed with %s.%s held (here or in every caller)", sp.AccessType, touched, sp.OwnerType, sp.Lock),
			fmt.Sprintf("%s accesses %s.%s but neither takes %s.%s nor is called only by functions that do: a concurrent writer races with it", fk, sp.AccessType, touched, sp.OwnerType, sp.Lock))
	}
	r.Floor(sp.Rule, fmt.Sprintf("accessors-of-%s", sp.AccessType), n, sp.Floor)
}
