package rules

import (
	"fmt"
	"go/token"
	"go/types"
	"os"
	"sort"
	"strings"

	"aghverif/core"

	"golang.org/x/tools/go/ssa"
)

func init() {
	register(&Rule{
		ID:           "C05",
		Run:          runC05,
		ThoroughGOOS: []string{"darwin", "freebsd", "openbsd", "windows"},
		Explanation: "Lock discipline of live reconfiguration (RacerD/Eraser-style, type-based). For the structures named by the property (DNS server and its configuration, client registry, filter, query log, statistics, DHCPv4 server): " +
			"(G) guarded-by: every field that is written after start-up has one lock held at all of its accesses (write mode at writes), using intra-procedural must-locksets plus must-entry locksets propagated over the VTA call graph; (X) re-entrancy: no lock is acquired while the same lock is held or may be held on entry through some call chain — including read-after-read on an RWMutex, which deadlocks as soon as a writer queues in between; " +
			"(O) order: the lock-order graph built from all acquisitions (local and may-entry locksets) has no cycle; (L) no leak: a slice/map kept under a lock is not handed out of the critical section un-cloned by a function that takes the lock itself; (A) a field accessed through sync/atomic functions is accessed plainly (also as part of a whole-struct copy) only where a common lock orders the two. " +
			"(S) no panic from a stale position: the refresh copies metadata back into the live list array by looking the list up again under the lock, never through an index remembered from before the unlocked download (the C15-D3 rule). " +
			"(L, cont.) ClientRuntime hands the request path nil or a clone of the stored runtime client, never the stored object. " +
			"(P) lock pairing: in every function of the serving and configuration packages each Lock/RLock is followed, on every path to a return, by the matching unlock or by a deferred unlock registered on that path (a leaked read lock blocks the next writer and, behind it, every reader). " +
			"Not decided: absence of all data races (instances of one type are conflated, third-party internals, happens-before through channels and sync.Once are not modelled), panics in general, well-formedness and latency of responses.",
		RuleText:    "Must-lockset dataflow per function, must/may entry locksets by fixpoint over the VTA call graph, field accesses from SSA FieldAddr users.",
		Assumptions: []string{"lock and field identity are type-based", "functions reachable only from start-up (table of init-phase callers) run before any concurrency", "VTA resolves the func-valued fields and interfaces on the DNS path"},
		Trusted:     append(append([]string{}, commonTrusted...), "golang.org/x/tools/go/callgraph/vta seeded with CHA"),
	})
}

var c05Pkgs = map[string]bool{"dnsforward": true, "client": true, "filtering": true, "querylog": true, "stats": true, "dhcpd": true, "home": true,
	"filtering/hashprefix": true, "filtering/safesearch": true, "filtering/rulelist": true, "aghnet": true, "ipset": true, "rdns": true, "whois": true, "arpdb": true, "schedule": true}

var c05Tracked = map[string]bool{
	"dnsforward.Server": true, "dnsforward.ServerConfig": true, "dnsforward.Config": true, "dnsforward.accessManager": true,
	"client.Storage": true, "client.index": true, "client.runtimeIndex": true, "client.upstreamManager": true,
	"filtering.DNSFilter": true, "filtering.Config": true,
	"querylog.queryLog": true, "querylog.Config": true,
	"stats.StatsCtx": true, "stats.unit": true,
	"dhcpd.v4Server": true,
}

// c05InitCallers: functions whose calls happen during start-up, before the
// servers run (their call sites are ignored when computing must-entry locksets).
var c05InitCallers = map[string]string{
	"home.initDNS":               "start-up sequence of home.run, before the DNS/web servers are started",
	"home.initDNSServer":         "start-up",
	"home.run":                   "start-up",
	"home.setupDNSFilteringConf": "start-up",
	"home.newServerConfig":       "builds a configuration value",
}

func runC05(c *Ctx) {
	p, r := c.P, c.R
	// runtime clients live in the storage's index and are rewritten there under the storage lock (DHCP, ARP, rDNS,
	// WHOIS updates); what ClientRuntime hands to the request path, which reads it without that lock, is a copy
	if cr := p.Fn("(*client.Storage).ClientRuntime"); cr != nil {
		var notCopies []string
		nRet := 0
		for _, b := range cr.Blocks {
			if len(b.Instrs) == 0 || b == cr.Recover {
				continue
			}
			ret, ok := core.AsReturn(b.Instrs[len(b.Instrs)-1])
			if !ok || len(ret.Results) != 1 {
				continue
			}
			nRet++
			for _, leaf := range core.FlattenPhi(core.ResolveLocalLoad(core.Res(ret, 0))) {
				if core.IsNilConst(leaf) || core.IsCallResult(leaf, -1, "(*client.Runtime).clone") {
					continue
				}
				if _, fresh := leaf.(*ssa.Alloc); fresh {
					continue // an object made here (the clone expanded in place)
				}
				notCopies = append(notCopies, p.InstrPos(ret)+": "+leaf.String())
			}
		}
		sort.Strings(notCopies)
		r.Check(nRet > 0 && len(notCopies) == 0, "C05-L", "runtime-client-handed-out-as-a-copy", p.FnPos(cr),
			"ClientRuntime returns nil or a clone of the stored runtime client",
			"ClientRuntime can return the runtime client object that is stored in the index: the request path reads it without the storage lock while DHCP/ARP/rDNS/WHOIS updates rewrite it under the lock (data race, torn reads)", notCopies...)
	} else {
		r.Undecided("C05-L", "ClientRuntime", "-", "anchor not found")
	}
	// no panic: positions in the live list array are never carried across the unlocked download
	refreshMetadata(c, "C05-S")
	c05LockPairing(c)
	scope := func(fn *ssa.Function) bool { return c05Pkgs[core.PkgOf(fn)] }
	ignore := func(fn *ssa.Function) bool {
		_, ok := c05InitCallers[core.FuncKey(fn)]
		return ok
	}
	// the global control lock: httpRegister wraps every handler registered with a mutating method in ensure(),
	// which holds home.homeContext.controlLock while the handler runs (checked by C11-D4)
	entry := map[*ssa.Function]core.LockSet{}
	routes, _ := collectRoutes(p, false)
	nGated := 0
	for _, rt := range routes {
		if rt.kind != "registrar" || !rt.methOK {
			continue
		}
		if rt.method != "POST" && rt.method != "PUT" && rt.method != "DELETE" {
			continue
		}
		if h := p.Fn(rt.handler); h != nil {
			nGated++
			entry[h] = core.LockSet{"home.homeContext.controlLock": true}
			if u := core.Unbound(h); u != h {
				entry[u] = core.LockSet{"home.homeContext.controlLock": true}
			}
		}
	}
	r.Info["handlers_under_control_lock"] = nGated
	w := core.BuildLockWorld(p, scope, ignore, entry)
	r.Info["functions_analysed"] = len(w.Funcs)
	if dbg := os.Getenv("AGHVERIF_DEBUG_FN"); dbg != "" {
		for fn := range w.Funcs {
			if core.FuncKey(fn) == dbg {
				fmt.Printf("DEBUG %s must=%s may=%s root=%q\n", dbg, w.Must[fn], w.May[fn], w.Roots[fn])
				for _, ce := range w.CallersOf[fn] {
					fmt.Printf("  caller %s at %s local=%s callerMust=%s go=%v defer=%v\n", core.FuncKey(ce.Caller), p.InstrPos(ce.Site), ce.Local, w.Must[ce.Caller], ce.Go, ce.Defer)
				}
			}
		}
	}

	// G
	type facc struct {
		accs []core.Access
	}
	byField := map[core.FieldRef]*facc{}
	nAcc := 0
	owners := map[string]bool{"dnsforward.Server": true, "filtering.DNSFilter": true, "querylog.queryLog": true, "stats.StatsCtx": true, "dhcpd.v4Server": true, "client.Storage": true}
	okGlobal := func(name string, chain []string) bool {
		// home's global configuration shares the *filtering.Config object with the filter (config.Filtering == d.conf)
		if name == "home.config" {
			for _, c := range chain {
				if c == "Filtering" {
					return true
				}
			}
		}
		return false
	}
	quiescent := c05QuiescentPhase(w)
	initOnly := c05InitOnly(w)
	r.Info["quiescent_phase_functions"] = len(quiescent)
	for fn := range w.Funcs {
		for _, a := range w.FieldAccesses(fn, func(fr core.FieldRef) bool { return c05Tracked[fr.Type] }) {
			if !w.Anchored(fn, a.Base, owners, okGlobal, 3) {
				continue
			}
			if a.Write && quiescent[fn] {
				a.Write = false // configured while the server is stopped / not yet started: not a live write
				if !strings.HasPrefix(a.Field.Type, "dnsforward.") {
					a.Write = true
				}
			}
			nAcc++
			fa := byField[a.Field]
			if fa == nil {
				fa = &facc{}
				byField[a.Field] = fa
			}
			fa.accs = append(fa.accs, a)
		}
	}
	r.Eval(nAcc)
	var fields []core.FieldRef
	for f := range byField {
		fields = append(fields, f)
	}
	sort.Slice(fields, func(i, j int) bool { return fields[i].String() < fields[j].String() })
	nWritten, nDoc := 0, 0
	var undocumented []string
	for _, f := range fields {
		accs := byField[f].accs
		hasWrite := false
		for _, a := range accs {
			if a.Write && !isInitFn(a.Fn) {
				hasWrite = true
			}
		}
		if !hasWrite {
			continue
		}
		nWritten++
		want := c05DocumentedLock(f)
		if want == "" {
			undocumented = append(undocumented, f.String())
			continue
		}
		nDoc++
		sort.Slice(accs, func(i, j int) bool { return p.InstrPos(accs[i].Instr) < p.InstrPos(accs[j].Instr) })
		bad := 0
		per := map[string]bool{}
		var live []core.Access
		for _, a := range accs {
			if !isInitFn(a.Fn) && !initOnly[a.Fn] {
				live = append(live, a)
			}
		}
		for _, a := range live {
			wr, ok := a.Held[want]
			if ok && (!a.Write || wr) {
				continue
			}
			// without the documented lock: a violation only if some conflicting access shares no lock with this one
			conflict := false
			var other core.Access
			for _, b := range live {
				if !a.Write && !b.Write {
					continue
				}
				if sharesLock(a, b) {
					continue
				}
				conflict = true
				other = b
				break
			}
			if !conflict {
				continue
			}
			_ = other
			kind := "read"
			if a.Write {
				kind = "write"
			}
			fk := core.FuncKey(a.Fn)
			if per[fk+kind] {
				continue
			}
			per[fk+kind] = true
			bad++
			detail := []string{}
			if ok && a.Write && !wr {
				detail = append(detail, "the lock is held in read mode only")
			}
			r.Fail("C05-G", fmt.Sprintf("unguarded:%s:%s@%s", f.String(), kind, fk), p.InstrPos(a.Instr),
				fmt.Sprintf("%s of %s without %s (held: %s); the field is written while serving and the code documents that lock as its guard", kind, f, want, a.Held), detail...)
		}
		if bad == 0 {
			r.Ok("C05-G", "guarded:"+f.String(), "-", fmt.Sprintf("all %d accesses hold %s", len(accs), want))
		}
	}
	r.Info["fields_written_after_startup"] = nWritten
	r.Info["fields_without_documented_guard"] = undocumented
	r.Floor("C05-G", "guarded-fields-with-live-writes", nDoc, 15)

	// A: a field that is accessed through sync/atomic functions somewhere must be accessed atomically everywhere
	// (including whole-struct copies)
	type atomicSite struct {
		where string
		write bool
		held  core.LockSet
	}
	atomicFields := map[core.FieldRef][]atomicSite{}
	for fn := range w.Funcs {
		if isInitFn(fn) {
			continue
		}
		for _, call := range core.Calls(fn) {
			callee := core.Callee(call.Common)
			if callee == nil || callee.Pkg == nil || callee.Pkg.Pkg.Path() != "sync/atomic" || len(call.Common.Args) == 0 {
				continue
			}
			if fr, ok := core.FieldOfAddr(call.Common.Args[0]); ok && c05Tracked[fr.Type] {
				atomicFields[fr] = append(atomicFields[fr], atomicSite{
					where: fmt.Sprintf("%s at %s", core.FuncKey(fn), p.InstrPos(call.Instr)),
					write: !strings.HasPrefix(callee.Name(), "Load"),
					held:  w.HeldAt(fn, call.Instr),
				})
			}
		}
	}
	r.Info["fields_accessed_atomically"] = len(atomicFields)
	for fr, sites := range atomicFields {
		sort.Slice(sites, func(i, j int) bool { return sites[i].where < sites[j].where })
		accs := byField[fr]
		bad := 0
		per := map[string]bool{}
		if accs != nil {
			for _, a := range accs.accs {
				if isInitFn(a.Fn) || initOnly[a.Fn] {
					continue
				}
				// a plain access is ordered with an atomic one only through a common lock (one side in write mode)
				var against *atomicSite
				for i := range sites {
					b := &sites[i]
					if !a.Write && !b.write {
						continue
					}
					if sharesLock(a, core.Access{Held: b.held, Write: b.write}) {
						continue
					}
					against = b
					break
				}
				if against == nil {
					continue
				}
				kind := "read"
				if a.Write {
					kind = "write"
				}
				fk := core.FuncKey(a.Fn)
				if per[fk+kind] {
					continue
				}
				per[fk+kind] = true
				bad++
				how := "plain " + kind
				if a.Whole {
					how = "whole-struct copy (" + kind + ")"
				}
				r.Fail("C05-A", fmt.Sprintf("mixed-atomic:%s:%s@%s", fr, kind, fk), p.InstrPos(a.Instr),
					fmt.Sprintf("%s of %s (held: %s) races with the sync/atomic access in %s (held: %s): no common lock orders them", how, fr, a.Held, against.where, against.held))
			}
		}
		if bad == 0 {
			r.Ok("C05-A", "atomic-or-ordered:"+fr.String(), "-", fmt.Sprintf("every plain access shares a lock with the %d sync/atomic access site(s) it could conflict with", len(sites)))
		}
	}

	// L: a slice or map kept under a lock must not be handed out of the critical section as a raw header by a
	// function that takes (and releases) the lock itself, when some writer changes it in place
	inPlace := c05InPlaceWriters(w, func(fr core.FieldRef) bool { return c05Tracked[fr.Type] })
	r.Info["fields_changed_in_place"] = len(inPlace)
	nRet := 0
	for fn, fl := range w.Funcs {
		if len(fl.Acquires) == 0 || fn.Signature.Results().Len() == 0 {
			continue
		}
		local := core.LockSet{}
		for _, aq := range fl.Acquires {
			if _, held := w.Must[fn][aq.Op.Lock]; !held {
				local[aq.Op.Lock] = true
			}
		}
		if len(local) == 0 {
			continue
		}
		for _, b := range fn.Blocks {
			if b == fn.Recover {
				continue
			}
			ret, ok := core.AsReturn(b.Instrs[len(b.Instrs)-1])
			if !ok {
				continue
			}
			for _, rv := range ret.Results {
				switch rt := rv.Type().Underlying().(type) {
				case *types.Slice, *types.Map:
				case *types.Pointer:
					if _, isStruct := rt.Elem().Underlying().(*types.Struct); !isStruct {
						continue
					}
				default:
					continue
				}
				nRet++
				for _, src := range c05HeaderSources(rv, ret) {
					fr, base, ok := core.LoadedField(src)
					if !ok || !c05Tracked[fr.Type] {
						continue
					}
					want := c05DocumentedLock(fr)
					if want == "" || !local[want] {
						continue
					}
					if !w.Anchored(fn, base, owners, okGlobal, 3) {
						continue
					}
					key := fmt.Sprintf("leak:%s@%s", fr, core.FuncKey(fn))
					if site, ok := inPlace[fr]; ok {
						r.Fail("C05-L", key, p.InstrPos(ret), fmt.Sprintf("%s returns the %s kept in %s un-copied after releasing %s, which it took itself; the callers then read it unlocked while %s changes it in place", core.FuncKey(fn), typeWord(rv.Type()), fr, want, site))
					} else {
						r.Ok("C05-L", key, p.InstrPos(ret), "raw header returned, but every writer replaces the whole value (copy-on-write)")
					}
				}
			}
		}
	}
	r.Eval(nRet)
	r.Ok("C05-L", "returns-scanned", "-", fmt.Sprintf("%d slice/map results of lock-taking functions examined", nRet))
	r.Floor("C05-L", "slice-map-results-of-locking-functions", nRet, 10)

	// X
	nAcq := 0
	for fn, fl := range w.Funcs {
		for _, aq := range fl.Acquires {
			nAcq++
			key := fmt.Sprintf("reacquire:%s@%s", aq.Op.Lock, core.FuncKey(fn))
			if _, held := aq.Before[aq.Op.Lock]; held {
				r.Fail("C05-X", key, p.InstrPos(aq.Instr), fmt.Sprintf("%s is acquired while this function already holds it (self-deadlock for a write lock; for two read locks as soon as a writer queues in between)", aq.Op.Lock))
				continue
			}
			if wr, may := w.May[fn][aq.Op.Lock]; may {
				mode := "R"
				if wr {
					mode = "W"
				}
				path := w.MayPath(fn, aq.Op.Lock)
				r.Fail("C05-X", key, p.InstrPos(aq.Instr),
					fmt.Sprintf("%s is acquired here, but a call chain reaches this function with it already held (%s): recursive locking of a sync mutex deadlocks — for two read locks as soon as any writer queues in between", aq.Op.Lock, mode), path...)
			}
		}
	}
	r.Eval(nAcq)
	r.Info["acquisitions"] = nAcq
	r.Floor("C05-X", "lock-acquisitions", nAcq, 150)

	// O
	type edge struct{ a, b core.LockID }
	edgeSites := map[edge][]string{}
	for fn, fl := range w.Funcs {
		for _, aq := range fl.Acquires {
			held := core.LockSet{}
			for k, v := range aq.Before {
				held[k] = v
			}
			for k, v := range w.May[fn] {
				held[k] = held[k] || v
			}
			for k := range held {
				if k == aq.Op.Lock {
					continue
				}
				e := edge{k, aq.Op.Lock}
				edgeSites[e] = append(edgeSites[e], fmt.Sprintf("%s at %s", core.FuncKey(fn), p.InstrPos(aq.Instr)))
			}
		}
	}
	adj := map[core.LockID][]core.LockID{}
	nodes := map[core.LockID]bool{}
	for e, sites := range edgeSites {
		sort.Strings(sites)
		adj[e.a] = append(adj[e.a], e.b)
		nodes[e.a], nodes[e.b] = true, true
	}
	for k := range adj {
		sort.Slice(adj[k], func(i, j int) bool { return adj[k][i] < adj[k][j] })
	}
	r.Info["lock_order_edges"] = len(edgeSites)
	if os.Getenv("AGHVERIF_DEBUG_EDGES") != "" {
		for e, at := range edgeSites {
			fmt.Printf("EDGE %s -> %s  [%s]\n", e.a, e.b, at[0])
		}
	}
	r.Eval(len(edgeSites))
	r.Floor("C05-O", "lock-order-edges", len(edgeSites), 40)
	// strongly connected components (Tarjan); every cycle lies inside one
	var locks []core.LockID
	for l := range nodes {
		locks = append(locks, l)
	}
	sort.Slice(locks, func(i, j int) bool { return locks[i] < locks[j] })
	index, low, comp := map[core.LockID]int{}, map[core.LockID]int{}, map[core.LockID]int{}
	onStack := map[core.LockID]bool{}
	var stack []core.LockID
	nIdx, nComp := 0, 0
	var sccs [][]core.LockID
	var strong func(v core.LockID)
	strong = func(v core.LockID) {
		nIdx++
		index[v], low[v] = nIdx, nIdx
		stack = append(stack, v)
		onStack[v] = true
		for _, m := range adj[v] {
			if index[m] == 0 {
				strong(m)
				if low[m] < low[v] {
					low[v] = low[m]
				}
			} else if onStack[m] && index[m] < low[v] {
				low[v] = index[m]
			}
		}
		if low[v] == index[v] {
			var c []core.LockID
			for {
				x := stack[len(stack)-1]
				stack = stack[:len(stack)-1]
				onStack[x] = false
				comp[x] = nComp
				c = append(c, x)
				if x == v {
					break
				}
			}
			sccs = append(sccs, c)
			nComp++
		}
	}
	for _, l := range locks {
		if index[l] == 0 {
			strong(l)
		}
	}
	before := func(a, b core.LockID) bool { // a is documented/observed as the outer lock of the two
		la, oka := c05LockLevel[a]
		lb, okb := c05LockLevel[b]
		switch {
		case oka && okb && la != lb:
			return la < lb
		case oka != okb:
			return oka
		}
		return a < b
	}
	nCyc, nSkipped := 0, 0
	var skipped []string
	for _, c := range sccs {
		if len(c) < 2 {
			continue
		}
		sort.Slice(c, func(i, j int) bool { return c[i] < c[j] })
		names := make([]string, len(c))
		inScope := false
		for i, l := range c {
			names[i] = string(l)
			if !strings.HasPrefix(string(l), "home.") {
				inScope = true
			}
		}
		if !inScope {
			// a cycle among the admin front-end's own locks cannot block a DNS request goroutine or corrupt the
			// serving structures: outside this property (reported as information only)
			nSkipped++
			skipped = append(skipped, strings.Join(names, " <-> "))
			continue
		}
		nCyc++
		// report the edges of the component that go against the nesting order: every cycle contains at least one
		for _, a := range c {
			for _, b := range adj[a] {
				if comp[b] != comp[a] || before(a, b) {
					continue
				}
				sites := edgeSites[edge{a, b}]
				det := []string{"cycle component: " + strings.Join(names, ", ")}
				for _, rs := range edgeSites[edge{b, a}] {
					det = append(det, fmt.Sprintf("opposite order %s -> %s: %s", b, a, rs))
					if len(det) > 4 {
						break
					}
				}
				for _, st := range sites {
					det = append(det, fmt.Sprintf("this order %s -> %s: %s", a, b, st))
					if len(det) > 9 {
						break
					}
				}
				r.Fail("C05-O", fmt.Sprintf("lock-order:%s->%s", a, b), strings.TrimPrefix(sites[0][strings.LastIndex(sites[0], " at ")+1:], "at "),
					fmt.Sprintf("%s is acquired while %s is (or may be) held, but other call chains nest them the other way round: a lock-order cycle, i.e. a possible deadlock between a DNS request, an admin operation and a queued writer", b, a), det...)
			}
		}
	}
	r.Info["lock_order_cycles_outside_scope"] = skipped
	if nCyc == 0 {
		r.Ok("C05-O", "lock-order-acyclic", "-", fmt.Sprintf("the lock-order graph (%d edges over %d locks) has no cycle through a lock of the serving structures (%d component(s) among home's own locks not judged)", len(edgeSites), len(nodes), nSkipped))
	}
}

// c05LockLevel is the nesting order the code uses (outermost first), read off
// the lock-order graph of the pinned tree and the "is expected to be locked"
// comments.  It is used only to choose which edge of a cycle is reported;
// without a cycle no edge is ever reported, whatever its direction.
var c05LockLevel = map[core.LockID]int{
	"home.homeContext.controlLock":               0,
	"home.signalHandler.mu":                      1,
	"home.tlsManager.mu":                         2,
	"home.configuration.RWMutex":                 3,
	"dnsforward.Server.serverLock":               4,
	"filtering.Config.filtersMu":                 5,
	"filtering.DNSFilter.filtersInitializerLock": 6,
	"filtering.DNSFilter.engineLock":             6,
	"filtering.DNSFilter.confMu":                 7,
	"querylog.queryLog.confMu":                   5,
	"querylog.queryLog.fileFlushLock":            6,
	"querylog.queryLog.bufferLock":               7,
	"querylog.queryLog.fileWriteLock":            7,
	"stats.StatsCtx.confMu":                      5,
	"stats.StatsCtx.currMu":                      6,
	"home.clientsContainer.lock":                 8,
	"client.Storage.mu":                          9,
	"dhcpd.v6Server.leasesLock":                  10,
	"dhcpd.v4Server.leasesLock":                  11,
}

// c05DocumentedLock returns the lock the code documents as the guard of a
// field ("serverLock protects Server", "mu protects indexes", "confMu protects
// conf", "filtersMu protects filter lists", "currMu protects curr", "leasesLock
// protects leases, hostsIndex, ipIndex, and leasedOffsets", ...).
func c05DocumentedLock(f core.FieldRef) core.LockID {
	switch f.Type {
	case "client.Storage":
		switch f.Field {
		case "index", "runtimeIndex", "upstreamManager":
			return "client.Storage.mu"
		}
	case "client.index", "client.runtimeIndex", "client.upstreamManager":
		return "client.Storage.mu"
	case "dhcpd.v4Server":
		switch f.Field {
		case "leases", "hostsIndex", "ipIndex", "leasedOffsets":
			return "dhcpd.v4Server.leasesLock"
		}
	case "stats.StatsCtx":
		switch f.Field {
		case "curr":
			return "stats.StatsCtx.currMu"
		case "ignored", "limit", "enabled":
			return "stats.StatsCtx.confMu"
		}
	case "stats.unit":
		return "stats.StatsCtx.currMu"
	case "querylog.queryLog":
		switch f.Field {
		case "conf":
			return "querylog.queryLog.confMu"
		case "buffer", "flushPending":
			return "querylog.queryLog.bufferLock"
		}
	case "querylog.Config":
		return "querylog.queryLog.confMu"
	case "filtering.DNSFilter":
		switch f.Field {
		case "filteringEngine", "filteringEngineAllow", "rulesStorage", "rulesStorageAllow":
			return "filtering.DNSFilter.engineLock"
		}
	case "filtering.Config":
		switch f.Field {
		case "Filters", "WhitelistFilters", "UserRules", "FilteringEnabled", "FiltersUpdateIntervalHours":
			// "filtersMu protects filter lists"; the filtering switch and the update interval are
			// written (handleFilteringConfig) and read (handleFilteringStatus, periodicallyRefreshFilters) under it as well
			return "filtering.Config.filtersMu"
		}
		return "filtering.DNSFilter.confMu"
	case "dnsforward.Server", "dnsforward.ServerConfig", "dnsforward.Config", "dnsforward.accessManager":
		return "dnsforward.Server.serverLock"
	}
	return ""
}

// c05QuiescentPhase returns the functions that run only as part of
// (*dnsforward.Server).Prepare: at start-up, or from Reconfigure which holds
// serverLock for writing and has stopped the proxy before it calls Prepare.
func c05QuiescentPhase(w *core.LockWorld) map[*ssa.Function]bool {
	q := map[*ssa.Function]bool{}
	for fn := range w.Funcs {
		if core.FuncKey(fn) == "(*dnsforward.Server).Prepare" {
			q[fn] = true
		}
	}
	for changed := true; changed; {
		changed = false
		for fn := range w.Funcs {
			if q[fn] || core.PkgOf(fn) != "dnsforward" {
				continue
			}
			cs := w.CallersOf[fn]
			if len(cs) == 0 {
				continue
			}
			all := true
			for _, ce := range cs {
				if ce.Go || !q[ce.Caller] {
					all = false
				}
			}
			if all {
				q[fn] = true
				changed = true
			}
		}
	}
	return q
}

// sharesLock: the two accesses hold a common lock in modes that exclude each
// other when one of them writes (at least one side holds it for writing, or
// it is a plain mutex).
func sharesLock(a, b core.Access) bool {
	for k, wa := range a.Held {
		wb, ok := b.Held[k]
		if !ok {
			continue
		}
		if wa || wb {
			return true
		}
	}
	return false
}

// c05InitOnly: functions all of whose callers are init-phase functions.
func c05InitOnly(w *core.LockWorld) map[*ssa.Function]bool {
	q := map[*ssa.Function]bool{}
	for fn := range w.Funcs {
		if isInitFn(fn) {
			q[fn] = true
		}
	}
	for changed := true; changed; {
		changed = false
		for fn := range w.Funcs {
			if q[fn] {
				continue
			}
			cs := w.CallersOf[fn]
			if len(cs) == 0 {
				continue
			}
			all := true
			for _, ce := range cs {
				if !q[ce.Caller] {
					all = false
				}
			}
			if all {
				q[fn] = true
				changed = true
			}
		}
	}
	return q
}

// isInitFn: constructors and start-up functions whose accesses happen before
// the object is shared.
func isInitFn(fn *ssa.Function) bool {
	for f := fn; f != nil; f = f.Parent() {
		if _, ok := c05InitFns[core.FuncKey(f)]; ok {
			return true
		}
	}
	return false
}

var c05InitFns = map[string]string{
	"home.setupDNSFilteringConf":            "builds the filtering configuration before the filter exists",
	"home.initDNS":                          "start-up: creates stats, query log, filter and DNS server before any server runs",
	"home.initDNSServer":                    "start-up",
	"filtering.New":                         "constructor",
	"dnsforward.NewServer":                  "constructor",
	"stats.New":                             "constructor",
	"querylog.newQueryLog":                  "constructor",
	"client.NewStorage":                     "constructor",
	"dhcpd.v4Create":                        "constructor",
	"(*home.clientsContainer).Init":         "start-up: wires the client storage before the DNS server exists",
	"(*home.webAPI).handleInstallConfigure": "first run only: no DNS server or filter is serving yet",
	"home.validateConfig":                   "start-up: validates the configuration just parsed from disk",
	"home.parseConfig":                      "start-up",
	"(*querylog.queryLog).Start":            "start-up, before the DNS server is started",
	"(*querylog.queryLog).initWeb":          "start-up: registers routes",
	"(*stats.StatsCtx).Start":               "start-up",
	"(*stats.StatsCtx).initWeb":             "start-up",
}

func typeWord(t types.Type) string {
	switch t.Underlying().(type) {
	case *types.Map:
		return "map"
	case *types.Pointer:
		return "structure (by pointer)"
	}
	return "slice"
}

// c05HeaderSources follows a returned slice/map value back to the loads it
// may alias: through phis, re-slicing, conversions and a spilled named result.
func c05HeaderSources(v ssa.Value, at ssa.Instruction) []ssa.Value {
	var out []ssa.Value
	seen := map[ssa.Value]bool{}
	var walk func(v ssa.Value, at ssa.Instruction)
	walk = func(v ssa.Value, at ssa.Instruction) {
		if v == nil || seen[v] {
			return
		}
		seen[v] = true
		switch x := v.(type) {
		case *ssa.Phi:
			for _, e := range x.Edges {
				walk(e, x)
			}
		case *ssa.Slice:
			walk(x.X, x)
		case *ssa.ChangeType:
			walk(x.X, x)
		case *ssa.UnOp:
			if x.Op != token.MUL {
				return
			}
			if cell, ok := x.X.(*ssa.Alloc); ok {
				vals, _, _ := core.ReachingStores(cell, x)
				if len(vals) == 0 {
					vals = core.CellStores(cell)
				}
				for _, sv := range vals {
					walk(sv, x)
				}
				return
			}
			out = append(out, x)
		}
	}
	walk(v, at)
	return out
}

var c05InPlaceFuncs = map[string]bool{
	"slices.Replace": true, "slices.Delete": true, "slices.DeleteFunc": true, "slices.Insert": true, "slices.Compact": true, "slices.CompactFunc": true,
	"slices.Sort": true, "slices.SortFunc": true, "slices.SortStableFunc": true, "slices.Reverse": true,
	"sort.Slice": true, "sort.SliceStable": true, "sort.Sort": true, "sort.Stable": true, "sort.Strings": true, "sort.Ints": true,
}

// c05InPlaceWriters finds, per tracked slice/map field, one site that changes
// the stored value in place (element store, map update/delete, in-place
// library call, append over a re-slice of it, copy into it).
func c05InPlaceWriters(w *core.LockWorld, tracked func(core.FieldRef) bool) map[core.FieldRef]string {
	out := map[core.FieldRef]string{}
	note := func(fr core.FieldRef, fn *ssa.Function, in ssa.Instruction, what string) {
		s := fmt.Sprintf("%s (%s at %s)", core.FuncKey(fn), what, w.P.InstrPos(in))
		if old, ok := out[fr]; !ok || s < old {
			out[fr] = s
		}
	}
	for fn := range w.Funcs {
		if isInitFn(fn) {
			continue
		}
		for _, b := range fn.Blocks {
			for _, in := range b.Instrs {
				ld, ok := in.(*ssa.UnOp)
				if !ok || ld.Op != token.MUL {
					continue
				}
				fr, _, ok := core.LoadedField(ld)
				if !ok || !tracked(fr) {
					continue
				}
				switch lt := ld.Type().Underlying().(type) {
				case *types.Slice, *types.Map:
				case *types.Pointer:
					// a struct kept by pointer: changed in place when one of its fields is stored through the loaded pointer
					if _, isStruct := lt.Elem().Underlying().(*types.Struct); isStruct {
						for _, u := range core.Users(ld) {
							if fa, ok := u.(*ssa.FieldAddr); ok {
								for _, u2 := range core.Users(fa) {
									if st, ok := u2.(*ssa.Store); ok && st.Addr == ssa.Value(fa) {
										note(fr, fn, u2, "field store through the pointer")
									}
								}
							}
						}
					}
					continue
				default:
					continue
				}
				var visit func(v ssa.Value, resliced bool, depth int)
				visit = func(v ssa.Value, resliced bool, depth int) {
					if depth > 3 {
						return
					}
					for _, u := range core.Users(v) {
						switch y := u.(type) {
						case *ssa.IndexAddr:
							for _, u2 := range core.Users(y) {
								if st, ok := u2.(*ssa.Store); ok && st.Addr == ssa.Value(y) {
									note(fr, fn, u2, "element store")
								}
							}
						case *ssa.MapUpdate:
							if y.Map == v {
								note(fr, fn, u, "map update")
							}
						case *ssa.Slice:
							visit(y, true, depth+1)
						case *ssa.Call:
							c := y.Common()
							if bi, ok := c.Value.(*ssa.Builtin); ok {
								switch bi.Name() {
								case "delete", "clear":
									if len(c.Args) > 0 && c.Args[0] == v {
										note(fr, fn, u, bi.Name())
									}
								case "copy":
									if len(c.Args) > 0 && c.Args[0] == v {
										note(fr, fn, u, "copy into")
									}
								case "append":
									if resliced && len(c.Args) > 0 && c.Args[0] == v {
										note(fr, fn, u, "append over a re-slice")
									}
								}
								continue
							}
							if callee := c.StaticCallee(); callee != nil && len(c.Args) > 0 && c.Args[0] == v {
								name := core.FuncKey(callee)
								if i := strings.IndexByte(name, '['); i > 0 {
									name = name[:i]
								}
								if c05InPlaceFuncs[name] {
									note(fr, fn, u, name)
								}
							}
						}
					}
				}
				visit(ld, false, 0)
			}
		}
	}
	return out
}

// c05HeldOnPurpose lists functions that return with a lock held by design (none in the verified tree).
var c05HeldOnPurpose = map[string]string{}

// c05LockPairing: every acquisition of a mutex in the serving and configuration packages is released on every
// path to a return of the acquiring function — by an unlock call on the path or by a deferred unlock registered on
// the path.  A read lock that leaks is invisible until the next writer arrives and then blocks every later reader:
// serving stops (C05's "no deadlock").
func c05LockPairing(c *Ctx) {
	p, r := c.P, c.R
	n := 0
	per := map[string]int{}
	var fns []*ssa.Function
	for _, fn := range p.ModFns {
		if fn.Blocks == nil || core.IsNextPkg(fn) || !c05Pkgs[core.PkgOf(fn)] {
			continue
		}
		fns = append(fns, fn)
	}
	for _, fn := range fns {
		for _, b := range fn.Blocks {
			for i, in := range b.Instrs {
				call, ok := in.(*ssa.Call)
				if !ok {
					continue
				}
				op, ok := core.LockOpOf(call.Common())
				if !ok || !op.Acquire {
					continue
				}
				n++
				fk := core.FuncKey(fn)
				per[fk+"|"+string(op.Lock)]++
				key := fmt.Sprintf("lock-released-on-every-path:%s:%s#%d", fk, op.Lock, per[fk+"|"+string(op.Lock)])
				if why, ok := c05HeldOnPurpose[fk]; ok {
					r.Ok("C05-P", key, p.InstrPos(in), why)
					continue
				}
				// the same mutex: the same field path, or — for a mutex handed in as a value — the same value
				same := func(cc *ssa.CallCommon) bool {
					o2, ok := core.LockOpOf(cc)
					if !ok || o2.Acquire {
						return false
					}
					if strings.HasPrefix(string(op.Lock), "unknown@") || strings.HasPrefix(string(o2.Lock), "unknown@") {
						return len(cc.Args) > 0 && core.SameValue(cc.Args[0], call.Common().Args[0])
					}
					return o2.Lock == op.Lock
				}
				releases := func(x ssa.Instruction) bool {
					switch y := x.(type) {
					case *ssa.Call:
						return same(y.Common())
					case *ssa.Defer:
						if same(y.Common()) {
							return true
						}
						if mc, ok := y.Common().Value.(*ssa.MakeClosure); ok {
							if cf, ok := mc.Fn.(*ssa.Function); ok {
								for _, c2 := range core.Calls(cf) {
									if o2, ok := core.LockOpOf(c2.Common); ok && !o2.Acquire && o2.Lock == op.Lock {
										return true
									}
								}
							}
						}
					}
					return false
				}
				found, tr, _ := core.Reach(core.Query{From: []core.Point{{Block: b, Idx: i + 1}}, Target: func(x ssa.Instruction) bool {
					_, isRet := core.AsReturn(x)
					return isRet
				}, Avoid: releases})
				r.Check(!found, "C05-P", key, p.InstrPos(in),
					"the lock is released (or its release deferred) on every path from the acquisition to a return",
					fmt.Sprintf("%s can return with %s still held: the next writer blocks forever and every later reader queues behind it (serving stops)", fk, op.Lock), p.TraceString(tr))
			}
		}
	}
	r.Floor("C05-P", "lock-acquisitions", n, 1)
}
