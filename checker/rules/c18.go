package rules

import (
	"fmt"
	"go/ast"
	"go/token"
	"go/types"
	"sort"
	"strings"

	"aghverif/core"

	"golang.org/x/tools/go/ssa"
)

func init() {
	register(&Rule{
		ID:  "C18",
		Run: runC18,
		Explanation: "Blocked-services pause schedule. Decided: (D1) validation precedes storage: both unmarshalers store a day range only after validate returned nil for that same range, validate delegates to the range checks and the whole-minute test, and the schedule's fields have no writers other than the unmarshalers, the constructors and Clone; " +
			"(D1, cont.) Clone gives the copy the receiver's time zone and day ranges; (D2) weekday/field agreement: in the four (un)marshalers the element for weekday X is built from the field named X (start from start, end from end), all seven days are present, and the JSON and YAML key sets agree; (D3) [with: the schedule consulted is the Schedule of the same BlockedServices value whose IDs are applied, and a client's own list always replaces the global rules, paused or not — shared with C04-D2/C01-D9] the schedule is consulted for every request: blocked-service rules are added only on the 'not paused now' edge of Schedule.Contains(time.Now()) for the global and the per-client list; " +
			"(D4) the range test is the half-open conjunction start <= x && x < end, and the range validator lets a range through only if it is the zero range or passed every one of: start < 0, end < 0, start >= end, start >= 24h, end > 24h; (D5) Contains takes weekday, date and offset from the instant converted to the schedule's own time zone. " +
			"and the offset tested is the wall-clock reading (Clock), not time elapsed since local midnight — the structural cause of the 23/25-hour-day defect that was found and repaired; (D6) a range bound given as a JSON number of milliseconds is scaled to nanoseconds in floating point and truncated once (no flooring before the whole-minute validation, no wrapping integer multiplication). Not decided: the arithmetic equality of Contains with wall-clock containment for every instant and zone (value-level).",
		// D6 (JSON durations scaled in floating point, truncated once) is described at c18JSONDuration.
		RuleText:    "Typed-AST agreement between keys and selectors; comparison operators/operand roles and path guards on SSA.",
		Assumptions: []string{"time.LoadLocation / time.Time.In behave as documented"},
		Trusted:     commonTrusted,
	})
}

func runC18(c *Ctx) {
	c18Validation(c)
	c18Agreement(c)
	c18Consult(c)
	c18Shapes(c)
	c18Contains(c)
	c18JSONDuration(c)
}

func c18Validation(c *Ctx) {
	p, r := c.P, c.R
	for _, fk := range []string{"(*schedule.Weekly).UnmarshalJSON", "(*schedule.Weekly).UnmarshalYAML"} {
		fn := p.Fn(fk)
		if fn == nil {
			r.Undecided("C18-D1", fk, "-", "anchor not found")
			continue
		}
		// sinks: stores into <alloc Weekly>.days[i] (or of a whole array into .days), in the unmarshaler or in a
		// function it calls that the inventory does not list
		n := 0
		root := fn
		scan := []*ssa.Function{root}
		for h := range core.StaticReach(root, 3) {
			if h != root && core.Transparent(h) {
				scan = append(scan, h)
			}
		}
		sort.Slice(scan, func(i, j int) bool { return core.FuncKey(scan[i]) < core.FuncKey(scan[j]) })
		for _, fn := range scan {
			for _, b := range fn.Blocks {
				for _, in := range b.Instrs {
					st, ok := in.(*ssa.Store)
					if !ok {
						continue
					}
					if fr, isF := core.FieldOfAddr(st.Addr); isF && fr.Type == "schedule.Weekly" && fr.Field == "days" {
						if _, isZero := st.Val.(*ssa.Const); !isZero {
							n++
							ok, why := c18AllValidated(fn, st)
							r.Check(ok, "C18-D1", fmt.Sprintf("validate-before-store:%s#%d", fk, n), p.InstrPos(in),
								"the day ranges are stored as a whole only after a loop validated every one of them",
								"day ranges can be stored into the schedule without each having passed validate: "+why)
						}
						continue
					}
					ia, ok := st.Addr.(*ssa.IndexAddr)
					if !ok {
						continue
					}
					fr, ok := core.FieldOfAddr(ia.X)
					if !ok || fr.Type != "schedule.Weekly" || fr.Field != "days" {
						continue
					}
					n++
					// the stored value is a load of cell R; guard: validate(load of R) == nil
					var cell ssa.Value
					if u, ok := st.Val.(*ssa.UnOp); ok {
						cell = u.X
					}
					g, ng := core.CondEdges(fn, func(at core.Atom) (bool, bool) {
						if (at.Op == token.EQL || at.Op == token.NEQ) && core.IsNilConst(at.Other) {
							if call, _, ok := core.CallResult(at.Base); ok && core.CalleeKey(call.Common()) == "(*schedule.Weekly).validate" {
								arg := call.Common().Args[1]
								if arg == st.Val {
									return true, at.Op == token.EQL
								}
								if u, ok := arg.(*ssa.UnOp); ok && cell != nil && u.X == cell {
									return true, at.Op == token.EQL
								}
							}
						}
						return false, false
					})
					off, _ := core.UnguardedSinks(fn, func(x ssa.Instruction) bool { return x == in }, g)
					r.Check(ng > 0 && len(off) == 0, "C18-D1", fmt.Sprintf("validate-before-store:%s#%d", fk, n), p.InstrPos(in),
						"a day range is stored only after validate returned nil for that same range",
						"a day range can be stored into the schedule without having passed validate", traceOf(p, off)...)
				}
			}
		}
		r.Floor("C18-D1", "day-stores:"+fk, n, 1)
	}
	// validate: success only after dayRange.validate == nil and both truncation comparisons
	vf := p.Fn("(*schedule.Weekly).validate")
	if vf == nil {
		r.Undecided("C18-D1", "Weekly.validate", "-", "anchor not found")
	} else {
		g, n := core.CondEdges(vf, func(at core.Atom) (bool, bool) {
			if (at.Op == token.EQL || at.Op == token.NEQ) && core.IsNilConst(at.Other) && core.IsCallResult(at.Base, -1, "(schedule.dayRange).validate") {
				return true, at.Op == token.EQL
			}
			return false, false
		})
		succ := func(in ssa.Instruction) bool { return isSuccessReturn(vf, in) }
		off, ns := core.UnguardedSinks(vf, succ, g)
		r.Check(n > 0 && ns > 0 && len(off) == 0, "C18-D1", "validate:range-checks", p.FnPos(vf), "validate succeeds only if the range validator did", "validate can succeed without the range validator", traceOf(p, off)...)
		gT, nT := core.CondEdges(vf, func(at core.Atom) (bool, bool) {
			if at.Op != token.EQL && at.Op != token.NEQ {
				return false, false
			}
			if core.IsCallResult(at.Base, -1, "(time.Duration).Truncate") || core.IsCallResult(at.Other, -1, "(time.Duration).Truncate") {
				return true, at.Op == token.EQL
			}
			return false, false
		})
		// both start and end comparisons must be passed: count distinct and require success unreachable when any single one is removed
		r.Check(nT >= 2, "C18-D1", "validate:whole-minutes-present", p.FnPos(vf), "start and end are compared with their minute truncation", "the whole-minute test of start/end is missing")
		for e := range gT {
			single := map[core.Edge]bool{e: true}
			offT, _ := core.UnguardedSinks(vf, succ, single)
			r.Check(len(offT) == 0, "C18-D1", fmt.Sprintf("validate:whole-minutes-b%d", e.From.Index), p.FnPos(vf),
				"validate succeeds only if the value equals its minute truncation", "validate can succeed for a range that is not in whole minutes", traceOf(p, offT)...)
		}
	}
	// writers of Weekly fields
	allowed := map[string]bool{
		"schedule.EmptyWeekly": true, "schedule.FullWeekly": true, "(*schedule.Weekly).Clone": true,
		"(*schedule.Weekly).UnmarshalJSON": true, "(*schedule.Weekly).UnmarshalYAML": true,
	}
	nW := 0
	for _, fn := range p.ModFns {
		if fn.Blocks == nil {
			continue
		}
		writes := false
		for _, b := range fn.Blocks {
			for _, in := range b.Instrs {
				st, ok := in.(*ssa.Store)
				if !ok {
					continue
				}
				if fr, ok := core.FieldOfAddr(st.Addr); ok && fr.Type == "schedule.Weekly" {
					writes = true
				}
				if ia, ok := st.Addr.(*ssa.IndexAddr); ok {
					if fr, ok := core.FieldOfAddr(ia.X); ok && fr.Type == "schedule.Weekly" {
						writes = true
					}
				}
				if pt, ok := st.Addr.Type().Underlying().(*types.Pointer); ok && core.NamedKey(pt.Elem()) == "schedule.Weekly" {
					writes = true
				}
			}
		}
		if !writes {
			continue
		}
		nW++
		outer := fn
		for outer.Parent() != nil {
			outer = outer.Parent()
		}
		// a function the inventory does not list writes on behalf of the listed functions that call it
		owners, okOwn := p.Owners(outer)
		okAll := okOwn
		for _, o := range owners {
			if !allowed[core.FuncKey(o)] {
				okAll = false
			}
		}
		r.Check(okAll, "C18-D1", "schedule-writer:"+core.FuncKey(fn), p.FnPos(fn),
			"the schedule is written only by its constructors, Clone and the validating unmarshalers",
			core.FuncKey(fn)+" writes a schedule's fields without going through the validating unmarshalers")
	}
	r.Floor("C18-D1", "schedule-writers", nW, 5)
	// Clone hands out the same schedule: time zone and day ranges of the copy are the receiver's
	if cl := p.Fn("(*schedule.Weekly).Clone"); cl != nil && len(cl.Params) == 1 {
		recv := cl.Params[0]
		got := map[string]bool{}
		var bad []string
		for _, f := range core.WithAnon(cl) {
			for _, b := range f.Blocks {
				for _, in := range b.Instrs {
					st, ok := in.(*ssa.Store)
					if !ok {
						continue
					}
					fr, ok := core.FieldOfAddr(st.Addr)
					if !ok || fr.Type != "schedule.Weekly" || (fr.Field != "location" && fr.Field != "days") {
						continue
					}
					okSrc := true
					n := 0
					for _, leaf := range core.Leaves(core.ResolveCellLoad(st.Val)) {
						n++
						src, owner, isF := core.LoadedField(leaf)
						if !isF || src.Type != "schedule.Weekly" || src.Field != fr.Field || core.ResolveCellLoad(owner) != ssa.Value(recv) {
							okSrc = false
						}
					}
					if okSrc && n > 0 {
						got[fr.Field] = true
					} else {
						bad = append(bad, fr.Field+" at "+p.InstrPos(in))
					}
				}
			}
		}
		r.Check(got["location"] && got["days"] && len(bad) == 0, "C18-D1", "clone-keeps-zone-and-ranges", p.FnPos(cl),
			"the copy gets the receiver's time zone and day ranges",
			"Clone does not copy the receiver's time zone or day ranges: a copied schedule (every client's own schedule is a copy) pauses at other instants than the configured one", bad...)
	} else {
		r.Undecided("C18-D1", "Clone", "-", "anchor not found")
	}
}

var weekdays = []string{"Sunday", "Monday", "Tuesday", "Wednesday", "Thursday", "Friday", "Saturday"}

// c18Agreement: D2 on the typed AST.
func c18Agreement(c *Ctx) {
	p, r := c.P, c.R
	pk := p.Pkg("schedule")
	if pk == nil {
		r.Undecided("C18-D2", "package", "-", "schedule not loaded")
		return
	}
	isTimeWeekday := func(e ast.Expr) (string, bool) {
		sel, ok := ast.Unparen(e).(*ast.SelectorExpr)
		if !ok {
			return "", false
		}
		obj := pk.TypesInfo.Uses[sel.Sel]
		if cst, ok := obj.(*types.Const); ok && cst.Pkg() != nil && cst.Pkg().Path() == "time" && core.TypeKey(cst.Type()) == "time.Weekday" {
			return sel.Sel.Name, true
		}
		return "", false
	}
	// all time.<Weekday> identifiers inside node
	weekdaysIn := func(n ast.Node) (out []string) {
		ast.Inspect(n, func(x ast.Node) bool {
			if e, ok := x.(ast.Expr); ok {
				if wd, ok := isTimeWeekday(e); ok {
					out = append(out, wd)
					return false
				}
			}
			return true
		})
		return out
	}
	selName := func(e ast.Expr) string {
		if sel, ok := ast.Unparen(e).(*ast.SelectorExpr); ok {
			return sel.Sel.Name
		}
		return ""
	}
	for _, fnName := range []string{"Weekly.UnmarshalJSON", "Weekly.UnmarshalYAML"} {
		fd, _ := p.FuncDecl("schedule", fnName)
		if fd == nil {
			r.Undecided("C18-D2", fnName, "-", "anchor not found")
			continue
		}
		seen := map[string]bool{}
		ast.Inspect(fd.Body, func(n ast.Node) bool {
			cl, ok := n.(*ast.CompositeLit)
			if !ok {
				return true
			}
			for _, el := range cl.Elts {
				kv, ok := el.(*ast.KeyValueExpr)
				if !ok {
					continue
				}
				wd, ok := isTimeWeekday(kv.Key)
				if !ok {
					continue
				}
				seen[wd] = true
				r.Check(selName(kv.Value) == wd, "C18-D2", fmt.Sprintf("%s:%s", fnName, wd), p.Pos(kv.Pos()),
					"element time."+wd+" is read from field "+wd, fmt.Sprintf("element for time.%s is read from field %q: that day's range is applied to another weekday", wd, selName(kv.Value)))
			}
			return true
		})
		r.Check(len(seen) == 7, "C18-D2", fnName+":all-seven-days", p.Pos(fd.Pos()), "all seven weekdays are read", fmt.Sprintf("only %d weekdays are read from the serialised schedule", len(seen)))
	}
	for _, fnName := range []string{"Weekly.MarshalJSON", "Weekly.MarshalYAML"} {
		fd, _ := p.FuncDecl("schedule", fnName)
		if fd == nil {
			r.Undecided("C18-D2", fnName, "-", "anchor not found")
			continue
		}
		seen := map[string]bool{}
		ast.Inspect(fd.Body, func(n ast.Node) bool {
			cl, ok := n.(*ast.CompositeLit)
			if !ok {
				return true
			}
			for _, el := range cl.Elts {
				kv, ok := el.(*ast.KeyValueExpr)
				if !ok {
					continue
				}
				id, ok := kv.Key.(*ast.Ident)
				if !ok {
					continue
				}
				isDay := false
				for _, wd := range weekdays {
					if wd == id.Name {
						isDay = true
					}
				}
				if !isDay {
					continue
				}
				seen[id.Name] = true
				used := weekdaysIn(kv.Value)
				okAll := len(used) > 0
				for _, u := range used {
					if u != id.Name {
						okAll = false
					}
				}
				r.Check(okAll, "C18-D2", fmt.Sprintf("%s:%s", fnName, id.Name), p.Pos(kv.Pos()),
					"field "+id.Name+" is written from days[time."+id.Name+"]", fmt.Sprintf("field %s is written from %v: that weekday is serialised with another day's range", id.Name, used))
				// Start <- .start, End <- .end (YAML form)
				if inner, ok := kv.Value.(*ast.CompositeLit); ok {
					for _, e2 := range inner.Elts {
						kv2, ok := e2.(*ast.KeyValueExpr)
						if !ok {
							continue
						}
						k2, _ := kv2.Key.(*ast.Ident)
						if k2 == nil {
							continue
						}
						want := strings.ToLower(k2.Name)
						got := ""
						ast.Inspect(kv2.Value, func(x ast.Node) bool {
							if sel, ok := x.(*ast.SelectorExpr); ok && (sel.Sel.Name == "start" || sel.Sel.Name == "end") {
								got = sel.Sel.Name
							}
							return true
						})
						r.Check(got == want, "C18-D2", fmt.Sprintf("%s:%s.%s", fnName, id.Name, k2.Name), p.Pos(kv2.Pos()),
							k2.Name+" is written from ."+want, fmt.Sprintf("%s of %s is written from .%s", k2.Name, id.Name, got))
					}
				}
			}
			return true
		})
		if len(seen) == 0 {
			// the table form: a literal indexed by weekday that holds the address of the field of the same name,
			// and a loop over it that writes days[index] through that address
			tableOK := map[string]bool{}
			var tableVars []string
			ast.Inspect(fd.Body, func(n ast.Node) bool {
				as, ok := n.(*ast.AssignStmt)
				if !ok || len(as.Lhs) != 1 || len(as.Rhs) != 1 {
					return true
				}
				cl, ok := as.Rhs[0].(*ast.CompositeLit)
				if !ok {
					return true
				}
				nEl := 0
				for _, el := range cl.Elts {
					kv, ok := el.(*ast.KeyValueExpr)
					if !ok {
						return true
					}
					wd, ok := isTimeWeekday(kv.Key)
					if !ok {
						return true
					}
					ue, ok := kv.Value.(*ast.UnaryExpr)
					if !ok || ue.Op != token.AND {
						return true
					}
					nEl++
					r.Check(selName(ue.X) == wd, "C18-D2", fmt.Sprintf("%s:%s", fnName, wd), p.Pos(kv.Pos()),
						"the slot of time."+wd+" is the address of field "+wd, fmt.Sprintf("the slot for time.%s points at field %q: that weekday is serialised with another day's range", wd, selName(ue.X)))
					if selName(ue.X) == wd {
						tableOK[wd] = true
					}
				}
				if id, ok := as.Lhs[0].(*ast.Ident); ok && nEl > 0 {
					tableVars = append(tableVars, id.Name)
				}
				return true
			})
			loopOK := false
			ast.Inspect(fd.Body, func(n ast.Node) bool {
				rs, ok := n.(*ast.RangeStmt)
				if !ok {
					return true
				}
				x, _ := rs.X.(*ast.Ident)
				k, _ := rs.Key.(*ast.Ident)
				v, _ := rs.Value.(*ast.Ident)
				if x == nil || k == nil || v == nil {
					return true
				}
				isTable := false
				for _, tv := range tableVars {
					if tv == x.Name {
						isTable = true
					}
				}
				if !isTable {
					return true
				}
				// *v = <...>.days[k]...
				for _, st := range rs.Body.List {
					as, ok := st.(*ast.AssignStmt)
					if !ok || len(as.Lhs) != 1 || len(as.Rhs) != 1 {
						continue
					}
					se, ok := as.Lhs[0].(*ast.StarExpr)
					if !ok {
						continue
					}
					if id, ok := se.X.(*ast.Ident); !ok || id.Name != v.Name {
						continue
					}
					ast.Inspect(as.Rhs[0], func(y ast.Node) bool {
						if ie, ok := y.(*ast.IndexExpr); ok && selName(ie.X) == "days" {
							if ki, ok := ie.Index.(*ast.Ident); ok && ki.Name == k.Name {
								loopOK = true
							}
						}
						return true
					})
				}
				return true
			})
			if loopOK {
				for wd := range tableOK {
					seen[wd] = true
				}
			}
		}
		r.Check(len(seen) == 7, "C18-D2", fnName+":all-seven-days", p.Pos(fd.Pos()), "all seven weekdays are written", fmt.Sprintf("only %d weekdays are written when serialising", len(seen)))
	}
	// wherever a dayConfigJSON is written out: Start from .start, End from .end
	nLit := 0
	for _, f := range pk.Syntax {
		ast.Inspect(f, func(n ast.Node) bool {
			cl, ok := n.(*ast.CompositeLit)
			if !ok {
				return true
			}
			tv := pk.TypesInfo.TypeOf(cl)
			if tv == nil || core.NamedKey(tv) != "schedule.dayConfigJSON" {
				return true
			}
			for _, el := range cl.Elts {
				kv, ok := el.(*ast.KeyValueExpr)
				if !ok {
					continue
				}
				k, _ := kv.Key.(*ast.Ident)
				if k == nil || (k.Name != "Start" && k.Name != "End") {
					continue
				}
				got := ""
				ast.Inspect(kv.Value, func(x ast.Node) bool {
					if sel, ok := x.(*ast.SelectorExpr); ok && (sel.Sel.Name == "start" || sel.Sel.Name == "end") {
						got = sel.Sel.Name
					}
					return true
				})
				nLit++
				r.Check(got == strings.ToLower(k.Name), "C18-D2", "toDayConfigJSON:"+k.Name, p.Pos(kv.Pos()), k.Name+" is written from ."+strings.ToLower(k.Name), k.Name+" is written from ."+got)
			}
			return true
		})
	}
	r.Floor("C18-D2", "day-json-fields-written", nLit, 2)
	// key sets of the two serialised forms agree
	keysOfTags := func(typeName, tagKind string) []string {
		o := pk.Types.Scope().Lookup(typeName)
		if o == nil {
			return nil
		}
		st, ok := o.Type().Underlying().(*types.Struct)
		if !ok {
			return nil
		}
		var keys []string
		for i := 0; i < st.NumFields(); i++ {
			tag := st.Tag(i)
			idx := strings.Index(tag, tagKind+":\"")
			if idx < 0 {
				continue
			}
			rest := tag[idx+len(tagKind)+2:]
			end := strings.Index(rest, "\"")
			name, _, _ := strings.Cut(rest[:end], ",")
			keys = append(keys, st.Field(i).Name()+"="+name)
		}
		sort.Strings(keys)
		return keys
	}
	jk, yk := keysOfTags("weeklyConfigJSON", "json"), keysOfTags("weeklyConfigYAML", "yaml")
	r.Check(len(jk) == 8 && fmt.Sprint(jk) == fmt.Sprint(yk), "C18-D2", "json-yaml-key-sets-agree", "-",
		"the JSON and YAML forms use the same eight keys for the same fields", fmt.Sprintf("JSON keys %v differ from YAML keys %v", jk, yk))
	wantKeys := "[Friday=fri Monday=mon Saturday=sat Sunday=sun Thursday=thu TimeZone=time_zone Tuesday=tue Wednesday=wed]"
	r.Check(fmt.Sprint(jk) == wantKeys, "C18-D2", "weekday-keys", "-", "each weekday field carries its own three-letter key", fmt.Sprintf("weekday keys are %v", jk))
}

func c18Consult(c *Ctx) {
	blockedServicesSchedule(c, "C18-D3")
	ownBlockedServices(c, "C18-D3")
}

// blockedServicesSchedule: every application of a list of blocked services is
// guarded by the pause schedule of that same list, consulted for the current
// instant (shared by C01 and C18).
func blockedServicesSchedule(c *Ctx, rule string) {
	p, r := c.P, c.R
	n := 0
	for _, fn := range p.ModFnsIn("filtering") {
		calls := core.CallsTo(fn, "(*filtering.DNSFilter).ApplyBlockedServicesList")
		if len(calls) == 0 {
			continue
		}
		n += len(calls)
		g, ng := core.CondEdges(fn, func(at core.Atom) (bool, bool) {
			if at.Op != token.ILLEGAL {
				return false, false
			}
			call, _, ok := core.CallResult(at.Base)
			if !ok || core.CalleeKey(call.Common()) != "(*schedule.Weekly).Contains" {
				return false, false
			}
			if !core.IsCallResult(call.Common().Args[1], -1, "time.Now") {
				return false, false
			}
			return true, false
		})
		off, _ := core.UnguardedSinks(fn, core.IsCallTo(false, "(*filtering.DNSFilter).ApplyBlockedServicesList"), g)
		r.Check(ng > 0 && len(off) == 0, rule, "schedule-consulted:"+core.FuncKey(fn), p.FnPos(fn),
			"blocked-service rules are applied only when Schedule.Contains(time.Now()) is false",
			"blocked-service rules can be applied without consulting the pause schedule for the current instant", traceOf(p, off)...)
		// ... and the schedule consulted is the one of the list being applied: the service IDs and the
		// schedule are fields of the same BlockedServices value
		for i, call := range calls {
			okAll, nLeaves := true, 0
			var det []string
			for _, lf := range handlerLeaves(call.Arg(2)) {
				nLeaves++
				fr, owner, isF := core.LoadedField(core.ResolveCellLoad(lf.v))
				if !isF || fr.Field != "IDs" {
					okAll = false
					det = append(det, "the list of services is not the IDs field of a BlockedServices value")
					continue
				}
				gs, ngs := core.CondEdges(fn, func(at core.Atom) (bool, bool) {
					if at.Op != token.ILLEGAL {
						return false, false
					}
					cc, _, ok := core.CallResult(at.Base)
					if !ok || core.CalleeKey(cc.Common()) != "(*schedule.Weekly).Contains" || !core.IsCallResult(cc.Common().Args[1], -1, "time.Now") {
						return false, false
					}
					fs, sOwner, isS := core.LoadedField(core.ResolveCellLoad(cc.Common().Args[0]))
					if !isS || fs.Field != "Schedule" || core.AccessPath(sOwner) != core.AccessPath(owner) {
						return false, false
					}
					return true, false
				})
				target := ssa.Instruction(call.Instr)
				if lf.pred != nil {
					target = lf.pred.Instrs[len(lf.pred.Instrs)-1]
				}
				_ = target
				offS, _ := core.UnguardedSinksLocal(fn, func(x ssa.Instruction) bool { return x == ssa.Instruction(call.Instr) }, gs)
				if ngs == 0 || len(offS) > 0 {
					okAll = false
					det = append(det, "the services of "+fr.String()+" are applied without Contains(time.Now()) on the Schedule of the same value")
				}
			}
			r.Check(okAll && nLeaves > 0, rule, fmt.Sprintf("schedule-of-the-applied-list:%s#%d", core.FuncKey(fn), i+1), p.InstrPos(call.Instr),
				"the pause schedule consulted is the one that belongs to the list of services being applied",
				"a list of blocked services is applied under the pause schedule of another list (a client's own pause is ignored, or the global pause silences a client's own list)", det...)
		}
	}
	// the same for a function that puts the rules into the settings itself (the helper that used to do it returns
	// them now): the lists applied are the IDs fields its stored value is made from
	for _, fn := range p.ModFnsIn("filtering") {
		if fn.Blocks == nil || core.FuncKey(fn) == "(*filtering.DNSFilter).ApplyBlockedServicesList" {
			continue
		}
		k := 0
		for _, b := range fn.Blocks {
			for _, in := range b.Instrs {
				st, isSt := in.(*ssa.Store)
				if !isSt {
					continue
				}
				if fr, ok := core.FieldOfAddr(st.Addr); !ok || fr.Type != "filtering.Settings" || fr.Field != "ServicesRules" {
					continue
				}
				var lists []ssa.Value
				for _, o := range core.Origins(st.Val, core.ProvOpts{Prog: p}) {
					if o.Kind == "field" && strings.HasSuffix(o.Key, "BlockedServices.IDs") && o.Val != nil {
						lists = append(lists, o.Val)
					}
				}
				if len(lists) == 0 {
					continue // not an application of a list of services (a reset, a copy)
				}
				n++
				k++
				okAll := true
				var det []string
				for _, lv := range lists {
					fr, owner, isF := core.LoadedField(core.ResolveCellLoad(lv))
					if !isF || fr.Field != "IDs" {
						okAll = false
						det = append(det, "the list of services is not the IDs field of a BlockedServices value")
						continue
					}
					gs, ngs := core.CondEdges(fn, func(at core.Atom) (bool, bool) {
						if at.Op != token.ILLEGAL {
							return false, false
						}
						cc, _, ok := core.CallResult(at.Base)
						if !ok || core.CalleeKey(cc.Common()) != "(*schedule.Weekly).Contains" || !core.IsCallResult(cc.Common().Args[1], -1, "time.Now") {
							return false, false
						}
						fs, sOwner, isS := core.LoadedField(core.ResolveCellLoad(cc.Common().Args[0]))
						if !isS || fs.Field != "Schedule" || core.AccessPath(sOwner) != core.AccessPath(owner) {
							return false, false
						}
						return true, false
					})
					offS, _ := core.UnguardedSinksLocal(fn, func(x ssa.Instruction) bool { return x == in }, gs)
					if ngs == 0 || len(offS) > 0 {
						okAll = false
						det = append(det, "the services of "+fr.String()+" are applied without Contains(time.Now()) on the Schedule of the same value")
					}
				}
				r.Check(okAll, rule, fmt.Sprintf("schedule-of-the-applied-list:%s#s%d", core.FuncKey(fn), k), p.InstrPos(in),
					"the pause schedule consulted is the one that belongs to the list of services being applied",
					"a list of blocked services is applied under the pause schedule of another list, or without consulting it (a client's own pause is ignored, or the global pause silences a client's own list)", det...)
			}
		}
	}
	r.Floor(rule, "blocked-services-application-sites", n, 2)
}

func c18Shapes(c *Ctx) {
	p, r := c.P, c.R
	// the range test: the function reachable from Weekly.Contains that compares a day range's bounds with a value
	isField := func(v ssa.Value, name string) bool {
		fr, _, ok := core.LoadedField(v)
		return ok && fr.Type == "schedule.dayRange" && fr.Field == name
	}
	ct, offs := c18RangeTest(p)
	if ct == nil || len(offs) == 0 {
		r.Undecided("C18-D4", "dayRange.contains", "-", "anchor not found")
	} else {
		off := offs[0]
		var lower, upper bool
		nCmp := 0
		for _, b := range ct.Blocks {
			for _, in := range b.Instrs {
				bo, ok := in.(*ssa.BinOp)
				if !ok {
					continue
				}
				switch bo.Op {
				case token.LSS, token.LEQ, token.GTR, token.GEQ:
				default:
					continue
				}
				if !isField(bo.X, "start") && !isField(bo.X, "end") && !isField(bo.Y, "start") && !isField(bo.Y, "end") {
					continue
				}
				nCmp++
				isOff := func(v ssa.Value) bool { return core.SameValue(v, off) }
				// start <= x  or  x >= start
				if (bo.Op == token.LEQ && isField(bo.X, "start") && isOff(bo.Y)) || (bo.Op == token.GEQ && isOff(bo.X) && isField(bo.Y, "start")) {
					lower = true
				}
				// x < end  or  end > x
				if (bo.Op == token.LSS && isOff(bo.X) && isField(bo.Y, "end")) || (bo.Op == token.GTR && isField(bo.X, "end") && isOff(bo.Y)) {
					upper = true
				}
			}
		}
		r.Check(lower && upper && nCmp == 2, "C18-D4", "contains:half-open", p.FnPos(ct),
			"the range test is start <= x && x < end", "the range test is no longer the half-open comparison start <= x && x < end (an edge instant is classified wrongly)")
		// result is the conjunction: every `true` leaf needs both
		okConj := true
		for _, b := range ct.Blocks {
			for _, in := range b.Instrs {
				ret, ok := core.AsReturn(in)
				if !ok {
					continue
				}
				for _, l := range core.FlattenPhi(core.Res(ret, 0)) {
					if bv, isC := core.ConstBool(l); isC {
						if bv {
							okConj = false
						}
						continue
					}
					if _, isB := l.(*ssa.BinOp); !isB {
						okConj = false
					}
				}
				if phi, isPhi := core.Res(ret, 0).(*ssa.Phi); isPhi {
					// a && b: phi [false from block testing a, b-value]
					nonConst := 0
					for _, e := range phi.Edges {
						if _, isC := e.(*ssa.Const); !isC {
							nonConst++
						}
					}
					if nonConst != 1 {
						okConj = false
					}
				}
			}
		}
		r.Check(okConj, "C18-D4", "contains:conjunction", p.FnPos(ct), "both comparisons must hold", "the range test is not the conjunction of its two comparisons")
	}

	vf := p.Fn("(schedule.dayRange).validate")
	if vf == nil {
		r.Undecided("C18-D4", "dayRange.validate", "-", "anchor not found")
		return
	}
	pk := p.Pkg("schedule")
	maxDay := int64(-1)
	if pk != nil {
		if cst, ok := pk.Types.Scope().Lookup("maxDayRange").(*types.Const); ok {
			maxDay, _ = constantInt(cst)
		}
	}
	isF := func(v ssa.Value, name string) bool {
		fr, _, ok := core.LoadedField(v)
		return ok && fr.Type == "schedule.dayRange" && fr.Field == name
	}
	isConst := func(v ssa.Value, k int64) bool {
		x, ok := core.ConstInt(v)
		return ok && x == k
	}
	type chk struct {
		name  string
		match func(core.Atom) (bool, bool) // (matched, passEdgeIsAtomTrue)
	}
	checks := []chk{
		{"start-not-negative", func(a core.Atom) (bool, bool) {
			if isF(a.Base, "start") && isConst(a.Other, 0) {
				switch a.Op {
				case token.LSS:
					return true, false
				case token.GEQ:
					return true, true
				}
			}
			return false, false
		}},
		{"end-not-negative", func(a core.Atom) (bool, bool) {
			if isF(a.Base, "end") && isConst(a.Other, 0) {
				switch a.Op {
				case token.LSS:
					return true, false
				case token.GEQ:
					return true, true
				}
			}
			return false, false
		}},
		{"start-before-end", func(a core.Atom) (bool, bool) {
			if isF(a.Base, "start") && isF(a.Other, "end") {
				switch a.Op {
				case token.GEQ:
					return true, false
				case token.LSS:
					return true, true
				}
			}
			if isF(a.Base, "end") && isF(a.Other, "start") {
				switch a.Op {
				case token.LEQ:
					return true, false
				case token.GTR:
					return true, true
				}
			}
			return false, false
		}},
		{"start-below-24h", func(a core.Atom) (bool, bool) {
			if isF(a.Base, "start") && isConst(a.Other, maxDay) {
				switch a.Op {
				case token.GEQ:
					return true, false
				case token.LSS:
					return true, true
				}
			}
			return false, false
		}},
		{"end-at-most-24h", func(a core.Atom) (bool, bool) {
			if isF(a.Base, "end") && isConst(a.Other, maxDay) {
				switch a.Op {
				case token.GTR:
					return true, false
				case token.LEQ:
					return true, true
				}
			}
			return false, false
		}},
	}
	zeroEq, _ := core.CondEdges(vf, func(a core.Atom) (bool, bool) {
		if a.Op == token.EQL || a.Op == token.NEQ {
			if cst, ok := a.Other.(*ssa.Const); ok && cst.Value == nil && core.NamedKey(cst.Type()) == "schedule.dayRange" {
				return true, a.Op == token.EQL
			}
		}
		return false, false
	})
	// the zero range may also be recognised field by field: start == 0 && end == 0
	fieldZero := func(name string) map[core.Edge]bool {
		g, _ := core.CondEdges(vf, func(a core.Atom) (bool, bool) {
			if (a.Op == token.EQL || a.Op == token.NEQ) && isF(a.Base, name) && isConst(a.Other, 0) {
				return true, a.Op == token.EQL
			}
			return false, false
		})
		return g
	}
	startZero, endZero := fieldZero("start"), fieldZero("end")
	succ := func(in ssa.Instruction) bool { return isSuccessReturn(vf, in) }
	for _, ck := range checks {
		g, n := core.CondEdges(vf, ck.match)
		for e := range zeroEq {
			g[e] = true
		}
		off, ns := core.UnguardedSinks(vf, succ, g)
		if len(off) > 0 && len(zeroEq) == 0 && len(startZero) > 0 && len(endZero) > 0 {
			// a path is fine if it passed the check, or both field tests of the zero range
			with := func(extra map[core.Edge]bool) map[core.Edge]bool {
				m := map[core.Edge]bool{}
				for e := range g {
					m[e] = true
				}
				for e := range extra {
					m[e] = true
				}
				return m
			}
			offS, _ := core.UnguardedSinks(vf, succ, with(startZero))
			offE, _ := core.UnguardedSinks(vf, succ, with(endZero))
			off = append(offS, offE...)
		}
		r.Check(n > 0 && ns > 0 && len(off) == 0, "C18-D4", "range-validator:"+ck.name, p.FnPos(vf),
			"a range is accepted only if it is the zero range or passed the "+ck.name+" check",
			"a non-zero range can be accepted without passing the "+ck.name+" check (inverted, negative or over-long ranges get through)", traceOf(p, off)...)
	}
}

// c18RangeTest finds the function, among Weekly.Contains and what it calls in the package, that compares a day
// range's bounds with a value, and the value(s) compared (the offset).  Nil when there is not exactly one such function.
func c18RangeTest(p *core.Prog) (*ssa.Function, []ssa.Value) {
	root := p.Fn("(*schedule.Weekly).Contains")
	if root == nil {
		return nil, nil
	}
	isF := func(v ssa.Value) bool {
		fr, _, ok := core.LoadedField(v)
		return ok && fr.Type == "schedule.dayRange" && (fr.Field == "start" || fr.Field == "end")
	}
	var found *ssa.Function
	var offs []ssa.Value
	fns := []*ssa.Function{}
	for h := range core.StaticReach(root, 3) {
		if core.PkgOf(h) == "schedule" {
			fns = append(fns, h)
		}
	}
	sort.Slice(fns, func(i, j int) bool { return core.FuncKey(fns[i]) < core.FuncKey(fns[j]) })
	for _, h := range fns {
		for _, b := range h.Blocks {
			for _, in := range b.Instrs {
				bo, ok := in.(*ssa.BinOp)
				if !ok {
					continue
				}
				switch bo.Op {
				case token.LSS, token.LEQ, token.GTR, token.GEQ:
				default:
					continue
				}
				var other ssa.Value
				switch {
				case isF(bo.X) && !isF(bo.Y):
					other = bo.Y
				case isF(bo.Y) && !isF(bo.X):
					other = bo.X
				default:
					continue
				}
				if _, isC := other.(*ssa.Const); isC {
					continue
				}
				if found != nil && found != h {
					return nil, nil
				}
				found = h
				offs = append(offs, other)
			}
		}
	}
	return found, offs
}

// c18Contains: D5.
func c18Contains(c *Ctx) {
	p, r := c.P, c.R
	fn := p.Fn("(*schedule.Weekly).Contains")
	if fn == nil {
		r.Undecided("C18-D5", "Weekly.Contains", "-", "anchor not found")
		return
	}
	var isConverted func(v ssa.Value) bool
	isConverted = func(v ssa.Value) bool {
		v = core.ResolveCellLoad(v)
		if prm, isPrm := v.(*ssa.Parameter); isPrm && prm.Parent() != fn {
			// a helper of Contains: every caller must hand it the converted instant
			args := core.ArgsOfParam(prm)
			if len(args) == 0 {
				return false
			}
			for _, a := range args {
				if !isConverted(a) {
					return false
				}
			}
			return true
		}
		call, _, ok := core.CallResult(v)
		if !ok || core.CalleeKey(call.Common()) != "(time.Time).In" {
			return false
		}
		fr, _, ok := core.LoadedField(call.Common().Args[1])
		return ok && fr.Type == "schedule.Weekly" && fr.Field == "location"
	}
	n := 0
	allCalls := core.Calls(fn)
	for h := range core.StaticReach(fn, 2) {
		if h != fn && core.PkgOf(h) == "schedule" && !strings.Contains(core.FuncKey(h), "dayRange") {
			allCalls = append(allCalls, core.Calls(h)...)
		}
	}
	for _, call := range allCalls {
		switch call.Key {
		case "(time.Time).Weekday", "(time.Time).Date", "(time.Time).Sub", "(time.Time).Clock", "(time.Time).Hour", "(time.Time).Minute":
			n++
			r.Check(isConverted(call.Arg(0)), "C18-D5", fmt.Sprintf("in-schedule-zone:%s#%d", strings.TrimPrefix(call.Key, "(time.Time)."), n), p.InstrPos(call.Instr),
				"weekday/date/offset are taken from the instant converted to the schedule's time zone",
				call.Key+" is taken from an instant that was not converted to the schedule's time zone: the weekday (or time of day) is that of the caller's zone")
		case "time.Date":
			// midnight is built in the schedule's location
			last := call.Common.Args[len(call.Common.Args)-1]
			fr, _, ok := core.LoadedField(last)
			r.Check(ok && fr.Type == "schedule.Weekly" && fr.Field == "location", "C18-D5", "midnight-in-schedule-zone", p.InstrPos(call.Instr),
				"local midnight is constructed in the schedule's time zone", "local midnight is constructed in another time zone")
		}
	}
	r.Floor("C18-D5", "time-accessors-in-Contains", n, 2)
	// the offset handed to the range test is the wall-clock reading, not elapsed time since midnight
	nC := 0
	ct, offs := c18RangeTest(p)
	type site struct {
		v  ssa.Value
		at ssa.Instruction
	}
	var sites []site
	if len(offs) > 0 {
		if prm, isPrm := offs[0].(*ssa.Parameter); isPrm && ct != fn {
			idx := -1
			for i, q := range ct.Params {
				if q == prm {
					idx = i
				}
			}
			for _, call := range core.CallsTo(fn, core.FuncKey(ct)) {
				if idx >= 0 && idx < len(call.Common.Args) {
					sites = append(sites, site{call.Common.Args[idx], call.Instr})
				}
			}
		} else if ct == fn {
			if in, ok := offs[0].(ssa.Instruction); ok {
				sites = append(sites, site{offs[0], in})
			}
		}
	}
	for _, st := range sites {
		nC++
		os := core.Origins(st.v, core.ProvOpts{Prog: p, Transparent: map[string]bool{"none": true}, IntoModuleCalls: true, InterprocDepth: 2})
		clock, elapsed := false, false
		for _, o := range os {
			if o.Kind != "call" {
				continue
			}
			switch o.Key {
			case "(time.Time).Clock", "(time.Time).Hour", "(time.Time).Minute":
				clock = true
			case "(time.Time).Sub", "time.Since", "(time.Time).Unix", "(time.Time).UnixNano":
				elapsed = true
			}
		}
		r.Check(clock && !elapsed, "C18-D5", "offset-is-wall-clock", p.InstrPos(st.at),
			"the offset tested against the day range is the wall-clock time of day (Clock) in the schedule's zone",
			"the offset tested against the day range is elapsed time since local midnight (Sub), not the wall-clock time of day: on 23/25-hour DST days ranges are shifted by an hour and a full-day range misses the last local hour")
	}
	r.Floor("C18-D5", "range-test-sites", nC, 1)
	// the day range consulted is days[weekday]
	okIdx := false
	for _, b := range fn.Blocks {
		for _, in := range b.Instrs {
			ia, ok := in.(*ssa.IndexAddr)
			if !ok {
				continue
			}
			if fr, ok := core.FieldOfAddr(ia.X); ok && fr.Type == "schedule.Weekly" && fr.Field == "days" {
				idx := ia.Index
				for {
					if cv, ok := idx.(*ssa.Convert); ok {
						idx = cv.X
						continue
					}
					if ct, ok := idx.(*ssa.ChangeType); ok {
						idx = ct.X
						continue
					}
					break
				}
				okIdx = core.IsCallResult(core.ResolveCellLoad(idx), -1, "(time.Time).Weekday")
			}
		}
	}
	r.Check(okIdx, "C18-D5", "range-selected-by-weekday", p.FnPos(fn), "the day range is selected by the instant's weekday", "the day range is not selected by the instant's weekday")
}

// c18JSONDuration: D6.  Range bounds arrive over the API as JSON numbers of
// milliseconds.  The number is scaled to nanoseconds as a float and only then
// truncated: truncating first would floor sub-millisecond fractions away
// before the whole-minute validation sees them, and an integer multiplication
// would wrap for huge values instead of yielding an out-of-range duration.
func c18JSONDuration(c *Ctx) {
	p, r := c.P, c.R
	fn := p.Fn("(*aghhttp.JSONDuration).UnmarshalJSON")
	if fn == nil {
		r.Undecided("C18-D6", "JSONDuration.UnmarshalJSON", "-", "anchor not found")
		return
	}
	n, ok := 0, true
	why := ""
	for _, b := range fn.Blocks {
		for _, in := range b.Instrs {
			cv, isC := in.(*ssa.Convert)
			if !isC {
				continue
			}
			from, f1 := cv.X.Type().Underlying().(*types.Basic)
			to, f2 := cv.Type().Underlying().(*types.Basic)
			if !f1 || !f2 || from.Info()&types.IsFloat == 0 || to.Info()&types.IsInteger == 0 {
				continue
			}
			n++
			mul, isMul := cv.X.(*ssa.BinOp)
			if !isMul || mul.Op != token.MUL {
				ok, why = false, "the parsed number is truncated to an integer before it is scaled to nanoseconds"
				continue
			}
			_, c1 := mul.X.(*ssa.Const)
			_, c2 := mul.Y.(*ssa.Const)
			if !c1 && !c2 {
				ok, why = false, "the float is not scaled by a constant before truncation"
			}
		}
	}
	// no integer multiplication of the truncated value afterwards
	for _, b := range fn.Blocks {
		for _, in := range b.Instrs {
			if bo, isB := in.(*ssa.BinOp); isB && bo.Op == token.MUL {
				if bt, isBasic := bo.Type().Underlying().(*types.Basic); isBasic && bt.Info()&types.IsInteger != 0 {
					ok, why = false, "the duration is scaled with an integer multiplication, which wraps around for large numbers"
				}
			}
		}
	}
	r.Check(n == 1 && ok, "C18-D6", "json-duration:scaled-before-truncation", p.FnPos(fn),
		"a JSON duration is scaled to nanoseconds in floating point and truncated once", "JSON durations lose precision or wrap before validation: "+why+" (ranges that are not whole minutes, or far longer than a day, pass the validator)")
}

// c18AllValidated decides the whole-array form `w.days = A`: the store is
// reached only through the normal exit of a range loop over all of A's
// elements, every iteration of which goes on only on the edge where
// validate(A[i]) returned nil.
func c18AllValidated(fn *ssa.Function, st *ssa.Store) (bool, string) {
	arr := st.Val
	at, ok := arr.Type().Underlying().(*types.Array)
	if !ok {
		return false, "the stored value is not an array value"
	}
	for _, h := range fn.Blocks {
		if !strings.HasPrefix(h.Comment, "rangeindex.loop") || len(h.Succs) != 2 {
			continue
		}
		iff, isIf := h.Instrs[len(h.Instrs)-1].(*ssa.If)
		if !isIf {
			continue
		}
		a := core.Decompose(iff.Cond)
		if k, isK := core.ConstInt(a.Other); a.Op != token.LSS || a.Neg || !isK || k != at.Len() {
			continue
		}
		idx := a.Base
		body := loopBody(h)
		// the store lies behind the loop's normal exit
		exit := map[core.Edge]bool{{From: h, Succ: 1}: true}
		if off, _ := core.UnguardedSinksLocal(fn, func(x ssa.Instruction) bool { return x == ssa.Instruction(st) }, exit); len(off) > 0 {
			continue
		}
		// every iteration continues only on validate(A[idx]) == nil
		nilEdges, n := core.CondEdges(fn, func(at core.Atom) (bool, bool) {
			if (at.Op == token.EQL || at.Op == token.NEQ) && core.IsNilConst(at.Other) {
				if call, _, ok := core.CallResult(at.Base); ok && core.CalleeKey(call.Common()) == "(*schedule.Weekly).validate" {
					if ix, isIx := call.Common().Args[1].(*ssa.Index); isIx && ix.X == arr && ix.Index == idx {
						return true, at.Op == token.EQL
					}
				}
			}
			return false, false
		})
		if n == 0 {
			continue
		}
		for b := range body {
			for i, s := range b.Succs {
				if !body[s] {
					nilEdges[core.Edge{From: b, Succ: i}] = true // leaving the loop is not continuing it
				}
			}
		}
		again, _, _ := core.Reach(core.Query{From: []core.Point{{Block: h.Succs[0], Idx: 0}}, Target: func(x ssa.Instruction) bool { return x.Block() == h }, AvoidEdges: nilEdges})
		if again {
			return false, "an iteration of the validating loop can go on without validate having returned nil for its element"
		}
		return true, ""
	}
	return false, "no loop over all elements of the stored array validates them before the store"
}
