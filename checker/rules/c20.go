package rules

import (
	"fmt"
	"go/token"
	"go/types"
	"sort"
	"strings"

	"aghverif/core"

	"golang.org/x/tools/go/ssa"
)

func init() {
	register(&Rule{
		ID:  "C20",
		Run: runC20,
		Explanation: "Reverse reading and timestamp seek of query-log files, structural part. Decided: (D1) termination ('without ever looping'): every loop in the file reader and the multi-file reader has a syntactic ranking argument — a range loop, a counted loop stepping towards a loop-invariant bound, the binary search's budget counter that is incremented and tested against a constant on every cycle, or the current-file index decremented on every non-returning iteration; " +
			"(D2) seek result classes: the probe validator reports too-early, not-found and too-late on its three index conditions and success otherwise; the binary search uses a probe line only after validation; the multi-file seek maps too-early to the next (older) file, too-late to the start of the newest file — and only too-late —, not-found to an error, and success to that file becoming the current one. " +
			"(D3) window constants: the chunk buffer is re-read whenever fewer bytes than the 16 KiB entry limit lie between its start and the read position (unless it starts at the file start), the chunk is at least that large and the same constant is used for the seek offset, the bound test and the allocation; the probe window reaches one entry limit back and is allocated one entry limit beyond — necessary for a line shorter than the limit to lie completely inside the buffer. " +
			"(D4) when the multi-file reader shifts to the older file it positions that file at its start before reading from it. " +
			"(D5) the buffered window belongs to a position: every function that moves qLogFile.position other than the sequential reader (which moves it to the line readNextLine just returned) empties the buffer first. " +
			"(D6) where the file reader looks for a byte with an Index-style library search, the result is tested as 'not negative' (a hit at offset 0 is a hit). " +
			"(D2, cont.) every turn of the multi-file seek's loop runs that file's own timestamp search. " +
			"(D3, cont.) the chunk start computed as position minus chunk size is final: nothing moves it afterwards (the window never exceeds the buffer). " +
			"Not decided: 'every line exactly once, in reverse order' and the exact position after a seek — arithmetic over runtime offsets.",
		RuleText:    "Natural loops from SSA dominators; four variant idioms; CFG edge guards for the result classes.",
		Assumptions: []string{"os.File Read/Seek terminate"},
		Trusted:     commonTrusted,
	})
}

func runC20(c *Ctx) {
	p, r := c.P, c.R
	nLoops := 0
	for _, fn := range p.ModFnsIn("querylog") {
		if fn.Blocks == nil {
			continue
		}
		pos := p.Fset.Position(fn.Pos()).Filename
		if fn.Parent() != nil {
			pos = p.Fset.Position(fn.Parent().Pos()).Filename
		}
		if !strings.HasSuffix(pos, "qlogfile.go") && !strings.HasSuffix(pos, "qlogreader.go") {
			continue
		}
		for _, h := range loopHeaders(fn) {
			nLoops++
			kind, ok := loopVariant(fn, h)
			firstPos := "-"
			for _, in := range h.Instrs {
				if in.Pos().IsValid() {
					firstPos = p.Pos(in.Pos())
					break
				}
			}
			if firstPos == "-" {
				firstPos = p.FnPos(fn)
			}
			r.Check(ok, "C20-D1", fmt.Sprintf("loop-variant:%s:b%d", core.FuncKey(fn), h.Index), firstPos,
				"terminates: "+kind, "no ranking argument recognised for this loop (range loop, counted loop, budget counter, decremented field): a seek or read could loop forever")
		}
	}
	r.Floor("C20-D1", "loops-in-file-readers", nLoops, 4)

	// D2: validateQLogLineIdx
	vf := p.Fn("(*querylog.qLogFile).validateQLogLineIdx")
	if vf == nil || len(vf.Params) != 5 {
		r.Undecided("C20-D2", "validateQLogLineIdx", "-", "anchor not found")
	} else {
		lineIdx, last, fSize := vf.Params[1], vf.Params[2], vf.Params[4]
		eq := func(a, b ssa.Value, wantEq bool) map[core.Edge]bool {
			g, _ := core.CondEdges(vf, func(at core.Atom) (bool, bool) {
				if at.Op != token.EQL && at.Op != token.NEQ {
					return false, false
				}
				if (at.Base == a && at.Other == b) || (at.Base == b && at.Other == a) {
					return true, (at.Op == token.EQL) == wantEq
				}
				return false, false
			})
			return g
		}
		eqZero := func(wantEq bool) map[core.Edge]bool {
			g, _ := core.CondEdges(vf, func(at core.Atom) (bool, bool) {
				if (at.Op == token.EQL || at.Op == token.NEQ) && at.Base == ssa.Value(lineIdx) {
					if k, ok := core.ConstInt(at.Other); ok && k == 0 {
						return true, (at.Op == token.EQL) == wantEq
					}
				}
				return false, false
			})
			return g
		}
		class := func(in ssa.Instruction) string {
			ret, ok := core.AsReturn(in)
			if !ok || len(ret.Results) != 1 {
				return ""
			}
			v := core.ResolveLocalLoad(core.Res(ret, 0))
			if core.IsNilConst(v) {
				return "ok"
			}
			os := core.Origins(v, core.ProvOpts{Prog: p, Transparent: map[string]bool{"fmt.Errorf": true}})
			for _, o := range os {
				if cl := errClass(p, o); cl != "" {
					return cl
				}
			}
			return "other"
		}
		need := map[string][]map[core.Edge]bool{
			"too-early": {eq(lineIdx, last, true), eqZero(true)},
			"not-found": {eq(lineIdx, last, true), eqZero(false)},
			"too-late":  {eq(lineIdx, fSize, true), eq(lineIdx, last, false)},
			"ok":        {eq(lineIdx, last, false), eq(lineIdx, fSize, false)},
		}
		seen := map[string]bool{}
		for _, b := range vf.Blocks {
			for _, in := range b.Instrs {
				cl := class(in)
				if cl == "" {
					continue
				}
				seen[cl] = true
				guards, known := need[cl]
				if !known {
					r.Fail("C20-D2", "probe-class:"+cl, p.InstrPos(in), "the probe validator returns an unclassified error")
					continue
				}
				okAll := true
				for _, g := range guards {
					if len(g) == 0 {
						okAll = false
						continue
					}
					off, _ := core.UnguardedSinks(vf, func(x ssa.Instruction) bool { return x == in }, g)
					if len(off) > 0 {
						okAll = false
					}
				}
				r.Check(okAll, "C20-D2", "probe-class:"+cl, p.InstrPos(in),
					"'"+cl+"' is reported exactly on its index condition", "'"+cl+"' can be reported on a path that does not satisfy its index condition (repeated probe / start of file / end of file)")
			}
		}
		for _, cl := range []string{"too-early", "not-found", "too-late", "ok"} {
			if !seen[cl] {
				r.Fail("C20-D2", "probe-class-missing:"+cl, p.FnPos(vf), "the probe validator no longer produces the '"+cl+"' outcome")
			}
		}
	}
	// binary search validates a probe before using it
	st := p.Fn("(*querylog.qLogFile).seekTS")
	if st == nil {
		r.Undecided("C20-D2", "qLogFile.seekTS", "-", "anchor not found")
	} else {
		g, n := core.CondEdges(st, func(at core.Atom) (bool, bool) {
			if (at.Op == token.EQL || at.Op == token.NEQ) && core.IsNilConst(at.Other) && core.IsCallResult(core.ResolveCellLoad(at.Base), -1, "(*querylog.qLogFile).validateQLogLineIdx") {
				return true, at.Op == token.EQL
			}
			return false, false
		})
		off, ns := core.UnguardedSinks(st, core.IsCallTo(false, "querylog.readQLogTimestamp"), g)
		r.Check(n > 0 && ns > 0 && len(off) == 0, "C20-D2", "probe-validated-before-use", p.FnPos(st),
			"a probe line's timestamp is used only after the probe was validated", "a probe line can be used without validation (the repeated-probe guard is what ends the search on an absent timestamp)", traceOf(p, off)...)
		// the position is set only on the exact-match exit
		gEq, nEq := core.CondEdges(st, func(at core.Atom) (bool, bool) {
			if at.Op == token.EQL || at.Op == token.NEQ {
				if core.IsCallResult(at.Base, -1, "querylog.readQLogTimestamp") || core.IsCallResult(at.Other, -1, "querylog.readQLogTimestamp") {
					if _, isC := at.Other.(*ssa.Const); !isC {
						return true, at.Op == token.EQL
					}
				}
			}
			return false, false
		})
		offP, nsP := core.UnguardedSinks(st, func(in ssa.Instruction) bool {
			s2, ok := in.(*ssa.Store)
			if !ok {
				return false
			}
			fr, ok := core.FieldOfAddr(s2.Addr)
			return ok && fr.Type == "querylog.qLogFile" && fr.Field == "position"
		}, gEq)
		r.Check(nEq > 0 && nsP > 0 && len(offP) == 0, "C20-D2", "position-only-on-exact-match", p.FnPos(st),
			"the reader is positioned only when a probe's timestamp equals the target", "the reader can be positioned although no probe matched the target timestamp", traceOf(p, offP)...)
	}
	// multi-file mapping
	// the multi-file seek is the function reachable from (*qLogReader).seekTS (itself or a helper it delegates to)
	// that asks the single files
	var rs *ssa.Function
	if top := p.Fn("(*querylog.qLogReader).seekTS"); top != nil {
		seen := map[*ssa.Function]bool{}
		var find func(fn *ssa.Function, depth int)
		find = func(fn *ssa.Function, depth int) {
			if fn == nil || seen[fn] || depth > 2 || rs != nil || fn.Blocks == nil || core.PkgOf(fn) != "querylog" {
				return
			}
			seen[fn] = true
			if len(core.CallsTo(fn, "(*querylog.qLogFile).seekTS")) > 0 {
				rs = fn
				return
			}
			for _, call := range core.Calls(fn) {
				find(core.Callee(call.Common), depth+1)
			}
		}
		find(top, 0)
	}
	if rs == nil {
		r.Undecided("C20-D2", "qLogReader.seekTS", "-", "anchor not found")
		return
	}
	isErr := func(name string, want bool) map[core.Edge]bool {
		g, _ := core.CondEdges(rs, func(at core.Atom) (bool, bool) {
			if at.Op != token.ILLEGAL {
				return false, false
			}
			call, _, ok := core.CallResult(at.Base)
			if !ok || core.CalleeKey(call.Common()) != "github.com/AdguardTeam/golibs/errors.Is" {
				return false, false
			}
			os := core.Origins(call.Common().Args[1], core.ProvOpts{Prog: p})
			for _, o := range os {
				if errClass(p, o) == name {
					return true, want
				}
			}
			return false, false
		})
		return g
	}
	late := isErr("too-late", true)
	off, ns := core.UnguardedSinks(rs, core.IsCallTo(false, "(*querylog.qLogReader).SeekStart"), late)
	r.Check(len(late) > 0 && ns > 0 && len(off) == 0, "C20-D2", "seek-start-only-when-too-late", p.FnPos(rs),
		"the reader jumps to the start of the newest file only when a file reported the target as too late", "the reader can jump to the start of the newest file without a file having reported 'too late' (a seek into the rotated file is mis-positioned)", traceOf(p, off)...)
	// too-early continues with the next file: from that edge no return is reachable without passing the loop header
	early := isErr("too-early", true)
	var starts []core.Point
	for e := range early {
		starts = append(starts, core.AfterEdge(e))
	}
	hdrs := loopHeaders(rs)
	leaves := true
	if len(starts) > 0 && len(hdrs) > 0 {
		leaves, _, _ = core.Reach(core.Query{From: starts, Target: core.IsReturn, Avoid: func(in ssa.Instruction) bool { return in.Block() == hdrs[0] }})
	}
	r.Check(len(early) > 0 && !leaves, "C20-D2", "too-early-tries-older-file", p.FnPos(rs), "'too early' in one file continues with the next older file", "'too early' no longer continues with the next older file")
	// not-found returns an error
	nf := isErr("not-found", true)
	var st2 []core.Point
	for e := range nf {
		st2 = append(st2, core.AfterEdge(e))
	}
	okNF := true
	if len(st2) > 0 {
		okNF, _, _ = core.Reach(core.Query{From: st2, Target: func(in ssa.Instruction) bool { return isSuccessReturn(rs, in) }})
	}
	r.Check(len(nf) > 0 && !okNF, "C20-D2", "not-found-is-an-error", p.FnPos(rs), "'not found' is reported as an error", "'not found' can be reported as success")
	// success sets currentFile to the file's index
	gOK, nOK := core.CondEdges(rs, func(at core.Atom) (bool, bool) {
		if (at.Op == token.EQL || at.Op == token.NEQ) && core.IsNilConst(at.Other) && core.IsCallResult(core.ResolveCellLoad(at.Base), 2, "(*querylog.qLogFile).seekTS") {
			return true, at.Op == token.EQL
		}
		return false, false
	})
	offC, nsC := core.UnguardedSinksLocal(rs, func(in ssa.Instruction) bool {
		s2, ok := in.(*ssa.Store)
		if !ok {
			return false
		}
		fr, ok := core.FieldOfAddr(s2.Addr)
		return ok && fr.Type == "querylog.qLogReader" && fr.Field == "currentFile"
	}, gOK)
	r.Check(nOK > 0 && nsC > 0 && len(offC) == 0, "C20-D2", "found-file-becomes-current", p.FnPos(rs), "the file in which the timestamp was found becomes the current file", "the current file is changed although the timestamp was not found in it", traceOf(p, offC)...)
	c20Windows(c)
	c20Shift(c)
	c20BufferFollowsPosition(c)
	c20IndexTests(c)
	c20EveryFileSearched(c)
}

// c20EveryFileSearched: D2 (cont.) — the multi-file seek moves on to an older
// file only on the verdict of the file's own binary search: every turn of its
// loop over the files passes that file's seekTS.  A shortcut that decides from
// elsewhere that "the timestamp cannot be in this file" skips the entries the
// search would have found (its boundary cases are the search's business).
func c20EveryFileSearched(c *Ctx) {
	p, r := c.P, c.R
	var rs *ssa.Function
	for _, k := range []string{"(*querylog.qLogReader).seekTSFound", "(*querylog.qLogReader).seekTS"} {
		if f := p.Fn(k); f != nil && len(core.CallsTo(f, "(*querylog.qLogFile).seekTS")) > 0 {
			rs = f
			break
		}
	}
	if rs == nil {
		r.Undecided("C20-D2", "multi-file-seek-loop", "-", "anchor not found")
		return
	}
	isSeek := core.IsCallTo(false, "(*querylog.qLogFile).seekTS")
	n := 0
	okAll := true
	var tr []*ssa.BasicBlock
	for _, h := range loopHeaders(rs) {
		body := loopBody(h)
		has := false
		for b := range body {
			for _, in := range b.Instrs {
				if isSeek(in) {
					has = true
				}
			}
		}
		if !has {
			continue
		}
		n++
		if ok, t := everyCyclePasses(h, body, isSeek); !ok {
			okAll = false
			tr = t
		}
	}
	r.Check(n > 0 && okAll, "C20-D2", "every-file-is-searched-by-its-own-seek", p.FnPos(rs),
		"every turn of the loop over the log files runs that file's own timestamp search",
		"the loop over the log files can move on to the older file without having run the file's own timestamp search: an entry the search would find (the oldest entry of a file, say) is reported as not found", p.TraceString(tr))
}

// c20IndexTests: D6 — a line terminator can sit at the very position a search
// starts from (a probe offset that lands on the '\n' of the probed line): where
// the file reader looks for a byte with an Index-style library search, "found"
// means "not negative"; a test that excludes offset 0 drops exactly that case
// and the probe then returns the line glued to everything behind it.
func c20IndexTests(c *Ctx) {
	p, r := c.P, c.R
	isIndex := func(k string) bool {
		switch k {
		case "bytes.IndexByte", "bytes.LastIndexByte", "bytes.Index", "bytes.LastIndex", "bytes.IndexFunc", "bytes.IndexAny", "bytes.IndexRune",
			"strings.IndexByte", "strings.LastIndexByte", "strings.Index", "strings.LastIndex", "strings.IndexFunc", "strings.IndexAny", "strings.IndexRune",
			"slices.Index", "slices.IndexFunc":
			return true
		}
		return strings.HasPrefix(k, "slices.Index[") || strings.HasPrefix(k, "slices.IndexFunc[")
	}
	n := 0
	var bad []string
	for _, fn := range p.ModFnsIn("querylog") {
		if !strings.Contains(core.FuncKey(fn), "qLogFile") && !strings.Contains(core.FuncKey(fn), "qLogReader") {
			continue
		}
		for _, call := range core.Calls(fn) {
			if !isIndex(call.Key) {
				continue
			}
			v, _ := call.Instr.(ssa.Value)
			if v == nil {
				continue
			}
			// comparisons of the result (through integer conversions) with a constant
			var visit func(x ssa.Value, d int)
			visit = func(x ssa.Value, d int) {
				for _, u := range core.Users(x) {
					switch y := u.(type) {
					case *ssa.Convert:
						if d < 3 {
							visit(y, d+1)
						}
					case *ssa.BinOp:
						op, other := y.Op, y.Y
						if y.Y == x {
							other = y.X
							op = flipCmp(op)
						}
						k, isK := core.ConstInt(other)
						if !isK {
							continue
						}
						switch op {
						case token.EQL, token.NEQ, token.LSS, token.LEQ, token.GTR, token.GEQ:
						default:
							continue
						}
						n++
						ok := (k == 0 && (op == token.GEQ || op == token.LSS)) || (k == -1 && (op == token.EQL || op == token.NEQ || op == token.GTR || op == token.LEQ))
						if !ok {
							bad = append(bad, fmt.Sprintf("%s: result of %s tested with %s %d", p.InstrPos(y), call.Key, op, k))
						}
					}
				}
			}
			visit(v, 0)
		}
	}
	r.Info["C20-D6_index_tests_examined"] = n
	sort.Strings(bad)
	r.Check(len(bad) == 0, "C20-D6", "found-means-not-negative", "-",
		"every test of a byte/substring search result in the file reader treats offset 0 as found",
		"a search result in the file reader is tested in a way that takes a hit at offset 0 for 'not found': a probe or read that starts exactly on a line terminator returns the wrong line boundaries", bad...)
}

func flipCmp(op token.Token) token.Token {
	switch op {
	case token.LSS:
		return token.GTR
	case token.LEQ:
		return token.GEQ
	case token.GTR:
		return token.LSS
	case token.GEQ:
		return token.LEQ
	}
	return op
}

// c20Sequential: the writers of qLogFile.position that move it line by line
// inside (or just below) the buffered window, where readNextLine itself
// re-reads the window; every other writer jumps and must drop the window.
var c20Sequential = map[string]string{
	"(*querylog.qLogFile).ReadNext": "moves to the line before the one readNextLine just returned (or to 0 at the start of the file)",
}

// c20BufferFollowsPosition: D5 — the buffered window belongs to a position; a
// function that moves the position anywhere else (a seek) empties the buffer
// first, otherwise the next read indexes the old window with the new position.
func c20BufferFollowsPosition(c *Ctx) {
	p, r := c.P, c.R
	isPosStore := func(in ssa.Instruction) bool {
		st, ok := in.(*ssa.Store)
		if !ok {
			return false
		}
		fr, ok := core.FieldOfAddr(st.Addr)
		return ok && fr.Type == "querylog.qLogFile" && fr.Field == "position"
	}
	isBufReset := func(in ssa.Instruction) bool {
		st, ok := in.(*ssa.Store)
		if !ok {
			return false
		}
		fr, ok := core.FieldOfAddr(st.Addr)
		return ok && fr.Type == "querylog.qLogFile" && fr.Field == "buffer" && core.IsNilConst(st.Val)
	}
	n := 0
	for _, fn := range p.ModFnsIn("querylog") {
		if fn.Blocks == nil {
			continue
		}
		has := false
		for _, b := range fn.Blocks {
			for _, in := range b.Instrs {
				if isPosStore(in) {
					has = true
				}
			}
		}
		if !has {
			continue
		}
		n++
		owners, okOwn := p.Owners(fn)
		seq := okOwn
		for _, o := range owners {
			if _, isSeq := c20Sequential[core.FuncKey(o)]; !isSeq {
				seq = false
			}
		}
		fk := core.FuncKey(fn)
		if seq {
			// sequential reader: the new position comes from the line readNextLine returned, or is the start of the file
			okAll := true
			for _, b := range fn.Blocks {
				for _, in := range b.Instrs {
					if !isPosStore(in) {
						continue
					}
					st := in.(*ssa.Store)
					for _, o := range core.Origins(st.Val, core.ProvOpts{Prog: p}) {
						switch {
						case o.Kind == "const":
						case o.Kind == "call" && o.Key == "(*querylog.qLogFile).readNextLine":
						default:
							okAll = false
						}
					}
				}
			}
			r.Check(okAll, "C20-D5", "sequential-position:"+fk, p.FnPos(fn),
				"the sequential reader moves the position only to the line readNextLine returned or to the start of the file",
				fk+" is listed as a sequential reader but moves the position somewhere readNextLine did not report: the buffered window no longer belongs to the position")
			continue
		}
		found, tr, _ := core.Reach(core.Query{From: []core.Point{core.Entry(fn)}, Target: isPosStore, Avoid: isBufReset})
		r.Check(!found, "C20-D5", "seek-drops-buffered-window:"+fk, p.FnPos(fn),
			"the buffered window is emptied before the position is moved",
			fk+" moves the read position without emptying the buffered window first: the next read indexes the old window with the new position (wrong line, or an index out of range)", p.TraceString(tr))
	}
	r.Floor("C20-D5", "position-writers", n, 3)
}

// c20Windows: D3.
func c20Windows(c *Ctx) {
	p, r := c.P, c.R
	const limit = 16 * 1024 // the entry limit of the property statement
	posConsts := func(fn *ssa.Function) (gt, sub []int64, mk []int64, phiConsts []int64) {
		// the position: the one value that is both compared with a constant and reduced by a constant
		var pos ssa.Value
		for _, b := range fn.Blocks {
			for _, in := range b.Instrs {
				x, ok := in.(*ssa.BinOp)
				if !ok || x.Op != token.SUB {
					continue
				}
				if _, isC := x.X.(*ssa.Const); isC {
					continue
				}
				if k, isC := core.ConstInt(x.Y); !isC || k <= 1 {
					continue
				}
				if pos != nil && pos != x.X {
					return // two candidates: nothing is reported as found, which fails the rule
				}
				pos = x.X
			}
		}
		if pos == nil {
			return
		}
		for _, b := range fn.Blocks {
			for _, in := range b.Instrs {
				switch x := in.(type) {
				case *ssa.BinOp:
					if x.X != ssa.Value(pos) {
						continue
					}
					if k, ok := core.ConstInt(x.Y); ok {
						switch x.Op {
						case token.GTR, token.GEQ:
							gt = append(gt, k)
						case token.SUB:
							sub = append(sub, k)
							// `max(position-K, 0)` is the bound test and the offset in one
							for _, u := range core.Users(x) {
								if mc, isCall := u.(*ssa.Call); isCall {
									if bi, isB := mc.Call.Value.(*ssa.Builtin); isB && bi.Name() == "max" && len(mc.Call.Args) == 2 {
										for _, a := range mc.Call.Args {
											if z, isC := core.ConstInt(a); isC && z == 0 {
												gt = append(gt, k)
											}
										}
									}
								}
							}
						}
					}
				case *ssa.MakeSlice:
					if k, ok := core.ConstInt(x.Len); ok {
						mk = append(mk, k)
					}
				case *ssa.Alloc:
					// make([]byte, constant) is an array allocation in SSA
					if pt, ok := x.Type().Underlying().(*types.Pointer); ok {
						if at, ok := pt.Elem().Underlying().(*types.Array); ok {
							if bt, ok := at.Elem().Underlying().(*types.Basic); ok && bt.Kind() == types.Uint8 && x.Comment == "makeslice" {
								mk = append(mk, at.Len())
							}
						}
					}
				case *ssa.Phi:
					// the position relative to the window: the position itself, or a constant
					rel := false
					for _, e := range x.Edges {
						if e == pos {
							rel = true
						}
					}
					for _, e := range x.Edges {
						if k, ok := core.ConstInt(e); ok && k > 1 && rel {
							phiConsts = append(phiConsts, k)
						}
					}
				}
			}
		}
		return
	}
	rn := p.Fn("(*querylog.qLogFile).readNextLine")
	if rn == nil || len(rn.Params) < 2 {
		r.Undecided("C20-D3", "readNextLine", "-", "anchor not found")
	} else {
		pos := rn.Params[1]
		var ks []int64
		edges, n := core.CondEdges(rn, func(at core.Atom) (bool, bool) {
			sub, ok := at.Base.(*ssa.BinOp)
			if !ok || sub.Op != token.SUB || sub.X != ssa.Value(pos) {
				return false, false
			}
			if fr, _, ok := core.LoadedField(sub.Y); !ok || fr.Field != "bufferStart" {
				return false, false
			}
			k, ok := core.ConstInt(at.Other)
			if !ok {
				return false, false
			}
			switch at.Op {
			case token.LSS:
				ks = append(ks, k)
				return true, true
			case token.LEQ:
				ks = append(ks, k+1)
				return true, true
			case token.GEQ:
				ks = append(ks, k)
				return true, false
			case token.GTR:
				ks = append(ks, k+1)
				return true, false
			}
			return false, false
		})
		okK := n == 1 && len(ks) == 1 && ks[0] >= limit
		// on that edge the buffer is re-initialised unless it already starts at the file start
		reinit := false
		for e := range edges {
			zero, _ := core.CondEdges(rn, func(at core.Atom) (bool, bool) {
				if fr, _, ok := core.LoadedField(at.Base); ok && fr.Field == "bufferStart" && (at.Op == token.EQL || at.Op == token.NEQ) {
					if k, ok := core.ConstInt(at.Other); ok && k == 0 {
						return true, at.Op == token.EQL
					}
				}
				return false, false
			})
			isInit := core.IsCallTo(false, "(*querylog.qLogFile).initBuffer")
			// every path from the edge reaches initBuffer before it touches the buffer, except through bufferStart == 0
			found, _, _ := core.Reach(core.Query{From: []core.Point{core.AfterEdge(e)}, Target: func(in ssa.Instruction) bool {
				if ia, ok := in.(*ssa.IndexAddr); ok {
					if fr, _, ok := core.LoadedField(ia.X); ok && fr.Field == "buffer" {
						return true
					}
				}
				return false
			}, Avoid: isInit, AvoidEdges: zero})
			reinit = !found
		}
		r.Check(okK && reinit, "C20-D3", "reread-threshold-covers-entry-limit", p.FnPos(rn),
			"the chunk is re-read whenever fewer than 16 KiB lie between the buffer start and the read position: a line below the entry limit is always completely buffered",
			fmt.Sprintf("the chunk re-read threshold is %v bytes (need >= %d) or the re-read is skipped: a longer line crossing the chunk start is returned in two fragments", ks, limit))
	}
	ib := p.Fn("(*querylog.qLogFile).initBuffer")
	if ib == nil {
		r.Undecided("C20-D3", "initBuffer", "-", "anchor not found")
	} else {
		gt, sub, mk, _ := posConsts(ib)
		ok := len(gt) == 1 && len(sub) == 1 && len(mk) == 1 && gt[0] == sub[0] && sub[0] == mk[0] && mk[0] >= 2*limit
		r.Check(ok, "C20-D3", "chunk-constants-agree", p.FnPos(ib), "the chunk bound test, seek offset and allocation use one size of at least two entry limits",
			fmt.Sprintf("the chunk bound test / seek offset / allocation sizes %v / %v / %v disagree or are below two entry limits", gt, sub, mk))
		// the window start computed from the position is final: once it was set to position - chunk nothing moves
		// it again (a start moved down afterwards makes the window longer than the buffer that is allocated for it)
		isStartStore := func(in ssa.Instruction) bool {
			st, isSt := in.(*ssa.Store)
			if !isSt {
				return false
			}
			fr, isF := core.FieldOfAddr(st.Addr)
			return isF && fr.Type == "querylog.qLogFile" && fr.Field == "bufferStart"
		}
		var from []core.Point
		for _, b := range ib.Blocks {
			for i, in := range b.Instrs {
				if !isStartStore(in) {
					continue
				}
				isSub := func(v ssa.Value) bool {
					bo, isBO := v.(*ssa.BinOp)
					return isBO && bo.Op == token.SUB
				}
				val := in.(*ssa.Store).Val
				computed := isSub(val)
				if mc, isCall := val.(*ssa.Call); isCall { // max(position-chunk, 0)
					if bi, isB := mc.Call.Value.(*ssa.Builtin); isB && bi.Name() == "max" {
						for _, a := range mc.Call.Args {
							if isSub(a) {
								computed = true
							}
						}
					}
				}
				if computed {
					from = append(from, core.Point{Block: b, Idx: i + 1})
				}
			}
		}
		moved := false
		if len(from) > 0 {
			moved, _, _ = core.Reach(core.Query{From: from, Target: isStartStore})
		}
		r.Check(len(from) > 0 && !moved, "C20-D3", "window-start-final", p.FnPos(ib),
			"the chunk start computed as position minus the chunk size is not changed afterwards",
			"the chunk start is changed after it was computed from the position: the window [start, position) can then be longer than the buffer allocated for it (index out of range, or bytes missing, for positions just above the chunk size)")
	}
	rp := p.Fn("(*querylog.qLogFile).readProbeLine")
	if rp == nil {
		r.Undecided("C20-D3", "readProbeLine", "-", "anchor not found")
	} else {
		gt, sub, mk, ph := posConsts(rp)
		ok := len(gt) == 1 && len(sub) == 1 && len(mk) == 1 && len(ph) >= 1 && gt[0] == sub[0] && gt[0] >= limit && mk[0] >= gt[0]+limit
		for _, k := range ph {
			if len(gt) == 0 || k != gt[0] {
				ok = false
			}
		}
		r.Check(ok, "C20-D3", "probe-window-covers-entry-limit", p.FnPos(rp), "the probe window starts one entry limit before the probed position and is allocated one entry limit beyond it",
			fmt.Sprintf("the probe window constants (bound %v, offset %v, relative position %v, allocation %v) do not cover a line of the entry limit around the probed position", gt, sub, ph, mk))
	}
}

// errClass maps a provenance leaf to one of the seek error classes by the
// value of the package's error constants.
func errClass(p *core.Prog, o core.Origin) string {
	if o.Kind != "const" {
		return ""
	}
	pk := p.Pkg("querylog")
	if pk == nil {
		return ""
	}
	for name, cl := range map[string]string{"errTSTooEarly": "too-early", "errTSTooLate": "too-late", "errTSNotFound": "not-found"} {
		if cst, ok := pk.Types.Scope().Lookup(name).(*types.Const); ok && cst.Val().ExactString() == o.Key {
			return cl
		}
	}
	return ""
}

// c20Shift: D4.  When the multi-file reader runs off the oldest line of a file
// it continues with the next older file from that file's start.  A previous
// seek may have left the older file positioned somewhere in its middle, so the
// shift itself must position it: between the decrement of the current-file
// index and the next read of a line lies a SeekStart of the file.
func c20Shift(c *Ctx) {
	p, r := c.P, c.R
	fn := p.Fn("(*querylog.qLogReader).ReadNext")
	if fn == nil {
		r.Undecided("C20-D4", "qLogReader.ReadNext", "-", "anchor not found")
		return
	}
	var decs []ssa.Instruction
	for _, b := range fn.Blocks {
		for _, in := range b.Instrs {
			st, ok := in.(*ssa.Store)
			if !ok {
				continue
			}
			if fr, ok := core.FieldOfAddr(st.Addr); ok && fr.Type == "querylog.qLogReader" && fr.Field == "currentFile" {
				if bo, ok := st.Val.(*ssa.BinOp); ok && bo.Op == token.SUB {
					decs = append(decs, in)
				}
			}
		}
	}
	if len(decs) == 0 {
		r.Undecided("C20-D4", "shift-to-older-file", p.FnPos(fn), "the shift to the older file (decrement of currentFile) was not found")
		return
	}
	isRead := core.IsCallTo(false, "(*querylog.qLogFile).ReadNext")
	isSeek := core.IsCallTo(false, "(*querylog.qLogFile).SeekStart")
	bad := false
	var det []string
	for _, d := range decs {
		pt := core.PointOf(d)
		pt.Idx++
		if found, tr, _ := core.Reach(core.Query{From: []core.Point{pt}, Target: isRead, Avoid: isSeek}); found {
			bad = true
			det = append(det, p.TraceString(tr))
		}
	}
	r.Check(!bad, "C20-D4", "older-file-read-from-its-start", p.FnPos(fn),
		"after shifting to the older file the reader positions it at its start before reading from it",
		"after shifting to the older file the reader reads on from wherever an earlier seek left that file: lines between that position and the end of the older file are skipped", det...)
}
