package rules

import (
	"fmt"
	"go/token"
	"go/types"
	"sort"
	"strings"

	"aghverif/core"

	"golang.org/x/tools/go/ssa"
)

func init() {
	register(&Rule{
		ID:           "C10",
		Run:          runC10,
		ThoroughGOOS: []string{"darwin", "freebsd", "openbsd"},
		Explanation: "Structural rules over the DHCPv4 lease table of dhcpd.v4Server (fields leases, hostsIndex, ipIndex, leasedOffsets and the fields of registered leases). " +
			"Decided: (D1) persist-after-mutate: starting from every instruction that mutates the table or a lease, every path to a successful return of the outermost API function or message handler executes the database-store notification after the mutation (directly, by a defer, or in every caller); (D2) a lease is registered once: no value that comes from the allocator or from a table lookup is passed to addLease again; " +
			"(D3) sibling agreement: every function that changes the lease list also updates the IP index, the hostname index and the pool-offset bitset; (D4) the table is touched only under leasesLock and the database-store path reads it under the lock; (D5) static-lease insertion is reached only after the validation calls succeeded; the store callback writes through the atomic writer (C14). " +
			"(D6) conflict removal: the function that makes room for a new lease (rmDynamicLease) can remove more than one lease per call — a lease can conflict with one existing lease by hardware address and with another by IP address — i.e. its removal site lies in a loop over the lease list or there are at least two removal sites, and every caller registers the new lease only after it succeeded; (D7) the hostname index follows a rename: when commitLease changes a lease's hostname the old name's index entry is deleted (at most guarded by 'still points at this lease') and the new name is indexed. " +
			"(D8) pool accounting: the pool-offset set is changed only with an offset that (*ipRange).offset reported as lying inside the range — on the ok edge of that very call — so a lease outside the dynamic range (static reservations elsewhere in the subnet) neither occupies nor frees a pool address. " +
			"(D5, cont.) a lease found under the same hostname or address that belongs to another device always fails the validation, whatever else is true of it (expired, dynamic). " +
			"(D5, cont. 2) a configuration is accepted only if the pool's own membership test (ipRange.contains, the one the allocator uses) excludes the gateway. " +
			"(D2, cont.) the allocator takes candidate addresses from the range's own enumeration (ipRange.find), the one whose bounds contains() and offset() share. " +
			"(D1, cont.) in the DECLINE handler the by-client removal of the old lease never runs after the replacement was allocated. " +
			"Not decided: uniqueness of addresses/clients over message histories, pool exhaustion, expiry arithmetic, restart equivalence beyond 'stored after each change'.",
		RuleText: "Mutations are SSA stores/map updates/deletes/bitset sets on the four table fields and stores to dhcpsvc.Lease fields; obligations propagate from callee to callers until a function without module callers is reached.",
		Assumptions: []string{
			"the LeaseChangedDBStore notification leads to dbStore (dhcpd.(*server).onNotify), checked by a separate obligation",
			"ResetLeases is used only to load the table from disk and for factory reset (table entry)",
		},
		Trusted: commonTrusted,
	})
}

const tV4 = "dhcpd.v4Server"

var c10TableFields = map[string]bool{"leases": true, "hostsIndex": true, "ipIndex": true, "leasedOffsets": true}

type c10 struct {
	*Ctx
	fns      []*ssa.Function
	mutInstr map[*ssa.Function][]ssa.Instruction // direct mutation instructions
	needs    map[*ssa.Function]int               // 0 unknown, 1 no, 2 yes
	witness  map[*ssa.Function]string
	dbStore  int64
}

// tableFieldOf: v is (a load of) one of the v4Server table fields.
func tableFieldOf(v ssa.Value) string {
	if fr, _, ok := core.LoadedField(v); ok && fr.Type == tV4 && c10TableFields[fr.Field] {
		return fr.Field
	}
	if fr, ok := core.FieldOfAddr(v); ok && fr.Type == tV4 && c10TableFields[fr.Field] {
		return fr.Field
	}
	return ""
}

// c10Mutation classifies an instruction as a direct mutation of the table
// or of a lease record; it returns a short description or "".
func c10Mutation(in ssa.Instruction) string {
	switch x := in.(type) {
	case *ssa.Store:
		if fr, ok := core.FieldOfAddr(x.Addr); ok {
			if fr.Type == tV4 && c10TableFields[fr.Field] {
				return "store " + fr.Field
			}
			if fr.Type == "dhcpsvc.Lease" {
				// construction of a fresh lease (composite literal / new) is not a
				// mutation of the table
				if fa, ok := x.Addr.(*ssa.FieldAddr); ok {
					if _, fresh := fa.X.(*ssa.Alloc); fresh {
						return ""
					}
				}
				return "store Lease." + fr.Field
			}
		}
	case *ssa.MapUpdate:
		if f := tableFieldOf(x.Map); f != "" {
			return "update " + f
		}
	case *ssa.Call:
		if b, ok := x.Common().Value.(*ssa.Builtin); ok {
			switch b.Name() {
			case "delete":
				if f := tableFieldOf(x.Common().Args[0]); f != "" {
					return "delete " + f
				}
			case "copy":
				// copy(lease.HWAddr, mac)
				if fr, _, ok := core.LoadedField(x.Common().Args[0]); ok && fr.Type == "dhcpsvc.Lease" {
					return "copy into Lease." + fr.Field
				}
			}
		}
		if core.CalleeKey(x.Common()) == "(*dhcpd.bitSet).set" {
			if f := tableFieldOf(x.Common().Args[0]); f != "" {
				return "set " + f
			}
		}
	}
	return ""
}

func runC10(c *Ctx) {
	p, r := c.P, c.R
	if p.Fn("(*dhcpd.v4Server).addLease") == nil {
		if p.GOOS == "windows" {
			return
		}
		r.Undecided("C10", "anchors", "-", "dhcpd.v4Server.addLease not found")
		return
	}
	a := &c10{Ctx: c, mutInstr: map[*ssa.Function][]ssa.Instruction{}, needs: map[*ssa.Function]int{}, witness: map[*ssa.Function]string{}}
	if pk := p.Pkg("dhcpd"); pk != nil {
		if cst, ok := pk.Types.Scope().Lookup("LeaseChangedDBStore").(*types.Const); ok {
			a.dbStore, _ = constantInt(cst)
		}
	}
	for _, fn := range p.ModFnsIn("dhcpd") {
		if fn.Blocks == nil {
			continue
		}
		// DHCPv6 server has its own table; the property is about DHCPv4
		if strings.Contains(core.FuncKey(fn), "v6Server") {
			continue
		}
		a.fns = append(a.fns, fn)
		for _, b := range fn.Blocks {
			for _, in := range b.Instrs {
				r.Eval(1)
				if d := c10Mutation(in); d != "" {
					a.mutInstr[fn] = append(a.mutInstr[fn], in)
				}
			}
		}
	}
	nMut := 0
	for _, ins := range a.mutInstr {
		nMut += len(ins)
	}
	r.Floor("C10-D1", "mutation-instructions", nMut, 25)

	a.persistAfterMutate()
	a.registeredOnce()
	// a removal that matches by hardware address (rmDynamicLease removes every dynamic lease of that client or
	// address) must not run after a new lease was made for the same client in the same handler: it would take the
	// fresh lease out of the table again while the client is told to use it
	for _, fk := range []string{"(*dhcpd.v4Server).handleDecline"} {
		fn := p.Fn(fk)
		if fn == nil {
			r.Undecided("C10-D1", fk, "-", "anchor not found")
			continue
		}
		isAlloc := core.IsCallTo(false, "(*dhcpd.v4Server).allocateLease", "(*dhcpd.v4Server).reserveLease", "(*dhcpd.v4Server).addLease")
		isRm := core.IsCallTo(false, "(*dhcpd.v4Server).rmDynamicLease", "(*dhcpd.v4Server).rmLease")
		var from []core.Point
		nRm := 0
		for _, b := range fn.Blocks {
			for i, in := range b.Instrs {
				if isAlloc(in) {
					from = append(from, core.Point{Block: b, Idx: i + 1})
				}
				if isRm(in) {
					nRm++
				}
			}
		}
		found, tr := false, []*ssa.BasicBlock(nil)
		if len(from) > 0 {
			found, tr, _ = core.Reach(core.Query{From: from, Target: isRm})
		}
		r.Check(len(from) > 0 && nRm > 0 && !found, "C10-D1", "replacement-made-after-the-old-lease-is-gone:"+fk, p.FnPos(fn),
			"the declined lease is removed before its replacement is allocated",
			"the handler removes leases by client after it has allocated the replacement: the fresh lease is deleted from the table too, the client is acknowledged an address nobody holds, and the next client gets the same address", p.TraceString(tr))
	}
	a.siblings()
	a.validation()
	a.storePath()
	a.conflictRemoval()
	a.hostnameIndex()
	a.offsetsInRange()
	a.hostnameWriters()
}

// isNotifyStore: a dynamic call of the `notify` callback field with the
// LeaseChangedDBStore constant.
func (a *c10) isNotifyStore(cc *ssa.CallCommon) bool {
	if cc.IsInvoke() || cc.StaticCallee() != nil {
		return false
	}
	fr, _, ok := core.LoadedField(cc.Value)
	if !ok || fr.Field != "notify" || !strings.HasPrefix(fr.Type, "dhcpd.") {
		return false
	}
	if len(cc.Args) != 1 {
		return false
	}
	v, ok := core.ConstInt(cc.Args[0])
	return ok && v == a.dbStore
}

// closureNotifies: classifies a deferred closure: it notifies the store on
// every path that does not pass an `err != nil` test of a captured result.
func (a *c10) closureNotifies(fn *ssa.Function) bool {
	if fn == nil || fn.Blocks == nil {
		return false
	}
	has := false
	for _, call := range core.Calls(fn) {
		if a.isNotifyStore(call.Common) {
			has = true
		}
	}
	if !has {
		return false
	}
	errEdges, _ := core.CondEdges(fn, func(at core.Atom) (bool, bool) {
		if (at.Op == token.NEQ || at.Op == token.EQL) && core.IsNilConst(at.Other) && types.Identical(at.Base.Type(), types.Universe.Lookup("error").Type()) {
			return true, at.Op == token.NEQ
		}
		return false, false
	})
	found, _, _ := core.Reach(core.Query{
		From:       []core.Point{core.Entry(fn)},
		Target:     core.IsReturn,
		AvoidEdges: errEdges,
		Avoid: func(in ssa.Instruction) bool {
			c, ok := in.(*ssa.Call)
			return ok && a.isNotifyStore(c.Common())
		},
	})
	return !found
}

func (a *c10) isNotifyInstr(in ssa.Instruction, includeCalls bool) bool {
	switch x := in.(type) {
	case *ssa.Call:
		if !includeCalls {
			return false
		}
		if a.isNotifyStore(x.Common()) {
			return true
		}
		// immediately invoked closure
		if mc, ok := x.Common().Value.(*ssa.MakeClosure); ok {
			if f, ok := mc.Fn.(*ssa.Function); ok && a.closureNotifies(f) {
				return true
			}
		}
	case *ssa.Defer:
		if a.isNotifyStore(x.Common()) {
			return true
		}
		if mc, ok := x.Common().Value.(*ssa.MakeClosure); ok {
			if f, ok := mc.Fn.(*ssa.Function); ok && a.closureNotifies(f) {
				return true
			}
		}
	}
	return false
}

// isSuccessReturn: a return whose error result (if any) may be nil.
func isSuccessReturn(fn *ssa.Function, in ssa.Instruction) bool {
	ret, ok := core.AsReturn(in)
	if !ok {
		return false
	}
	res := fn.Signature.Results()
	errIdx := -1
	for i := 0; i < res.Len(); i++ {
		if types.Identical(res.At(i).Type(), types.Universe.Lookup("error").Type()) {
			errIdx = i
		}
	}
	if errIdx < 0 || errIdx >= len(ret.Results) {
		return true
	}
	v := core.Res(ret, errIdx)
	rv := core.ResolveLocalLoad(v)
	if !mayBeNilErr(rv) {
		return false
	}
	if core.IsNilConst(rv) {
		return true
	}
	// guarded by `<same value or same cell> != nil` on every path: an error return
	sameSource := func(x ssa.Value) bool {
		if x == v || x == rv {
			return true
		}
		u1, ok1 := x.(*ssa.UnOp)
		u2, ok2 := v.(*ssa.UnOp)
		if ok1 && ok2 && u1.Op == token.MUL && u2.Op == token.MUL && u1.X == u2.X {
			return true
		}
		if ok1 && u1.Op == token.MUL {
			if rx := core.ResolveLocalLoad(x); rx == rv {
				return true
			}
		}
		return false
	}
	g, n := core.CondEdges(fn, func(at core.Atom) (bool, bool) {
		if (at.Op == token.NEQ || at.Op == token.EQL) && core.IsNilConst(at.Other) && sameSource(at.Base) {
			return true, at.Op == token.NEQ
		}
		return false, false
	})
	if n > 0 {
		off, _ := core.UnguardedSinks(fn, func(x ssa.Instruction) bool { return x == in }, g)
		if len(off) == 0 {
			return false
		}
	}
	return true
}

// c10ResetOK: functions allowed to mutate without storing, with reasons.
var c10NoStoreOK = map[string]string{
	"(*dhcpd.v4Server).ResetLeases": "bulk replace used when the table is loaded from disk (memory := disk) and on factory reset (database file deleted)",
	"dhcpd.v4Create":                "constructor: builds an empty table of a not yet published server",
}

// needsStore: fn can return successfully with a mutation that has not been
// followed by the store notification.
func (a *c10) needsStore(fn *ssa.Function) bool {
	switch a.needs[fn] {
	case 1:
		return false
	case 2:
		return true
	}
	a.needs[fn] = 1 // recursion guard: optimistic
	if _, ok := c10NoStoreOK[core.FuncKey(fn)]; ok {
		return false
	}
	var muts []ssa.Instruction
	muts = append(muts, a.mutInstr[fn]...)
	for _, call := range core.Calls(fn) {
		if _, isGo := call.Instr.(*ssa.Go); isGo {
			continue
		}
		callee := core.Callee(call.Common)
		if callee == nil {
			if mc, ok := call.Common.Value.(*ssa.MakeClosure); ok {
				callee, _ = mc.Fn.(*ssa.Function)
			}
		}
		if callee == nil || core.PkgOf(callee) != "dhcpd" || callee.Blocks == nil {
			continue
		}
		if a.needsStore(callee) {
			muts = append(muts, call.Instr)
		}
	}
	for _, m := range muts {
		// covered by a defer registered before the mutation on every path?
		foundNoDefer, _, _ := core.Reach(core.Query{
			From:   []core.Point{core.Entry(fn)},
			Target: func(in ssa.Instruction) bool { return in == m },
			Avoid:  func(in ssa.Instruction) bool { _, isD := in.(*ssa.Defer); return isD && a.isNotifyInstr(in, false) },
		})
		if !foundNoDefer {
			continue
		}
		pt := core.PointOf(m)
		pt.Idx++
		found, tr, _ := core.Reach(core.Query{
			From:   []core.Point{pt},
			Target: func(in ssa.Instruction) bool { return isSuccessReturn(fn, in) },
			Avoid:  func(in ssa.Instruction) bool { return a.isNotifyInstr(in, true) },
		})
		if found {
			a.needs[fn] = 2
			what := c10Mutation(m)
			if what == "" {
				if ci, ok := m.(ssa.CallInstruction); ok {
					what = "call " + core.CalleeKey(ci.Common())
				}
			}
			a.witness[fn] = fmt.Sprintf("%s at %s reaches a successful return without a later store notification via %s", what, a.P.InstrPos(m), a.P.TraceString(tr))
			return true
		}
	}
	return false
}

func (a *c10) persistAfterMutate() {
	p, r := a.P, a.R
	roots := 0
	for _, fn := range a.fns {
		if fn.Parent() != nil && len(p.StaticCallers(fn)) == 0 {
			// closures are analysed through their enclosing function unless stored in a table
			if !a.storedInGlobal(fn) {
				continue
			}
		}
		// roots: functions nobody in the module calls statically
		if len(p.StaticCallers(fn)) > 0 {
			continue
		}
		// does fn (transitively) mutate at all?
		if !a.mutates(fn, map[*ssa.Function]bool{}) {
			continue
		}
		roots++
		key := "persist-after-mutate:" + core.FuncKey(fn)
		if why, ok := c10NoStoreOK[core.FuncKey(fn)]; ok {
			r.Ok("C10-D1", key, p.FnPos(fn), "table exception: "+why)
			continue
		}
		need := a.needsStore(fn)
		r.Check(!need, "C10-D1", key, p.FnPos(fn),
			"every lease-table mutation reachable from this entry point is followed by the database-store notification before a successful return",
			"a lease-table change can be left unpersisted: "+a.innermostWitness(fn))
	}
	r.Floor("C10-D1", "mutating-entry-points", roots, 7)
}

func (a *c10) innermostWitness(fn *ssa.Function) string {
	w := a.witness[fn]
	// follow the chain of callee witnesses to the innermost mutation
	seen := map[*ssa.Function]bool{fn: true}
	cur := fn
	for i := 0; i < 6; i++ {
		var next *ssa.Function
		for _, call := range core.Calls(cur) {
			callee := core.Callee(call.Common)
			if callee != nil && a.needs[callee] == 2 && !seen[callee] {
				next = callee
				break
			}
		}
		if next == nil {
			break
		}
		seen[next] = true
		w += "; in " + core.FuncKey(next) + ": " + a.witness[next]
		cur = next
	}
	return w
}

func (a *c10) storedInGlobal(fn *ssa.Function) bool {
	// closures in the messageHandlers map literal are stored from the package init
	par := fn.Parent()
	return par != nil && par.Name() == "init"
}

func (a *c10) mutates(fn *ssa.Function, seen map[*ssa.Function]bool) bool {
	if seen[fn] {
		return false
	}
	seen[fn] = true
	if len(a.mutInstr[fn]) > 0 {
		return true
	}
	for _, call := range core.Calls(fn) {
		callee := core.Callee(call.Common)
		if callee == nil {
			if mc, ok := call.Common.Value.(*ssa.MakeClosure); ok {
				callee, _ = mc.Fn.(*ssa.Function)
			}
		}
		if callee != nil && core.PkgOf(callee) == "dhcpd" && callee.Blocks != nil && a.mutates(callee, seen) {
			return true
		}
	}
	return false
}

// registeredOnce: D2.
func (a *c10) registeredOnce() {
	p, r := a.P, a.R
	registered := map[string]bool{
		"(*dhcpd.v4Server).allocateLease": true, "(*dhcpd.v4Server).reserveLease": true, "(*dhcpd.v4Server).findLease": true,
		"(*dhcpd.v4Server).findLeaseForIP": true, "(*dhcpd.v4Server).checkLease": true,
	}
	// verify that allocateLease/reserveLease indeed register (call addLease) — otherwise the table entry is stale
	for _, k := range []string{"(*dhcpd.v4Server).reserveLease"} {
		fn := p.Fn(k)
		if fn == nil {
			r.Undecided("C10-D2", k, "-", "anchor not found")
			continue
		}
		r.Check(len(core.CallsToDeep(fn, "(*dhcpd.v4Server).addLease")) > 0, "C10-D2", "allocator-registers:"+k, p.FnPos(fn),
			"the allocator registers the lease it returns", "allocator no longer registers the lease; the typestate table is stale")
	}
	opts := core.ProvOpts{InterprocDepth: 3, Prog: p, Stop: func(v ssa.Value) string {
		if c, _, ok := core.CallResult(v); ok {
			if k := core.CalleeKey(c.Common()); registered[k] {
				return "registered-by:" + k
			}
		}
		switch x := v.(type) {
		case *ssa.UnOp:
			if ia, ok := x.X.(*ssa.IndexAddr); ok {
				if f := tableFieldOf(ia.X); f != "" {
					return "table-element:" + f
				}
			}
		case *ssa.Lookup:
			if f := tableFieldOf(x.X); f != "" {
				return "table-lookup:" + f
			}
		case *ssa.Extract:
			if lk, ok := x.Tuple.(*ssa.Lookup); ok {
				if f := tableFieldOf(lk.X); f != "" {
					return "table-lookup:" + f
				}
			}
		case *ssa.Range:
			if f := tableFieldOf(x.X); f != "" {
				return "table-range:" + f
			}
		}
		return ""
	}}
	n := 0
	perFn := map[string]int{}
	for _, fn := range a.fns {
		for _, call := range core.CallsTo(fn, "(*dhcpd.v4Server).addLease") {
			n++
			fk := core.FuncKey(fn)
			perFn[fk]++
			key := fmt.Sprintf("addLease-arg:%s#%d", fk, perFn[fk])
			os := core.Origins(call.Arg(1), opts)
			var bad []string
			for _, o := range os {
				if o.Kind == "stop" {
					bad = append(bad, o.Key)
				}
			}
			r.Check(len(bad) == 0, "C10-D2", key, p.InstrPos(call.Instr),
				fmt.Sprintf("addLease receives a fresh lease (origins %v)", trimList(core.OriginStrings(os), 5)),
				fmt.Sprintf("addLease is called on a lease that is already registered in the table (%v): the same lease would appear twice in the lease list, in GetLeases and in leases.json", bad))
		}
	}
	r.Floor("C10-D2", "addLease-call-sites", n, 4)
}

// siblings: D3.
func (a *c10) siblings() {
	p, r := a.P, a.R
	n := 0
	for _, fn := range a.fns {
		touched := map[string]bool{}
		nilOnly := true
		writesList := false
		for _, in := range a.mutInstr[fn] {
			d := c10Mutation(in)
			f := strings.Fields(d)
			if len(f) == 2 {
				touched[f[1]] = true
			}
			if st, ok := in.(*ssa.Store); ok && d == "store leases" {
				writesList = true
				if !core.IsNilConst(st.Val) {
					nilOnly = false
				}
			}
		}
		if !writesList {
			continue
		}
		// parts of the table changed through helpers of the package that fn calls (e.g. a helper that keeps the offset set)
		for callee := range core.StaticReach(fn, 2) {
			if callee == fn || core.PkgOf(callee) != "dhcpd" {
				continue
			}
			for _, in := range a.mutInstr[callee] {
				if f := strings.Fields(c10Mutation(in)); len(f) == 2 {
					touched[f[1]] = true
				}
			}
		}
		n++
		key := "list-writer:" + core.FuncKey(fn)
		if nilOnly {
			// reset: must re-make the other three
			ok := touched["hostsIndex"] && touched["ipIndex"] && touched["leasedOffsets"]
			r.Check(ok, "C10-D3", key, p.FnPos(fn), "resets the list together with both indexes and the offset set",
				fmt.Sprintf("clears the lease list but not all of hostsIndex/ipIndex/leasedOffsets (touched %v)", keysOf(touched)))
			continue
		}
		ok := touched["hostsIndex"] && touched["ipIndex"] && touched["leasedOffsets"]
		r.Check(ok, "C10-D3", key, p.FnPos(fn), "changes the lease list together with the hostname index, the IP index and the offset set",
			fmt.Sprintf("changes the lease list but not all of hostsIndex/ipIndex/leasedOffsets (touched %v): the table's parts no longer agree", keysOf(touched)))
	}
	r.Floor("C10-D3", "lease-list-writers", n, 3)
}

func keysOf(m map[string]bool) []string {
	var out []string
	for k := range m {
		out = append(out, k)
	}
	sort.Strings(out)
	return out
}

// validation: D5.
func (a *c10) validation() {
	p, r := a.P, a.R
	type guardSpec struct {
		name  string
		match func(core.Atom) (bool, bool)
	}
	errNil := func(keys ...string) func(core.Atom) (bool, bool) {
		return func(at core.Atom) (bool, bool) {
			if (at.Op == token.NEQ || at.Op == token.EQL) && core.IsNilConst(at.Other) && core.IsCallResult(at.Base, -1, keys...) {
				return true, at.Op == token.EQL
			}
			return false, false
		}
	}
	boolCall := func(want bool, keys ...string) func(core.Atom) (bool, bool) {
		return func(at core.Atom) (bool, bool) {
			if at.Op == token.ILLEGAL && core.IsCallResult(at.Base, -1, keys...) {
				return true, want
			}
			return false, false
		}
	}
	check := func(fnKey string, sinkKeys []string, guards []guardSpec) {
		fn := p.Fn(fnKey)
		if fn == nil {
			r.Undecided("C10-D5", fnKey, "-", "anchor not found")
			return
		}
		for _, g := range guards {
			edges, n := core.CondEdges(fn, g.match)
			off, ns := core.UnguardedSinks(fn, core.IsCallTo(false, sinkKeys...), edges)
			r.Eval(n + ns)
			r.Check(n > 0 && ns > 0 && len(off) == 0, "C10-D5", fmt.Sprintf("%s:%s", fnKey, g.name), p.FnPos(fn),
				fmt.Sprintf("insertion (%s) is reached only after %s", strings.Join(sinkKeys, ","), g.name),
				fmt.Sprintf("the lease can be inserted (%s) on a path that skips the check %q", strings.Join(sinkKeys, ","), g.name), traceOf(p, off)...)
		}
	}
	check("(*dhcpd.v4Server).AddStaticLease", []string{"(*dhcpd.v4Server).updateStaticLease"}, []guardSpec{
		{"IPv4-only", boolCall(true, "(net/netip.Addr).Is4")},
		{"MAC-valid", errNil("github.com/AdguardTeam/golibs/netutil.ValidateMAC")},
		{"not-the-gateway", func(at core.Atom) (bool, bool) {
			if at.Op == token.EQL || at.Op == token.NEQ {
				f1, _, ok1 := core.LoadedField(at.Base)
				f2, _, ok2 := core.LoadedField(at.Other)
				if (ok1 && f1.Field == "GatewayIP") || (ok2 && f2.Field == "GatewayIP") {
					return true, at.Op == token.NEQ
				}
			}
			return false, false
		}},
	})
	check("(*dhcpd.v4Server).UpdateStaticLease", []string{"(*dhcpd.v4Server).addLease", "(*dhcpd.v4Server).rmLease"}, []guardSpec{
		{"validateStaticLease", errNil("(*dhcpd.v4Server).validateStaticLease")},
	})
	// the configuration is accepted only if the gateway is outside the pool by the pool's own membership test (the
	// allocator hands out every address for which that test holds and never looks at the gateway again)
	if cv := p.Fn("(*dhcpd.V4ServerConf).Validate"); cv != nil {
		gOut, nOut := core.CondEdges(cv, func(at core.Atom) (bool, bool) {
			if at.Op != token.ILLEGAL || !core.IsCallResult(at.Base, -1, "(*dhcpd.ipRange).contains") {
				return false, false
			}
			call, _, _ := core.CallResult(at.Base)
			transparent := map[string]bool{"dhcpd.ensureV4": true, "(net/netip.Addr).AsSlice": true, "(net/netip.Addr).Unmap": true}
			for k := range core.DefaultTransparent {
				transparent[k] = true
			}
			for _, o := range core.Origins(call.Common().Args[1], core.ProvOpts{Prog: p, Transparent: transparent}) {
				if o.Kind == "field" && o.Key == "dhcpd.V4ServerConf.GatewayIP" {
					return true, false
				}
			}
			return false, false
		})
		offV, nsV := core.UnguardedSinks(cv, func(in ssa.Instruction) bool { return isSuccessReturn(cv, in) }, gOut)
		r.Check(nOut > 0 && nsV > 0 && len(offV) == 0, "C10-D5", "gateway-outside-pool-by-the-pools-own-test", p.FnPos(cv),
			"a configuration with a range is accepted only if ipRange.contains(gateway) is false",
			"the configuration can be accepted without the pool's own membership test having excluded the gateway: an address the allocator considers part of the pool can be the gateway's, and is then leased to a client", traceOf(p, offV)...)
	} else {
		r.Undecided("C10-D5", "V4ServerConf.Validate", "-", "anchor not found")
	}
	// the allocator enumerates the pool through the range's own iterator (the one whose bounds contains() and
	// offset() share): an address is a candidate exactly when it is in the range
	if nx := p.Fn("(*dhcpd.v4Server).nextIP"); nx != nil {
		nRet := 0
		var badSrc []string
		for _, b := range nx.Blocks {
			if len(b.Instrs) == 0 || b == nx.Recover {
				continue
			}
			ret, ok := core.AsReturn(b.Instrs[len(b.Instrs)-1])
			if !ok || len(ret.Results) < 1 {
				continue
			}
			nRet++
			// the address is the first result, in whatever address type
			tr := map[string]bool{"(net.IP).To4": true, "(net.IP).To16": true, "net/netip.AddrFrom4": true, "net/netip.AddrFromSlice": true, "net/netip.AddrFrom16": true}
			for k := range core.DefaultTransparent {
				tr[k] = true
			}
			for _, o := range core.Origins(core.Res(ret, 0), core.ProvOpts{Prog: p, Transparent: tr}) {
				switch {
				case o.Kind == "const":
				case o.Kind == "call" && o.Key == "(*dhcpd.ipRange).find":
				default:
					badSrc = append(badSrc, o.String()+" at "+p.InstrPos(ret))
				}
			}
		}
		sort.Strings(badSrc)
		r.Check(nRet > 0 && len(badSrc) == 0 && len(core.CallsToDeep(nx, "(*dhcpd.ipRange).find")) > 0, "C10-D2", "allocator-enumerates-the-range-itself", p.FnPos(nx),
			"the next free address comes from the range's own enumeration of its addresses",
			"the allocator computes candidate addresses by itself instead of taking them from the range's own enumeration: the two can disagree about the bounds (the last address is never offered, or an address outside is)", badSrc...)
	} else {
		r.Undecided("C10-D2", "nextIP", "-", "anchor not found")
	}
	// validateStaticLease: failing edges of its checks never reach `return nil`
	vs := p.Fn("(*dhcpd.v4Server).validateStaticLease")
	if vs == nil {
		r.Undecided("C10-D5", "validateStaticLease", "-", "anchor not found")
		return
	}
	type failSpec struct {
		name  string
		match func(core.Atom) (bool, bool) // returns (matched, atomValueOnFailure)
	}
	fails := []failSpec{
		{"subnet-contains", func(at core.Atom) (bool, bool) {
			if at.Op == token.ILLEGAL && core.IsCallResult(at.Base, -1, "(net/netip.Prefix).Contains") {
				return true, false
			}
			return false, false
		}},
		{"hostname-valid", func(at core.Atom) (bool, bool) {
			if (at.Op == token.NEQ || at.Op == token.EQL) && core.IsNilConst(at.Other) && core.IsCallResult(at.Base, -1, "github.com/AdguardTeam/golibs/netutil.ValidateHostname") {
				return true, at.Op == token.NEQ
			}
			return false, false
		}},
		{"not-the-gateway", func(at core.Atom) (bool, bool) {
			if at.Op == token.EQL || at.Op == token.NEQ {
				f1, _, ok1 := core.LoadedField(at.Base)
				f2, _, ok2 := core.LoadedField(at.Other)
				if (ok1 && f1.Field == "GatewayIP") || (ok2 && f2.Field == "GatewayIP") {
					return true, at.Op == token.EQL
				}
			}
			return false, false
		}},
	}
	// a lease found under the same hostname / address that belongs to another device is a duplicate, whatever
	// else is true of it (expired, dynamic, ...): the address or name is still in the table and in the indexes
	dupOf := func(table string) func(core.Atom) (bool, bool) {
		return func(at core.Atom) (bool, bool) {
			if at.Op != token.ILLEGAL || !core.IsCallResult(at.Base, -1, "bytes.Equal") {
				return false, false
			}
			call, _, _ := core.CallResult(at.Base)
			for _, arg := range call.Common().Args {
				if ct, isCT := arg.(*ssa.ChangeType); isCT {
					arg = ct.X
				}
				fr, owner, ok := core.LoadedField(core.ResolveCellLoad(arg))
				if !ok || fr.Field != "HWAddr" {
					continue
				}
				if ex, isEx := core.ResolveCellLoad(owner).(*ssa.Extract); isEx && ex.Index == 0 {
					if lk, isLk := ex.Tuple.(*ssa.Lookup); isLk && tableFieldOf(lk.X) == table {
						return true, false
					}
				}
			}
			return false, false
		}
	}
	fails = append(fails, failSpec{"other-device-has-the-hostname", dupOf("hostsIndex")}, failSpec{"other-device-has-the-address", dupOf("ipIndex")})
	for _, fs := range fails {
		edges, n := core.CondEdges(vs, fs.match)
		var starts []core.Point
		for e := range edges {
			starts = append(starts, core.AfterEdge(e))
		}
		found := false
		if len(starts) > 0 {
			found, _, _ = core.Reach(core.Query{From: starts, Target: func(in ssa.Instruction) bool { return isSuccessReturn(vs, in) }})
		}
		r.Check(n > 0 && !found, "C10-D5", "validateStaticLease:"+fs.name, p.FnPos(vs),
			"a failed "+fs.name+" check never reaches a successful return", "validateStaticLease can succeed although the "+fs.name+" check failed (or the check is gone)")
	}
	// duplicate checks consult both indexes
	idx := map[string]bool{}
	for _, b := range vs.Blocks {
		for _, in := range b.Instrs {
			if lk, ok := in.(*ssa.Lookup); ok {
				if f := tableFieldOf(lk.X); f != "" {
					idx[f] = true
				}
			}
		}
	}
	r.Check(idx["hostsIndex"] && idx["ipIndex"], "C10-D5", "validateStaticLease:duplicate-lookups", p.FnPos(vs),
		"validateStaticLease consults both the hostname and the IP index for duplicates", fmt.Sprintf("validateStaticLease no longer consults both indexes (%v)", keysOf(idx)))
}

// storePath: the DBStore notification reaches dbStore -> writeDB.
func (a *c10) storePath() {
	p, r := a.P, a.R
	on := p.Fn("(*dhcpd.server).onNotify")
	if on == nil {
		r.Undecided("C10-D1", "onNotify", "-", "anchor (*dhcpd.server).onNotify not found")
		return
	}
	g, n := core.CondEdges(on, func(at core.Atom) (bool, bool) {
		if at.Op == token.EQL || at.Op == token.NEQ {
			if v, ok := core.ConstInt(at.Other); ok && v == a.dbStore {
				if _, isParam := at.Base.(*ssa.Parameter); isParam {
					return true, at.Op == token.EQL
				}
			}
		}
		return false, false
	})
	// on the DBStore edge, every path to return passes dbStore
	var starts []core.Point
	for e := range g {
		starts = append(starts, core.AfterEdge(e))
	}
	found := true
	if len(starts) > 0 {
		found, _, _ = core.Reach(core.Query{From: starts, Target: core.IsReturn, Avoid: core.IsCallTo(false, "(*dhcpd.server).dbStore")})
	}
	r.Check(n > 0 && !found, "C10-D1", "onNotify:DBStore-calls-dbStore", p.FnPos(on),
		"the LeaseChangedDBStore notification always calls dbStore", "onNotify no longer stores the database for LeaseChangedDBStore")
	ds := p.Fn("(*dhcpd.server).dbStore")
	if ds == nil {
		r.Undecided("C10-D1", "dbStore", "-", "anchor not found")
		return
	}
	found2, _, _ := core.Reach(core.Query{From: []core.Point{core.Entry(ds)}, Target: core.IsReturn, Avoid: core.IsCallTo(false, "dhcpd.writeDB")})
	r.Check(!found2, "C10-D1", "dbStore:calls-writeDB", p.FnPos(ds), "dbStore always writes the database", "dbStore can return without writing the database")
	// the notify callback handed to v4Create is onNotify
	nStores := 0
	for _, fn := range p.ModFnsIn("dhcpd") {
		for _, b := range fn.Blocks {
			for _, in := range b.Instrs {
				st, ok := in.(*ssa.Store)
				if !ok {
					continue
				}
				fr, ok := core.FieldOfAddr(st.Addr)
				if !ok || fr.Type != "dhcpd.V4ServerConf" || fr.Field != "notify" {
					continue
				}
				nStores++
				okv := false
				os := core.Origins(st.Val, core.ProvOpts{InterprocDepth: 2, Prog: p})
				for _, o := range os {
					switch o.Kind {
					case "func":
						if strings.HasPrefix(o.Key, "(*dhcpd.server).onNotify") {
							okv = true
						} else {
							okv = false
						}
					case "field":
						// copy from another configuration's notify field
					case "const":
					default:
						okv = false
					}
				}
				r.Check(okv, "C10-D1", "notify-callback:"+core.FuncKey(fn), p.InstrPos(in), "v4 server's notify callback is (*server).onNotify", "the DHCPv4 server is given a notify callback other than (*server).onNotify")
			}
		}
	}
	r.Floor("C10-D1", "notify-callback-stores", nStores, 2)
}

// conflictRemoval: D6.
func (a *c10) conflictRemoval() {
	p, r := a.P, a.R
	fn := p.Fn("(*dhcpd.v4Server).rmDynamicLease")
	if fn == nil {
		r.Undecided("C10-D6", "rmDynamicLease", "-", "anchor not found")
		return
	}
	hdrs := loopHeaders(fn)
	inLoop := func(b *ssa.BasicBlock) bool {
		for _, h := range hdrs {
			if !h.Dominates(b) {
				continue
			}
			if found, _, _ := core.Reach(core.Query{From: []core.Point{{Block: b, Idx: 0}}, Target: func(in ssa.Instruction) bool { return in.Block() == h }}); found {
				return true
			}
		}
		return false
	}
	nSites, nLoop := 0, 0
	for _, call := range core.Calls(fn) {
		callee := core.Callee(call.Common)
		if callee == nil || !a.mutatesField(callee, "leases", map[*ssa.Function]bool{}) {
			continue
		}
		nSites++
		if inLoop(call.Instr.Block()) {
			nLoop++
		}
	}
	for _, in := range a.mutInstr[fn] {
		if d := c10Mutation(in); strings.Contains(d, "leases") {
			nSites++
			if inLoop(in.Block()) {
				nLoop++
			}
		}
	}
	r.Check(nLoop > 0 || nSites >= 2, "C10-D6", "conflict-removal-covers-both-conflicts", p.FnPos(fn),
		fmt.Sprintf("rmDynamicLease removes leases inside a scan of the whole list (%d removal site(s), %d in a loop): the lease holding the address and the client's own other lease are both displaced", nSites, nLoop),
		fmt.Sprintf("rmDynamicLease can remove at most one lease per call (%d removal site(s), none in a loop), but a new lease can conflict with one lease by hardware address and with another by IP address: one of them stays in the table", nSites))

	// callers register the new lease only after the removal succeeded
	for _, caller := range a.fns {
		var rm []core.Call
		for _, call := range core.Calls(caller) {
			if core.SameFn(core.Callee(call.Common), fn) {
				rm = append(rm, call)
			}
		}
		adds := core.CallsTo(caller, "(*dhcpd.v4Server).addLease")
		if len(rm) == 0 || len(adds) == 0 {
			continue
		}
		isAdd := core.IsCallTo(false, "(*dhcpd.v4Server).addLease")
		isRm := func(in ssa.Instruction) bool {
			c, ok := in.(*ssa.Call)
			return ok && core.SameFn(core.Callee(c.Common()), fn)
		}
		found, tr, _ := core.Reach(core.Query{From: []core.Point{core.Entry(caller)}, Target: isAdd, Avoid: isRm})
		var det []string
		if found {
			det = append(det, p.TraceString(tr))
		}
		r.Check(!found, "C10-D6", "conflicts-removed-before-registration:"+core.FuncKey(caller), p.FnPos(caller),
			"the new lease is registered only after the conflicting dynamic leases were removed", "the new lease can be registered without removing the conflicting dynamic leases", det...)
	}
}

// mutatesField: fn (or a static callee) changes the given table field.
func (a *c10) mutatesField(fn *ssa.Function, field string, seen map[*ssa.Function]bool) bool {
	if fn == nil || seen[fn] || fn.Blocks == nil {
		return false
	}
	seen[fn] = true
	for _, in := range a.mutInstr[fn] {
		if strings.Contains(c10Mutation(in), field) {
			return true
		}
	}
	for _, call := range core.Calls(fn) {
		if sc := core.Callee(call.Common); sc != nil && core.PkgOf(sc) == "dhcpd" && a.mutatesField(sc, field, seen) {
			return true
		}
	}
	return false
}

// hostnameIndex: D7.
func (a *c10) hostnameIndex() {
	p, r := a.P, a.R
	fn := p.Fn("(*dhcpd.v4Server).commitLease")
	if fn == nil || len(fn.Params) < 2 {
		r.Undecided("C10-D7", "commitLease", "-", "anchor not found")
		return
	}
	lease := fn.Params[1]
	isHostLoad := func(v ssa.Value) bool {
		fr, base, ok := core.LoadedField(v)
		return ok && fr.Type == "dhcpsvc.Lease" && fr.Field == "Hostname" && base == ssa.Value(lease)
	}
	// prev: the hostname loaded before any store to it
	var prev ssa.Value
	for _, in := range fn.Blocks[0].Instrs {
		if st, ok := in.(*ssa.Store); ok {
			if fr, ok := core.FieldOfAddr(st.Addr); ok && fr.Field == "Hostname" {
				break
			}
		}
		if v, ok := in.(ssa.Value); ok && isHostLoad(v) {
			prev = v
			break
		}
	}
	if prev == nil {
		r.Undecided("C10-D7", "commitLease:previous-hostname", p.FnPos(fn), "the previous hostname is not read at entry")
		return
	}
	changed, n := core.CondEdges(fn, func(at core.Atom) (bool, bool) {
		if at.Op != token.EQL && at.Op != token.NEQ {
			return false, false
		}
		if (at.Base == prev && isHostLoad(at.Other)) || (at.Other == prev && isHostLoad(at.Base)) {
			return true, at.Op == token.NEQ
		}
		return false, false
	})
	// edges on which nothing has to be deleted: prev == "", the entry no longer points at this lease, the entry is absent
	escape, _ := core.CondEdges(fn, func(at core.Atom) (bool, bool) {
		if (at.Op == token.EQL || at.Op == token.NEQ) && at.Base == prev {
			if s, ok := core.ConstString(at.Other); ok && s == "" {
				return true, at.Op == token.EQL
			}
		}
		isLookupPrev := func(v ssa.Value) (int, bool) {
			e, ok := v.(*ssa.Extract)
			if !ok {
				return 0, false
			}
			lk, ok := e.Tuple.(*ssa.Lookup)
			if !ok || lk.Index != prev {
				return 0, false
			}
			if f, _, ok := core.LoadedField(lk.X); ok && f.Field == "hostsIndex" {
				return e.Index, true
			}
			return 0, false
		}
		if at.Op == token.EQL || at.Op == token.NEQ {
			if i, ok := isLookupPrev(at.Base); ok && i == 0 && at.Other == ssa.Value(lease) {
				return true, at.Op == token.NEQ
			}
			if i, ok := isLookupPrev(at.Other); ok && i == 0 && at.Base == ssa.Value(lease) {
				return true, at.Op == token.NEQ
			}
		}
		if at.Op == token.ILLEGAL {
			if i, ok := isLookupPrev(at.Base); ok && i == 1 {
				return true, false
			}
		}
		return false, false
	})
	isDelPrev := func(in ssa.Instruction) bool {
		c, ok := in.(*ssa.Call)
		if !ok {
			return false
		}
		bi, ok := c.Call.Value.(*ssa.Builtin)
		if !ok || bi.Name() != "delete" || len(c.Call.Args) != 2 || c.Call.Args[1] != prev {
			return false
		}
		f, _, ok := core.LoadedField(c.Call.Args[0])
		return ok && f.Field == "hostsIndex"
	}
	if n == 0 {
		r.Fail("C10-D7", "rename-drops-old-name", p.FnPos(fn), "commitLease no longer compares the previous hostname with the new one: the old name's index entry cannot be dropped on a rename")
	} else {
		bad := false
		var det []string
		for e := range changed {
			from := e.From.Succs[e.Succ]
			found, tr, _ := core.Reach(core.Query{From: []core.Point{{Block: from, Idx: 0}}, Target: core.IsReturn, Avoid: isDelPrev, AvoidEdges: escape})
			if found {
				bad = true
				det = append(det, "path from the rename edge to the return without the delete: "+p.TraceString(tr))
			}
		}
		r.Check(!bad, "C10-D7", "rename-drops-old-name", p.FnPos(fn),
			"when the hostname of a lease changes, the index entry of the old name is deleted (unless it is empty or no longer this lease's)",
			"the hostname of a lease can change while the old name stays in the hostname index: DNS keeps answering the old name, and only until the next restart", det...)
	}
	// the new name is indexed with this lease
	isSetNew := func(in ssa.Instruction) bool {
		mu, ok := in.(*ssa.MapUpdate)
		if !ok || mu.Value != ssa.Value(lease) || !isHostLoad(mu.Key) {
			return false
		}
		f, _, ok := core.LoadedField(mu.Map)
		return ok && f.Field == "hostsIndex"
	}
	emptyNew, _ := core.CondEdges(fn, func(at core.Atom) (bool, bool) {
		if (at.Op == token.EQL || at.Op == token.NEQ) && isHostLoad(at.Base) && at.Base != prev {
			if s, ok := core.ConstString(at.Other); ok && s == "" {
				return true, at.Op == token.EQL
			}
		}
		return false, false
	})
	found, tr, _ := core.Reach(core.Query{From: []core.Point{core.Entry(fn)}, Target: core.IsReturn, Avoid: isSetNew, AvoidEdges: emptyNew})
	var det []string
	if found {
		det = append(det, p.TraceString(tr))
	}
	r.Check(!found, "C10-D7", "new-name-indexed", p.FnPos(fn), "a committed lease with a hostname is always entered into the hostname index under that name", "a committed lease can keep a hostname that is not in the hostname index", det...)
}

// offsetsInRange: D8.
func (a *c10) offsetsInRange() {
	p, r := a.P, a.R
	n := 0
	for _, fn := range a.fns {
		k := 0
		for _, call := range core.CallsTo(fn, "(*dhcpd.bitSet).set") {
			recv := call.Arg(0)
			if fr, _, ok := core.LoadedField(recv); !ok || fr.Field != "leasedOffsets" {
				continue
			}
			n++
			k++
			key := fmt.Sprintf("offset-in-range:%s#%d", core.FuncKey(fn), k)
			ex, ok := call.Arg(1).(*ssa.Extract)
			var oc *ssa.Call
			if ok && ex.Index == 0 {
				oc, _ = ex.Tuple.(*ssa.Call)
			}
			if oc == nil || core.CalleeKey(oc.Common()) != "(*dhcpd.ipRange).offset" {
				r.Fail("C10-D8", key, p.InstrPos(call.Instr), "the pool-offset set is changed with a value that is not the offset reported by (*ipRange).offset")
				continue
			}
			guard, ng := core.CondEdges(fn, func(at core.Atom) (bool, bool) {
				if at.Op != token.ILLEGAL {
					return false, false
				}
				e, ok := at.Base.(*ssa.Extract)
				return ok && e.Tuple == ssa.Value(oc) && e.Index == 1, true
			})
			off, ns := core.UnguardedSinks(fn, func(in ssa.Instruction) bool { return in == call.Instr.(ssa.Instruction) }, guard)
			r.Check(ng > 0 && ns == 1 && len(off) == 0, "C10-D8", key, p.InstrPos(call.Instr),
				"the pool-offset bit is changed only when the address lies inside the dynamic range",
				"the pool-offset bit is changed although the address may lie outside the dynamic range (offset() then reports 0, the first pool address): a lease outside the pool marks or frees the first pool address", traceOf(p, off)...)
		}
	}
	r.Floor("C10-D8", "pool-offset-updates", n, 1)
}

// c10HostnameWriters: the functions that change the hostname of a lease that
// is (or may be) in the table, each with the reason why the hostname index
// stays right.  A helper that is only called from these belongs to them.
var c10HostnameWriters = map[string]string{
	"(*dhcpd.v4Server).ResetLeases":         "loads the table: the indexes are rebuilt from scratch in the same call",
	"(*dhcpd.v4Server).blocklistLease":      "turns a just-reserved lease into a blocked placeholder (observation, not demonstrated: for a recycled expired lease the old name's index entry is not removed here; needs an ICMP conflict on a recycled address)",
	"(*dhcpd.v4Server).handleDecline":       "moves the declined lease's name to the freshly allocated lease and indexes it there",
	"(*dhcpd.v4Server).rmDynamicLease":      "takes the name away from dynamic leases that clash with the new static lease, which then takes the index entry over",
	"(*dhcpd.v4Server).updateStaticLease":   "validated static lease before (re-)registration through addLease",
	"(*dhcpd.v4Server).validateStaticLease": "normalises the name of a lease that is not yet registered",
	"(*dhcpd.v4Server).AddStaticLease":      "normalises the name of a lease that is not yet registered",
	"(*dhcpd.v4Server).commitLease":         "the rename path: old entry deleted, new entry set (D7)",
}

// hostnameWriters: D9.
func (a *c10) hostnameWriters() {
	p, r := a.P, a.R
	n := 0
	var ownerOK func(fn *ssa.Function, depth int) bool
	ownerOK = func(fn *ssa.Function, depth int) bool {
		if _, ok := c10HostnameWriters[core.FuncKey(fn)]; ok {
			return true
		}
		if depth > 2 || (fn.Object() != nil && fn.Object().Exported()) {
			return false
		}
		callers := callerFuncs(p, fn)
		if len(callers) == 0 {
			return false
		}
		for _, cf := range callers {
			if !ownerOK(cf, depth+1) {
				return false
			}
		}
		return true
	}
	for _, fn := range a.fns {
		k := 0
		for _, b := range fn.Blocks {
			for _, in := range b.Instrs {
				st, ok := in.(*ssa.Store)
				if !ok {
					continue
				}
				fr, ok := core.FieldOfAddr(st.Addr)
				if !ok || fr.Type != "dhcpsvc.Lease" || fr.Field != "Hostname" {
					continue
				}
				if fa, isFA := st.Addr.(*ssa.FieldAddr); isFA {
					if _, fresh := fa.X.(*ssa.Alloc); fresh {
						continue // a lease being built
					}
				}
				n++
				k++
				why, listed := c10HostnameWriters[core.FuncKey(fn)]
				key := fmt.Sprintf("hostname-writer:%s#%d", core.FuncKey(fn), k)
				switch {
				case listed:
					r.Ok("C10-D9", key, p.InstrPos(in), why)
				case ownerOK(fn, 0):
					r.Ok("C10-D9", key, p.InstrPos(in), "helper called only from the enumerated hostname writers")
				default:
					r.Fail("C10-D9", key, p.InstrPos(in), core.FuncKey(fn)+" changes the hostname of a lease outside the functions that keep the hostname index in step: the index keeps (or lacks) an entry, so name lookups answer with a lease that no longer has that name — until the next restart rebuilds the index")
				}
			}
		}
	}
	r.Floor("C10-D9", "hostname-stores", n, 4)
}
