package rules

import (
	"fmt"
	"go/token"
	"go/types"
	"strings"

	"aghverif/core"

	"golang.org/x/tools/go/ssa"
)

func init() {
	register(&Rule{
		ID:  "C16",
		Run: runC16,
		Explanation: "ClientID extraction. Decided: (D1) single funnel: the ClientID cache is written only by the pre-request hook with the value returned by clientIDFromDNSContext, the processing stage reads the ClientID only from that cache, and both sides key the cache by the proxy's unique request ID (never by client-chosen data); " +
			"(D2) every non-empty ClientID returned by the two extractors is strings.ToLower(x) for an x that passed ValidateClientID on that path; (D3) protocol dispatch: the server-name extractor is reached only for HTTPS/TLS/QUIC and the path extractor only for HTTPS, every other protocol yields no ClientID; (D4) an extraction error leaves the hook only as a BeforeRequestError carrying a SERVFAIL reply, before any access check or cache write; " +
			"(D5) shape guards: the server-name form requires an immediate-subdomain test of the client name against the configured name (strict mode: mismatch is an error), the DoH form requires the first segment to equal dns-query and exactly two segments. " +
			"(D7) the client's server name reaches the ClientID extraction untransformed (no case mapping before validation); (D8) the Host header names the server only for requests that did not arrive over TLS. " +
			"(D3, cont.) for a DNS-over-HTTPS request the dispatcher returns only after the URL path was examined, whatever else is configured. " +
			"(D2/D5, restated) the places where a non-empty ClientID is produced are found through the phis that join it with the empty string of other exits; the two server names are identified by role (result of clientServerName / configured TLS server name, directly or as parameters fed with them), the strict switch as a parameter fed from StrictSNICheck, the field read in place, or a matched result every caller combines with the switch. " +
			"Not decided: correctness of the string surgery for look-alike suffixes, path cleaning and Host parsing (value-level).",
		RuleText:    "Who-may-call enumeration over the module, provenance slices for cache key and value, CFG edge guards for the return shapes.",
		Assumptions: []string{"netutil.IsImmediateSubdomain, netutil.ValidateHostnameLabel and path.Clean behave as documented (golibs/stdlib, trusted)", "dnsproxy assigns a unique RequestID per request"},
		Trusted:     commonTrusted,
	})
}

func runC16(c *Ctx) {
	p, r := c.P, c.R
	const kSet = "iface:(github.com/AdguardTeam/golibs/cache.Cache).Set"
	const kGet = "iface:(github.com/AdguardTeam/golibs/cache.Cache).Get"
	isCIDCache := func(call core.Call) bool {
		fr, _, ok := core.LoadedField(call.Common.Value)
		return ok && fr.Type == "dnsforward.Server" && fr.Field == "clientIDCache"
	}
	keyOpts := core.ProvOpts{Prog: p, InterprocDepth: 2, IntoModuleCalls: true, Transparent: func() map[string]bool {
		m := map[string]bool{}
		for k := range core.DefaultTransparent {
			m[k] = true
		}
		return m
	}()}
	checkKey := func(v ssa.Value, what, fk, pos string) {
		os := core.Origins(v, keyOpts)
		okKey := false
		var bad []string
		for _, o := range os {
			switch {
			case o.Kind == "field" && o.Key == "github.com/AdguardTeam/dnsproxy/proxy.DNSContext.RequestID":
				okKey = true
			case o.Kind == "const", o.Kind == "alloc":
			case o.Kind == "global" && strings.HasPrefix(o.Key, "encoding/binary."):
			case o.Kind == "call" && (strings.HasPrefix(o.Key, "dnsforward.") || strings.HasPrefix(o.Key, "(*dnsforward.")):
				// module helper: its return values are sliced as well
			case o.Kind == "call" && (strings.HasPrefix(o.Key, "(encoding/binary.bigEndian).") || strings.HasPrefix(o.Key, "(encoding/binary.littleEndian).") || strings.HasPrefix(o.Key, "encoding/binary.")):
			default:
				bad = append(bad, o.String())
			}
		}
		r.Check(okKey && len(bad) == 0, "C16-D1", "cache-key:"+what+"@"+fk, pos,
			"the ClientID cache is keyed by the proxy's unique RequestID",
			fmt.Sprintf("the ClientID cache key is not (only) the proxy's unique request ID (%v): a later request reusing the key would inherit another client's ClientID", trimList(core.OriginStrings(os), 6)))
	}
	nSet, nGet := 0, 0
	for _, fn := range p.ModFnsIn("dnsforward") {
		for _, call := range core.Calls(fn) {
			if (call.Key != kSet && call.Key != kGet) || !isCIDCache(call) {
				continue
			}
			fk := core.FuncKey(fn)
			pos := p.InstrPos(call.Instr)
			if call.Key == kSet {
				nSet++
				r.Check(fk == "(*dnsforward.Server).HandleBefore", "C16-D1", "cache-set-site:"+fk, pos, "the ClientID cache is written by the pre-request hook", "the ClientID cache is written outside the pre-request hook")
				os := core.Origins(call.Common.Args[1], core.ProvOpts{Prog: p})
				okV := false
				var bad []string
				for _, o := range os {
					switch {
					case o.Kind == "call" && o.Key == "(*dnsforward.Server).clientIDFromDNSContext":
						okV = true
					default:
						bad = append(bad, o.String())
					}
				}
				r.Check(okV && len(bad) == 0, "C16-D1", "cache-value:"+fk, pos, "the cached value is the result of clientIDFromDNSContext",
					fmt.Sprintf("the cached ClientID has another origin than clientIDFromDNSContext: %v", bad))
				checkKey(call.Common.Args[0], "set", fk, pos)
			} else {
				nGet++
				checkKey(call.Common.Args[0], "get", fk, pos)
			}
		}
	}
	r.Floor("C16-D1", "cache-set-sites", nSet, 1)
	r.Floor("C16-D1", "cache-get-sites", nGet, 1)
	// writers of dnsContext.clientID
	nW := 0
	for _, fn := range p.ModFnsIn("dnsforward") {
		for _, b := range fn.Blocks {
			for _, in := range b.Instrs {
				st, ok := in.(*ssa.Store)
				if !ok {
					continue
				}
				fr, ok := core.FieldOfAddr(st.Addr)
				if !ok || fr.Type != "dnsforward.dnsContext" || fr.Field != "clientID" {
					continue
				}
				if fa, ok := st.Addr.(*ssa.FieldAddr); ok {
					if _, fresh := fa.X.(*ssa.Alloc); fresh {
						if s, isC := core.ConstString(st.Val); isC && s == "" {
							continue
						}
					}
				}
				nW++
				os := core.Origins(st.Val, core.ProvOpts{Prog: p})
				okV := false
				var bad []string
				for _, o := range os {
					if o.Kind == "call" && o.Key == kGet {
						okV = true
					} else {
						bad = append(bad, o.String())
					}
				}
				r.Check(okV && len(bad) == 0, "C16-D1", fmt.Sprintf("clientID-writer:%s#%d", core.FuncKey(fn), nW), p.InstrPos(in),
					"the request's ClientID is taken only from the ClientID cache", fmt.Sprintf("dnsContext.clientID is set from another source: %v", bad))
			}
		}
	}
	r.Floor("C16-D1", "clientID-writers", nW, 1)

	c16Extractors(c)
	c16Dispatch(c)
	c16CacheLifetime(c)
	c16RawNames(c)
}

// c16CacheLifetime: D6 — the cache is keyed by the proxy's request IDs, so
// wherever the proxy (the ID namespace) is replaced, the cache is cleared.
func c16CacheLifetime(c *Ctx) {
	p, r := c.P, c.R
	n := 0
	for _, fn := range p.ModFnsIn("dnsforward") {
		for _, b := range fn.Blocks {
			for i, in := range b.Instrs {
				st, ok := in.(*ssa.Store)
				if !ok {
					continue
				}
				fr, ok := core.FieldOfAddr(st.Addr)
				if !ok || fr.Type != "dnsforward.Server" || fr.Field != "dnsProxy" {
					continue
				}
				if !core.IsCallResult(core.ResolveCellLoad(st.Val), 0, "github.com/AdguardTeam/dnsproxy/proxy.New") {
					continue // nil-ing on close, test hooks
				}
				n++
				isClear := func(x ssa.Instruction) bool {
					call, ok := x.(*ssa.Call)
					if !ok || core.CalleeKey(call.Common()) != "iface:(github.com/AdguardTeam/golibs/cache.Cache).Clear" {
						return false
					}
					f2, _, ok := core.LoadedField(call.Common().Value)
					return ok && f2.Type == "dnsforward.Server" && f2.Field == "clientIDCache"
				}
				// every path from the store to a successful return clears the cache
				found, tr, _ := core.Reach(core.Query{
					From:   []core.Point{{Block: b, Idx: i + 1}},
					Target: func(x ssa.Instruction) bool { return isSuccessReturn(fn, x) },
					Avoid:  isClear,
				})
				r.Check(!found, "C16-D6", "proxy-replaced-cache-cleared:"+core.FuncKey(fn), p.InstrPos(in),
					"the ClientID cache is cleared whenever a new proxy (a new request-ID namespace) is installed",
					"a new proxy is installed but the request-ID-keyed ClientID cache is kept: the first requests of the new proxy inherit the ClientIDs cached for the same request IDs of the old one (plain requests get a ClientID)", p.TraceString(tr))
			}
		}
	}
	r.Floor("C16-D6", "proxy-installations", n, 1)
}

// nonEmptyStringReturn matches the places where a non-empty first result of fn is made: the instruction that
// computes the returned value — seen through the phis that join it with the empty string of other exits — or, when
// the value is not computed in fn, the return itself.
func nonEmptyStringReturn(fn *ssa.Function) func(ssa.Instruction) bool {
	set := map[ssa.Instruction]bool{}
	for _, pr := range nonEmptyProducers(fn) {
		set[pr.at] = true
	}
	return func(in ssa.Instruction) bool { return set[in] }
}

type producer struct {
	at  ssa.Instruction
	val ssa.Value
}

func nonEmptyProducers(fn *ssa.Function) (out []producer) {
	seen := map[ssa.Instruction]bool{}
	for _, b := range fn.Blocks {
		for _, in := range b.Instrs {
			ret, ok := core.AsReturn(in)
			if !ok || len(ret.Results) < 1 {
				continue
			}
			for _, leaf := range core.FlattenPhi(core.ResolveLocalLoad(core.Res(ret, 0))) {
				leaf = core.ResolveLocalLoad(leaf)
				if s, isC := core.ConstString(leaf); isC && s == "" {
					continue
				}
				at := in
				if li, isI := leaf.(ssa.Instruction); isI && li.Parent() == fn && li.Block() != nil {
					if _, isPhi := leaf.(*ssa.Phi); !isPhi {
						at = li
					}
				}
				if !seen[at] {
					seen[at] = true
					out = append(out, producer{at, leaf})
				}
			}
		}
	}
	return out
}

func c16Extractors(c *Ctx) {
	p, r := c.P, c.R
	for _, fk := range []string{"dnsforward.clientIDFromClientServerName", "dnsforward.clientIDFromDNSContextHTTPS"} {
		fn := p.Fn(fk)
		if fn == nil {
			r.Undecided("C16-D2", fk, "-", "anchor not found")
			continue
		}
		// D2: returned value is ToLower(x), ValidateClientID(x) == nil on the path
		nRet := 0
		for _, pr := range nonEmptyProducers(fn) {
			in, v := pr.at, pr.val
			nRet++
			key := fmt.Sprintf("validated-lowercased:%s#%d", fk, nRet)
			if core.IsCallResult(core.ResolveCellLoad(v), 0, "dnsforward.clientIDFromClientServerName", "dnsforward.clientIDFromDNSContextHTTPS") && p.FnExact(fk) == nil {
				// the extractor was folded into the dispatcher: this return hands on the other extractor's result,
				// which is judged where it is made
				nRet--
				continue
			}
			call, _, ok := core.CallResult(v)
			if !ok || core.CalleeKey(call.Common()) != "strings.ToLower" {
				r.Fail("C16-D2", key, p.InstrPos(in), "a non-empty ClientID is returned that is not the result of strings.ToLower")
				continue
			}
			x := call.Common().Args[0]
			g, n := core.CondEdges(fn, func(at core.Atom) (bool, bool) {
				if (at.Op == token.EQL || at.Op == token.NEQ) && core.IsNilConst(at.Other) {
					if vc, _, ok := core.CallResult(at.Base); ok && core.CalleeKey(vc.Common()) == "dnsforward.ValidateClientID" && sameStr(vc.Common().Args[0], x) {
						return true, at.Op == token.EQL
					}
				}
				return false, false
			})
			off, _ := core.UnguardedSinks(fn, func(i2 ssa.Instruction) bool { return i2 == in }, g)
			r.Check(n > 0 && len(off) == 0, "C16-D2", key, p.InstrPos(in),
				"the returned ClientID is ToLower(x) with ValidateClientID(x) == nil on every path",
				"a ClientID can be returned without having passed ValidateClientID", traceOf(p, off)...)
		}
		r.Floor("C16-D2", "non-empty-returns:"+fk, nRet, 1)
	}
	// ValidateClientID delegates to the hostname-label validator
	vc := p.Fn("dnsforward.ValidateClientID")
	if vc == nil {
		r.Undecided("C16-D2", "ValidateClientID", "-", "anchor not found")
	} else {
		g, n := core.CondEdges(vc, func(at core.Atom) (bool, bool) {
			if (at.Op == token.EQL || at.Op == token.NEQ) && core.IsNilConst(at.Other) && core.IsCallResult(at.Base, -1, "github.com/AdguardTeam/golibs/netutil.ValidateHostnameLabel") {
				return true, at.Op == token.EQL
			}
			return false, false
		})
		off, ns := core.UnguardedSinks(vc, func(in ssa.Instruction) bool { return isSuccessReturn(vc, in) }, g)
		r.Check(n > 0 && ns > 0 && len(off) == 0, "C16-D2", "ValidateClientID:label-validator", p.FnPos(vc),
			"ValidateClientID succeeds only if netutil.ValidateHostnameLabel does", "ValidateClientID can succeed without the host-name label validation")
	}

	// D5 server-name form
	sn := p.Fn("dnsforward.clientIDFromClientServerName")
	isStrictField := func(v ssa.Value) bool {
		fr, _, ok := core.LoadedField(core.ResolveCellLoad(v))
		return ok && fr.Field == "StrictSNICheck"
	}
	// the two names by what they are: the client's is what clientServerName returned, the host's is the configured
	// TLS server name — directly, or as a parameter every caller feeds with it
	var roleOf func(v ssa.Value, depth int) string
	roleOf = func(v ssa.Value, depth int) string {
		v = core.ResolveCellLoad(v)
		if core.IsCallResult(v, 0, "dnsforward.clientServerName") {
			return "cli"
		}
		if fr, _, ok := core.LoadedField(v); ok && fr.Field == "ServerName" && strings.HasSuffix(fr.Type, "TLSConfig") {
			return "host"
		}
		if prm, ok := v.(*ssa.Parameter); ok && depth < 3 {
			role := ""
			for i, a := range core.ArgsOfParam(prm) {
				ra := roleOf(a, depth+1)
				if i > 0 && ra != role {
					return ""
				}
				role = ra
			}
			return role
		}
		return ""
	}
	if sn != nil {
		isSub := func(truth bool) func(at core.Atom) (bool, bool) {
			return func(at core.Atom) (bool, bool) {
				if at.Op == token.ILLEGAL {
					if call, _, ok := core.CallResult(at.Base); ok && core.CalleeKey(call.Common()) == "github.com/AdguardTeam/golibs/netutil.IsImmediateSubdomain" {
						a := call.Common().Args
						if len(a) == 2 && roleOf(a[0], 0) == "cli" && roleOf(a[1], 0) == "host" {
							return true, truth
						}
					}
				}
				return false, false
			}
		}
		g, n := core.CondEdges(sn, isSub(true))
		snSinks := map[ssa.Instruction]bool{}
		for _, pr := range nonEmptyProducers(sn) {
			if !core.IsCallResult(core.ResolveCellLoad(pr.val), 0, "dnsforward.clientIDFromDNSContextHTTPS") { // the DoH form is judged below
				snSinks[pr.at] = true
			}
		}
		off, ns := core.UnguardedSinks(sn, func(in ssa.Instruction) bool { return snSinks[in] }, g)
		r.Check(n > 0 && ns > 0 && len(off) == 0, "C16-D5", "sni:immediate-subdomain", p.FnPos(sn),
			"a ClientID is taken from a server name only if it is an immediate subdomain of the configured name",
			"a ClientID can be taken from a server name that is not an immediate subdomain (<id>.<server name>) of the configured name", traceOf(p, off)...)
		gNot, _ := core.CondEdges(sn, isSub(false))
		var starts []core.Point
		for e := range gNot {
			starts = append(starts, core.AfterEdge(e))
		}
		// the strict switch: a parameter that every caller feeds from the configuration's StrictSNICheck ...
		var strict *ssa.Parameter
		for _, prm := range sn.Params {
			args := core.ArgsOfParam(prm)
			all := len(args) > 0
			for _, a := range args {
				if !isStrictField(a) {
					all = false
				}
			}
			if all && strict == nil {
				strict = prm
			}
		}
		// ... or a boolean result "the name matched" that the callers combine with the switch themselves
		matchedIdx := -1
		for i := 0; i < sn.Signature.Results().Len(); i++ {
			if b, ok := sn.Signature.Results().At(i).Type().Underlying().(*types.Basic); ok && b.Kind() == types.Bool {
				if matchedIdx >= 0 {
					matchedIdx = -2
					break
				}
				matchedIdx = i
			}
		}
		const okMsg, badMsg = "with strict checking a server name outside the configured domain is an error", "with strict checking a foreign server name is accepted silently"
		// the switch as sn sees it: that parameter, or the configuration field read in place
		gStrictFalse, nS := core.CondEdges(sn, func(at core.Atom) (bool, bool) {
			if at.Op == token.ILLEGAL && (strict != nil && at.Base == ssa.Value(strict) || isStrictField(at.Base)) {
				return true, false
			}
			return false, false
		})
		switch {
		case nS > 0 && (strict != nil || matchedIdx < 0):
			// strict: when not a subdomain and strict, the return is an error
			// from the IsImmediateSubdomain-false successor, a success return must pass strict == false
			found := true
			if len(starts) > 0 {
				found, _, _ = core.Reach(core.Query{From: starts, Target: func(in ssa.Instruction) bool { return isSuccessReturn(sn, in) }, AvoidEdges: gStrictFalse})
			}
			r.Check(nS > 0 && !found, "C16-D5", "sni:strict-mismatch-is-error", p.FnPos(sn), okMsg, badMsg)
		case matchedIdx >= 0:
			// (1) a foreign name is reported as "not matched" ...
			notFalse := func(in ssa.Instruction) bool {
				if !isSuccessReturn(sn, in) {
					return false
				}
				ret, _ := core.AsReturn(in)
				bv, isC := core.ConstBool(core.ResolveLocalLoad(core.Res(ret, matchedIdx)))
				return !(isC && !bv)
			}
			found := true
			if len(starts) > 0 {
				found, _, _ = core.Reach(core.Query{From: starts, Target: notFalse})
			}
			okAll, nCallers := len(starts) > 0 && !found, 0
			// (2) ... and every caller turns "not matched" under the strict switch into an error
			for _, h := range p.ModFnsIn("dnsforward") {
				for _, call := range core.CallsTo(h, core.FuncKey(sn)) {
					cv, isV := call.Instr.(ssa.Value)
					if !isV {
						okAll = false
						continue
					}
					nCallers++
					var matched []ssa.Value
					for _, ref := range *cv.Referrers() {
						if ex, ok := ref.(*ssa.Extract); ok && ex.Index == matchedIdx {
							matched = append(matched, ex)
						}
					}
					isMatched := func(v ssa.Value) bool {
						v = core.ResolveLocalLoad(v)
						for _, m := range matched {
							if v == m {
								return true
							}
						}
						return false
					}
					gUnmatched, nM := core.CondEdges(h, func(at core.Atom) (bool, bool) {
						if at.Op == token.ILLEGAL && isMatched(at.Base) {
							return true, false
						}
						return false, false
					})
					gLax, nS := core.CondEdges(h, func(at core.Atom) (bool, bool) {
						if at.Op == token.ILLEGAL && isStrictField(at.Base) {
							return true, false
						}
						return false, false
					})
					var from []core.Point
					for e := range gUnmatched {
						from = append(from, core.AfterEdge(e))
					}
					hh := h
					f2, _, _ := core.Reach(core.Query{From: from, Target: func(in ssa.Instruction) bool { return isSuccessReturn(hh, in) }, AvoidEdges: gLax})
					if nM == 0 || nS == 0 || f2 {
						okAll = false
					}
				}
			}
			r.Check(okAll && nCallers > 0, "C16-D5", "sni:strict-mismatch-is-error", p.FnPos(sn), okMsg, badMsg)
		default:
			r.Undecided("C16-D5", "clientIDFromClientServerName", "-", "neither a strict parameter fed from StrictSNICheck nor a single boolean result found")
		}
	} else {
		r.Undecided("C16-D5", "clientIDFromClientServerName", "-", "anchor not found or signature changed")
	}

	// for a DoH request the URL path is always examined: no way out of the dispatcher for protocol "https" goes
	// around the path extractor (whatever else is or is not configured)
	if dp := p.Fn("(*dnsforward.Server).clientIDFromDNSContext"); dp != nil {
		notHTTPS, nP := core.CondEdges(dp, func(at core.Atom) (bool, bool) {
			if at.Op != token.EQL && at.Op != token.NEQ {
				return false, false
			}
			fr, _, ok := core.LoadedField(core.ResolveCellLoad(at.Base))
			if !ok || fr.Field != "Proto" {
				return false, false
			}
			sv, ok := core.ConstString(at.Other)
			if !ok {
				return false, false
			}
			if sv == "https" {
				return true, at.Op == token.NEQ
			}
			if at.Op == token.EQL {
				return true, true
			}
			return false, false
		})
		isPath := core.IsCallTo(false, "dnsforward.clientIDFromDNSContextHTTPS")
		found, tr, _ := core.Reach(core.Query{From: []core.Point{core.Entry(dp)}, Target: core.IsReturn, Avoid: isPath, AvoidEdges: notHTTPS})
		r.Check(nP > 0 && !found, "C16-D3", "doh-path-always-examined", p.FnPos(dp),
			"for a DNS-over-HTTPS request the dispatcher returns only after the URL path was examined",
			"the dispatcher can return for a DNS-over-HTTPS request without having looked at the URL path: a ClientID in the path is not attributed, and an invalid one is not refused", p.TraceString(tr))
	} else {
		r.Undecided("C16-D3", "clientIDFromDNSContext", "-", "anchor not found")
	}
	// D5 DoH form
	hf := p.Fn("dnsforward.clientIDFromDNSContextHTTPS")
	if hf != nil {
		sink := nonEmptyStringReturn(hf)
		g1, n1 := core.CondEdges(hf, func(at core.Atom) (bool, bool) {
			if at.Op == token.EQL || at.Op == token.NEQ {
				if s, ok := core.ConstString(at.Other); ok && s == "dns-query" {
					return true, at.Op == token.EQL
				}
			}
			return false, false
		})
		off1, ns := core.UnguardedSinks(hf, sink, g1)
		r.Check(n1 > 0 && ns > 0 && len(off1) == 0, "C16-D5", "doh:first-segment-dns-query", p.FnPos(hf),
			"a ClientID is taken from a DoH path only if its first segment equals dns-query", "a ClientID can be taken from a path whose first segment is not dns-query", traceOf(p, off1)...)
		g2, n2 := core.CondEdges(hf, func(at core.Atom) (bool, bool) {
			if at.Op == token.EQL || at.Op == token.NEQ {
				if call, ok := at.Base.(*ssa.Call); ok {
					if b, ok := call.Common().Value.(*ssa.Builtin); ok && b.Name() == "len" {
						if k, ok := core.ConstInt(at.Other); ok && k == 2 {
							return true, at.Op == token.EQL
						}
					}
				}
			}
			return false, false
		})
		if n2 == 0 {
			// the other spelling: endpoint, rest, _ := strings.Cut(p, "/") and no further slash in rest
			g2, n2 = core.CondEdges(hf, func(at core.Atom) (bool, bool) {
				if at.Op != token.ILLEGAL {
					return false, false
				}
				call, _, ok := core.CallResult(at.Base)
				if !ok || core.CalleeKey(call.Common()) != "strings.Contains" {
					return false, false
				}
				if sep, isC := core.ConstString(call.Common().Args[1]); !isC || sep != "/" {
					return false, false
				}
				ex, isEx := core.ResolveLocalLoad(call.Common().Args[0]).(*ssa.Extract)
				if !isEx || ex.Index != 1 {
					return false, false
				}
				cut, isCall := ex.Tuple.(*ssa.Call)
				if !isCall || core.CalleeKey(cut.Common()) != "strings.Cut" {
					return false, false
				}
				if sep, isC := core.ConstString(cut.Common().Args[1]); !isC || sep != "/" {
					return false, false
				}
				return true, false
			})
		}
		off2, _ := core.UnguardedSinks(hf, sink, g2)
		r.Check(n2 > 0 && len(off2) == 0, "C16-D5", "doh:exactly-two-segments", p.FnPos(hf),
			"a ClientID is taken from a DoH path only if it has exactly two segments", "a ClientID can be taken from a path with extra segments", traceOf(p, off2)...)
		// path is cleaned before splitting
		okClean, nSplit := true, 0
		var cleaned func(v ssa.Value, d int) bool
		cleaned = func(v ssa.Value, d int) bool {
			call, _, ok := core.CallResult(core.ResolveLocalLoad(v))
			if !ok || d > 3 {
				return false
			}
			switch core.CalleeKey(call.Common()) {
			case "path.Clean":
				return true
			case "strings.TrimPrefix", "strings.TrimLeft":
				// dropping the leading slash of a cleaned path leaves its segments as they are
				if sep, isC := core.ConstString(call.Common().Args[1]); isC && sep == "/" {
					return cleaned(call.Common().Args[0], d+1)
				}
			}
			return false
		}
		for _, call := range core.CallsToDeep(hf, "strings.Split", "strings.Cut") {
			nSplit++
			if !cleaned(call.Arg(0), 0) {
				okClean = false
			}
		}
		okClean = okClean && nSplit > 0
		r.Check(okClean, "C16-D5", "doh:path-cleaned", p.FnPos(hf), "the DoH path is cleaned before it is split into segments", "the DoH path is split without path.Clean (dot segments and doubled slashes change the segment count)")
	} else {
		r.Undecided("C16-D5", "clientIDFromDNSContextHTTPS", "-", "anchor not found")
	}
}

func sameStr(a, b ssa.Value) bool {
	return core.SameValue(a, b)
}

func c16Dispatch(c *Ctx) {
	p, r := c.P, c.R
	fn := p.Fn("(*dnsforward.Server).clientIDFromDNSContext")
	if fn == nil {
		r.Undecided("C16-D3", "clientIDFromDNSContext", "-", "anchor not found")
		return
	}
	protoConst := func(name string) int64 {
		pk := p.AllPkg["github.com/AdguardTeam/dnsproxy/proxy"]
		if pk == nil {
			return -1
		}
		_ = name
		return -1
	}
	_ = protoConst
	isProto := func(v ssa.Value) bool {
		fr, _, ok := core.LoadedField(v)
		return ok && fr.Type == "github.com/AdguardTeam/dnsproxy/proxy.DNSContext" && fr.Field == "Proto"
	}
	protoEq := func(names ...string) func(core.Atom) (bool, bool) {
		return func(at core.Atom) (bool, bool) {
			if (at.Op != token.EQL && at.Op != token.NEQ) || !isProto(at.Base) {
				return false, false
			}
			s, ok := core.ConstString(at.Other)
			if !ok {
				return false, false
			}
			for _, n := range names {
				if s == n {
					return true, at.Op == token.EQL
				}
			}
			return false, false
		}
	}
	gAny, n := core.CondEdges(fn, protoEq("https", "tls", "quic"))
	off, _, ns := core.GuardedDeep(fn, protoEq("https", "tls", "quic"), core.IsCallTo(false, "dnsforward.clientServerName", "dnsforward.clientIDFromClientServerName"), 2)
	r.Check(n >= 3 && ns > 0 && len(off) == 0, "C16-D3", "server-name-only-for-encrypted-protos", p.FnPos(fn),
		"the server-name extractor runs only for HTTPS, TLS and QUIC", "the server-name ClientID extractor can run for a plain or DNSCrypt request", traceOf(p, off)...)
	gH, nH := core.CondEdges(fn, protoEq("https"))
	offH, nsH := core.UnguardedSinks(fn, core.IsCallTo(false, "dnsforward.clientIDFromDNSContextHTTPS"), gH)
	r.Check(nH > 0 && nsH > 0 && len(offH) == 0, "C16-D3", "path-only-for-https", p.FnPos(fn),
		"the DoH path extractor runs only for HTTPS", "the DoH path extractor can run for a non-HTTPS request", traceOf(p, offH)...)
	// every non-empty return passes one of the proto edges
	offR, nsR := core.UnguardedSinks(fn, nonEmptyStringReturn(fn), gAny)
	r.Check(nsR > 0 && len(offR) == 0, "C16-D3", "clientid-only-for-encrypted-protos", p.FnPos(fn),
		"a non-empty ClientID is returned only for HTTPS, TLS and QUIC", "a ClientID can be returned for a plain or DNSCrypt request", traceOf(p, offR)...)

	// D4: HandleBefore
	hb := p.Fn("(*dnsforward.Server).HandleBefore")
	if hb == nil {
		r.Undecided("C16-D4", "HandleBefore", "-", "anchor not found")
		return
	}
	gOK, nOK := core.CondEdges(hb, func(at core.Atom) (bool, bool) {
		if (at.Op == token.EQL || at.Op == token.NEQ) && core.IsNilConst(at.Other) && core.IsCallResult(at.Base, 1, "(*dnsforward.Server).clientIDFromDNSContext") {
			return true, at.Op == token.EQL
		}
		return false, false
	})
	sink := func(in ssa.Instruction) bool {
		if core.IsCallTo(false, "(*dnsforward.Server).IsBlockedClient", "iface:(github.com/AdguardTeam/golibs/cache.Cache).Set")(in) {
			return true
		}
		ret, ok := core.AsReturn(in)
		return ok && len(ret.Results) == 1 && core.IsNilConst(core.ResolveLocalLoad(core.Res(ret, 0)))
	}
	offB, nsB := core.UnguardedSinks(hb, sink, gOK)
	r.Check(nOK > 0 && nsB >= 2 && len(offB) == 0, "C16-D4", "extraction-error-stops-request", p.FnPos(hb),
		"after an extraction error the hook neither admits the request nor writes the cache", "the request can proceed (or the cache be written) although ClientID extraction failed", traceOf(p, offB)...)
	// on the error edge: a BeforeRequestError with NewMsgSERVFAIL
	gErr, _ := core.CondEdges(hb, func(at core.Atom) (bool, bool) {
		if (at.Op == token.EQL || at.Op == token.NEQ) && core.IsNilConst(at.Other) && core.IsCallResult(at.Base, 1, "(*dnsforward.Server).clientIDFromDNSContext") {
			return true, at.Op == token.NEQ
		}
		return false, false
	})
	var starts []core.Point
	for e := range gErr {
		starts = append(starts, core.AfterEdge(e))
	}
	found := true
	if len(starts) > 0 {
		found, _, _ = core.Reach(core.Query{From: starts, Target: core.IsReturn, Avoid: core.IsCallTo(false, "(*dnsforward.Server).NewMsgSERVFAIL")})
	}
	r.Check(!found, "C16-D4", "extraction-error-becomes-SERVFAIL", p.FnPos(hb),
		"an extraction error is answered with a SERVFAIL reply", "an extraction error can leave the hook without a SERVFAIL reply (the request would be dropped or attributed to nobody)")
}

// c16RawNames: D7 and D8.
//
// D7: the server names reach the ClientID extraction exactly as received: no
// case mapping or other string transformation is applied before the label is
// validated (Unicode case mapping folds non-ASCII runes such as U+212A to
// ASCII letters, turning an invalid label into a valid ClientID).
//
// D8: for DoH the Host header is consulted only when the request did not come
// over TLS (plain HTTP behind a proxy); a TLS connection's name is its server
// name, even when that is empty.
func c16RawNames(c *Ctx) {
	p, r := c.P, c.R
	fn := p.Fn("(*dnsforward.Server).clientIDFromDNSContext")
	if fn == nil {
		r.Undecided("C16-D7", "clientIDFromDNSContext", "-", "anchor not found")
		return
	}
	transforms := map[string]bool{"strings.ToLower": true, "strings.ToUpper": true, "strings.ToTitle": true, "strings.Map": true, "strings.ToValidUTF8": true,
		"strings.Title": true, "strings.TrimSpace": true, "strings.Trim": true, "strings.ReplaceAll": true, "strings.Replace": true, "bytes.ToLower": true,
		"golang.org/x/net/idna.ToASCII": true, "golang.org/x/net/idna.ToUnicode": true}
	stop := func(v ssa.Value) string {
		if call, ok := v.(*ssa.Call); ok {
			k := core.CalleeKey(call.Common())
			if i := strings.IndexByte(k, '['); i > 0 {
				k = k[:i]
			}
			if transforms[k] {
				return k
			}
		}
		return ""
	}
	n := 0
	d7calls := core.CallsTo(fn, "dnsforward.clientIDFromClientServerName")
	for h := range core.StaticReach(fn, 2) {
		if h != fn && core.PkgOf(h) == "dnsforward" && core.FuncKey(h) != "dnsforward.clientIDFromClientServerName" {
			d7calls = append(d7calls, core.CallsTo(h, "dnsforward.clientIDFromClientServerName")...)
		}
	}
	if len(d7calls) == 0 {
		// the extractor was folded into the dispatcher (or became a method): the client's name is then what the
		// subdomain test is asked about
		fns := []*ssa.Function{fn}
		for h := range core.StaticReach(fn, 2) {
			if h != fn && core.PkgOf(h) == "dnsforward" {
				fns = append(fns, h)
			}
		}
		for _, h := range fns {
			for _, call := range core.CallsTo(h, "github.com/AdguardTeam/golibs/netutil.IsImmediateSubdomain") {
				n++
				var bad []string
				for _, o := range core.Origins(call.Arg(0), core.ProvOpts{Prog: p, Stop: stop, InterprocDepth: 2}) {
					if o.Kind == "stop" {
						bad = append(bad, o.Key)
					}
				}
				r.Check(len(bad) == 0, "C16-D7", "server-name-untransformed:arg1", p.InstrPos(call.Instr),
					"the client's server name reaches the ClientID extraction as received", fmt.Sprintf("the client's server name is transformed (%v) before the ClientID label is validated: a name that is not a valid host-name label can be folded into one", bad))
			}
		}
	}
	for _, call := range d7calls {
		for i := 1; i < 2 && i < len(call.Common.Args); i++ { // the client's name; the configured one is the operator's own
			n++
			var bad []string
			for _, o := range core.Origins(call.Arg(i), core.ProvOpts{Prog: p, Stop: stop}) {
				if o.Kind == "stop" {
					bad = append(bad, o.Key)
				}
			}
			what := "configured server name"
			if i == 1 {
				what = "client's server name"
			}
			r.Check(len(bad) == 0, "C16-D7", fmt.Sprintf("server-name-untransformed:arg%d", i), p.InstrPos(call.Instr),
				"the "+what+" reaches the ClientID extraction as received", fmt.Sprintf("the %s is transformed (%v) before the ClientID label is validated: a name that is not a valid host-name label can be folded into one", what, bad))
		}
	}
	r.Floor("C16-D7", "server-name-arguments", n, 1)

	hf := p.Fn("dnsforward.clientServerNameFromHTTP")
	if hf == nil || len(hf.Params) == 0 {
		r.Undecided("C16-D8", "clientServerNameFromHTTP", "-", "anchor not found")
		return
	}
	isTLS := func(v ssa.Value) bool {
		fr, _, ok := core.LoadedField(v)
		return ok && fr.Type == "net/http.Request" && fr.Field == "TLS"
	}
	noTLS, nT := core.CondEdges(hf, func(at core.Atom) (bool, bool) {
		if (at.Op == token.EQL || at.Op == token.NEQ) && core.IsNilConst(at.Other) && isTLS(core.ResolveCellLoad(at.Base)) {
			return true, at.Op == token.EQL
		}
		return false, false
	})
	// every branch on the way to the Host header is the TLS test
	hostUse := func(in ssa.Instruction) bool {
		u, ok := in.(*ssa.UnOp)
		if !ok {
			return false
		}
		fr, _, ok := core.LoadedField(u)
		return ok && fr.Type == "net/http.Request" && fr.Field == "Host"
	}
	off, ns := core.UnguardedSinks(hf, hostUse, noTLS)
	// ... and the TLS test is not weakened by a second condition: the non-nil TLS edge leads to a return without reading Host
	weakened := false
	for _, b := range hf.Blocks {
		iff, ok := b.Instrs[len(b.Instrs)-1].(*ssa.If)
		if !ok {
			continue
		}
		at := core.Decompose(iff.Cond)
		if !((at.Op == token.EQL || at.Op == token.NEQ) && core.IsNilConst(at.Other) && isTLS(core.ResolveCellLoad(at.Base))) {
			continue
		}
		tlsSucc := 0
		if (at.Op == token.EQL) != at.Neg {
			tlsSucc = 1
		}
		if found, _, _ := core.Reach(core.Query{From: []core.Point{{Block: b.Succs[tlsSucc], Idx: 0}}, Target: hostUse}); found {
			weakened = true
		}
	}
	r.Check(nT > 0 && ns > 0 && len(off) == 0 && !weakened, "C16-D8", "host-header-only-without-tls", p.FnPos(hf),
		"the Host header names the server only for requests that did not arrive over TLS", "the Host header can be used for a request that arrived over TLS (e.g. one without SNI): the client chooses its own ClientID and passes the strict check", traceOf(p, off)...)
}
