package rules

import (
	"fmt"
	"go/token"
	"go/types"
	"sort"
	"strings"

	"aghverif/core"

	"golang.org/x/tools/go/ssa"
)

func init() {
	register(&Rule{
		ID:  "C02",
		Run: runC02,
		Explanation: "Response filtering. Decided: (D1) RR kinds: the answer loop has a case for CNAME, A, AAAA and HTTPS records, each checked against the rules with a value taken from that record's own target/address/hints; both IPv4 and IPv6 hints are handled and the hint checker reports a result only when it is filtered; " +
			"(D2) whole answer, any position: the loop ranges over the full answer section, and the only ways out of it before the end are an error or a filtered record; (D3) replace and keep: on a filtered record the original upstream response is saved before the delivered response is overwritten with the blocking-mode message; " +
			"(D4) gating: results that were allow-listed, rewritten or safe-search skip response filtering; otherwise it runs exactly when protection is on, the response came from an upstream and filtering is enabled for the client; the from-upstream flag becomes (constant) true on every successful resolution. " +
			"(D5) a match that carries hosts-style rules is never turned into a not-filtered result, whatever the record type asked about (the response filter passes the answer record's type: CNAME, A, AAAA, HTTPS): in matchHostProcessDNSResult and the helpers it returns through, the zero Result is returned only on paths where both HostRulesV4 and HostRulesV6 were found empty. " +
			"(D6) no remembered verdict: checkHostRules, through which every answer record is checked, returns without an error only after the filter matched this very host and type under this request's settings. " +
			"Not decided: rule matching on IP literals, 'allow rule for that same name or address overrides' (urlfilter semantics), the content of IPv6-hint stripping.",
		RuleText:    "Type-switch cases and their operands from SSA type assertions; loop-exit path guards; store ordering; switch-case sets vs declared constants.",
		Assumptions: []string{"urlfilter rule semantics are external", "dnsproxy sets pctx.Res on successful Resolve"},
		Trusted:     commonTrusted,
	})
}

// skipReasons returns the Reason constants for which
// processFilteringAfterResponse does not reach response filtering.
func skipReasons(p *core.Prog) (skipped map[string]bool, fn *ssa.Function) {
	fn = p.Fn("(*dnsforward.Server).processFilteringAfterResponse")
	if fn == nil {
		return nil, nil
	}
	fpk := p.Pkg("filtering")
	names := map[int64]string{}
	if fpk != nil {
		for _, n := range fpk.Types.Scope().Names() {
			if cst, ok := fpk.Types.Scope().Lookup(n).(*types.Const); ok && core.NamedKey(cst.Type()) == "filtering.Reason" {
				if v, ok := constantInt(cst); ok {
					names[v] = n
				}
			}
		}
	}
	skipped = map[string]bool{}
	isFilter := core.IsCallTo(false, "(*dnsforward.Server).filterAfterResponse", kFilterResp)
	reasonEq := func(v ssa.Value) (name string, neg, ok bool) {
		at := core.Decompose(v)
		if at.Op != token.EQL || at.Base == nil || core.NamedKey(at.Base.Type()) != "filtering.Reason" {
			return "", false, false
		}
		k, isC := core.ConstInt(at.Other)
		if !isC {
			return "", false, false
		}
		return names[k], at.Neg, true
	}
	for _, b := range fn.Blocks {
		ifi, ok := b.Instrs[len(b.Instrs)-1].(*ssa.If)
		if !ok {
			continue
		}
		if name, neg, isEq := reasonEq(ifi.Cond); isEq {
			succ := 0
			if neg {
				succ = 1
			}
			found, _, _ := core.Reach(core.Query{From: []core.Point{core.AfterEdge(core.Edge{From: b, Succ: succ})}, Target: isFilter})
			if !found {
				skipped[name] = true
			}
			continue
		}
		// `isX := reason == A || reason == B || ...; if isX`: the last comparison of the chain is not a branch of
		// its own but the value the joining block decides on
		at := core.Decompose(ifi.Cond)
		phi, isPhi := at.Base.(*ssa.Phi)
		if at.Op != token.ILLEGAL || !isPhi || phi.Block() != b {
			continue
		}
		for _, e := range phi.Edges {
			name, neg, isEq := reasonEq(e)
			if !isEq {
				continue
			}
			succ := 0
			if neg != at.Neg {
				succ = 1
			}
			found, _, _ := core.Reach(core.Query{From: []core.Point{core.AfterEdge(core.Edge{From: b, Succ: succ})}, Target: isFilter})
			if !found {
				skipped[name] = true
			}
		}
	}
	return skipped, fn
}

func runC02(c *Ctx) {
	p, r := c.P, c.R
	fr := p.Fn(kFilterResp)
	if fr == nil {
		r.Undecided("C02-D1", "filterDNSResponse", "-", "anchor not found")
		return
	}
	// D1: type-switch cases
	type kind struct{ typ, field, via string }
	kinds := []kind{
		{"*github.com/miekg/dns.CNAME", "Target", "(*dnsforward.Server).checkHostRules"},
		{"*github.com/miekg/dns.A", "A", "(*dnsforward.Server).checkHostRules"},
		{"*github.com/miekg/dns.AAAA", "AAAA", "(*dnsforward.Server).checkHostRules"},
		{"*github.com/miekg/dns.HTTPS", "", "(*dnsforward.Server).filterHTTPSRecords"},
	}
	asserts := map[string]*ssa.TypeAssert{}
	for _, b := range fr.Blocks {
		for _, in := range b.Instrs {
			if ta, ok := in.(*ssa.TypeAssert); ok && ta.CommaOk {
				asserts[core.TypeKey(ta.AssertedType)] = ta
			}
		}
	}
	for _, k := range kinds {
		ta, ok := asserts[k.typ]
		key := "rr-kind:" + strings.TrimPrefix(k.typ, "*github.com/miekg/dns.")
		if !ok {
			// the dispatch on the record kind may live in a helper (e.g. one that returns the host and type to
			// check): then a value taken from this kind of record must still flow into the rule check
			okFlow := false
			fns := []*ssa.Function{fr}
			for h := range core.StaticReach(fr, 2) {
				if h != fr && core.PkgOf(h) == "dnsforward" {
					fns = append(fns, h)
				}
			}
			for _, f := range fns {
				for _, call := range core.CallsTo(f, k.via) {
					if k.field == "" {
						for _, o := range core.Origins(call.Arg(1), core.ProvOpts{Prog: p, InterprocDepth: 3, IntoModuleCalls: true}) {
							if ta2, isTA := o.Val.(*ssa.TypeAssert); isTA && core.TypeKey(ta2.AssertedType) == k.typ {
								okFlow = true
							}
							if ex, isE := o.Val.(*ssa.Extract); isE {
								if ta2, isTA := ex.Tuple.(*ssa.TypeAssert); isTA && core.TypeKey(ta2.AssertedType) == k.typ {
									okFlow = true
								}
							}
						}
						if ex, isE := call.Arg(1).(*ssa.Extract); isE {
							if ta2, isTA := ex.Tuple.(*ssa.TypeAssert); isTA && core.TypeKey(ta2.AssertedType) == k.typ {
								okFlow = true
							}
						}
						continue
					}
					os := core.Origins(call.Arg(1), core.ProvOpts{Prog: p, InterprocDepth: 3, IntoModuleCalls: true, Transparent: map[string]bool{
						"strings.TrimSuffix": true, "(net.IP).String": true, "strings.ToLower": true,
					}})
					for _, o := range os {
						if o.Kind == "field" && o.Key == strings.TrimPrefix(k.typ, "*")+"."+k.field {
							okFlow = true
						}
					}
				}
			}
			r.Check(okFlow, "C02-D1", key, p.FnPos(fr), "a value taken from records of this kind (through a helper) is checked against the rules",
				"the answer loop has no case for "+k.typ+" records: a blocked target/address in such a record is delivered")
			continue
		}
		// the ok edge of this assertion leads to a call of `via` whose argument derives from the asserted value's field
		var okEdgeBlock *ssa.BasicBlock
		for _, u := range core.Users(ta) {
			if e, isE := u.(*ssa.Extract); isE && e.Index == 1 {
				for _, u2 := range core.Users(e) {
					if ifi, isIf := u2.(*ssa.If); isIf {
						okEdgeBlock = ifi.Block().Succs[0]
					}
				}
			}
		}
		if okEdgeBlock == nil {
			r.Undecided("C02-D1", key, p.InstrPos(ta), "type-switch branch not recognised")
			continue
		}
		found := false
		derived := false
		for _, in := range okEdgeBlock.Instrs {
			call, isCall := in.(*ssa.Call)
			if !isCall || core.CalleeKey(call.Common()) != k.via {
				continue
			}
			found = true
			os := core.Origins(call.Common().Args[1], core.ProvOpts{Prog: p, Transparent: map[string]bool{
				"strings.TrimSuffix": true, "(net.IP).String": true, "strings.ToLower": true,
			}})
			for _, o := range os {
				if k.field != "" && o.Kind == "field" && o.Key == strings.TrimPrefix(k.typ, "*")+"."+k.field {
					derived = true
				}
			}
			if k.field == "" {
				// HTTPS: the record itself is passed
				if e, isE := call.Common().Args[1].(*ssa.Extract); isE && e.Tuple == ssa.Value(ta) {
					derived = true
				}
			}
		}
		r.Check(found && derived, "C02-D1", key, p.InstrPos(ta),
			"records of this kind are checked against the rules with a value taken from the record itself",
			"the case for "+k.typ+" does not check a value taken from that record ("+k.field+") against the rules")
	}
	// HTTPS hints: both hint kinds, and filterSVCBHint reports only filtered results
	fh := p.Fn("(*dnsforward.Server).filterHTTPSRecords")
	if fh == nil {
		r.Undecided("C02-D1", "filterHTTPSRecords", "-", "anchor not found")
	} else {
		got := map[string]bool{}
		hfns := []*ssa.Function{fh}
		for h := range core.StaticReach(fh, 2) {
			if h != fh && core.PkgOf(h) == "dnsforward" {
				hfns = append(hfns, h)
			}
		}
		for _, hf := range hfns {
			for _, b := range hf.Blocks {
				for _, in := range b.Instrs {
					if ta, ok := in.(*ssa.TypeAssert); ok {
						got[core.TypeKey(ta.AssertedType)] = true
					}
				}
			}
		}
		r.Check(got["*github.com/miekg/dns.SVCBIPv4Hint"] && got["*github.com/miekg/dns.SVCBIPv6Hint"], "C02-D1", "https-hint-kinds", p.FnPos(fh),
			"both ipv4hint and ipv6hint parameters are inspected", "not both ipv4hint and ipv6hint are inspected")
		// the parameter loop is left early only with a verdict of the rule check that says "filtered": every non-nil
		// result returned is checkHostRules' own, tested for IsFiltered on the way, or comes from a helper of the
		// package for which the same holds (filterSVCBHint in the verified tree)
		okValue, okFiltered, nChecked := true, true, 0
		var offAll []core.Offender
		var posBad string
		seenFn := map[*ssa.Function]bool{}
		var walk func(fn *ssa.Function, depth int)
		walk = func(fn *ssa.Function, depth int) {
			if seenFn[fn] {
				return
			}
			seenFn[fn] = true
			for _, b := range fn.Blocks {
				for _, in := range b.Instrs {
					ret, ok := core.AsReturn(in)
					if !ok || len(ret.Results) != 2 {
						continue
					}
					at := in
					for _, leaf := range core.FlattenPhi(core.ResolveCellLoad(core.ResolveLocalLoad(core.Res(ret, 0)))) {
						leaf = core.ResolveCellLoad(leaf)
						if core.IsNilConst(leaf) {
							continue
						}
						call, idx, isRes := core.CallResult(leaf)
						if !isRes || idx != 0 {
							okValue = false
							posBad = p.InstrPos(in)
							continue
						}
						if core.CalleeKey(call.Common()) == "(*dnsforward.Server).checkHostRules" {
							nChecked++
							lf := leaf
							g, n := core.CondEdges(fn, func(a core.Atom) (bool, bool) {
								if a.Op == token.ILLEGAL {
									if f2, owner, ok := core.LoadedField(a.Base); ok && f2.Type == "filtering.Result" && f2.Field == "IsFiltered" && core.SameValue(core.ResolveCellLoad(owner), lf) {
										return true, true
									}
								}
								return false, false
							})
							off, _ := core.UnguardedSinks(fn, func(x ssa.Instruction) bool { return x == at }, g)
							if n == 0 || len(off) > 0 {
								okFiltered = false
								offAll = append(offAll, off...)
							}
							continue
						}
						h := core.Callee(call.Common())
						if h == nil || len(h.Blocks) == 0 || h.Pkg != fn.Pkg || depth >= 3 {
							okValue = false
							posBad = p.InstrPos(in)
							continue
						}
						walk(h, depth+1)
					}
				}
			}
		}
		walk(fh, 0)
		pos := p.FnPos(fh)
		if posBad != "" {
			pos = posBad
		}
		r.Check(okValue, "C02-D1", "https-early-return-value", pos,
			"the parameter loop is left early only with the hint checker's result", "the HTTPS parameter loop is left early with another value")
		r.Check(okFiltered && nChecked > 0, "C02-D1", "hint-checker-reports-only-filtered", p.FnPos(fh),
			"the hint checker returns a result only when an address is filtered, so a clean first parameter does not end the inspection",
			"the hint checker can return a non-nil result that is not filtered: the caller stops at the first non-empty hint parameter and later (blocked) hints are never inspected", traceOf(p, offAll)...)
	}

	// D2: loop over the whole answer; exits
	var rangeLen *ssa.Call
	okRange := false
	for _, b := range fr.Blocks {
		for _, in := range b.Instrs {
			call, ok := in.(*ssa.Call)
			if !ok {
				continue
			}
			if bi, ok := call.Common().Value.(*ssa.Builtin); ok && bi.Name() == "len" {
				if f2, _, ok := core.LoadedField(call.Common().Args[0]); ok && f2.Type == "github.com/miekg/dns.Msg" && f2.Field == "Answer" {
					rangeLen = call
					okRange = true
				}
			}
		}
	}
	r.Check(okRange, "C02-D2", "loop-over-whole-answer", p.FnPos(fr), "the loop ranges over the complete answer section of the response", "the loop no longer ranges over the complete answer section (e.g. a re-sliced prefix)")
	if rangeLen != nil {
		// loop header: the block comparing the index with len
		var header *ssa.BasicBlock
		for _, u := range core.Users(rangeLen) {
			if bo, ok := u.(*ssa.BinOp); ok && bo.Op == token.LSS {
				header = bo.Block()
			}
		}
		if header == nil {
			r.Undecided("C02-D2", "loop-header", p.FnPos(fr), "range loop header not recognised")
		} else {
			body := header.Succs[0]
			gExit, _ := core.CondEdges(fr, func(at core.Atom) (bool, bool) {
				if at.Op == token.ILLEGAL {
					if f2, _, ok := core.LoadedField(core.ResolveCellLoad(at.Base)); ok && f2.Type == "filtering.Result" && f2.Field == "IsFiltered" {
						return true, true
					}
				}
				if (at.Op == token.NEQ || at.Op == token.EQL) && core.IsNilConst(at.Other) && types.Identical(at.Base.Type(), types.Universe.Lookup("error").Type()) {
					return true, at.Op == token.NEQ
				}
				return false, false
			})
			gExit[core.Edge{From: header, Succ: 1}] = true
			found, tr, _ := core.Reach(core.Query{From: []core.Point{{Block: body, Idx: 0}}, Target: core.IsReturn, AvoidEdges: gExit})
			r.Check(!found, "C02-D2", "only-filtered-or-error-leaves-loop", p.FnPos(fr),
				"before the last record the loop is left only on an error or on a filtered record", "the loop can be left early for a record that is neither filtered nor an error: later records are not inspected", p.TraceString(tr))
		}
	}

	// D3: origResp saved before Res overwritten, on the filtered edge
	isStoreTo := func(typ, field string) func(ssa.Instruction) bool {
		return func(in ssa.Instruction) bool {
			st, ok := in.(*ssa.Store)
			if !ok {
				return false
			}
			f2, ok := core.FieldOfAddr(st.Addr)
			return ok && f2.Type == typ && f2.Field == field
		}
	}
	resStore := func(in ssa.Instruction) bool {
		if !isStoreTo("github.com/AdguardTeam/dnsproxy/proxy.DNSContext", "Res")(in) {
			return false
		}
		return core.IsCallResult(in.(*ssa.Store).Val, -1, kGenFilterMsg)
	}
	origStore := func(in ssa.Instruction) bool {
		if !isStoreTo("dnsforward.dnsContext", "origResp")(in) {
			return false
		}
		f2, _, ok := core.LoadedField(in.(*ssa.Store).Val)
		return ok && f2.Field == "Res"
	}
	found, tr, _ := core.Reach(core.Query{From: []core.Point{core.Entry(fr)}, Target: resStore, Avoid: origStore})
	nRes := 0
	for _, b := range fr.Blocks {
		for _, in := range b.Instrs {
			if resStore(in) {
				nRes++
			}
		}
	}
	r.Check(nRes > 0 && !found, "C02-D3", "original-saved-before-replace", p.FnPos(fr),
		"the upstream response is saved as the original before the delivered response is replaced by the blocking-mode message",
		"the delivered response can be replaced without the original upstream response having been saved first", p.TraceString(tr))
	gF, nF := core.CondEdges(fr, func(at core.Atom) (bool, bool) {
		if at.Op == token.ILLEGAL {
			if f2, _, ok := core.LoadedField(core.ResolveCellLoad(at.Base)); ok && f2.Type == "filtering.Result" && f2.Field == "IsFiltered" {
				return true, true
			}
		}
		return false, false
	})
	off, _ := core.UnguardedSinks(fr, resStore, gF)
	r.Check(nF > 0 && len(off) == 0, "C02-D3", "replace-only-when-filtered", p.FnPos(fr), "the response is replaced only for a filtered record", "the response can be replaced although no record was filtered", traceOf(p, off)...)
	var starts []core.Point
	for e := range gF {
		starts = append(starts, core.AfterEdge(e))
	}
	f2, _, _ := core.Reach(core.Query{From: starts, Target: core.IsReturn, Avoid: resStore})
	r.Check(len(starts) > 0 && !f2, "C02-D3", "filtered-record-replaces-response", p.FnPos(fr), "a filtered record always replaces the delivered response", "a filtered record can leave the delivered response untouched")

	c02Gating(c)
	c02HostRulesAlwaysFilter(c)
	c02EveryRecordIsMatched(c)
}

// c02HostRulesAlwaysFilter: D5 — the engine result handed to
// matchHostProcessDNSResult is a match; whatever the record type asked about
// (the response filter passes the type of the answer record: CNAME, A, AAAA,
// HTTPS), the function gives a not-filtered (zero) Result only when the match
// carries no hosts-style rule of either family.
func c02HostRulesAlwaysFilter(c *Ctx) {
	p, r := c.P, c.R
	fn := p.Fn("(*filtering.DNSFilter).matchHostProcessDNSResult")
	if fn == nil {
		r.Undecided("C02-D5", "matchHostProcessDNSResult", "-", "anchor not found")
		return
	}
	emptyGuard := func(field string) func(at core.Atom) (bool, bool) {
		return func(at core.Atom) (bool, bool) {
			// the match's list of that family: the field itself, or a parameter every caller feeds with it
			var isFieldD func(v ssa.Value, depth int) bool
			isFieldD = func(v ssa.Value, depth int) bool {
				v = core.ResolveCellLoad(v)
				if fr, _, ok := core.LoadedField(v); ok {
					return fr.Type == "github.com/AdguardTeam/urlfilter.DNSResult" && fr.Field == field
				}
				if prm, isPrm := v.(*ssa.Parameter); isPrm && depth < 3 {
					args := core.ArgsOfParam(prm)
					for _, a := range args {
						if !isFieldD(a, depth+1) {
							return false
						}
					}
					return len(args) > 0
				}
				return false
			}
			isField := func(v ssa.Value) bool { return isFieldD(v, 0) }
			// the slice itself compared with nil
			if (at.Op == token.EQL || at.Op == token.NEQ) && core.IsNilConst(at.Other) && isField(at.Base) {
				return true, at.Op == token.EQL
			}
			// len(slice) compared with 0
			if call, ok := at.Base.(*ssa.Call); ok {
				if b, isB := call.Common().Value.(*ssa.Builtin); isB && b.Name() == "len" && len(call.Common().Args) == 1 && isField(call.Common().Args[0]) {
					if k, isK := core.ConstInt(at.Other); isK && k == 0 {
						switch at.Op {
						case token.EQL, token.LEQ:
							return true, true
						case token.NEQ, token.GTR:
							return true, false
						}
					}
				}
			}
			return false, false
		}
	}
	nRet, nZero := 0, 0
	seen := map[*ssa.Function]bool{}
	var visit func(f *ssa.Function, depth int)
	visit = func(f *ssa.Function, depth int) {
		if seen[f] {
			return
		}
		seen[f] = true
		for _, b := range f.Blocks {
			if len(b.Instrs) == 0 || b == f.Recover {
				continue
			}
			ret, ok := core.AsReturn(b.Instrs[len(b.Instrs)-1])
			if !ok || len(ret.Results) < 1 {
				continue
			}
			nRet++
			for _, leaf := range core.FlattenPhi(core.ResolveLocalLoad(core.Res(ret, 0))) {
				// a Result built by makeResult is a verdict
				if core.IsCallResult(leaf, -1, "filtering.makeResult") {
					continue
				}
				// a Result computed by a helper of the package: the same obligation inside it
				if call, _, isCall := core.CallResult(leaf); isCall {
					if h := core.Callee(call.Common()); h != nil && h.Pkg == fn.Pkg && len(h.Blocks) > 0 && depth < 3 {
						visit(h, depth+1)
						continue
					}
				}
				// a Result variable that was given a verdict (res = makeResult(...); res.Rules[i].IP = ...)
				if u, isU := leaf.(*ssa.UnOp); isU {
					if cell, isC := u.X.(*ssa.Alloc); isC {
						given := false
						for _, sv := range core.CellStores(cell) {
							if core.IsCallResult(sv, -1, "filtering.makeResult") {
								given = true
							}
						}
						if given {
							continue
						}
					}
				}
				// anything else is (or may be) the zero Result: no hosts-style rule of either family may be present
				nZero++
				at := ssa.Instruction(ret)
				for _, fam := range []string{"HostRulesV4", "HostRulesV6"} {
					g, n := core.CondEdges(f, emptyGuard(fam))
					off, _ := core.UnguardedSinksLocal(f, func(x ssa.Instruction) bool { return x == at }, g)
					r.Check(n > 0 && len(off) == 0, "C02-D5", fmt.Sprintf("not-filtered-only-without-host-rules:%s:%s#%d", core.FuncKey(f), fam, nZero), p.InstrPos(ret),
						"a not-filtered result is returned only when the match has no "+fam,
						"a match that carries hosts-style rules ("+fam+") can be turned into a not-filtered result: for the record type concerned (a CNAME target in a response, for one) names blocked by hosts-style lists are delivered", traceOf(p, off)...)
				}
			}
		}
	}
	visit(fn, 0)
	r.Floor("C02-D5", "matchHostProcessDNSResult-returns", nRet, 4)
	r.Floor("C02-D5", "not-filtered-returns", nZero, 1)
}

func c02Gating(c *Ctx) {
	p, r := c.P, c.R
	skipped, fn := skipReasons(p)
	if fn == nil {
		r.Undecided("C02-D4", "processFilteringAfterResponse", "-", "anchor not found")
		return
	}
	want := []string{"FilteredSafeSearch", "NotFilteredAllowList", "Rewritten", "RewrittenRule"}
	var got []string
	for k := range skipped {
		got = append(got, k)
	}
	sort.Strings(got)
	for _, w := range want {
		r.Check(skipped[w], "C02-D4", "skip-reason:"+w, p.FnPos(fn), "results with reason "+w+" are not response-filtered",
			"results with reason "+w+" are response-filtered: an allow-listed or rewritten answer can be replaced by the blocking-mode response")
	}
	r.Check(len(got) == len(want), "C02-D4", "skip-set-exact", p.FnPos(fn), "exactly the four documented reasons skip response filtering", fmt.Sprintf("the set of reasons that skip response filtering is %v (documented: %v): blocked targets in answers would be delivered for the extra reasons", got, want))

	fa := p.Fn("(*dnsforward.Server).filterAfterResponse")
	if fa == nil {
		r.Undecided("C02-D4", "filterAfterResponse", "-", "anchor not found")
	} else {
		for _, fld := range []string{"protectionEnabled", "responseFromUpstream"} {
			g, n := core.CondEdges(fa, func(at core.Atom) (bool, bool) {
				if at.Op == token.ILLEGAL {
					if f2, _, ok := core.LoadedField(at.Base); ok && f2.Type == "dnsforward.dnsContext" && f2.Field == fld {
						return true, true
					}
				}
				return false, false
			})
			off, ns := core.UnguardedSinks(fa, core.IsCallTo(false, kFilterResp), g)
			r.Check(n > 0 && ns > 0 && len(off) == 0, "C02-D4", "response-filter-gate:"+fld, p.FnPos(fa), "response filtering runs only when "+fld+" is true", "response filtering can run although "+fld+" is false", traceOf(p, off)...)
			// and it does run when both are true: from the true edges the filter call is unavoidable
		}
		// must-run: every path to a success return passes either a false gate edge or the filter call
		gOff, _ := core.CondEdges(fa, func(at core.Atom) (bool, bool) {
			if at.Op == token.ILLEGAL {
				if f2, _, ok := core.LoadedField(at.Base); ok && f2.Type == "dnsforward.dnsContext" && (f2.Field == "protectionEnabled" || f2.Field == "responseFromUpstream") {
					return true, false
				}
			}
			return false, false
		})
		found, tr, _ := core.Reach(core.Query{From: []core.Point{core.Entry(fa)}, Target: core.IsReturn, Avoid: core.IsCallTo(false, kFilterResp), AvoidEdges: gOff})
		r.Check(!found, "C02-D4", "response-filter-runs-when-applicable", p.FnPos(fa), "with protection on and an upstream response, response filtering always runs",
			"response filtering can be skipped although protection is on and the response came from an upstream", p.TraceString(tr))
	}
	if fr := p.Fn(kFilterResp); fr != nil {
		g, n := core.CondEdges(fr, func(at core.Atom) (bool, bool) {
			if at.Op == token.ILLEGAL {
				if f2, _, ok := core.LoadedField(at.Base); ok && f2.Type == "filtering.Settings" && f2.Field == "FilteringEnabled" {
					return true, true
				}
			}
			return false, false
		})
		off, ns := core.UnguardedSinks(fr, core.IsCallTo(false, "(*dnsforward.Server).checkHostRules", "(*dnsforward.Server).filterHTTPSRecords"), g)
		r.Check(n > 0 && ns > 0 && len(off) == 0, "C02-D4", "response-filter-gate:FilteringEnabled", p.FnPos(fr), "answers are checked only when filtering is enabled for the client", "answers can be checked although filtering is disabled for the client", traceOf(p, off)...)
	}
	// responseFromUpstream := true after every successful Resolve
	stages, _ := stageList(p)
	for _, up := range stages {
		if up == nil || len(core.CallsTo(up, kResolve)) == 0 {
			continue
		}
		gOK, nOK := core.CondEdges(up, func(at core.Atom) (bool, bool) {
			if (at.Op == token.EQL || at.Op == token.NEQ) && core.IsNilConst(at.Other) {
				v := core.ResolveCellLoad(at.Base)
				if core.IsCallResult(v, -1, kResolve) {
					return true, at.Op == token.EQL
				}
				if f2, _, ok := core.LoadedField(at.Base); ok && f2.Type == "dnsforward.dnsContext" && f2.Field == "err" {
					return true, at.Op == token.EQL
				}
			}
			return false, false
		})
		var starts []core.Point
		for e := range gOK {
			starts = append(starts, core.AfterEdge(e))
		}
		setTrue := func(in ssa.Instruction) bool {
			st, ok := in.(*ssa.Store)
			if !ok {
				return false
			}
			f2, ok := core.FieldOfAddr(st.Addr)
			if !ok || f2.Type != "dnsforward.dnsContext" || f2.Field != "responseFromUpstream" {
				return false
			}
			b, isC := core.ConstBool(st.Val)
			return isC && b
		}
		found := true
		var tr []*ssa.BasicBlock
		if len(starts) > 0 {
			found, tr, _ = core.Reach(core.Query{From: starts, Target: core.IsReturn, Avoid: setTrue})
		}
		r.Check(nOK > 0 && !found, "C02-D4", "from-upstream-flag-after-resolve:"+core.FuncKey(up), p.FnPos(up),
			"after every successful resolution the from-upstream flag is set to true (cache hits included)",
			"after a successful resolution the from-upstream flag is not unconditionally set to true: answers served from the proxy cache (or otherwise not attributed to an upstream) skip response filtering", p.TraceString(tr))
		// and only there
		for _, fn := range p.ModFnsIn("dnsforward") {
			for _, b := range fn.Blocks {
				for _, in := range b.Instrs {
					if setTrue(in) {
						r.Check(fn == up, "C02-D4", "from-upstream-flag-writer:"+core.FuncKey(fn), p.InstrPos(in), "the from-upstream flag is set only by the upstream stage", "the from-upstream flag is set outside the upstream stage")
					}
				}
			}
		}
	}
}

// c02EveryRecordIsMatched: D6 — the verdict for a record of an answer depends
// on the rule sets in force and on the client's settings (its own filtering
// switch, its name and tags), not only on the record: checkHostRules, through
// which every record is checked, returns without an error only after the
// filter's CheckHostRules was asked with this very host, type and settings.
// No remembered verdict can stand in for it.
func c02EveryRecordIsMatched(c *Ctx) {
	p, r := c.P, c.R
	fn := p.Fn("(*dnsforward.Server).checkHostRules")
	if fn == nil || len(fn.Params) != 4 {
		r.Undecided("C02-D6", "checkHostRules", "-", "anchor not found")
		return
	}
	asked := func(in ssa.Instruction) bool {
		call, ok := in.(*ssa.Call)
		if !ok || core.CalleeKey(call.Common()) != "(*filtering.DNSFilter).CheckHostRules" {
			return false
		}
		a := call.Common().Args
		return len(a) == 4 && core.ResolveCellLoad(a[1]) == ssa.Value(fn.Params[1]) && core.ResolveCellLoad(a[2]) == ssa.Value(fn.Params[2]) && core.ResolveCellLoad(a[3]) == ssa.Value(fn.Params[3])
	}
	n := 0
	for _, b := range fn.Blocks {
		for _, in := range b.Instrs {
			if asked(in) {
				n++
			}
		}
	}
	found, tr, _ := core.Reach(core.Query{From: []core.Point{core.Entry(fn)}, Target: func(in ssa.Instruction) bool { return isSuccessReturn(fn, in) }, Avoid: asked})
	r.Check(n > 0 && !found, "C02-D6", "every-record-asks-the-filter", p.FnPos(fn),
		"checkHostRules succeeds only after the filter matched this host and type under this request's settings",
		"checkHostRules can answer without asking the filter for this host, type and settings (a remembered verdict): a record that is clean for one client or rule set is delivered to a client, or after a rule change, for which it is blocked", p.TraceString(tr))
}
