package rules

import (
	"fmt"
	"go/token"
	"go/types"
	"strings"

	"aghverif/core"

	"golang.org/x/tools/go/ssa"
)

func init() {
	register(&Rule{
		ID:           "C17",
		Run:          runC17,
		ThoroughGOOS: []string{"darwin", "freebsd", "openbsd", "windows"},
		Exhaustive:   true,
		Explanation: "Arbitrary-file-read boundary of filter lists. Decided: (D1) every file-open primitive in packages filtering and filtering/rulelist either receives a path built only from internal data locations (FilterYAML.Path / Filter.FilePath / DataDir joins, never a user-supplied URL), or is dominated by pathMatchesAny(safeFSPatterns, p) == true for the very value p it opens, p being the result of filepath.Clean; " +
			"(D2) the add and set-url handlers reach the code that stores or downloads a list only after validateFilterURL returned nil, and validateFilterURL returns nil only through the cleaned-path pattern match or the HTTP(S) URL validation; pathMatchesAny returns true only on a successful filepath.Match and insists on a clean absolute path; (D3) no file transport / file server / protocol registration exists in these packages and downloads use the configured HTTP client; " +
			"(D4) the safe pattern list is written only from the configured patterns (no implicit defaults). " +
			"Not decided: filepath.Match / Clean semantics, symlinks.",
		RuleText:    "Open sites are enumerated by resolved callee; path provenance by backward SSA slice; guards by CFG edge queries.",
		Assumptions: []string{"filepath.Clean / filepath.Match / filepath.Abs behave as documented (trusted stdlib)", "os.Stat before the pattern check reveals existence only, not content"},
		Trusted:     commonTrusted,
	})
}

var c17OpenPrims = map[string]int{
	"os.Open": 0, "os.OpenFile": 0, "os.ReadFile": 0, "os.ReadDir": 0, "io/ioutil.ReadFile": 0,
	"github.com/AdguardTeam/urlfilter/filterlist.NewFileRuleList": 1,
}

func runC17(c *Ctx) {
	p, r := c.P, c.R
	opts := core.ProvOpts{InterprocDepth: 4, IntoModuleCalls: true, Prog: p}
	userControlled := func(o core.Origin) bool {
		switch o.Kind {
		case "field":
			return o.Key == "filtering.FilterYAML.URL" || o.Key == "filtering.filterAddJSON.URL" || o.Key == "filtering.filterURLReqData.URL" ||
				strings.HasSuffix(o.Key, ".URL") || o.Key == "filtering/rulelist.FilterConfig.URL"
		case "param", "opaque", "freevar":
			return true
		case "call":
			return strings.HasPrefix(o.Key, "dynamic:") || o.Key == "net/url.Parse" || o.Key == "(*net/url.URL).String"
		}
		return false
	}
	internalLoc := func(o core.Origin) bool {
		switch o.Kind {
		case "call":
			return o.Key == "(*filtering.FilterYAML).Path"
		case "field":
			return o.Key == "filtering.Filter.FilePath" || o.Key == "filtering.Config.DataDir"
		}
		return false
	}
	nSites, nGuarded := 0, 0
	per := map[string]int{}
	for _, fn := range p.ModFnsIn("filtering", "filtering/rulelist") {
		if fn.Blocks == nil {
			continue
		}
		for _, call := range core.Calls(fn) {
			ai, ok := c17OpenPrims[call.Key]
			if !ok {
				continue
			}
			nSites++
			fk := core.FuncKey(fn)
			per[fk]++
			key := fmt.Sprintf("open:%s|%s#%d", fk, call.Key, per[fk])
			pos := p.InstrPos(call.Instr)
			arg := call.Arg(ai)
			os := core.Origins(arg, opts)
			uc := false
			internal := false
			for _, o := range os {
				if userControlled(o) {
					uc = true
				}
				if internalLoc(o) {
					internal = true
				}
			}
			if internal && !uc {
				r.Ok("C17-D1", key, pos, fmt.Sprintf("opens an internal data file (origins %v)", trimList(core.OriginStrings(os), 5)))
				continue
			}
			// must be guarded by pathMatchesAny on the same cleaned value
			ok2, why := c17Guarded(fn, arg, call.Instr.(ssa.Instruction))
			if ok2 {
				nGuarded++
			}
			if core.PkgOf(fn) == "filtering/rulelist" && !ok2 {
				// rulelist.Filter (used by the unreleased next tree) reads only its own cache path
				cacheOnly := true
				for _, o := range os {
					if o.Kind == "param" && !strings.Contains(o.Key, "cachePath") && !strings.Contains(o.Key, "filePath") {
						cacheOnly = false
					}
				}
				if cacheOnly {
					r.Ok("C17-D1", key, pos, "rulelist cache file (path parameter cachePath/filePath built by the package)")
					continue
				}
			}
			r.Check(ok2, "C17-D1", key, pos,
				"opens a user-supplied location only under pathMatchesAny(safeFSPatterns, p) == true for the same cleaned p",
				fmt.Sprintf("a file is opened from a location that may be user supplied (%v) without the safe-pattern check on the same cleaned path: %s", trimList(core.OriginStrings(os), 6), why))
		}
	}
	r.Eval(nSites)
	r.Floor("C17-D1", "file-open-sites", nSites, 5)
	r.Floor("C17-D1", "pattern-guarded-open-sites", nGuarded, 1)

	c17Entry(c)
	c17Bans(c)
	c17Patterns(c)
}

// c17Guarded: `at` uses value v; every path to it passes
// pathMatchesAny(<DNSFilter.safeFSPatterns>, v) == true and v is a
// filepath.Clean result.
// c17Cleaned: v is the result of filepath.Clean, or a parameter of an
// unexported helper to which every caller passes such a value.
func c17Cleaned(v ssa.Value, depth int) bool {
	if core.IsCallResult(v, -1, "path/filepath.Clean") {
		return true
	}
	if prm, ok := v.(*ssa.Parameter); ok && depth < 3 {
		args := core.ArgsOfParam(prm)
		if len(args) == 0 {
			return false
		}
		for _, a := range args {
			if !c17Cleaned(a, depth+1) {
				return false
			}
		}
		return true
	}
	return false
}

func c17Guarded(fn *ssa.Function, v ssa.Value, at ssa.Instruction) (bool, string) {
	if !c17Cleaned(v, 0) {
		return false, "the opened value is not the result of filepath.Clean"
	}
	g, n := core.CondEdges(fn, func(a core.Atom) (bool, bool) {
		if a.Op != token.ILLEGAL {
			return false, false
		}
		call, _, ok := core.CallResult(a.Base)
		if !ok || core.CalleeKey(call.Common()) != "filtering.pathMatchesAny" {
			return false, false
		}
		args := call.Common().Args
		if len(args) != 2 || args[1] != v {
			return false, false
		}
		if !c17SafeChain(args[0]) {
			return false, false
		}
		return true, true
	})
	if n == 0 {
		return false, "no pathMatchesAny(d.safeFSPatterns, p) test on the opened value"
	}
	off, _ := core.UnguardedSinks(fn, func(in ssa.Instruction) bool { return in == at }, g)
	if len(off) > 0 {
		return false, "the open is reachable without passing the pattern test"
	}
	return true, ""
}

func c17Entry(c *Ctx) {
	p, r := c.P, c.R
	errNil := func(key string) func(core.Atom) (bool, bool) {
		return func(at core.Atom) (bool, bool) {
			if (at.Op == token.NEQ || at.Op == token.EQL) && core.IsNilConst(at.Other) && core.IsCallResult(at.Base, -1, key) {
				return true, at.Op == token.EQL
			}
			return false, false
		}
	}
	for fk, sinks := range map[string][]string{
		"(*filtering.DNSFilter).handleFilteringAddURL": {"(*filtering.DNSFilter).update", "(*filtering.DNSFilter).filterAdd", "(*filtering.DNSFilter).filterExistsLocked"},
		"(*filtering.DNSFilter).handleFilteringSetURL": {"(*filtering.DNSFilter).filterSetProperties"},
	} {
		fn := p.Fn(fk)
		if fn == nil {
			r.Undecided("C17-D2", "entry:"+fk, "-", "anchor not found")
			continue
		}
		g, n := core.CondEdges(fn, errNil("(*filtering.DNSFilter).validateFilterURL"))
		off, ns := core.UnguardedSinks(fn, core.IsCallTo(false, sinks...), g)
		r.Eval(n + ns)
		r.Check(n > 0 && ns > 0 && len(off) == 0, "C17-D2", "entry:"+fk, p.FnPos(fn),
			"the list is stored/downloaded only after validateFilterURL returned nil",
			"the handler can store or download a list whose location was not validated", traceOf(p, off)...)
	}
	// any other caller of update/filterAdd/filterSetProperties with a request-derived URL?  enumerate callers
	for _, k := range []string{"(*filtering.DNSFilter).filterSetProperties", "(*filtering.DNSFilter).filterAdd"} {
		fn := p.Fn(k)
		if fn == nil {
			continue
		}
		for _, cc := range p.StaticCallers(fn) {
			_ = cc
		}
	}

	vf := p.Fn("(*filtering.DNSFilter).validateFilterURL")
	if vf == nil {
		r.Undecided("C17-D2", "validateFilterURL", "-", "anchor not found")
	} else {
		g, n := core.CondEdges(vf, func(at core.Atom) (bool, bool) {
			// pattern match true on a cleaned value
			if at.Op == token.ILLEGAL {
				if call, _, ok := core.CallResult(at.Base); ok && core.CalleeKey(call.Common()) == "filtering.pathMatchesAny" {
					args := call.Common().Args
					if len(args) == 2 && c17Cleaned(args[1], 0) {
						if c17SafeChain(args[0]) {
							return true, true
						}
					}
				}
			}
			if (at.Op == token.NEQ || at.Op == token.EQL) && core.IsNilConst(at.Other) &&
				core.IsCallResult(at.Base, -1, "github.com/AdguardTeam/golibs/netutil/urlutil.ValidateHTTPURL") {
				return true, at.Op == token.EQL
			}
			return false, false
		})
		vmatch := func(at core.Atom) (bool, bool) {
			if at.Op == token.ILLEGAL {
				if call, _, ok := core.CallResult(at.Base); ok && core.CalleeKey(call.Common()) == "filtering.pathMatchesAny" {
					args := call.Common().Args
					if len(args) == 2 && c17Cleaned(args[1], 0) {
						if c17SafeChain(args[0]) {
							return true, true
						}
					}
				}
			}
			if (at.Op == token.NEQ || at.Op == token.EQL) && core.IsNilConst(at.Other) &&
				core.IsCallResult(at.Base, -1, "github.com/AdguardTeam/golibs/netutil/urlutil.ValidateHTTPURL") {
				return true, at.Op == token.EQL
			}
			return false, false
		}
		nHelper := 0
		off, ns := core.UnguardedSinks(vf, func(in ssa.Instruction) bool {
			if !isSuccessReturn(vf, in) {
				return false
			}
			// `return helper(...)`: succeeds only if the helper does; a helper that returns nil only through the
			// pattern match / URL validation is as good as the test itself
			if ret, ok := core.AsReturn(in); ok && len(ret.Results) == 1 {
				all := true
				rv := core.Res(ret, 0)
				var leaves []ssa.Value
				if ld, isLoad := rv.(*ssa.UnOp); isLoad {
					if cell, isCell := ld.X.(*ssa.Alloc); isCell {
						// the error result lives in a cell because a deferred closure annotates it (nil stays nil)
						vals, zero, _ := core.ReachingStores(cell, ld)
						if !zero {
							leaves = vals
						}
					}
				}
				if len(leaves) == 0 {
					leaves = core.FlattenPhi(core.ResolveLocalLoad(rv))
				}
				for _, l := range leaves {
					if _, isCall := l.(*ssa.Call); !isCall || !core.LiftNil(l, vmatch) {
						all = false
					}
				}
				if all {
					nHelper++
					return false
				}
			}
			return true
		}, g)
		ns += nHelper
		n += nHelper
		r.Eval(n + ns)
		r.Check(n >= 2 && ns > 0 && len(off) == 0, "C17-D2", "validateFilterURL:accepts-only-safe", p.FnPos(vf),
			"validateFilterURL succeeds only via the safe-pattern match on the cleaned path or via the HTTP(S) URL validation",
			"validateFilterURL can succeed for a location that passed neither the safe-pattern match on the cleaned path nor the HTTP(S) URL validation", traceOf(p, off)...)
	}

	pm := p.Fn("filtering.pathMatchesAny")
	if pm == nil || len(pm.Params) != 2 {
		r.Undecided("C17-D2", "pathMatchesAny", "-", "anchor not found")
		return
	}
	filePath := pm.Params[1]
	isMatch := func(at core.Atom) (bool, bool) {
		if at.Op == token.ILLEGAL && core.IsCallResult(at.Base, 0, "path/filepath.Match") {
			call, _, _ := core.CallResult(at.Base)
			if len(call.Common().Args) == 2 && core.ResolveCellLoad(call.Common().Args[1]) == ssa.Value(filePath) {
				return true, true
			}
		}
		return false, false
	}
	gMatch, nM := core.CondEdges(pm, isMatch)
	mayTrue := func(in ssa.Instruction) bool {
		ret, ok := core.AsReturn(in)
		if !ok || len(ret.Results) != 1 {
			return false
		}
		b, isC := core.ConstBool(core.ResolveLocalLoad(core.Res(ret, 0)))
		return !isC || b
	}
	// a returned value that is itself true only after a successful match (slices.ContainsFunc over a literal that
	// returns the match result) is not a way to return true without a match
	mayTrueNoMatch := func(in ssa.Instruction) bool {
		if !mayTrue(in) {
			return false
		}
		ret, _ := core.AsReturn(in)
		if core.LiftPredicate(core.Res(ret, 0), isMatch) {
			nM++
			return false
		}
		return true
	}
	off, ns := core.UnguardedSinks(pm, mayTrueNoMatch, gMatch)
	if ns == 0 && nM > 0 {
		ns = 1
	}
	r.Check(nM > 0 && ns > 0 && len(off) == 0, "C17-D2", "pathMatchesAny:true-only-on-match", p.FnPos(pm),
		"pathMatchesAny returns true only after filepath.Match(pattern, path) succeeded (so never with an empty pattern list)",
		"pathMatchesAny can return true without a successful filepath.Match on the given path", traceOf(p, off)...)
	gClean, nC := core.CondEdges(pm, func(at core.Atom) (bool, bool) {
		if at.Op != token.EQL && at.Op != token.NEQ {
			return false, false
		}
		isNorm := func(v ssa.Value) bool {
			return core.IsCallResult(v, 0, "path/filepath.Abs") || core.IsCallResult(v, -1, "path/filepath.Clean")
		}
		base, other := core.ResolveCellLoad(at.Base), core.ResolveCellLoad(at.Other)
		if (isNorm(base) && other == ssa.Value(filePath)) || (isNorm(other) && base == ssa.Value(filePath)) {
			return true, at.Op == token.EQL
		}
		return false, false
	})
	off2, _ := core.UnguardedSinks(pm, mayTrue, gClean)
	r.Check(nC > 0 && len(off2) == 0, "C17-D2", "pathMatchesAny:requires-clean-absolute", p.FnPos(pm),
		"pathMatchesAny matches only a path equal to its own cleaned absolute form (dot-dot spellings cannot reach the glob match)",
		"pathMatchesAny no longer insists that the path equals its cleaned absolute form: a '..' segment can be matched by a '*' of a pattern", traceOf(p, off2)...)
}

func c17Bans(c *Ctx) {
	p, r := c.P, c.R
	banned := map[string]bool{
		"net/http.NewFileTransport": true, "net/http.NewFileTransportFS": true, "(*net/http.Transport).RegisterProtocol": true,
		"net/http.FileServer": true, "net/http.FileServerFS": true, "net/http.ServeFile": true,
	}
	n := 0
	hits := 0
	for _, fn := range p.ModFnsIn("filtering", "filtering/rulelist") {
		for _, call := range core.Calls(fn) {
			n++
			if banned[call.Key] {
				hits++
				r.Fail("C17-D3", "banned:"+call.Key+"@"+core.FuncKey(fn), p.InstrPos(call.Instr), "a file transport / file server is used in the filter-list code: non-http locations could be read")
			}
		}
	}
	r.Eval(n)
	r.Check(hits == 0, "C17-D3", "no-file-transport", "-", fmt.Sprintf("no file transport, protocol registration or file server among %d call sites of filtering and filtering/rulelist", n), "banned primitive used")
	// self-test of the ban matcher: the key of http.NewFileTransport must resolve in the loaded program
	found := false
	for fn := range p.Fns {
		if fn.String() == "net/http.NewFileTransport" {
			found = true
		}
	}
	r.Check(found, "C17-D3", "ban-matcher-selftest", "-", "the banned primitive net/http.NewFileTransport exists in the loaded program under the key the matcher uses", "ban matcher is vacuous: net/http.NewFileTransport not found under its key")

	rf := p.Fn("(*filtering.DNSFilter).readerFromURL")
	if rf == nil {
		r.Undecided("C17-D3", "readerFromURL", "-", "anchor not found")
		return
	}
	ok := false
	for _, call := range core.Calls(rf) {
		if call.Key == "(*net/http.Client).Get" || call.Key == "(*net/http.Client).Do" {
			if fr, _, isF := core.LoadedField(call.Arg(0)); isF && fr.Type == "filtering.Config" && fr.Field == "HTTPClient" {
				ok = true
			} else {
				ok = false
				break
			}
		}
		if call.Key == "net/http.Get" {
			ok = false
			break
		}
	}
	r.Check(ok, "C17-D3", "download-uses-configured-client", p.FnPos(rf), "downloads go through Config.HTTPClient", "readerFromURL no longer uses the configured HTTP client only")
}

// c17SafeChain: v is (a load of, or an address inside) the safe-pattern list of the filter: a chain of field
// selections that passes through DNSFilter.safeFSPatterns.
func c17SafeChain(v ssa.Value) bool {
	for i := 0; i < 6; i++ {
		v = core.ResolveCellLoad(v)
		switch x := v.(type) {
		case *ssa.UnOp:
			if x.Op != token.MUL {
				return false
			}
			v = x.X
		case *ssa.FieldAddr:
			if fr, ok := core.FieldOfAddr(x); ok && fr.Type == "filtering.DNSFilter" && fr.Field == "safeFSPatterns" {
				return true
			}
			v = x.X
		case *ssa.Field:
			if fr, ok := core.FieldOfAddr(x); ok && fr.Type == "filtering.DNSFilter" && fr.Field == "safeFSPatterns" {
				return true
			}
			v = x.X
		default:
			return false
		}
	}
	return false
}

func c17Patterns(c *Ctx) {
	p, r := c.P, c.R
	n := 0
	// when the list is wrapped in a type of its own, that type's fields are part of the list
	wrapper := ""
	if pk := p.Pkg("filtering"); pk != nil {
		if o := pk.Types.Scope().Lookup("DNSFilter"); o != nil {
			if st, ok := o.Type().Underlying().(*types.Struct); ok {
				for i := 0; i < st.NumFields(); i++ {
					if st.Field(i).Name() == "safeFSPatterns" {
						if _, isStruct := st.Field(i).Type().Underlying().(*types.Struct); isStruct {
							wrapper = core.NamedKey(st.Field(i).Type())
						}
					}
				}
			}
		}
	}
	for _, fn := range p.ModFnsIn("filtering") {
		for _, b := range fn.Blocks {
			for _, in := range b.Instrs {
				st, ok := in.(*ssa.Store)
				if !ok {
					continue
				}
				if !c17SafeChain(st.Addr) {
					continue
				}
				n++
				key := fmt.Sprintf("pattern-writer:%s#%d", core.FuncKey(fn), n)
				os := core.Origins(st.Val, core.ProvOpts{InterprocDepth: 1, Prog: p})
				var bad []string
				for _, o := range os {
					switch {
					case o.Kind == "field" && (o.Key == "filtering.Config.SafeFSPatterns" || o.Key == "filtering.DNSFilter.safeFSPatterns" || (wrapper != "" && strings.HasPrefix(o.Key, wrapper+"."))):
					case o.Kind == "const" && o.Key == "nil":
					case o.Kind == "param" && strings.Contains(o.Key, "filtering.New#"):
					default:
						bad = append(bad, o.String())
					}
				}
				r.Check(len(bad) == 0 && core.FuncKey(fn) == "filtering.New", "C17-D4", key, p.InstrPos(in),
					"the safe pattern list is filled only from Config.SafeFSPatterns, in New",
					fmt.Sprintf("the safe pattern list receives values that do not come from the configured patterns (%v): with no patterns configured a local file could still be read", bad))
			}
		}
	}
	r.Floor("C17-D4", "pattern-list-writers", n, 1)
	// each configured pattern is validated with filepath.Match in New
	nf := p.Fn("filtering.New")
	if nf != nil {
		r.Check(len(core.CallsToDeep(nf, "path/filepath.Match")) > 0, "C17-D4", "patterns-validated", p.FnPos(nf), "configured patterns are validated with filepath.Match", "configured patterns are no longer validated (a bad pattern makes pathMatchesAny panic)")
	}
}
