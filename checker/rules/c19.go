package rules

import (
	"fmt"
	"go/token"
	"go/types"
	"sort"
	"strings"

	"aghverif/core"

	"golang.org/x/tools/go/ssa"
)

func init() {
	register(&Rule{
		ID:  "C19",
		Run: runC19,
		Explanation: "Safe-browsing / parental lookups. Decided: (D1) privacy: the message handed to the lookup upstream is built only from constants, the configured TXT suffix and hex encodings of h[:k] where h is a SHA-256 sum and k a constant not larger than 2; the host name parameter reaches the outgoing question by no other route (everything derived from it passes through sha256.Sum256 first); the cache is keyed by the same 2-byte slice; " +
			"(D2) the verdict compares full 32-byte hashes; (D3) cache transparency, structural part: the hash lists written to the cache come only from the hashes decoded from this response (never filtered against the asked names, never carried over from an older cache entry), negative entries are nil lists; an expired entry is treated as absent. " +
			"(D4) every call in CheckHost that passes the name on passes the lower-cased name, so safe-browsing and parental lookups hash the canonical spelling whether or not rule filtering is enabled. " +
			"(D3, cont.) cache entries are written only after the exchange with the lookup service returned no error. " +
			"(D2, cont.) a TXT string becomes a received hash only after its length was compared for equality with the hash size. " +
			"Not decided: label enumeration (last four labels, ICANN suffix cut), malformed TXT handling, transparency over all lookup histories.",
		RuleText:    "Backward provenance slices (interprocedural inside the package) with sha256.Sum256 as the sanitiser; constant slice bounds; comparison operand types.",
		Assumptions: []string{"crypto/sha256, encoding/hex and miekg/dns SetQuestion behave as documented", "debug logging of the host name is not a disclosure to the lookup service"},
		Trusted:     commonTrusted,
	})
}

func runC19(c *Ctx) {
	p, r := c.P, c.R
	chk := p.Fn("(*filtering/hashprefix.Checker).Check")
	if chk == nil {
		r.Undecided("C19-D1", "Check", "-", "anchor (*hashprefix.Checker).Check not found")
		return
	}
	transparent := map[string]bool{}
	for k := range core.DefaultTransparent {
		transparent[k] = true
	}
	for _, k := range []string{
		"(*github.com/miekg/dns.Msg).SetQuestion", "github.com/AdguardTeam/golibs/stringutil.WriteToBuilder",
		"(*strings.Builder).WriteString", "github.com/miekg/dns.Fqdn",
	} {
		transparent[k] = true
	}
	opts := core.ProvOpts{Prog: p, InterprocDepth: 9, IntoModuleCalls: true, Transparent: transparent, Stop: func(v ssa.Value) string {
		if core.IsCallResult(v, -1, "crypto/sha256.Sum256") {
			return "sha256"
		}
		return ""
	}}
	nEx := 0
	for _, fn := range p.ModFnsIn("filtering/hashprefix") {
		for _, call := range core.Calls(fn) {
			if call.Key != "iface:(github.com/AdguardTeam/dnsproxy/upstream.Upstream).Exchange" {
				continue
			}
			nEx++
			os := core.Origins(call.Common.Args[0], opts)
			var bad []string
			hashed := false
			for _, o := range os {
				switch {
				case o.Kind == "stop" && o.Key == "sha256":
					hashed = true
				case o.Kind == "const", o.Kind == "alloc":
				case o.Kind == "field" && (o.Key == "filtering/hashprefix.Checker.txtSuffix" || strings.HasPrefix(o.Key, "github.com/miekg/dns.")):
				case o.Kind == "field" && (o.Key == "filtering/hashprefix.cacheItem.hashes" || o.Key == "filtering/hashprefix.cacheItem.expiry"):
				case o.Kind == "call" && strings.Contains(o.Key, "filtering/hashprefix."):
					// module helpers are sliced through
				case o.Kind == "call" && (o.Key == "iface:(github.com/AdguardTeam/golibs/cache.Cache).Get" || o.Key == "time.Now" || strings.HasPrefix(o.Key, "builtin:") || strings.HasPrefix(o.Key, "(time.Time).")):
				default:
					bad = append(bad, o.String())
				}
			}
			r.Info["question_origins"] = core.OriginStrings(os)
			r.Check(hashed && len(bad) == 0, "C19-D1", "outgoing-question-origins:"+core.FuncKey(fn), p.InstrPos(call.Instr),
				"the lookup question is made only of constants, the TXT suffix and data that passed through sha256.Sum256",
				fmt.Sprintf("the message sent to the lookup service can contain data that is not a SHA-256 derivative (%v): the queried name itself could be disclosed", bad))
		}
	}
	r.Floor("C19-D1", "lookup-exchange-sites", nEx, 1)

	// prefix width: every hex.EncodeToString argument in getQuestion is h[:k], h a 32-byte array, k const <= 2
	gq := p.Fn("(*filtering/hashprefix.Checker).getQuestion")
	if gq == nil {
		r.Undecided("C19-D1", "getQuestion", "-", "anchor not found")
	} else {
		n := 0
		for _, call := range core.CallsTo(gq, "encoding/hex.EncodeToString") {
			n++
			okW, why := prefixSlice(call.Arg(0), 2)
			r.Check(okW, "C19-D1", fmt.Sprintf("prefix-width:getQuestion#%d", n), p.InstrPos(call.Instr),
				"only h[:k] with constant k <= 2 of a 32-byte hash is hex-encoded into the question", "more than a 2-byte prefix of a hash (or something that is not a hash prefix) is encoded into the question: "+why)
		}
		r.Floor("C19-D1", "hex-encodings-in-question", n, 1)
		// nothing else is written into the builder except constants and the suffix
		for _, call := range core.Calls(gq) {
			if call.Key != "github.com/AdguardTeam/golibs/stringutil.WriteToBuilder" && call.Key != "(*strings.Builder).WriteString" {
				continue
			}
			for _, a := range call.Common.Args[1:] {
				for _, el := range append(sliceLiteralElems(a), a) {
					if _, isSlice := el.(*ssa.Slice); isSlice && el == a {
						continue
					}
					os := core.Origins(el, core.ProvOpts{Prog: p, Transparent: map[string]bool{"none": true}})
					for _, o := range os {
						okO := o.Kind == "const" || o.Kind == "alloc" || (o.Kind == "call" && o.Key == "encoding/hex.EncodeToString") ||
							(o.Kind == "field" && o.Key == "filtering/hashprefix.Checker.txtSuffix")
						if !okO {
							r.Fail("C19-D1", "question-part:"+o.String(), p.InstrPos(call.Instr), "the question builder receives "+o.String()+", which is neither a constant, the TXT suffix nor a hex-encoded hash prefix")
						}
					}
				}
			}
		}
	}
	// cache keys are the same 2-byte prefixes
	nKeys := 0
	for _, fn := range p.ModFnsIn("filtering/hashprefix") {
		for _, call := range core.Calls(fn) {
			if call.Key != "iface:(github.com/AdguardTeam/golibs/cache.Cache).Get" && call.Key != "iface:(github.com/AdguardTeam/golibs/cache.Cache).Set" {
				continue
			}
			nKeys++
			okW, why := prefixSlice(call.Common.Args[0], 2)
			r.Check(okW, "C19-D1", fmt.Sprintf("cache-key-width:%s#%d", core.FuncKey(fn), nKeys), p.InstrPos(call.Instr),
				"the cache is keyed by a 2-byte prefix", "the cache key is not a 2-byte hash prefix: "+why)
		}
	}
	r.Floor("C19-D1", "cache-key-sites", nKeys, 3)

	// D2: verdict on full hashes
	fm := p.Fn("filtering/hashprefix.findMatch")
	if fm == nil {
		r.Undecided("C19-D2", "findMatch", "-", "anchor not found")
	} else {
		full := false
		for _, f := range core.WithAnon(fm) {
			for _, b := range f.Blocks {
				for _, in := range b.Instrs {
					switch x := in.(type) {
					case *ssa.BinOp:
						if x.Op == token.EQL || x.Op == token.NEQ {
							if arr, ok := x.X.Type().Underlying().(*types.Array); ok && arr.Len() == 32 {
								full = true
							}
						}
					case *ssa.Call:
						k := core.CalleeKey(x.Common())
						if strings.HasPrefix(k, "slices.Contains") || strings.HasPrefix(k, "slices.Index") {
							if sl, ok := x.Common().Args[0].Type().Underlying().(*types.Slice); ok {
								if arr, ok := sl.Elem().Underlying().(*types.Array); ok && arr.Len() == 32 {
									full = true
								}
							}
						}
					}
				}
			}
		}
		r.Check(full, "C19-D2", "verdict-compares-full-hashes", p.FnPos(fm), "the verdict compares complete 32-byte hashes", "findMatch no longer compares complete 32-byte hashes (a prefix collision would block a clean name)")
		// processAnswer's verdict comes from findMatch on (asked, received)
		pa := p.Fn("(*filtering/hashprefix.Checker).Check")
		if pa != nil {
			r.Check(len(core.CallsToDeep(pa, "filtering/hashprefix.findMatch")) > 0, "C19-D2", "verdict-from-findMatch", p.FnPos(pa), "Check (through processAnswer or itself) decides with findMatch", "the lookup no longer decides with findMatch")
		}
	}

	c19Cache(c)
	c19Normalised(c)
	c19FullHashOnly(c)
}

// prefixSlice: v is x[:k] (low nil or 0) with constant k <= max over a
// 32-byte array (or a value of a [k]byte array type with k <= max).
func prefixSlice(v ssa.Value, max int64) (bool, string) {
	sl, ok := v.(*ssa.Slice)
	if !ok {
		return false, fmt.Sprintf("%T is not a slice expression", v)
	}
	arr, isArr := derefArray(sl.X.Type())
	if !isArr {
		return false, "sliced operand is not an array"
	}
	if sl.Low != nil {
		if k, ok := core.ConstInt(sl.Low); !ok || k != 0 {
			return false, "non-zero low bound"
		}
	}
	if sl.High == nil {
		if arr.Len() <= max {
			return true, ""
		}
		return false, fmt.Sprintf("whole %d-byte array", arr.Len())
	}
	k, ok := core.ConstInt(sl.High)
	if !ok {
		return false, "non-constant high bound"
	}
	if k > max {
		return false, fmt.Sprintf("prefix of %d bytes", k)
	}
	return true, ""
}

func c19Cache(c *Ctx) {
	p, r := c.P, c.R
	sc := p.Fn("(*filtering/hashprefix.Checker).storeInCache")
	if sc == nil || len(sc.Params) != 3 {
		r.Undecided("C19-D3", "storeInCache", "-", "anchor not found")
		return
	}
	n := 0
	for _, call := range core.CallsTo(sc, "(*filtering/hashprefix.Checker).setCache") {
		n++
		os := core.Origins(call.Arg(2), core.ProvOpts{Prog: p})
		var bad []string
		for _, o := range os {
			switch {
			case o.Kind == "const", o.Kind == "alloc":
			case o.Kind == "param" && strings.Contains(o.Key, "storeInCache#2"):
			case o.Kind == "call" && strings.HasPrefix(o.Key, "builtin:"):
			default:
				bad = append(bad, o.String())
			}
		}
		r.Check(len(bad) == 0, "C19-D3", fmt.Sprintf("stored-hashes-origin:storeInCache#%d", n), p.InstrPos(call.Instr),
			"the hash list stored for a prefix is nil or made of the hashes received in this response",
			fmt.Sprintf("a cache entry is written with hashes that do not come from this response (%v): a later lookup answered from the cache can differ from a fresh one", bad))
	}
	r.Floor("C19-D3", "cache-store-sites", n, 2)
	// what Check hands to storeInCache: the received hashes are exactly the decoded TXT strings
	chk := p.Fn("(*filtering/hashprefix.Checker).Check")
	if chk != nil {
		// the cache is written only with what the service answered: never after a failed exchange
		gOK, nOK := core.CondEdges(chk, func(at core.Atom) (bool, bool) {
			if (at.Op == token.EQL || at.Op == token.NEQ) && core.IsNilConst(at.Other) {
				if call, idx, ok := core.CallResult(core.ResolveCellLoad(at.Base)); ok && idx == 1 && call.Common().IsInvoke() && call.Common().Method.Name() == "Exchange" {
					return true, at.Op == token.EQL
				}
			}
			return false, false
		})
		offS, nsS := core.UnguardedSinks(chk, core.IsCallTo(false, "(*filtering/hashprefix.Checker).storeInCache"), gOK)
		r.Check(nOK > 0 && nsS > 0 && len(offS) == 0, "C19-D3", "cache-written-only-after-an-answer", p.FnPos(chk),
			"cache entries are written only after the lookup service answered",
			"a cache entry can be written although the exchange with the lookup service failed: the (negative) entry then answers later lookups for the prefix that a fresh lookup would answer differently", traceOf(p, offS)...)
	}
	for _, call := range core.CallsTo(chk, "(*filtering/hashprefix.Checker).storeInCache") {
		os := core.Origins(call.Arg(2), core.ProvOpts{Prog: p, InterprocDepth: 3, IntoModuleCalls: true})
		var bad []string
		decoded := false
		for _, o := range os {
			switch {
			case o.Kind == "call" && o.Key == "encoding/hex.DecodeString":
				decoded = true
			case o.Kind == "call" && strings.Contains(o.Key, "filtering/hashprefix."):
			case o.Kind == "call" && strings.HasPrefix(o.Key, "builtin:"):
			case o.Kind == "const", o.Kind == "alloc", o.Kind == "param":
			case o.Kind == "field" && strings.HasPrefix(o.Key, "github.com/miekg/dns."):
			default:
				bad = append(bad, o.String())
			}
		}
		r.Check(decoded && len(bad) == 0, "C19-D3", "received-hashes-unfiltered", p.InstrPos(call.Instr),
			"the hashes handed to the cache are the hex-decoded TXT strings of the response, unfiltered",
			fmt.Sprintf("the received hashes are transformed before they are cached (%v): dropping hashes that were 'not asked for' turns a shared prefix into a negative entry that hides a listed name", bad))
	}
	// findInCache: an expired entry is treated as absent (never decides)
	fc := p.Fn("(*filtering/hashprefix.Checker).findInCache")
	if fc == nil {
		r.Undecided("C19-D3", "findInCache", "-", "anchor not found")
		return
	}
	gFresh, nF := core.CondEdges(fc, func(at core.Atom) (bool, bool) {
		if at.Op == token.ILLEGAL && (core.IsCallResult(at.Base, -1, "(time.Time).After") || core.IsCallResult(at.Base, -1, "(time.Time).Before")) {
			call, _, _ := core.CallResult(at.Base)
			after := core.CalleeKey(call.Common()) == "(time.Time).After"
			// now.After(expiry) false => fresh ; expiry.Before(now) false => fresh ; expiry.After(now) true => fresh
			recvIsExpiry := false
			if fr, _, ok := core.LoadedField(call.Common().Args[0]); ok && fr.Field == "expiry" {
				recvIsExpiry = true
			}
			if after {
				return true, recvIsExpiry
			}
			return true, !recvIsExpiry
		}
		return false, false
	})
	off, ns := core.UnguardedSinks(fc, core.IsCallTo(false, "filtering/hashprefix.findMatch"), gFresh)
	r.Check(nF > 0 && ns > 0 && len(off) == 0, "C19-D3", "expired-entry-never-decides", p.FnPos(fc),
		"a cached entry contributes to the verdict only while it has not expired", "an expired cache entry can still decide the verdict", traceOf(p, off)...)
}

// c19Normalised: D4.  The hash of a name is computed from the bytes handed to
// the checker; the service lists lower-case names and the public-suffix test
// is case-sensitive.  Every host checker (safe browsing and parental included,
// which do not depend on rule filtering being enabled) must therefore receive
// the lower-cased name: in CheckHost no call receives the raw parameter.
// c19FullHashOnly: D2 (cont.) — a TXT string of the answer becomes a received
// hash only if it is a full hash: its length (or the length of what it decodes
// to) was compared for equality with the hash size.  A string that is merely
// long enough would be cut to a full hash by the copy and match a name whose
// hash it starts with.
func c19FullHashOnly(c *Ctx) {
	p, r := c.P, c.R
	fn := p.Fn("(*filtering/hashprefix.Checker).appendHashesFromTXT")
	if fn == nil {
		r.Undecided("C19-D2", "appendHashesFromTXT", "-", "anchor not found")
		return
	}
	exact, nE := core.CondEdges(fn, func(at core.Atom) (bool, bool) {
		if at.Op != token.EQL && at.Op != token.NEQ {
			return false, false
		}
		call, ok := at.Base.(*ssa.Call)
		if !ok {
			return false, false
		}
		if b, isB := call.Common().Value.(*ssa.Builtin); !isB || b.Name() != "len" {
			return false, false
		}
		k, isK := core.ConstInt(at.Other)
		if !isK || (k != 64 && k != 32) {
			return false, false
		}
		// 64 for the text, 32 for the decoded bytes
		t := call.Common().Args[0].Type().Underlying()
		if _, isStr := t.(*types.Basic); isStr && k != 64 {
			return false, false
		}
		if _, isSl := t.(*types.Slice); isSl && k != 32 {
			return false, false
		}
		return true, at.Op == token.EQL
	})
	isCopy := func(in ssa.Instruction) bool {
		call, ok := in.(*ssa.Call)
		if !ok {
			return false
		}
		b, isB := call.Common().Value.(*ssa.Builtin)
		return isB && b.Name() == "copy"
	}
	off, ns := core.UnguardedSinks(fn, isCopy, exact)
	r.Check(nE > 0 && ns > 0 && len(off) == 0, "C19-D2", "only-full-length-strings-become-hashes", p.FnPos(fn),
		"a TXT string is turned into a hash only after its length was found equal to the hash size",
		"a TXT string can be turned into a hash without its length having been compared for equality with the hash size: a longer string is cut to 32 bytes and blocks the name whose hash it starts with", traceOf(p, off)...)
}

func c19Normalised(c *Ctx) { checkersGetLowerCasedName(c, "C19-D4") }

// checkersGetLowerCasedName: every checker CheckHost hands the name to receives the lower-cased name (shared by
// C19-D4, where a mixed-case name would be hashed differently, and C01, where it would slip past the blocked
// services, safe browsing and parental checks whose rules are matched in lower case).
func checkersGetLowerCasedName(c *Ctx, rule string) {
	p, r := c.P, c.R
	fn := p.Fn("(*filtering.DNSFilter).CheckHost")
	if fn == nil || len(fn.Params) < 2 {
		r.Undecided(rule, "CheckHost", "-", "anchor not found")
		return
	}
	host := fn.Params[1]
	stop := func(v ssa.Value) string {
		if call, ok := v.(*ssa.Call); ok && core.CalleeKey(call.Common()) == "strings.ToLower" {
			return "lower"
		}
		return ""
	}
	n := 0
	var bad []string
	for _, call := range core.Calls(fn) {
		if call.Key == "strings.ToLower" {
			continue
		}
		args := call.Common.Args
		for _, a := range args {
			if bt, ok := a.Type().Underlying().(*types.Basic); !ok || bt.Kind() != types.String {
				continue
			}
			raw, low := false, false
			for _, o := range core.Origins(a, core.ProvOpts{Prog: p, Stop: stop, Transparent: map[string]bool{}}) {
				if o.Kind == "param" && o.Val == ssa.Value(host) {
					raw = true
				}
				if o.Kind == "stop" {
					low = true
				}
			}
			if !raw && !low {
				continue
			}
			n++
			if raw {
				bad = append(bad, fmt.Sprintf("%s at %s can receive the name as the client spelled it", call.Key, p.InstrPos(call.Instr)))
			}
		}
	}
	sort.Strings(bad)
	r.Check(n >= 2 && len(bad) == 0, rule, "checkers-get-lower-cased-name", p.FnPos(fn),
		fmt.Sprintf("all %d calls that pass the name on in CheckHost pass the lower-cased name", n),
		"a checker can receive the name in the client's spelling: a mixed-case query for a listed name is hashed differently (other prefixes are sent, the verdict is 'not listed', and that is cached)", bad...)
}
