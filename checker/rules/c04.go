package rules

import (
	"fmt"
	"go/token"
	"go/types"
	"sort"
	"strings"

	"aghverif/core"

	"golang.org/x/tools/go/ssa"
)

func init() {
	register(&Rule{
		ID:  "C04",
		Run: runC04,
		Explanation: "Persistent clients. Decided: (D1) lookup precedence: the request path and the upstream selection ask for the ClientID first, for the address only when that failed, and for the DHCP MAC only when both failed; the address lookup tries the exact address before the subnets; " +
			"(D2) own-settings switches: the client's filtering / safe-search / safe-browsing / parental settings are copied only on the UseOwnSettings edge and its blocked services only on the UseOwnBlockedServices edge, and the per-client list replaces the global one exactly when present (also while the client's own schedule pauses it); the client's name and tags reach the filter for every found client, whatever the switches say; (D3) clash check before mutation in one critical section: add/remove of index entries are reached only after the clash checks returned nil, with the storage mutex held from the check to the mutation; " +
			"(D4) index siblings agree: add writes and remove deletes exactly all maps of the index, nothing else mutates them, add and remove address each map with the same key expression, and every identifier map is consulted by a clash check and by a finder; (D5) every access to the indexes happens under the storage mutex. " +
			"(D6) the most specific subnet wins: the comparator the subnet index is sorted with, evaluated over the finite domain {sign of the prefix-length difference} x {sign of the address comparison}, puts the longer prefix first for every address relation, is antisymmetric and zero only for the same subnet; the lookup's range callback stops at the first prefix that contains the address. " +
			"(D6, cont.) the exact-address index is probed with the request's address unchanged (its keys keep the zone they were configured with). " +
			"(D1, cont.) whether the DHCP-lease level of the lookup cascade is tried depends only on the earlier levels (and a DHCP server being there), not on any other setting of the storage. " +
			"Not decided: consistency over arbitrary add/update/remove histories, DHCP-lease interleavings, prefix containment itself.",
		RuleText:    "Call ordering and edge guards on SSA, field-set agreement between sibling functions, who-may-write enumeration, lock dominance over static callers.",
		Assumptions: []string{"aghalg.SortedMap iterates in comparator order"},
		Trusted:     commonTrusted,
	})
}

func runC04(c *Ctx) {
	p, r := c.P, c.R
	const kByCID = "(*client.index).findByClientID"
	const kByIP = "(*client.index).findByIP"
	const kByMAC = "(*client.index).findByMAC"
	notFound := func(fn *ssa.Function, key string) (map[core.Edge]bool, int) {
		return core.CondEdges(fn, func(at core.Atom) (bool, bool) {
			if at.Op != token.ILLEGAL {
				return false, false
			}
			for _, l := range core.FlattenPhi(core.ResolveCellLoad(at.Base)) {
				if core.IsCallResult(l, 1, key) {
					return true, false
				}
			}
			return false, false
		})
	}
	// the function installed as filtering.Config.ApplyClientFiltering
	var applyFn *ssa.Function
	for _, fn := range p.ModFnsIn("home") {
		for _, b := range fn.Blocks {
			for _, in := range b.Instrs {
				if st, ok := in.(*ssa.Store); ok {
					if fr, ok := core.FieldOfAddr(st.Addr); ok && fr.Type == "filtering.Config" && fr.Field == "ApplyClientFiltering" {
						f, _ := core.FnValue(st.Val)
						applyFn = core.Unbound(f)
					}
				}
			}
		}
	}
	r.Check(applyFn != nil && core.FuncKey(applyFn) == "(*client.Storage).ApplyClientFiltering", "C04-D1", "request-path-callback", "-",
		"the request path resolves persistent clients through (*client.Storage).ApplyClientFiltering", "the per-request client callback is not (*client.Storage).ApplyClientFiltering")
	for _, fk := range []string{"(*client.Storage).ApplyClientFiltering", "(*client.Storage).CustomUpstreamConfig", "(*client.index).find"} {
		fn := p.Fn(fk)
		if fn == nil {
			r.Undecided("C04-D1", fk, "-", "anchor not found")
			continue
		}
		if len(core.CallsTo(fn, kByCID)) == 0 || len(core.CallsTo(fn, kByIP)) == 0 {
			// the cascade may live in a helper of the package that fn calls (lookup extracted into its own function)
			var helper *ssa.Function
			for h := range core.StaticReach(fn, 2) {
				if h != fn && core.PkgOf(h) == "client" && len(core.CallsTo(h, kByCID)) > 0 && len(core.CallsTo(h, kByIP)) > 0 {
					if helper == nil || core.FuncKey(h) < core.FuncKey(helper) {
						helper = h
					}
				}
			}
			if helper == nil {
				r.Fail("C04-D1", "precedence:"+fk, p.FnPos(fn), "the lookup no longer consults both the ClientID and the address index")
				continue
			}
			fn = helper
		}
		g, n := notFound(fn, kByCID)
		off, _ := core.UnguardedSinks(fn, core.IsCallTo(false, kByIP), g)
		r.Check(n > 0 && len(off) == 0, "C04-D1", "precedence:clientid-before-ip:"+fk, p.FnPos(fn),
			"the address is looked up only after the ClientID lookup found nothing", "the address lookup can run (and win) although the ClientID lookup found a client, or before it", traceOf(p, off)...)
		macCalls := []string{"iface:(client.DHCP).MACByIP", kByMAC, "(*client.Storage).FindByMAC"}
		hasMAC := false
		for _, k := range macCalls {
			if len(core.CallsToDeep(fn, k)) > 0 {
				hasMAC = true
			}
		}
		if hasMAC {
			g2, n2 := notFound(fn, kByIP)
			off2, _ := core.UnguardedSinks(fn, core.IsCallTo(false, macCalls...), g2)
			// index.find parses the id as IP first; a failed parse also leads to the MAC attempt
			if fk == "(*client.index).find" {
				gp, _ := core.CondEdges(fn, func(at core.Atom) (bool, bool) {
					if (at.Op == token.EQL || at.Op == token.NEQ) && core.IsNilConst(at.Other) && core.IsCallResult(at.Base, 1, "net/netip.ParseAddr") {
						return true, at.Op == token.NEQ
					}
					return false, false
				})
				for e := range gp {
					g2[e] = true
				}
				off2, _ = core.UnguardedSinks(fn, core.IsCallTo(false, macCalls...), g2)
			}
			r.Check(n2 > 0 && len(off2) == 0, "C04-D1", "precedence:ip-before-mac:"+fk, p.FnPos(fn),
				"the DHCP MAC is consulted only after the address lookup found nothing", "the DHCP MAC lookup can run before the address lookup failed", traceOf(p, off2)...)
		}
	}
	// the DHCP-lease level of the cascade is part of finding a persistent client: whether it is tried depends on
	// the earlier levels having found nothing (and on a DHCP server being there), not on any other setting of the
	// storage — the runtime-sources switches govern runtime clients only
	for _, fk := range []string{"(*client.Storage).ApplyClientFiltering", "(*client.Storage).Find", "(*client.Storage).FindLoose"} {
		fn := p.Fn(fk)
		if fn == nil {
			r.Undecided("C04-D1", "lease-level:"+fk, "-", "anchor not found")
			continue
		}
		var sites []ssa.Instruction
		for _, b := range fn.Blocks {
			for _, in := range b.Instrs {
				if core.IsCallTo(false, "iface:(client.DHCP).MACByIP")(in) {
					sites = append(sites, in)
				}
			}
		}
		var bad []string
		for _, site := range sites {
			for _, b := range fn.Blocks {
				iff, ok := b.Instrs[len(b.Instrs)-1].(*ssa.If)
				if !ok {
					continue
				}
				at := core.Decompose(iff.Cond)
				field := ""
				for _, v := range []ssa.Value{at.Base, at.Other} {
					if v == nil {
						continue
					}
					if fr, _, isF := core.LoadedField(core.ResolveCellLoad(v)); isF && fr.Type == "client.Storage" && fr.Field != "dhcp" {
						field = fr.Field
					}
				}
				if field == "" {
					continue
				}
				for succ := 0; succ < 2; succ++ {
					found, _, _ := core.Reach(core.Query{From: []core.Point{core.Entry(fn)}, Target: func(x ssa.Instruction) bool { return x == site }, AvoidEdges: map[core.Edge]bool{{From: b, Succ: succ}: true}})
					if !found {
						bad = append(bad, "whether the lease's MAC is looked up depends on Storage."+field+" ("+p.InstrPos(iff)+")")
					}
				}
			}
		}
		r.Check(len(sites) > 0 && len(bad) == 0, "C04-D1", "lease-level-unconditional:"+fk, p.FnPos(fn),
			"the lookup by the MAC of the address's DHCP lease is tried whenever the earlier levels found nothing",
			"the DHCP-lease level of the client lookup is switched by another setting of the storage: with that setting off, a client configured by MAC is not found by its leased address and gets the default (or a broader client's) settings", bad...)
	}
	fip := p.Fn(kByIP)
	if fip == nil {
		r.Undecided("C04-D1", kByIP, "-", "anchor not found")
	} else {
		g, n := core.CondEdges(fip, func(at core.Atom) (bool, bool) {
			if at.Op == token.ILLEGAL {
				for _, l := range core.FlattenPhi(core.ResolveCellLoad(at.Base)) {
					if e, ok := l.(*ssa.Extract); ok && e.Index == 1 {
						if lk, ok := e.Tuple.(*ssa.Lookup); ok {
							if fr, _, ok := core.LoadedField(lk.X); ok && fr.Field == "ipToUID" {
								return true, false
							}
						}
					}
				}
			}
			return false, false
		})
		isRange := func(in ssa.Instruction) bool {
			call, ok := in.(*ssa.Call)
			return ok && strings.Contains(core.CalleeKey(call.Common()), "aghalg.SortedMap") && strings.HasSuffix(core.CalleeKey(call.Common()), ".Range")
		}
		off, ns := core.UnguardedSinks(fip, isRange, g)
		r.Check(n > 0 && ns > 0 && len(off) == 0, "C04-D1", "precedence:exact-ip-before-subnets", p.FnPos(fip),
			"subnets are searched only when there is no exact-address entry", "subnets can be searched although an exact-address entry exists", traceOf(p, off)...)
	}

	// D2
	ap := p.Fn("(*client.Storage).ApplyClientFiltering")
	if ap != nil {
		own := []string{"FilteringEnabled", "SafeSearchEnabled", "ClientSafeSearch", "SafeBrowsingEnabled", "ParentalEnabled"}
		storeTo := func(fields ...string) func(ssa.Instruction) bool {
			return func(in ssa.Instruction) bool {
				st, ok := in.(*ssa.Store)
				if !ok {
					return false
				}
				fr, ok := core.FieldOfAddr(st.Addr)
				if !ok || fr.Type != "filtering.Settings" {
					return false
				}
				for _, f := range fields {
					if fr.Field == f {
						return true
					}
				}
				return false
			}
		}
		flag := func(name string) (map[core.Edge]bool, int) {
			return core.CondEdges(ap, func(at core.Atom) (bool, bool) {
				if at.Op == token.ILLEGAL {
					if fr, _, ok := core.LoadedField(at.Base); ok && fr.Type == "client.Persistent" && fr.Field == name {
						return true, true
					}
				}
				return false, false
			})
		}
		g, n := flag("UseOwnSettings")
		off, ns := core.UnguardedSinks(ap, storeTo(own...), g)
		r.Check(n > 0 && ns == len(own) && len(off) == 0, "C04-D2", "own-settings-switch", p.FnPos(ap),
			"the client's own filtering/safe-search/safe-browsing/parental settings are applied only when it opts out of the global ones",
			fmt.Sprintf("own settings are applied outside the UseOwnSettings edge, or not all %d of them are copied (found %d stores)", len(own), ns), traceOf(p, off)...)
		g2, n2 := flag("UseOwnBlockedServices")
		off2, ns2 := core.UnguardedSinks(ap, storeTo("BlockedServices"), g2)
		r.Check(n2 > 0 && ns2 > 0 && len(off2) == 0, "C04-D2", "own-blocked-services-switch", p.FnPos(ap),
			"the client's own blocked services are applied only when it opts out of the global list", "own blocked services are applied outside the UseOwnBlockedServices edge", traceOf(p, off2)...)
		// values copied from the same-named client fields
		for _, f := range own {
			for _, b := range ap.Blocks {
				for _, in := range b.Instrs {
					if storeTo(f)(in) {
						os := core.Origins(in.(*ssa.Store).Val, core.ProvOpts{Prog: p})
						okF := false
						for _, o := range os {
							if o.Kind == "field" && strings.HasPrefix(o.Key, "client.Persistent.") {
								src := strings.TrimPrefix(o.Key, "client.Persistent.")
								if src == f || (f == "SafeSearchEnabled" && src == "SafeSearchConf") || (f == "ClientSafeSearch" && src == "SafeSearch") {
									okF = true
								}
							}
							if o.Kind == "field" && o.Key == "filtering.SafeSearchConfig.Enabled" && f == "SafeSearchEnabled" {
								okF = true
							}
						}
						r.Check(okF, "C04-D2", "own-setting-source:"+f, p.InstrPos(in), "setting "+f+" is copied from the client's corresponding field", "setting "+f+" is copied from a different client field")
					}
				}
			}
		}
	}
	clientIdentityApplied(c, "C04-D2")
	ownBlockedServices(c, "C04-D2")

	c04Mutation(c)
	c04Siblings(c)
	c04MostSpecific(c)
	checkUnderLock(c, underLockSpec{
		Rule: "C04-D5", Pkgs: []string{"client"}, OwnerType: "client.Storage", Lock: "mu", AccessType: "client.Storage",
		Fields: []string{"index", "runtimeIndex"},
		Constructors: map[string]string{
			"client.NewStorage":                      "constructor: the storage is not yet published",
			"(*client.Storage).loadFromConfigLocked": "",
		},
		Floor: 12,
	})
}

func c04Mutation(c *Ctx) {
	p, r := c.P, c.R
	errNil := func(fn *ssa.Function, key string) (map[core.Edge]bool, int) {
		return core.CondEdges(fn, func(at core.Atom) (bool, bool) {
			if (at.Op == token.EQL || at.Op == token.NEQ) && core.IsNilConst(at.Other) {
				if core.IsCallResult(core.ResolveCellLoad(at.Base), -1, key) {
					return true, at.Op == token.EQL
				}
			}
			// the check may also answer "there is a clash" as a boolean (next to the clashing client)
			if at.Op == token.ILLEGAL && core.IsCallResult(core.ResolveCellLoad(at.Base), -1, key) {
				if bt, ok := at.Base.Type().Underlying().(*types.Basic); ok && bt.Kind() == types.Bool {
					return true, false
				}
			}
			return false, false
		})
	}
	mutators := core.IsCallTo(false, "(*client.index).add", "(*client.index).remove")
	type spec struct {
		fn     string
		checks []string
	}
	for _, sp := range []spec{
		{"(*client.Storage).Add", []string{"(*client.index).clashesUID", "(*client.index).clashes"}},
		{"(*client.Storage).Update", []string{"(*client.index).clashes"}},
	} {
		fn := p.Fn(sp.fn)
		if fn == nil {
			r.Undecided("C04-D3", sp.fn, "-", "anchor not found")
			continue
		}
		for _, ck := range sp.checks {
			g, n := errNil(fn, ck)
			off, ns := core.UnguardedSinks(fn, mutators, g)
			r.Check(n > 0 && ns > 0 && len(off) == 0, "C04-D3", fmt.Sprintf("check-before-mutation:%s:%s", sp.fn, ck), p.FnPos(fn),
				"the index is changed only after "+ck+" returned nil", "the index can be changed although "+ck+" reported a clash (or before it ran): a rejected operation leaves the registry modified", traceOf(p, off)...)
		}
		// no unlock between the first check and the last mutation; lock taken before the first check
		isUnlock := func(in ssa.Instruction) bool {
			call, ok := in.(*ssa.Call)
			return ok && core.CalleeKey(call.Common()) == "(*sync.Mutex).Unlock"
		}
		var starts []core.Point
		for _, call := range core.CallsTo(fn, sp.checks...) {
			pt := core.PointOf(call.Instr)
			starts = append(starts, pt)
		}
		f1 := false
		for _, b := range fn.Blocks {
			for i, in := range b.Instrs {
				if isUnlock(in) {
					a, _, _ := core.Reach(core.Query{From: starts, Target: func(x ssa.Instruction) bool { return x == in }})
					bb, _, _ := core.Reach(core.Query{From: []core.Point{{Block: b, Idx: i + 1}}, Target: mutators})
					if a && bb {
						f1 = true
					}
				}
			}
		}
		isLock := func(in ssa.Instruction) bool {
			call, ok := in.(*ssa.Call)
			if !ok || core.CalleeKey(call.Common()) != "(*sync.Mutex).Lock" {
				return false
			}
			if fr, ok := core.FieldOfAddr(call.Common().Args[0]); ok && fr.Type == "client.Storage" && fr.Field == "mu" {
				return true
			}
			fr, _, ok := core.LoadedField(call.Common().Args[0])
			return ok && fr.Type == "client.Storage" && fr.Field == "mu"
		}
		f2, _, _ := core.Reach(core.Query{From: []core.Point{core.Entry(fn)}, Target: core.IsCallTo(false, sp.checks...), Avoid: isLock})
		r.Check(!f1 && !f2, "C04-D3", "check-and-mutation-one-critical-section:"+sp.fn, p.FnPos(fn),
			"the clash check and the index change happen under one hold of the storage mutex", "the storage mutex is not held from the clash check to the index change: two concurrent operations can both pass the check and then both write")
	}
	// Update removes the stored client before adding the new one
	if up := p.Fn("(*client.Storage).Update"); up != nil {
		f, _, _ := core.Reach(core.Query{From: []core.Point{core.Entry(up)}, Target: core.IsCallTo(false, "(*client.index).add"), Avoid: core.IsCallTo(false, "(*client.index).remove")})
		r.Check(!f, "C04-D3", "update-removes-then-adds", p.FnPos(up), "an update removes the stored client's entries before adding the new ones", "an update can add the new entries without removing the old client's entries (stale identifiers stay)")
		// remove gets the stored client (found by name), add gets the new one
		for _, call := range core.CallsTo(up, "(*client.index).remove") {
			r.Check(core.IsCallResult(core.ResolveCellLoad(call.Arg(1)), 0, "(*client.index).findByName"), "C04-D3", "update-removes-stored-client", p.InstrPos(call.Instr),
				"the entries removed are those of the client currently stored under that name", "the update removes entries of something other than the stored client (identifiers the update drops stay in the index)")
		}
	}
}

func c04Siblings(c *Ctx) {
	p, r := c.P, c.R
	cpk := p.Pkg("client")
	if cpk == nil {
		r.Undecided("C04-D4", "client", "-", "package not loaded")
		return
	}
	var allFields []string
	if o := cpk.Types.Scope().Lookup("index"); o != nil {
		if st, ok := o.Type().Underlying().(*types.Struct); ok {
			for i := 0; i < st.NumFields(); i++ {
				allFields = append(allFields, st.Field(i).Name())
			}
		}
	}
	sort.Strings(allFields)
	// per function: index fields written / read
	type acc struct{ writes, reads map[string]bool }
	accOf := func(fn *ssa.Function) acc {
		a := acc{map[string]bool{}, map[string]bool{}}
		for _, f := range core.WithAnon(fn) {
			for _, b := range f.Blocks {
				for _, in := range b.Instrs {
					switch x := in.(type) {
					case *ssa.MapUpdate:
						if fr, _, ok := core.LoadedField(x.Map); ok && fr.Type == "client.index" {
							a.writes[fr.Field] = true
						}
					case *ssa.Lookup:
						if fr, _, ok := core.LoadedField(x.X); ok && fr.Type == "client.index" {
							a.reads[fr.Field] = true
						}
					case *ssa.Range:
						if fr, _, ok := core.LoadedField(x.X); ok && fr.Type == "client.index" {
							a.reads[fr.Field] = true
						}
					case *ssa.Call:
						if b, ok := x.Common().Value.(*ssa.Builtin); ok && b.Name() == "delete" {
							if fr, _, ok := core.LoadedField(x.Common().Args[0]); ok && fr.Type == "client.index" {
								a.writes[fr.Field] = true
							}
						}
						k := core.CalleeKey(x.Common())
						if strings.Contains(k, "aghalg.SortedMap") && len(x.Common().Args) > 0 {
							fr, _, ok := core.LoadedField(x.Common().Args[0])
							if !ok {
								fr, ok = core.FieldOfAddr(x.Common().Args[0])
							}
							if ok && fr.Type == "client.index" {
								if strings.HasSuffix(k, ".Set") || strings.HasSuffix(k, ".Del") || strings.HasSuffix(k, ".Clear") {
									a.writes[fr.Field] = true
								} else {
									a.reads[fr.Field] = true
								}
							}
						}
					}
				}
			}
		}
		return a
	}
	keys := func(m map[string]bool) []string {
		var out []string
		for k := range m {
			out = append(out, k)
		}
		sort.Strings(out)
		return out
	}
	add, rem := p.Fn("(*client.index).add"), p.Fn("(*client.index).remove")
	if add == nil || rem == nil {
		r.Undecided("C04-D4", "index.add/remove", "-", "anchors not found")
		return
	}
	aw, rw := keys(accOf(add).writes), keys(accOf(rem).writes)
	r.Check(fmt.Sprint(aw) == fmt.Sprint(allFields), "C04-D4", "add-writes-all-maps", p.FnPos(add), fmt.Sprintf("add writes all %d maps of the index", len(allFields)), fmt.Sprintf("add writes %v, the index has %v", aw, allFields))
	r.Check(fmt.Sprint(rw) == fmt.Sprint(allFields), "C04-D4", "remove-deletes-all-maps", p.FnPos(rem), fmt.Sprintf("remove deletes from all %d maps of the index", len(allFields)),
		fmt.Sprintf("remove deletes from %v but add writes %v: identifiers of a removed or updated client stay resolvable", rw, aw))
	// add and remove address each map with the same key expression (a canonicalised key on one side only leaves entries behind)
	shapesOf := func(fn *ssa.Function) map[string][]string {
		out := map[string][]string{}
		put := func(field string, k ssa.Value) {
			out[field] = append(out[field], c04KeyShape(k, 0))
		}
		for _, f := range core.WithAnon(fn) {
			for _, b := range f.Blocks {
				for _, in := range b.Instrs {
					switch x := in.(type) {
					case *ssa.MapUpdate:
						if fr, _, ok := core.LoadedField(x.Map); ok && fr.Type == "client.index" {
							put(fr.Field, x.Key)
						}
					case *ssa.Call:
						if b, ok := x.Common().Value.(*ssa.Builtin); ok && b.Name() == "delete" {
							if fr, _, ok := core.LoadedField(x.Common().Args[0]); ok && fr.Type == "client.index" {
								put(fr.Field, x.Common().Args[1])
							}
						}
						k := core.CalleeKey(x.Common())
						if strings.Contains(k, "aghalg.SortedMap") && len(x.Common().Args) > 1 && (strings.HasSuffix(k, ".Set") || strings.HasSuffix(k, ".Del")) {
							fr, _, ok := core.LoadedField(x.Common().Args[0])
							if !ok {
								fr, ok = core.FieldOfAddr(x.Common().Args[0])
							}
							if ok && fr.Type == "client.index" {
								put(fr.Field, x.Common().Args[1])
							}
						}
					}
				}
			}
		}
		for k := range out {
			sort.Strings(out[k])
		}
		return out
	}
	as, rs := shapesOf(add), shapesOf(rem)
	for _, f := range allFields {
		r.Check(fmt.Sprint(as[f]) == fmt.Sprint(rs[f]), "C04-D4", "same-key-form:"+f, p.FnPos(rem),
			fmt.Sprintf("add and remove address %s with the same key expression %v", f, as[f]),
			fmt.Sprintf("add stores into %s under %v but remove deletes %v: entries stored under a transformed key are never removed", f, as[f], rs[f]))
	}
	// nobody else mutates
	for _, fn := range p.ModFnsIn("client") {
		if fn.Blocks == nil || fn.Parent() != nil || fn == add || fn == rem {
			continue
		}
		w := keys(accOf(fn).writes)
		if len(w) == 0 {
			continue
		}
		r.Fail("C04-D4", "index-mutator:"+core.FuncKey(fn), p.FnPos(fn), fmt.Sprintf("%s mutates index maps %v directly; only add and remove may (they are the pair whose agreement keeps the maps consistent)", core.FuncKey(fn), w))
	}
	// every identifier map is read by a clash check and by a finder
	clashReads, findReads := map[string]bool{}, map[string]bool{}
	for _, fn := range p.ModFnsIn("client") {
		fk := core.FuncKey(fn)
		if fn.Parent() != nil {
			continue
		}
		a := accOf(fn)
		if strings.HasPrefix(fk, "(*client.index).clashes") {
			for k := range a.reads {
				clashReads[k] = true
			}
			// clashesName goes through findByName
			for _, call := range core.Calls(fn) {
				if call.Key == "(*client.index).findByName" {
					clashReads["nameToUID"] = true
				}
			}
		}
		if strings.HasPrefix(fk, "(*client.index).find") {
			for k := range a.reads {
				findReads[k] = true
			}
		}
	}
	for _, f := range allFields {
		if f == "uidToClient" {
			continue
		}
		r.Check(clashReads[f], "C04-D4", "clash-check-covers:"+f, "-", "identifier map "+f+" is consulted by the clash checks", "identifier map "+f+" is not consulted by any clash check: two clients can share that kind of identifier")
		r.Check(findReads[f], "C04-D4", "finder-covers:"+f, "-", "identifier map "+f+" is consulted by a finder", "identifier map "+f+" is written but never used to find a client")
	}
	// MAC key lengths
	if mk := p.Fn("client.macToKey"); mk != nil {
		got := map[int64]bool{}
		for _, b := range mk.Blocks {
			for _, in := range b.Instrs {
				if bo, ok := in.(*ssa.BinOp); ok && bo.Op == token.EQL {
					if k, ok := core.ConstInt(bo.Y); ok {
						got[k] = true
					}
				}
			}
		}
		r.Check(got[6] && got[8] && got[20], "C04-D4", "mac-key-lengths", p.FnPos(mk), "MAC keys handle 6-, 8- and 20-byte hardware addresses", fmt.Sprintf("MAC keys no longer handle all of 6/8/20-byte addresses: %v", got))
	}
}

// c04MostSpecific: D6.  "The most specific CIDR wins": the subnet index is a
// map sorted by a comparator and the lookup takes the first prefix that
// contains the address, so (a) the comparator must put a longer prefix before
// a shorter one whatever their addresses are, be antisymmetric, and be zero
// only for equal prefixes; (b) the range callback must stop at the first
// containing prefix.  The comparator is evaluated over the finite domain
// {sign of Bits(x)-Bits(y)} x {sign of Addr(x) vs Addr(y)}.
func c04MostSpecific(c *Ctx) {
	p, r := c.P, c.R
	ni := p.Fn("client.newIndex")
	var cmpFn *ssa.Function
	if ni != nil {
		for _, call := range core.Calls(ni) {
			if !strings.HasPrefix(core.CalleeKey(call.Instr.Common()), "aghalg.NewSortedMap") {
				continue
			}
			v, ok := call.Instr.(ssa.Value)
			if !ok || !strings.Contains(v.Type().String(), "netip.Prefix") {
				continue
			}
			if f, _ := core.FnValue(call.Arg(0)); f != nil {
				cmpFn = f
			}
		}
	}
	if cmpFn == nil {
		r.Undecided("C04-D6", "subnet-comparator", "-", "the comparator of the subnet index (aghalg.NewSortedMap[netip.Prefix, ...] in client.newIndex) was not found")
		return
	}
	model := core.AbsModel{
		Project: func(op string, arg core.AbsVal) (string, bool) {
			if arg.Kind != core.AbsParam {
				return "", false
			}
			switch {
			case strings.HasSuffix(op, "netip.Prefix).Bits"):
				return "Bits", true
			case strings.HasSuffix(op, "netip.Prefix).Addr"):
				return "Addr", true
			}
			return "", false
		},
		Predicate: func(string, core.AbsVal) (string, bool) { return "", false },
	}
	signOf := func(v core.AbsVal) int { return v.Sign }
	res := map[[2]int]int{}
	bad := []string{}
	for _, bits := range []int{-1, 0, 1} {
		for _, addr := range []int{-1, 0, 1} {
			f := core.AbsFacts{Rel: map[string]int{"Bits": bits, "Addr": addr}, Same: bits == 0 && addr == 0}
			v, ok, why := core.AbsEval(cmpFn, model, f)
			r.Eval(1)
			if !ok || v.Kind != core.AbsInt {
				r.Undecided("C04-D6", "subnet-comparator", p.FnPos(cmpFn), fmt.Sprintf("the comparator %s could not be evaluated for Bits %+d / Addr %+d: %s", core.FuncKey(cmpFn), bits, addr, why))
				return
			}
			res[[2]int{bits, addr}] = signOf(v)
			if bits > 0 && signOf(v) >= 0 {
				bad = append(bad, fmt.Sprintf("x has the longer prefix (address relation %+d) but the result sign is %+d: the less specific subnet is found first", addr, signOf(v)))
			}
			if bits < 0 && signOf(v) <= 0 {
				bad = append(bad, fmt.Sprintf("y has the longer prefix (address relation %+d) but the result sign is %+d: the less specific subnet is found first", addr, signOf(v)))
			}
			if bits == 0 && (addr == 0) != (signOf(v) == 0) {
				bad = append(bad, fmt.Sprintf("equal prefix lengths, address relation %+d, result sign %+d: zero must mean exactly 'same subnet' (the sorted map overwrites a key it compares equal to)", addr, signOf(v)))
			}
		}
	}
	for k, v := range res {
		if res[[2]int{-k[0], -k[1]}] != -v {
			bad = append(bad, fmt.Sprintf("not antisymmetric for Bits %+d / Addr %+d", k[0], k[1]))
		}
	}
	sort.Strings(bad)
	r.Check(len(bad) == 0, "C04-D6", "subnet-comparator:longer-prefix-first", p.FnPos(cmpFn),
		fmt.Sprintf("%s orders a longer prefix before a shorter one for every address relation, is antisymmetric and zero only for the same subnet (9 abstract cases)", core.FuncKey(cmpFn)),
		fmt.Sprintf("%s does not always order the longer prefix first", core.FuncKey(cmpFn)), bad...)

	// (b) the lookup stops at the first containing prefix
	fip := p.Fn("(*client.index).findByIP")
	var cb *ssa.Function
	if fip != nil {
		for _, call := range core.Calls(fip) {
			k := core.CalleeKey(call.Instr.Common())
			if strings.Contains(k, "aghalg.SortedMap") && strings.HasSuffix(k, ".Range") {
				cb, _ = core.FnValue(call.Arg(len(call.Common.Args) - 1))
			}
		}
	}
	// (c) an exact address entry is probed with the address as given: the index keys keep the zone they were
	// configured with, so a normalised copy of the address (zone stripped, unmapped) finds another entry or none,
	// and a zoned client's request falls through to the subnet clients
	if fip != nil && len(fip.Params) == 2 {
		nProbe := 0
		var badProbe []string
		for _, f := range core.WithAnon(fip) {
			for _, b := range f.Blocks {
				for _, in := range b.Instrs {
					lk, ok := in.(*ssa.Lookup)
					if !ok {
						continue
					}
					fr, _, isF := core.LoadedField(lk.X)
					if !isF || fr.Type != "client.index" || fr.Field != "ipToUID" {
						continue
					}
					nProbe++
					if core.ResolveCellLoad(lk.Index) != ssa.Value(fip.Params[1]) {
						badProbe = append(badProbe, p.InstrPos(lk))
					}
				}
			}
		}
		r.Check(nProbe > 0 && len(badProbe) == 0, "C04-D6", "exact-address-probed-as-given", p.FnPos(fip),
			"the exact-address index is probed with the address the request came from, unchanged",
			"the exact-address index is probed with a transformed copy of the address (zone stripped or the like): a client configured with a zoned address is no longer found by its exact entry and a broader (subnet) client's settings are applied", badProbe...)
	}
	if cb == nil {
		r.Undecided("C04-D6", "subnet-range-callback", "-", "the Range callback of (*client.index).findByIP was not found")
		return
	}
	cm := core.AbsModel{
		Project: func(string, core.AbsVal) (string, bool) { return "", false },
		Predicate: func(op string, arg core.AbsVal) (string, bool) {
			if strings.HasSuffix(op, "netip.Prefix).Contains") && arg.Kind == core.AbsParam && arg.Idx == 0 {
				return "Contains", true
			}
			return "", false
		},
	}
	okCb := true
	var whyCb []string
	for _, contains := range []bool{true, false} {
		v, ok, why := core.AbsEval(cb, cm, core.AbsFacts{Pred: map[string][2]bool{"Contains": {contains, false}}})
		r.Eval(1)
		if !ok || v.Kind != core.AbsBool {
			r.Undecided("C04-D6", "subnet-range-callback", p.FnPos(cb), "the Range callback could not be evaluated: "+why)
			return
		}
		if v.Bool == contains { // must continue exactly when the prefix does not contain the address
			okCb = false
			whyCb = append(whyCb, fmt.Sprintf("prefix contains the address: %v, callback continues: %v", contains, v.Bool))
		}
	}
	r.Check(okCb, "C04-D6", "subnet-range-callback:stops-at-first-containing-prefix", p.FnPos(cb),
		"the subnet lookup stops at the first (most specific) prefix that contains the address and goes on otherwise",
		"the subnet lookup does not stop at the first containing prefix", whyCb...)
}

// c04KeyShape renders the expression a map key is computed with, down to the
// ranged collection it comes from: "elem(Subnets)", "Masked(elem(Subnets))",
// "macToKey(elem(MACs))", "Name".
func c04KeyShape(v ssa.Value, depth int) string {
	if depth > 6 {
		return "?"
	}
	switch x := v.(type) {
	case *ssa.UnOp:
		if fr, _, ok := core.LoadedField(x); ok {
			return fr.Field
		}
		if ia, ok := x.X.(*ssa.IndexAddr); ok {
			if fr, _, ok := core.LoadedField(ia.X); ok {
				return "elem(" + fr.Field + ")"
			}
			return "elem(" + c04KeyShape(ia.X, depth+1) + ")"
		}
		return c04KeyShape(x.X, depth+1)
	case *ssa.Extract:
		if nx, ok := x.Tuple.(*ssa.Next); ok {
			if rg, ok := nx.Iter.(*ssa.Range); ok {
				if fr, _, ok := core.LoadedField(rg.X); ok {
					return fmt.Sprintf("elem%d(%s)", x.Index, fr.Field)
				}
			}
		}
		return "?"
	case *ssa.Call:
		name := core.CalleeKey(x.Common())
		if i := strings.LastIndex(name, "."); i >= 0 {
			name = name[i+1:]
		}
		var args []string
		for _, a := range x.Common().Args {
			args = append(args, c04KeyShape(a, depth+1))
		}
		return name + "(" + strings.Join(args, ",") + ")"
	case *ssa.Convert:
		return c04KeyShape(x.X, depth+1)
	case *ssa.ChangeType:
		return c04KeyShape(x.X, depth+1)
	case *ssa.Const:
		return x.Value.String()
	case *ssa.Parameter:
		return x.Name()
	}
	return "?"
}

// clientIdentityApplied: the client's name and tags — what $client and $ctag
// rules match on — are handed to the filter for every found client (used by
// C04-D2 and C01-D9).
func clientIdentityApplied(c *Ctx, rule string) {
	p, r := c.P, c.R
	ap := p.Fn("(*client.Storage).ApplyClientFiltering")
	if ap == nil {
		r.Undecided(rule, "ApplyClientFiltering", "-", "anchor not found")
		return
	}
	// the client's identity (name, tags: what $client / $ctag rules match on) is handed over for every found client,
	// whatever its own-settings switches say
	isFlagIf := func(b *ssa.BasicBlock) bool {
		iff, ok := b.Instrs[len(b.Instrs)-1].(*ssa.If)
		if !ok {
			return false
		}
		at := core.Decompose(iff.Cond)
		fr, _, ok := core.LoadedField(at.Base)
		return ok && fr.Type == "client.Persistent" && strings.HasPrefix(fr.Field, "UseOwn")
	}
	for _, field := range []string{"ClientName", "ClientTags"} {
		var st ssa.Instruction
		n := 0
		for _, b := range ap.Blocks {
			for _, in := range b.Instrs {
				if s2, ok := in.(*ssa.Store); ok {
					if fr, ok := core.FieldOfAddr(s2.Addr); ok && fr.Type == "filtering.Settings" && fr.Field == field {
						st = in
						n++
					}
				}
			}
		}
		if n != 1 {
			r.Fail(rule, "client-identity-applied:"+field, p.FnPos(ap), fmt.Sprintf("expected one store of the client's %s into the settings, found %d", field, n))
			continue
		}
		dep := ""
		for _, b := range ap.Blocks {
			if !isFlagIf(b) || b == st.Block() || !b.Dominates(st.Block()) {
				continue
			}
			for _, sc := range b.Succs {
				if found, _, _ := core.Reach(core.Query{From: []core.Point{{Block: sc, Idx: 0}}, Target: func(in ssa.Instruction) bool { return in == st }}); !found {
					dep = p.InstrPos(b.Instrs[len(b.Instrs)-1])
				}
			}
		}
		r.Check(dep == "", rule, "client-identity-applied:"+field, p.InstrPos(st),
			"the client's "+field+" reaches the filter for every found client, independent of the own-settings switches",
			"the client's "+field+" is handed to the filter only on one side of an own-settings switch ("+dep+"): rules restricted to that client or tag do not apply to clients using the global settings")
	}
}

// ownBlockedServices: the rules about a client's own blocked-services list in
// ApplyAdditionalFiltering (shared by C01, C04 and C18: which services are
// blocked for a request, whose settings win, and whose pause schedule counts).
func ownBlockedServices(c *Ctx, rule string) {
	p, r := c.P, c.R
	if af := p.Fn("(*filtering.DNSFilter).ApplyAdditionalFiltering"); af != nil {
		// the global rules are discarded whenever the client brought its own list (paused or not)
		gp, np := core.CondEdges(af, func(at core.Atom) (bool, bool) {
			if (at.Op == token.EQL || at.Op == token.NEQ) && core.IsNilConst(at.Other) {
				if fr, _, ok := core.LoadedField(at.Base); ok && fr.Type == "filtering.Settings" && fr.Field == "BlockedServices" {
					return true, at.Op == token.NEQ
				}
			}
			return false, false
		})
		isReset := func(in ssa.Instruction) bool {
			st, ok := in.(*ssa.Store)
			if !ok {
				return false
			}
			fr, ok := core.FieldOfAddr(st.Addr)
			return ok && fr.Type == "filtering.Settings" && fr.Field == "ServicesRules" && core.IsNilConst(st.Val)
		}
		bad := np == 0
		var det []string
		for e := range gp {
			if found, tr, _ := core.Reach(core.Query{From: []core.Point{core.AfterEdge(e)}, Target: core.IsReturn, Avoid: isReset}); found {
				bad = true
				det = append(det, p.TraceString(tr))
			}
		}
		r.Check(!bad, rule, "own-list-always-replaces-global", p.FnPos(af),
			"whenever the client has its own blocked-services list the global rules are discarded first (also while the client's own schedule pauses blocking)",
			"a client with its own blocked-services list can keep the global rules (e.g. while its own schedule pauses blocking)", det...)
	}
	if af := p.Fn("(*filtering.DNSFilter).ApplyAdditionalFiltering"); af != nil {
		g, n := core.CondEdges(af, func(at core.Atom) (bool, bool) {
			if (at.Op == token.EQL || at.Op == token.NEQ) && core.IsNilConst(at.Other) {
				if fr, _, ok := core.LoadedField(at.Base); ok && fr.Type == "filtering.Settings" && fr.Field == "BlockedServices" {
					return true, at.Op == token.NEQ
				}
			}
			return false, false
		})
		sink := func(in ssa.Instruction) bool {
			st, ok := in.(*ssa.Store)
			if !ok {
				return false
			}
			fr, ok := core.FieldOfAddr(st.Addr)
			return ok && fr.Type == "filtering.Settings" && fr.Field == "ServicesRules"
		}
		off, ns := core.UnguardedSinksLocal(af, sink, g)
		r.Check(n > 0 && ns > 0 && len(off) == 0, rule, "per-client-list-replaces-only-when-present", p.FnPos(af),
			"the global blocked-services rules are discarded only when the client brought its own list", "the global blocked-services rules can be discarded although the client has no own list", traceOf(p, off)...)
		// order: global first, then client callback
		f1, _, _ := core.Reach(core.Query{From: []core.Point{core.Entry(af)}, Target: func(in ssa.Instruction) bool {
			call, ok := in.(*ssa.Call)
			if !ok {
				return false
			}
			fr, _, ok := core.LoadedField(call.Common().Value)
			return ok && fr.Field == "applyClientFiltering"
		}, Avoid: core.IsCallTo(false, "(*filtering.DNSFilter).ApplyBlockedServices")})
		r.Check(!f1, rule, "global-then-client", p.FnPos(af), "global blocked services are applied before the client callback can override them", "the client callback runs before the global blocked services are applied")
	}

}
