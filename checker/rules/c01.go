package rules

import (
	"fmt"
	"go/constant"
	"go/token"
	"go/types"
	"sort"
	"strings"

	"aghverif/core"

	"golang.org/x/tools/go/ssa"
)

func init() {
	register(&Rule{
		ID:  "C01",
		Run: runC01,
		Explanation: "A blocked query is answered locally and never forwarded. Decided: (D1) stage order of the request handler: request filtering precedes the upstream stage, which precedes response filtering, which precedes log/statistics; (D2) the upstream stage resolves only when no response has been set; (D3) a filtered result always sets the response before request filtering returns, and every blocked-response constructor returns a non-nil message; " +
			"(D4) who may reach an upstream: every call site of an exchange primitive in the module is classified, and from the request-filtering stage the only reachable ones are the block-page host lookup (whose question name comes from the configured block host, not from the query) and the hash-prefix lookup (C19); (D5) the blocking-mode switch covers exactly the declared modes and maps each to its documented constructor (NXDOMAIN, REFUSED, null IP, custom IP, rule IPs/null IP); the validator covers the same set; " +
			"(D6) allow before block, first match wins: the checker list has the documented order, the check loop returns at the first matched result, the block engine is consulted only after the allow engine did not match (or is off), and an allow match never consults the block engine; (D7) protection gates every non-rewrite checker and rule lists additionally require filtering to be enabled; the per-request protection flag comes from the server's protection status; the rule engines are swapped, never removed, while serving. " +
			"(D9) the client's name and tags — what $client / $ctag restricted rules match on — are handed to the filter for every found persistent client, not only for those with own settings. " +
			"(D9, cont.) blocked services of a client with its own list: the global rules are discarded whenever the client brought its own list (also while its own schedule pauses blocking) and only then, the global list is applied before the client callback, and every application of a list of services is guarded by Contains(time.Now()) on the Schedule of that same BlockedServices value (the rules are shared with C04-D2 and C18-D3). " +
			"(D9, cont. 2) every checker CheckHost hands the name to (blocked services, safe browsing, parental, safe search, rule lists) receives the lower-cased name, whatever the per-request switches are. " +
			"(D7, cont.) once a protection pause has run out, UpdatedProtectionStatus reports enabled as a constant on every path — not the stored flag, which the background update switches later. " +
			"Not decided: which names a rule set matches (urlfilter semantics), the exact synthetic RR content per mode and query type, values of per-client settings (C04), schedule instants (C18).",
		RuleText:    "Stage list and checker list read from the slice literals in SSA; path guards; static reachability; enum/switch agreement from go/types constants.",
		Assumptions: []string{"urlfilter.DNSEngine.MatchRequest semantics (external)", "dnsproxy calls the request handler once per admitted request"},
		Trusted:     commonTrusted,
	})
}

// stageList returns the functions stored in the stage slice literal of
// handleDNSRequest, in index order.
func stageList(p *core.Prog) ([]*ssa.Function, *ssa.Function) {
	h := p.Fn("(*dnsforward.Server).handleDNSRequest")
	if h == nil {
		return nil, nil
	}
	type ent struct {
		idx int64
		fn  *ssa.Function
	}
	var ents []ent
	for _, b := range h.Blocks {
		for _, in := range b.Instrs {
			st, ok := in.(*ssa.Store)
			if !ok {
				continue
			}
			ia, ok := st.Addr.(*ssa.IndexAddr)
			if !ok {
				continue
			}
			arr, ok := derefArray(ia.X.Type())
			if !ok {
				continue
			}
			if _, isSig := arr.Elem().Underlying().(*types.Signature); !isSig {
				continue
			}
			i, ok := core.ConstInt(ia.Index)
			if !ok {
				continue
			}
			f, _ := core.FnValue(st.Val)
			ents = append(ents, ent{i, core.Impl(core.Unbound(f))})
		}
	}
	sort.Slice(ents, func(i, j int) bool { return ents[i].idx < ents[j].idx })
	var out []*ssa.Function
	for _, e := range ents {
		out = append(out, e.fn)
	}
	return out, h
}

const (
	kResolve      = "(*github.com/AdguardTeam/dnsproxy/proxy.Proxy).Resolve"
	kLookupNetIP  = "(*github.com/AdguardTeam/dnsproxy/proxy.Proxy).LookupNetIP"
	kUpsExchange  = "iface:(github.com/AdguardTeam/dnsproxy/upstream.Upstream).Exchange"
	kFilterReq    = "(*dnsforward.Server).filterDNSRequest"
	kFilterResp   = "(*dnsforward.Server).filterDNSResponse"
	kGenFilterMsg = "(*dnsforward.Server).genDNSFilterMessage"
)

func runC01(c *Ctx) {
	p, r := c.P, c.R
	stages, h := stageList(p)
	if h == nil || len(stages) < 5 {
		r.Undecided("C01-D1", "stage-list", "-", "stage slice literal of handleDNSRequest not found")
		return
	}
	// RequestHandler is handleDNSRequest
	nRH := 0
	for _, fn := range p.ModFnsIn("dnsforward") {
		for _, b := range fn.Blocks {
			for _, in := range b.Instrs {
				if st, ok := in.(*ssa.Store); ok {
					if fr, ok := core.FieldOfAddr(st.Addr); ok && fr.Type == "github.com/AdguardTeam/dnsproxy/proxy.Config" && fr.Field == "RequestHandler" {
						f, _ := core.FnValue(st.Val)
						if core.PkgOf(fn) == "dnsforward" && core.FuncKey(fn) == "(*dnsforward.Server).newProxyConfig" {
							nRH++
							r.Check(core.SameFn(core.Unbound(f), h), "C01-D1", "request-handler", p.InstrPos(in), "the proxy's request handler is handleDNSRequest", "the proxy's request handler is no longer handleDNSRequest")
						}
					}
				}
			}
		}
	}
	r.Floor("C01-D1", "request-handler-installations", nRH, 1)
	idxOf := func(marker ...string) int {
		for i, f := range stages {
			if f == nil {
				continue
			}
			if ok, _ := core.CallsAnyOf(core.StaticReach(f, 2), marker...); ok {
				return i
			}
		}
		return -1
	}
	iBefore := idxOf(kFilterReq)
	iUp := -1
	for i, f := range stages {
		if f != nil && len(core.CallsTo(f, kResolve)) > 0 {
			iUp = i
		}
	}
	iAfter := idxOf(kFilterResp)
	iLog := idxOf("iface:(querylog.QueryLog).Add")
	var names []string
	for _, f := range stages {
		names = append(names, core.FuncKey(f))
	}
	r.Info["stages"] = names
	r.Check(iBefore >= 0 && iUp >= 0 && iAfter >= 0 && iLog >= 0 && iBefore < iUp && iUp < iAfter && iAfter < iLog, "C01-D1", "stage-order", p.FnPos(h),
		fmt.Sprintf("request filtering (#%d) < upstream (#%d) < response filtering (#%d) < log/stats (#%d)", iBefore, iUp, iAfter, iLog),
		fmt.Sprintf("stage order broken: request filtering #%d, upstream #%d, response filtering #%d, log/stats #%d", iBefore, iUp, iAfter, iLog))
	// the loop stops at finish/error codes: every stage result is switched on — the loop calls each stage at most once per iteration
	if iUp < 0 {
		return
	}
	up := stages[iUp]

	// D2
	isRes := func(v ssa.Value) bool {
		fr, _, ok := core.LoadedField(v)
		return ok && fr.Type == "github.com/AdguardTeam/dnsproxy/proxy.DNSContext" && fr.Field == "Res"
	}
	g, n := core.CondEdges(up, func(at core.Atom) (bool, bool) {
		if (at.Op == token.EQL || at.Op == token.NEQ) && core.IsNilConst(at.Other) && isRes(at.Base) {
			return true, at.Op == token.EQL
		}
		return false, false
	})
	off, ns := core.UnguardedSinks(up, core.IsCallTo(false, kResolve), g)
	r.Check(n > 0 && ns > 0 && len(off) == 0, "C01-D2", "resolve-only-without-response", p.FnPos(up),
		"the upstream stage resolves only when no response has been set", "the upstream stage can forward a query although a response (e.g. the blocked answer) is already set", traceOf(p, off)...)

	c01Filtered(c)
	c01Exchange(c, stages[iBefore])
	c01Modes(c)
	c01Checkers(c)
	c01Gates(c)
	clientIdentityApplied(c, "C01-D9")
	ownBlockedServices(c, "C01-D9")
	blockedServicesSchedule(c, "C01-D9")
	checkersGetLowerCasedName(c, "C01-D9")
	c01EnginesAlwaysBuilt(c)
	// D8: an allow-listed query's upstream answer is delivered unchanged
	if skipped, fn := skipReasons(p); fn != nil {
		r.Check(skipped["NotFilteredAllowList"], "C01-D8", "allow-listed-skips-response-filtering", p.FnPos(fn),
			"an allow-listed result is exempt from response filtering: the upstream answer reaches the client intact",
			"an allow-listed result is no longer exempt from response filtering: its upstream answer can be replaced by the blocking-mode response when a record in it matches a block rule")
	} else {
		r.Undecided("C01-D8", "processFilteringAfterResponse", "-", "anchor not found")
	}
}

// c01Filtered: D3.
func c01Filtered(c *Ctx) {
	p, r := c.P, c.R
	fn := p.Fn(kFilterReq)
	if fn == nil {
		r.Undecided("C01-D3", "filterDNSRequest", "-", "anchor not found")
		return
	}
	gF, nF := core.CondEdges(fn, func(at core.Atom) (bool, bool) {
		if at.Op == token.ILLEGAL {
			if fr, _, ok := core.LoadedField(at.Base); ok && fr.Type == "filtering.Result" && fr.Field == "IsFiltered" {
				return true, true
			}
		}
		return false, false
	})
	var starts []core.Point
	for e := range gF {
		starts = append(starts, core.AfterEdge(e))
	}
	isResStore := func(in ssa.Instruction) bool {
		st, ok := in.(*ssa.Store)
		if !ok {
			return false
		}
		fr, ok := core.FieldOfAddr(st.Addr)
		if !ok || fr.Type != "github.com/AdguardTeam/dnsproxy/proxy.DNSContext" || fr.Field != "Res" {
			return false
		}
		return core.IsCallResult(st.Val, -1, kGenFilterMsg)
	}
	found := true
	var tr []*ssa.BasicBlock
	if len(starts) > 0 {
		found, tr, _ = core.Reach(core.Query{From: starts, Target: core.IsReturn, Avoid: isResStore})
	}
	r.Check(nF > 0 && !found, "C01-D3", "filtered-sets-response", p.FnPos(fn),
		"on the IsFiltered edge the response is set from genDNSFilterMessage before request filtering returns", "a filtered result can leave request filtering without the blocked response being set (the query would be forwarded)", p.TraceString(tr))
	// the IsFiltered test comes from the CheckHost result
	okSrc := false
	for _, call := range core.CallsTo(fn, "(*filtering.DNSFilter).CheckHost") {
		_ = call
		okSrc = true
	}
	r.Check(okSrc, "C01-D3", "result-from-CheckHost", p.FnPos(fn), "the filtering result comes from DNSFilter.CheckHost", "request filtering no longer calls DNSFilter.CheckHost")

	// non-nil constructors
	nonNil := map[*ssa.Function]bool{}
	external := map[string]bool{
		"(*github.com/miekg/dns.Msg).SetRcode": true, "(*github.com/miekg/dns.Msg).SetReply": true, "(*github.com/miekg/dns.Msg).SetQuestion": true,
		"(*github.com/miekg/dns.Msg).Copy": true,
	}
	var cands []*ssa.Function
	for _, f := range p.ModFnsIn("dnsforward") {
		if f.Blocks == nil || f.Signature.Results().Len() != 1 {
			continue
		}
		if core.TypeKey(f.Signature.Results().At(0).Type()) == "*github.com/miekg/dns.Msg" {
			cands = append(cands, f)
		}
	}
	valNonNil := func(v ssa.Value) bool {
		for _, l := range core.FlattenPhi(core.ResolveCellLoad(core.ResolveLocalLoad(v))) {
			switch x := l.(type) {
			case *ssa.Alloc:
				continue
			case *ssa.Call:
				k := core.CalleeKey(x.Common())
				if external[k] {
					continue
				}
				if sc := core.Callee(x.Common()); sc != nil && nonNil[sc] {
					continue
				}
				return false
			default:
				return false
			}
		}
		return true
	}
	for changed := true; changed; {
		changed = false
		for _, f := range cands {
			if nonNil[f] {
				continue
			}
			ok, nret := true, 0
			for _, b := range f.Blocks {
				if b == f.Recover {
					continue
				}
				for _, in := range b.Instrs {
					if ret, isRet := core.AsReturn(in); isRet {
						nret++
						if !valNonNil(core.Res(ret, 0)) {
							ok = false
						}
					}
				}
			}
			if ok && nret > 0 {
				nonNil[f] = true
				changed = true
			}
		}
	}
	for _, k := range []string{kGenFilterMsg, "(*dnsforward.Server).genForBlockingMode", "(*dnsforward.Server).genBlockedHost", "(*dnsforward.Server).getCNAMEWithIPs"} {
		f := p.Fn(k)
		if f == nil {
			r.Undecided("C01-D3", "constructor:"+k, "-", "anchor not found")
			continue
		}
		r.Check(nonNil[f], "C01-D3", "constructor-non-nil:"+k, p.FnPos(f), "every return is a message built by a constructor (never nil)", k+" can return a nil message: the response would count as 'not set' and the query be forwarded")
	}
	r.Info["non_nil_message_constructors"] = len(nonNil)
}

// c01Exchange: D4.
func c01Exchange(c *Ctx, before *ssa.Function) {
	p, r := c.P, c.R
	table := map[string]string{
		"(*dnsforward.Server).processUpstream":  "the upstream stage itself (guarded by C01-D2)",
		"(*dnsforward.Server).genBlockedHost":   "block-page host lookup: resolves the configured safe-browsing/parental block host, not the query",
		"(*dnsforward.Server).Exchange":         "internal proxy: resolves the server's own PTR questions (rDNS of clients)",
		"(*dnsforward.Server).Resolve":          "internal proxy: bootstrap/dial resolution of the server's own host names",
		"(*filtering/hashprefix.Checker).Check": "hash-prefix lookup; what it may disclose is decided by C19",
		"dnsforward.checkDNS":                   "admin-initiated upstream test (configuration validator)",
		"(*dnsforward.upstreamResult).check":    "admin-initiated upstream test (configuration validator)",
		"(*rdns.Default).Process":               "rDNS enrichment of client addresses through the exchanger given by home (not a client query)",
		"(*rdns.Default).Process$1":             "rDNS enrichment of client addresses",
	}
	n := 0
	for _, fn := range p.ModFns {
		if fn.Blocks == nil || core.IsNextPkg(fn) {
			continue
		}
		for _, call := range core.Calls(fn) {
			isEx := call.Key == kResolve || call.Key == kLookupNetIP || call.Key == kUpsExchange ||
				strings.HasPrefix(call.Key, "github.com/AdguardTeam/dnsproxy/upstream.Exchange") || call.Key == "iface:(rdns.Exchanger).Exchange"
			if !isEx {
				continue
			}
			n++
			outer := fn
			for outer.Parent() != nil {
				outer = outer.Parent()
			}
			why, ok := table[core.FuncKey(outer)]
			if !ok {
				// configvalidator helpers
				if strings.Contains(core.FuncKey(outer), "dnsforward.") && strings.Contains(p.InstrPos(call.Instr), "configvalidator.go") {
					why, ok = "admin-initiated upstream test (configuration validator)", true
				}
			}
			r.Check(ok, "C01-D4", fmt.Sprintf("exchange-site:%s|%s", core.FuncKey(outer), call.Key), p.InstrPos(call.Instr),
				"classified: "+why, "an unclassified call site sends a DNS message to an upstream; it must be shown not to carry a blocked query name")
		}
	}
	r.Floor("C01-D4", "exchange-sites", n, 6)
	// from the request-filtering stage only genBlockedHost and hashprefix may reach an upstream
	reach := core.StaticReach(before, 8)
	// add checkers reached through the hostCheckers table
	if nf := p.Fn("filtering.New"); nf != nil {
		for f := range core.StaticReach(nf, 1) {
			_ = f
		}
	}
	for _, hc := range hostCheckerList(p) {
		for f := range core.StaticReach(hc, 6) {
			reach[f] = true
		}
	}
	var bad []string
	for f := range reach {
		for _, call := range core.Calls(f) {
			if call.Key == kResolve || call.Key == kLookupNetIP || call.Key == kUpsExchange {
				k := core.FuncKey(f)
				if k != "(*dnsforward.Server).genBlockedHost" && k != "(*filtering/hashprefix.Checker).Check" {
					bad = append(bad, k+" -> "+call.Key)
				}
			}
		}
	}
	r.Eval(len(reach))
	r.Check(len(bad) == 0, "C01-D4", "request-filtering-reaches-no-other-upstream", p.FnPos(before),
		fmt.Sprintf("of %d functions reachable from request filtering only the block-page lookup and the hash-prefix lookup contact an upstream", len(reach)),
		fmt.Sprintf("request filtering can contact an upstream through %v", bad))
	// genBlockedHost: the question name does not depend on the request's name
	gb := p.Fn("(*dnsforward.Server).genBlockedHost")
	if gb == nil {
		r.Undecided("C01-D4", "genBlockedHost", "-", "anchor not found")
		return
	}
	for _, call := range core.CallsTo(gb, "(*github.com/miekg/dns.Msg).SetQuestion") {
		os := core.Origins(call.Arg(1), core.ProvOpts{Prog: p, Transparent: map[string]bool{"github.com/miekg/dns.Fqdn": true}})
		var bad2 []string
		for _, o := range os {
			switch {
			case o.Kind == "param" && strings.Contains(o.Key, "(newAddr)"):
			case o.Kind == "const":
			default:
				bad2 = append(bad2, o.String())
			}
		}
		r.Check(len(bad2) == 0, "C01-D4", "block-page-question-name", p.InstrPos(call.Instr),
			"the block-page lookup asks for the configured block host only", fmt.Sprintf("the block-page lookup's question name can derive from %v (the blocked name could be sent upstream)", bad2))
	}
	gm := p.Fn(kGenFilterMsg)
	if gm != nil {
		for _, call := range core.CallsTo(gm, "(*dnsforward.Server).genBlockedHost") {
			okH := core.IsCallResult(call.Arg(2), -1, "(*filtering.DNSFilter).SafeBrowsingBlockHost") || core.IsCallResult(call.Arg(2), -1, "(*filtering.DNSFilter).ParentalBlockHost")
			r.Check(okH, "C01-D4", "block-page-host-origin@"+p.InstrPos(call.Instr), p.InstrPos(call.Instr), "the block host comes from the configured safe-browsing/parental block host", "the block-page host does not come from the configured block host")
		}
	}
}

// hostCheckerList returns the check functions of the hostCheckers literal in
// filtering.New, in order.
func hostCheckerList(p *core.Prog) []*ssa.Function {
	nf := p.Fn("filtering.New")
	if nf == nil {
		return nil
	}
	type ent struct {
		pos token.Pos
		fn  *ssa.Function
	}
	var ents []ent
	for _, b := range nf.Blocks {
		for _, in := range b.Instrs {
			st, ok := in.(*ssa.Store)
			if !ok {
				continue
			}
			fr, ok := core.FieldOfAddr(st.Addr)
			if !ok || fr.Type != "filtering.hostChecker" || fr.Field != "check" {
				continue
			}
			f, _ := core.FnValue(st.Val)
			// order by the index of the enclosing array element
			var idx int64 = -1
			if fa, ok := st.Addr.(*ssa.FieldAddr); ok {
				if ia, ok := fa.X.(*ssa.IndexAddr); ok {
					idx, _ = core.ConstInt(ia.Index)
				}
			}
			ents = append(ents, ent{token.Pos(idx), core.Unbound(f)})
		}
	}
	sort.Slice(ents, func(i, j int) bool { return ents[i].pos < ents[j].pos })
	var out []*ssa.Function
	for _, e := range ents {
		out = append(out, e.fn)
	}
	return out
}

// c01Modes: D5.
func c01Modes(c *Ctx) {
	p, r := c.P, c.R
	fpk := p.Pkg("filtering")
	if fpk == nil {
		r.Undecided("C01-D5", "filtering", "-", "package not loaded")
		return
	}
	declared := map[string]string{} // value -> name
	for _, name := range fpk.Types.Scope().Names() {
		if cst, ok := fpk.Types.Scope().Lookup(name).(*types.Const); ok && core.NamedKey(cst.Type()) == "filtering.BlockingMode" {
			declared[constant.StringVal(cst.Val())] = name
		}
	}
	r.Check(len(declared) == 5, "C01-D5", "declared-modes", "-", fmt.Sprintf("%d blocking modes are declared", len(declared)), fmt.Sprintf("%d blocking modes are declared; the mode tables of the checker know 5 — extend the documented mapping", len(declared)))
	mapping := map[string][]string{
		"BlockingModeCustomIP": {"(*dnsforward.Server).makeResponseCustomIP"},
		"BlockingModeDefault":  {"(*dnsforward.Server).genResponseWithIPs", "(*dnsforward.Server).makeResponseNullIP"},
		"BlockingModeNullIP":   {"(*dnsforward.Server).makeResponseNullIP"},
		"BlockingModeNXDOMAIN": {"(*dnsforward.Server).NewMsgNXDOMAIN"},
		"BlockingModeREFUSED":  {"(*dnsforward.Server).makeResponseREFUSED"},
	}
	casesOf := func(fn *ssa.Function) map[string]*ssa.BasicBlock {
		out := map[string]*ssa.BasicBlock{}
		for _, b := range fn.Blocks {
			ifi, ok := b.Instrs[len(b.Instrs)-1].(*ssa.If)
			if !ok {
				continue
			}
			at := core.Decompose(ifi.Cond)
			if at.Op != token.EQL || core.NamedKey(at.Base.Type()) != "filtering.BlockingMode" {
				continue
			}
			s, ok := core.ConstString(at.Other)
			if !ok {
				continue
			}
			succ := 0
			if at.Neg {
				succ = 1
			}
			out[declared[s]] = b.Succs[succ]
		}
		return out
	}
	gm := p.Fn("(*dnsforward.Server).genForBlockingMode")
	if gm == nil {
		r.Undecided("C01-D5", "genForBlockingMode", "-", "anchor not found")
	} else {
		cases := casesOf(gm)
		for _, name := range declared {
			blk, ok := cases[name]
			if !ok {
				r.Fail("C01-D5", "mode-case:"+name, p.FnPos(gm), "blocking mode "+name+" has no case in genForBlockingMode: a blocked query in that mode gets the 'invalid mode' empty reply")
				continue
			}
			// every return reachable from the case block returns a call to one of the mapped constructors
			okMap := true
			var got []string
			seen := map[*ssa.BasicBlock]bool{}
			var walk func(b *ssa.BasicBlock)
			walk = func(b *ssa.BasicBlock) {
				if seen[b] {
					return
				}
				seen[b] = true
				for _, in := range b.Instrs {
					if ret, isRet := core.AsReturn(in); isRet {
						for _, l := range core.FlattenPhi(core.Res(ret, 0)) {
							call, _, isCall := core.CallResult(l)
							k := ""
							if isCall {
								k = core.CalleeKey(call.Common())
							}
							got = append(got, k)
							allowed := false
							for _, m := range mapping[name] {
								if m == k {
									allowed = true
								}
							}
							if !allowed {
								okMap = false
							}
						}
					}
				}
				// do not walk into other cases: stop at blocks that test the mode again
				for _, s := range b.Succs {
					if ifi, ok := s.Instrs[len(s.Instrs)-1].(*ssa.If); ok {
						at := core.Decompose(ifi.Cond)
						if at.Op == token.EQL && core.NamedKey(at.Base.Type()) == "filtering.BlockingMode" {
							continue
						}
					}
					walk(s)
				}
			}
			walk(blk)
			r.Check(okMap && len(got) > 0, "C01-D5", "mode-mapping:"+name, p.FnPos(gm),
				fmt.Sprintf("%s answers with %v", name, got), fmt.Sprintf("%s answers with %v, documented: %v", name, got, mapping[name]))
		}
	}
	// rcodes of the two rcode-defined constructors
	for fk, rc := range map[string]int64{"(*dnsforward.Server).NewMsgNXDOMAIN": 3, "(*dnsforward.Server).makeResponseREFUSED": 5} {
		f := p.Fn(fk)
		if f == nil {
			r.Undecided("C01-D5", "rcode:"+fk, "-", "anchor not found")
			continue
		}
		ok := false
		for _, call := range core.Calls(f) {
			for _, a := range call.Common.Args {
				if k, isK := core.ConstInt(a); isK && k == rc {
					ok = true
				}
			}
		}
		r.Check(ok, "C01-D5", "rcode:"+fk, p.FnPos(f), fmt.Sprintf("%s builds a reply with rcode %d", fk, rc), fmt.Sprintf("%s no longer uses rcode %d", fk, rc))
	}
	vb := p.Fn("dnsforward.validateBlockingMode")
	if vb == nil {
		r.Undecided("C01-D5", "validateBlockingMode", "-", "anchor not found")
	} else {
		cases := casesOf(vb)
		var missing []string
		for _, name := range declared {
			if _, ok := cases[name]; !ok {
				missing = append(missing, name)
			}
		}
		sort.Strings(missing)
		r.Check(len(missing) == 0, "C01-D5", "validator-covers-modes", p.FnPos(vb), "the configuration validator knows every declared mode", fmt.Sprintf("the configuration validator has no case for %v", missing))
	}
}

// c01Checkers: D6.
func c01Checkers(c *Ctx) {
	p, r := c.P, c.R
	hcs := hostCheckerList(p)
	var names []string
	for _, f := range hcs {
		names = append(names, core.FuncKey(f))
	}
	want := []string{"(*filtering.DNSFilter).matchSysHosts", "(*filtering.DNSFilter).matchHost", "filtering.matchBlockedServicesRules",
		"(*filtering.DNSFilter).checkSafeBrowsing", "(*filtering.DNSFilter).checkParental", "(*filtering.DNSFilter).checkSafeSearch"}
	r.Check(fmt.Sprint(names) == fmt.Sprint(want), "C01-D6", "checker-order", "-",
		"checkers run in the documented order: hosts, rule lists, blocked services, safe browsing, parental, safe search", fmt.Sprintf("checker order changed: %v", names))
	ch := p.Fn("(*filtering.DNSFilter).CheckHost")
	if ch == nil {
		r.Undecided("C01-D6", "CheckHost", "-", "anchor not found")
	} else {
		isCheckCall := func(in ssa.Instruction) bool {
			call, ok := in.(*ssa.Call)
			if !ok || core.Callee(call.Common()) != nil || call.Common().IsInvoke() {
				return false
			}
			fr, _, ok := core.LoadedField(call.Common().Value)
			return ok && fr.Type == "filtering.hostChecker" && fr.Field == "check"
		}
		gM, nM := core.CondEdges(ch, func(at core.Atom) (bool, bool) {
			if at.Op == token.ILLEGAL && core.IsCallResult(at.Base, -1, "(filtering.Reason).Matched") {
				return true, true
			}
			return false, false
		})
		var starts []core.Point
		for e := range gM {
			starts = append(starts, core.AfterEdge(e))
		}
		found := true
		if len(starts) > 0 {
			found, _, _ = core.Reach(core.Query{From: starts, Target: isCheckCall})
		}
		r.Check(nM > 0 && !found, "C01-D6", "first-match-wins", p.FnPos(ch), "after the first matched result no further checker runs", "a later checker can run (and override the verdict) after an earlier one matched")
		// the loop ranges over d.hostCheckers
		okRange := false
		for _, b := range ch.Blocks {
			for _, in := range b.Instrs {
				if isCheckCall(in) {
					okRange = true
				}
			}
		}
		r.Check(okRange, "C01-D6", "check-loop", p.FnPos(ch), "CheckHost runs the hostCheckers list", "CheckHost no longer runs the hostCheckers list")
	}
	mh := p.Fn("(*filtering.DNSFilter).matchHost")
	if mh == nil {
		r.Undecided("C01-D6", "matchHost", "-", "anchor not found")
		return
	}
	engineCall := func(field string) func(ssa.Instruction) bool {
		return func(in ssa.Instruction) bool {
			call, ok := in.(*ssa.Call)
			if !ok || core.CalleeKey(call.Common()) != "(*github.com/AdguardTeam/urlfilter.DNSEngine).MatchRequest" {
				return false
			}
			fr, _, ok := core.LoadedField(call.Common().Args[0])
			return ok && fr.Type == "filtering.DNSFilter" && fr.Field == field
		}
	}
	isAllowCall := func(v ssa.Value) bool {
		call, _, ok := core.CallResult(v)
		return ok && engineCall("filteringEngineAllow")(call)
	}
	g, n := core.CondEdges(mh, func(at core.Atom) (bool, bool) {
		switch {
		case at.Op == token.ILLEGAL && isAllowCall(at.Base):
			if e, ok := at.Base.(*ssa.Extract); ok && e.Index == 1 {
				return true, false // allow engine did not match
			}
		case at.Op == token.ILLEGAL:
			if fr, _, ok := core.LoadedField(at.Base); ok && fr.Type == "filtering.Settings" && fr.Field == "ProtectionEnabled" {
				return true, false
			}
		case (at.Op == token.EQL || at.Op == token.NEQ) && core.IsNilConst(at.Other):
			if fr, _, ok := core.LoadedField(at.Base); ok && fr.Type == "filtering.DNSFilter" && fr.Field == "filteringEngineAllow" {
				return true, at.Op == token.EQL
			}
		}
		return false, false
	})
	off, ns := core.UnguardedSinks(mh, engineCall("filteringEngine"), g)
	r.Check(n >= 3 && ns > 0 && len(off) == 0, "C01-D6", "allow-engine-before-block-engine", p.FnPos(mh),
		"the block engine is consulted only after the allow engine did not match (or protection is off / no allow engine)", "the block engine can be consulted without the allow engine having been asked first", traceOf(p, off)...)
	gAllow, _ := core.CondEdges(mh, func(at core.Atom) (bool, bool) {
		if at.Op == token.ILLEGAL && isAllowCall(at.Base) {
			if e, ok := at.Base.(*ssa.Extract); ok && e.Index == 1 {
				return true, true
			}
		}
		return false, false
	})
	var starts []core.Point
	for e := range gAllow {
		starts = append(starts, core.AfterEdge(e))
	}
	found := true
	if len(starts) > 0 {
		found, _, _ = core.Reach(core.Query{From: starts, Target: engineCall("filteringEngine")})
	}
	r.Check(!found, "C01-D6", "allow-match-is-final", p.FnPos(mh), "after an allow match the block engine is not consulted", "after an allow-list match the block engine can still be consulted")
	// allow match returns NotFilteredAllowList
	al := p.Fn("(*filtering.DNSFilter).matchHostProcessAllowList")
	if al != nil {
		ok := false
		for _, call := range core.CallsTo(al, "filtering.makeResult") {
			// the reason: whichever argument is of type Reason
			for _, a := range call.Common.Args {
				if cst, isC := a.(*ssa.Const); isC && core.NamedKey(cst.Type()) == "filtering.Reason" && isConstNamed(p, cst, "filtering", "NotFilteredAllowList") {
					ok = true
				}
			}
		}
		r.Check(ok, "C01-D6", "allow-match-reason", p.FnPos(al), "an allow match yields NotFilteredAllowList", "an allow match no longer yields NotFilteredAllowList")
	}
}

// c01Gates: D7.
func c01Gates(c *Ctx) {
	p, r := c.P, c.R
	settField := func(v ssa.Value, name string) bool {
		fr, _, ok := core.LoadedField(v)
		return ok && fr.Type == "filtering.Settings" && fr.Field == name
	}
	gate := func(fn *ssa.Function, field string) (map[core.Edge]bool, int) {
		return core.CondEdges(fn, func(at core.Atom) (bool, bool) {
			if at.Op == token.ILLEGAL && settField(at.Base, field) {
				return true, true
			}
			return false, false
		})
	}
	type gspec struct {
		fn    string
		sink  func(ssa.Instruction) bool
		field string
		what  string
	}
	isCall := func(keys ...string) func(ssa.Instruction) bool { return core.IsCallTo(false, keys...) }
	specs := []gspec{
		{"(*filtering.DNSFilter).matchHost", isCall("(*filtering.DNSFilter).matchHostProcessDNSResult"), "ProtectionEnabled", "a block-list verdict"},
		{"(*filtering.DNSFilter).matchHost", isCall("(*github.com/AdguardTeam/urlfilter.DNSEngine).MatchRequest"), "FilteringEnabled", "consulting the rule engines"},
		{"filtering.matchBlockedServicesRules", isCall("iface:(github.com/AdguardTeam/urlfilter/rules.Rule).Match", "(*github.com/AdguardTeam/urlfilter/rules.NetworkRule).Match"), "ProtectionEnabled", "matching blocked-service rules"},
		{"(*filtering.DNSFilter).checkSafeBrowsing", isCall("iface:(filtering.Checker).Check"), "ProtectionEnabled", "the safe-browsing lookup"},
		{"(*filtering.DNSFilter).checkSafeBrowsing", isCall("iface:(filtering.Checker).Check"), "SafeBrowsingEnabled", "the safe-browsing lookup"},
		{"(*filtering.DNSFilter).checkParental", isCall("iface:(filtering.Checker).Check"), "ProtectionEnabled", "the parental lookup"},
		{"(*filtering.DNSFilter).checkParental", isCall("iface:(filtering.Checker).Check"), "ParentalEnabled", "the parental lookup"},
		{"(*filtering.DNSFilter).checkSafeSearch", isCall("iface:(filtering.SafeSearch).CheckHost"), "ProtectionEnabled", "the safe-search rewrite"},
		{"(*filtering.DNSFilter).checkSafeSearch", isCall("iface:(filtering.SafeSearch).CheckHost"), "SafeSearchEnabled", "the safe-search rewrite"},
	}
	for _, sp := range specs {
		fn := p.Fn(sp.fn)
		if fn == nil {
			r.Undecided("C01-D7", "gate:"+sp.fn, "-", "anchor not found")
			continue
		}
		g, n := gate(fn, sp.field)
		off, ns := core.UnguardedSinks(fn, sp.sink, g)
		r.Check(n > 0 && ns > 0 && len(off) == 0, "C01-D7", fmt.Sprintf("gate:%s:%s", sp.fn, sp.field), p.FnPos(fn),
			sp.what+" happens only when "+sp.field+" is true", sp.what+" can happen although "+sp.field+" is false (or the sink was not found)", traceOf(p, off)...)
	}
	// rewrites are applied only when filtering is enabled for the client
	if ch := p.Fn("(*filtering.DNSFilter).CheckHost"); ch != nil {
		g, n := gate(ch, "FilteringEnabled")
		off, ns := core.UnguardedSinks(ch, isCall("(*filtering.DNSFilter).processRewrites"), g)
		r.Check(n > 0 && ns > 0 && len(off) == 0, "C01-D7", "gate:CheckHost:rewrites", p.FnPos(ch), "custom rewrites apply only when filtering is enabled for the client", "custom rewrites can apply although filtering is disabled for the client")
	}
	// writers of Settings.ProtectionEnabled
	nW := 0
	for _, fn := range p.ModFns {
		if fn.Blocks == nil || core.IsNextPkg(fn) {
			continue
		}
		for _, b := range fn.Blocks {
			for _, in := range b.Instrs {
				st, ok := in.(*ssa.Store)
				if !ok {
					continue
				}
				fr, ok := core.FieldOfAddr(st.Addr)
				if !ok || fr.Type != "filtering.Settings" || fr.Field != "ProtectionEnabled" {
					continue
				}
				nW++
				fk := core.FuncKey(fn)
				os := core.Origins(st.Val, core.ProvOpts{Prog: p, InterprocDepth: 2})
				okO := false
				var why []string
				for _, o := range os {
					why = append(why, o.String())
					if (o.Kind == "call" && (o.Key == "(*dnsforward.Server).UpdatedProtectionStatus" || o.Key == "(*filtering.DNSFilter).ProtectionStatus")) ||
						(o.Kind == "field" && (o.Key == "dnsforward.dnsContext.protectionEnabled" || o.Key == "filtering.Config.ProtectionEnabled")) {
						okO = true
					}
				}
				if fk == "(*filtering.DNSFilter).handleCheckHost" {
					r.Ok("C01-D7", fmt.Sprintf("protection-flag-writer:%s#%d", fk, nW), p.InstrPos(in), "admin dry-run (check_host API): evaluates a name with protection on; not a served query")
					continue
				}
				r.Check(okO, "C01-D7", fmt.Sprintf("protection-flag-writer:%s#%d", fk, nW), p.InstrPos(in),
					"the per-request protection flag derives from the server's protection status", fmt.Sprintf("Settings.ProtectionEnabled is set from %v, not from the protection status", why))
			}
		}
	}
	r.Floor("C01-D7", "protection-flag-writers", nW, 2)
	// dnsContext.protectionEnabled comes from UpdatedProtectionStatus
	for _, fn := range p.ModFnsIn("dnsforward") {
		for _, b := range fn.Blocks {
			for _, in := range b.Instrs {
				if st, ok := in.(*ssa.Store); ok {
					if fr, ok := core.FieldOfAddr(st.Addr); ok && fr.Type == "dnsforward.dnsContext" && fr.Field == "protectionEnabled" {
						r.Check(core.IsCallResult(st.Val, 0, "(*dnsforward.Server).UpdatedProtectionStatus"), "C01-D7", "request-protection-from-status:"+core.FuncKey(fn), p.InstrPos(in),
							"the request's protection flag is the current (pause-aware) protection status", "the request's protection flag does not come from UpdatedProtectionStatus")
					}
				}
			}
		}
	}
	// a pause that has run out no longer counts: once the pause's end is not in the future, the status reported is
	// "enabled" as such — not the stored flag, which the background update has not switched yet
	if ups := p.Fn("(*dnsforward.Server).UpdatedProtectionStatus"); ups == nil {
		r.Undecided("C01-D7", "UpdatedProtectionStatus", "-", "anchor not found")
	} else {
		gOver, nOver := core.CondEdges(ups, func(at core.Atom) (bool, bool) {
			if at.Op != token.ILLEGAL {
				return false, false
			}
			call, _, ok := core.CallResult(at.Base)
			if !ok {
				return false, false
			}
			isNow := func(v ssa.Value) bool { return core.IsCallResult(core.ResolveCellLoad(v), -1, "time.Now") }
			switch core.CalleeKey(call.Common()) {
			case "(time.Time).Before": // now.Before(until): the pause is over when false
				if isNow(call.Common().Args[0]) {
					return true, false
				}
			case "(time.Time).After": // until.After(now): over when false
				if isNow(call.Common().Args[1]) {
					return true, false
				}
			}
			return false, false
		})
		var from []core.Point
		for e := range gOver {
			from = append(from, core.AfterEdge(e))
		}
		found, tr := true, []*ssa.BasicBlock(nil)
		if len(from) > 0 {
			found, tr, _ = core.Reach(core.Query{From: from, Target: func(in ssa.Instruction) bool {
				ret, ok := core.AsReturn(in)
				if !ok || len(ret.Results) < 1 {
					return false
				}
				b, isC := core.ConstBool(core.ResolveCellLoad(core.ResolveLocalLoad(core.Res(ret, 0))))
				return !(isC && b)
			}})
		}
		r.Check(nOver > 0 && !found, "C01-D7", "expired-pause-reports-enabled", p.FnPos(ups),
			"once the pause has run out the protection status reported is enabled, whatever the stored flag still says",
			"after a pause has run out the status can still be reported as the stored flag (disabled until the background update has run): the first requests after the pause skip all filtering", p.TraceString(tr))
	}
	// engines are swapped, never nil'ed
	nE := 0
	for _, fn := range p.ModFnsIn("filtering") {
		for _, b := range fn.Blocks {
			for _, in := range b.Instrs {
				st, ok := in.(*ssa.Store)
				if !ok {
					continue
				}
				fr, ok := core.FieldOfAddr(st.Addr)
				if !ok || fr.Type != "filtering.DNSFilter" || (fr.Field != "filteringEngine" && fr.Field != "filteringEngineAllow") {
					continue
				}
				if fa, ok := st.Addr.(*ssa.FieldAddr); ok {
					if _, fresh := fa.X.(*ssa.Alloc); fresh {
						continue
					}
				}
				nE++
				v := core.ResolveCellLoad(st.Val)
				okEng := core.IsCallResult(v, -1, "github.com/AdguardTeam/urlfilter.NewDNSEngine")
				if !okEng {
					if cell := core.CellOf(v); cell != nil {
						vals := core.CellStores(cell)
						okEng = len(vals) > 0
						for _, cv := range vals {
							if !core.IsCallResult(cv, -1, "github.com/AdguardTeam/urlfilter.NewDNSEngine") {
								okEng = false
							}
						}
					}
				}
				r.Check(okEng, "C01-D7", fmt.Sprintf("engine-swap:%s:%s#%d", core.FuncKey(fn), fr.Field, nE), p.InstrPos(in),
					"the rule engine is replaced by a freshly built engine", "a rule engine is set to something other than a freshly built engine (e.g. nil during a reload): queries processed meanwhile match no rule and blocked names are forwarded")
			}
		}
	}
	r.Floor("C01-D7", "engine-stores", nE, 2)
}

// c01EnginesAlwaysBuilt: D7 (cont.).  A client with its own filtering switch on
// is filtered even when the global switch is off, so the rule lists handed to
// the engines never depend on the global switch: what enableFiltersLocked
// passes to setFilters is the collected list on every path, never nothing.
func c01EnginesAlwaysBuilt(c *Ctx) {
	p, r := c.P, c.R
	fn := p.Fn("(*filtering.DNSFilter).enableFiltersLocked")
	if fn == nil {
		r.Undecided("C01-D7", "enableFiltersLocked", "-", "anchor not found")
		return
	}
	calls := core.CallsTo(fn, "(*filtering.DNSFilter).setFilters")
	if len(calls) == 0 {
		r.Undecided("C01-D7", "enableFiltersLocked", p.FnPos(fn), "the setFilters call was not found")
		return
	}
	ok := true
	for _, call := range calls {
		for i := 1; i <= 2 && i < len(call.Common.Args); i++ {
			// a nil is fine as the start value of the loop that collects the lists (no list configured), not as a
			// replacement of the collected list
			seen := map[ssa.Value]bool{}
			var walk func(v ssa.Value)
			walk = func(v ssa.Value) {
				if seen[v] {
					return
				}
				seen[v] = true
				ph, isPhi := v.(*ssa.Phi)
				if !isPhi {
					if core.IsNilConst(v) {
						ok = false
					}
					return
				}
				isLoopHeader := false
				for _, pb := range ph.Block().Preds {
					if ph.Block().Dominates(pb) {
						isLoopHeader = true
					}
				}
				for _, e := range ph.Edges {
					if core.IsNilConst(e) && isLoopHeader {
						continue
					}
					walk(e)
				}
			}
			walk(call.Arg(i))
		}
	}
	r.Check(ok, "C01-D7", "engines-built-from-all-lists", p.FnPos(fn),
		"the block and allow lists handed to the engines are the collected lists on every path",
		"on some path the engines are built from no lists at all (e.g. while the global filtering switch is off): clients with their own filtering enabled are then matched against empty engines and blocked names are forwarded")
}
