package rules

import (
	"fmt"
	"go/constant"
	"sort"
	"strings"

	"aghverif/core"

	"golang.org/x/tools/go/ssa"
)

func init() {
	register(&Rule{
		ID:           "C14",
		Run:          runC14,
		ThoroughGOOS: []string{"darwin", "freebsd", "openbsd"},
		Exhaustive:   true,
		Explanation: "Exhaustive census of every call site of a file-creating/-replacing/-removing primitive in the module (os.WriteFile, os.Create, os.OpenFile with a write flag, os.Rename, os.Truncate, os.Remove*, os.Symlink/Link, CreateTemp, renameio/maybe.WriteFile, aghrenameio.NewPendingFile, bbolt.Open). " +
			"For each site the path argument's provenance is sliced backwards (through locals, string/path helpers, parameters to their callers, module helper returns). Decided: (D1) every site is classified; (D2) a path that derives from one of the three durable locations (configuration file, lease database, filter-list files) reaches only the atomic primitives, apart from a frozen table of whole-file removals; each durable kind keeps at least one atomic writer; " +
			"(D3) on unix builds the aghrenameio wrappers resolve to renameio.NewPendingFile / CloseAtomicallyReplace / Cleanup; (D4) every function that obtains a pending file hands it, on every path to return, to a finaliser that always calls CloseReplace or Cleanup. " +
			"(D5) the list parser returns exactly the scanner's read error after the scan, so a transfer that broke off cannot reach the replace step as a success. " +
			"(D5, cont.) a pending file receives the output of at most one parse: neither the Parse call that writes into it nor the calls leading to it lie on a cycle (no retry into the same pending file). " +
			"(D6) the bytes that replace the configuration file are encoded into a buffer made by that very save. " +
			"(D3, cont.) NewPendingFile hands out what the platform constructor made, not another layer (a write buffer) whose flush could fail after the writes were reported successful. " +
			"Not decided: crash semantics of rename/fsync on a filesystem (renameio is trusted), Windows (the package documents it as non-atomic).",
		RuleText: "Write-primitive sites are enumerated by resolved callee over all module functions; provenance by backward SSA slice with interprocedural depth 4.",
		Assumptions: []string{
			"github.com/google/renameio/v2 (NewPendingFile+CloseAtomicallyReplace, maybe.WriteFile) writes a temp file, fsyncs and renames (trusted, version pinned in go.sum)",
			"unix builds only (//go:build unix); aghrenameio documents Windows as non-atomic",
		},
		Trusted: commonTrusted,
	})
}

type writePrim struct {
	pathArgs []int
	class    string // atomic | plain | remove | rename | link | db | temp
}

var c14Prims = map[string]writePrim{
	"os.WriteFile":        {[]int{0}, "plain"},
	"io/ioutil.WriteFile": {[]int{0}, "plain"},
	"os.Create":           {[]int{0}, "plain"},
	"os.OpenFile":         {[]int{0}, "plain"},
	"os.Truncate":         {[]int{0}, "plain"},
	"os.Rename":           {[]int{0, 1}, "rename"},
	"os.Remove":           {[]int{0}, "remove"},
	"os.RemoveAll":        {[]int{0}, "remove"},
	"os.Symlink":          {[]int{1}, "link"},
	"os.Link":             {[]int{1}, "link"},
	"os.CreateTemp":       {[]int{0}, "temp"},
	"github.com/google/renameio/v2/maybe.WriteFile": {[]int{0}, "atomic"},
	"github.com/google/renameio/v2.WriteFile":       {[]int{0}, "atomic"},
	"github.com/google/renameio/v2.NewPendingFile":  {[]int{0}, "atomic"},
	"github.com/google/renameio/v2.TempFile":        {[]int{1}, "atomic"},
	"aghrenameio.NewPendingFile":                    {[]int{0}, "atomic"},
	"aghrenameio.newPendingFile":                    {[]int{0}, "atomic"},
	"go.etcd.io/bbolt.Open":                         {[]int{0}, "db"},
}

// durable origins: which provenance leaves mark a path as one of the three
// durable files.
func c14Durable(o core.Origin) string {
	switch o.Kind {
	case "call":
		switch o.Key {
		case "home.configFilePath":
			return "config"
		case "(*filtering.FilterYAML).Path":
			return "filter"
		}
	case "field":
		switch o.Key {
		case "home.homeContext.confFilePath":
			return "config"
		case "dhcpd.ServerConfig.dbFilePath", "dhcpsvc.DHCPServer.dbFilePath":
			return "leases"
		}
	case "const":
		switch o.Key {
		case `"leases.json"`:
			return "leases"
		case `"filters"`:
			return "filter"
		}
	}
	return ""
}

// c14Exceptions: non-atomic primitives that may touch a durable path, by
// function and primitive, with the reason.
var c14Exceptions = map[string]string{
	"(*dhcpd.server).handleReset|os.Remove":                       "factory reset of DHCP: deliberately deletes the lease database",
	"(*filtering.DNSFilter).handleFilteringRemoveURL|os.Rename":   "a removed list's file is renamed to .old as a whole (rename is atomic; the list is no longer configured)",
	"(*filtering.DNSFilter).refreshFiltersIntl|os.Remove":         "removes the .old leftover of a deleted list, not a live list file",
	"(*filtering.DNSFilter).refreshFiltersIntl$1|os.Remove":       "removes the .old leftover of a deleted list, not a live list file",
	"(*filtering.DNSFilter).periodicallyRefreshFilters|os.Remove": "removes the .old leftover of a deleted list, not a live list file",
}

// c14OpaqueOK: functions whose write path cannot be sliced back to its
// origin (archive member names, interface values), classified by reading.
var c14OpaqueOK = map[string]string{}

func runC14(c *Ctx) {
	p, r := c.P, c.R
	opts := core.ProvOpts{InterprocDepth: 4, IntoModuleCalls: true, Prog: p}
	type site struct {
		fn      *ssa.Function
		prim    string
		class   string
		pos     string
		origins []string
		durable []string
		opaque  []string
	}
	var sites []site
	atomicWriters := map[string]int{}
	nCalls := 0
	for _, fn := range p.ModFns {
		if fn.Blocks == nil || core.IsNextPkg(fn) {
			continue
		}
		for _, call := range core.Calls(fn) {
			nCalls++
			prim, ok := c14Prims[call.Key]
			if !ok {
				continue
			}
			if call.Key == "os.OpenFile" {
				// read-only opens are not writes
				if flag, ok := constIntOf(call.Arg(1)); ok && flag&0x3 == 0 && flag&(osFlag(p, "O_CREATE")|osFlag(p, "O_TRUNC")|osFlag(p, "O_APPEND")) == 0 {
					continue
				}
			}
			st := site{fn: fn, prim: call.Key, class: prim.class, pos: p.InstrPos(call.Instr)}
			dur := map[string]bool{}
			for _, ai := range prim.pathArgs {
				a := call.Arg(ai)
				if a == nil {
					continue
				}
				os := core.Origins(a, opts)
				for _, o := range os {
					st.origins = append(st.origins, o.String())
					if o.Kind == "param" || o.Kind == "opaque" || o.Kind == "freevar" || (o.Kind == "call" && strings.HasPrefix(o.Key, "dynamic:")) {
						st.opaque = append(st.opaque, o.String())
					}
					if d := c14Durable(o); d != "" {
						dur[d] = true
					}
				}
			}
			for d := range dur {
				st.durable = append(st.durable, d)
			}
			sort.Strings(st.durable)
			sites = append(sites, st)
		}
	}
	r.Eval(nCalls)

	perFn := map[string]int{}
	var table []any
	for _, st := range sites {
		fk := core.FuncKey(st.fn)
		perFn[fk+"|"+st.prim]++
		key := fmt.Sprintf("%s|%s#%d", fk, st.prim, perFn[fk+"|"+st.prim])
		table = append(table, fmt.Sprintf("%s %s class=%s durable=%v @%s", fk, st.prim, st.class, st.durable, st.pos))
		if len(st.durable) == 0 && len(st.opaque) > 0 && st.class != "atomic" && st.class != "db" {
			if why, ok := c14OpaqueOK[fk]; ok {
				r.Ok("C14-D1", "site:"+key, st.pos, "path not fully resolvable ("+strings.Join(trimList(st.opaque, 3), ",")+"); classified by table: "+why)
			} else {
				r.Undecided("C14-D1", "site:"+key, st.pos, fmt.Sprintf("%s receives a path whose origin cannot be resolved statically (%v) and the function is not in the classification table", st.prim, trimList(st.opaque, 4)))
			}
			continue
		}
		if len(st.durable) == 0 {
			r.Ok("C14-D1", "site:"+key, st.pos, fmt.Sprintf("%s on a path that does not derive from a durable location (origins %v)", st.class, trimList(st.origins, 6)))
			continue
		}
		switch st.class {
		case "atomic":
			for _, d := range st.durable {
				atomicWriters[d]++
			}
			r.Ok("C14-D2", "durable-write:"+key, st.pos, fmt.Sprintf("%v written through the atomic primitive %s", st.durable, st.prim))
		default:
			outer := st.fn
			for outer.Parent() != nil {
				outer = outer.Parent()
			}
			if why, ok := c14Exceptions[core.FuncKey(outer)+"|"+st.prim]; ok {
				r.Ok("C14-D2", "durable-exception:"+key, st.pos, why)
				continue
			}
			r.Fail("C14-D2", "durable-write:"+key, st.pos,
				fmt.Sprintf("%s (%s, not atomic replace) receives a path derived from the durable %v location; a crash or concurrent reader at this point sees a missing, empty or partial file",
					st.prim, st.class, st.durable),
				"path origins: "+strings.Join(trimList(st.origins, 12), ", "))
		}
	}
	r.Info["write_sites"] = table
	r.Floor("C14-D1", "write-primitive-sites", len(sites), 25)
	for _, d := range []string{"config", "leases", "filter"} {
		want := 1
		if d == "config" {
			want = 2
		}
		r.Check(atomicWriters[d] >= want, "C14-D2", "atomic-writer:"+d, "-",
			fmt.Sprintf("%d atomic writer site(s) for the %s file", atomicWriters[d], d),
			fmt.Sprintf("no (or fewer than %d) atomic writer found for the durable %s file: it is no longer written through renameio", want, d))
	}

	if p.GOOS != "windows" {
		c14Wrappers(c)
	}
	c14Typestate(c)
	// a list whose transfer broke off must not look like a complete one to the replace step
	parserReportsReadError(c, "C14-D5")
	onePendingFileOneParse(c, "C14-D5")
	c14FreshEncoding(c)
}

// osFlag returns the value of an os.O_* constant in the build being analysed
// (the numeric values differ between platforms).
func osFlag(p *core.Prog, name string) int64 {
	for _, pkg := range p.SSA.AllPackages() {
		if pkg.Pkg.Path() != "os" {
			continue
		}
		if c, ok := pkg.Members[name].(*ssa.NamedConst); ok {
			if i, ok := constant.Int64Val(c.Value.Value); ok {
				return i
			}
		}
	}
	return -1
}

func constIntOf(v ssa.Value) (int64, bool) {
	switch x := v.(type) {
	case *ssa.Const:
		if x.Value != nil && x.Value.Kind() == constant.Int {
			i, ok := constant.Int64Val(x.Value)
			return i, ok
		}
	case *ssa.Convert:
		return constIntOf(x.X)
	}
	return 0, false
}

func trimList(ss []string, n int) []string {
	if len(ss) > n {
		return append(append([]string{}, ss[:n]...), "…")
	}
	return ss
}

// c14Wrappers: D3.
func c14Wrappers(c *Ctx) {
	p, r := c.P, c.R
	type w struct{ fn, must, why string }
	for _, x := range []w{
		{"aghrenameio.NewPendingFile", "aghrenameio.newPendingFile", "NewPendingFile delegates to the platform implementation"},
		{"aghrenameio.newPendingFile", "github.com/google/renameio/v2.NewPendingFile", "unix: pending file is a renameio pending file (temp file in the destination directory)"},
		{"(aghrenameio.pendingFile).CloseReplace", "(*github.com/google/renameio/v2.PendingFile).CloseAtomicallyReplace", "CloseReplace = fsync + atomic rename"},
		{"(aghrenameio.pendingFile).Cleanup", "(*github.com/google/renameio/v2.PendingFile).Cleanup", "Cleanup removes the temp file"},
		{"(aghrenameio.pendingFile).Write", "(*os.File).Write", "Write goes to the temp file"},
	} {
		fn := p.FnRaw(x.fn)
		if fn == nil || fn.Blocks == nil {
			r.Undecided("C14-D3", "wrapper:"+x.fn, "-", "anchor not found")
			continue
		}
		// every normal return passes the delegate call, except returns on an error edge after the delegate was called
		// follow thin wrappers: either one of them is the delegate itself, or the innermost body must call it
		mf := p.FnRaw(x.must)
		direct := false
		for i := 0; i < 4 && core.Impl(fn) != fn; i++ {
			fn = core.Impl(fn)
			if mf != nil && (fn == mf || fn == core.Impl(mf)) {
				direct = true
			}
		}
		if direct {
			r.Ok("C14-D3", "wrapper:"+x.fn, p.FnPos(fn), x.why+" (it only calls it)")
			continue
		}
		found, tr, _ := core.Reach(core.Query{From: []core.Point{core.Entry(fn)}, Target: core.IsReturn, Avoid: core.IsCallTo(false, x.must)})
		r.Check(!found, "C14-D3", "wrapper:"+x.fn, p.FnPos(fn), x.why, x.fn+" can return without calling "+x.must, p.TraceString(tr))
	}
	// what NewPendingFile hands out is the platform's pending file itself, not another layer around it: a layer
	// that holds data back (a write buffer) has a flush of its own that can fail after everything written so far
	// was reported successful, and its CloseReplace decides about the commit without the callers' error
	if fn := p.FnRaw("aghrenameio.NewPendingFile"); fn == nil || fn.Blocks == nil {
		r.Undecided("C14-D3", "wrapper:NewPendingFile-hands-out-the-platform-file", "-", "anchor not found")
	} else {
		okAll, nRet := true, 0
		for _, b := range fn.Blocks {
			for _, in := range b.Instrs {
				ret, ok := core.AsReturn(in)
				if !ok || len(ret.Results) != 2 {
					continue
				}
				for _, leaf := range core.FlattenPhi(core.ResolveCellLoad(core.ResolveLocalLoad(core.Res(ret, 0)))) {
					if core.IsNilConst(leaf) {
						continue
					}
					nRet++
					if !core.IsCallResult(leaf, 0, "aghrenameio.newPendingFile", "aghrenameio.NewPendingFile") { // the thin wrapper lends its name to the implementation
						okAll = false
					}
				}
			}
		}
		r.Check(okAll && nRet > 0, "C14-D3", "wrapper:NewPendingFile-hands-out-the-platform-file", p.FnPos(fn),
			"NewPendingFile returns what newPendingFile made", "NewPendingFile wraps the platform's pending file in another object: writes no longer go straight to the temporary file, and a failure of the extra layer at commit time can publish a truncated file")
	}
	// the value returned by newPendingFile wraps the renameio file
	if fn := p.Fn("aghrenameio.newPendingFile"); fn != nil {
		ok := false
		for _, b := range fn.Blocks {
			for _, in := range b.Instrs {
				if st, isSt := in.(*ssa.Store); isSt {
					if fr, isF := core.FieldOfAddr(st.Addr); isF && fr.Type == "aghrenameio.pendingFile" && fr.Field == "file" {
						ok = core.IsCallResult(st.Val, 0, "github.com/google/renameio/v2.NewPendingFile")
					}
				}
			}
		}
		r.Check(ok, "C14-D3", "wrapper:newPendingFile-wraps-renameio", p.FnPos(fn), "the wrapper's file field is the renameio pending file", "newPendingFile no longer stores the renameio pending file in the wrapper")
	}
}

// c14Typestate: D4 — every holder of a pending file hands it to a finaliser
// on every path to return.
func c14Typestate(c *Ctx) {
	p, r := c.P, c.R
	const kCleanup = "iface:(aghrenameio.PendingFile).Cleanup"
	const kClose = "iface:(aghrenameio.PendingFile).CloseReplace"

	// finalisers: fixpoint over module functions
	final := map[*ssa.Function]bool{}
	isFinalCall := func(in ssa.Instruction) bool {
		var cc *ssa.CallCommon
		switch x := in.(type) {
		case *ssa.Call:
			cc = x.Common()
		case *ssa.Defer:
			cc = x.Common()
		default:
			return false
		}
		k := core.CalleeKey(cc)
		if k == kCleanup || k == kClose {
			return true
		}
		if fn := core.Callee(cc); fn != nil && final[fn] {
			return true
		}
		// deferred / called closure literal
		if mc, ok := cc.Value.(*ssa.MakeClosure); ok {
			if fn, ok := mc.Fn.(*ssa.Function); ok && final[fn] {
				return true
			}
		}
		return false
	}
	cands := p.ModFnsIn("aghrenameio", "filtering", "filtering/rulelist")
	for changed := true; changed; {
		changed = false
		for _, fn := range cands {
			if final[fn] || fn.Blocks == nil {
				continue
			}
			has := false
			for _, b := range fn.Blocks {
				for _, in := range b.Instrs {
					if isFinalCall(in) {
						has = true
					}
				}
			}
			if !has {
				continue
			}
			found, _, _ := core.Reach(core.Query{From: []core.Point{core.Entry(fn)}, Target: core.IsReturn, Avoid: isFinalCall})
			if !found {
				final[fn] = true
				changed = true
			}
		}
	}
	var names []string
	for fn := range final {
		names = append(names, core.FuncKey(fn))
	}
	sort.Strings(names)
	r.Info["pending_file_finalisers"] = names

	holders := 0
	for _, fn := range p.ModFns {
		if fn.Blocks == nil || core.IsNextPkg(fn) || core.PkgOf(fn) == "aghrenameio" {
			continue
		}
		for _, call := range core.CallsTo(fn, "aghrenameio.NewPendingFile") {
			holders++
			// success edge: err == nil on result #1
			callV, _ := call.Instr.(*ssa.Call)
			okEdges, n := core.CondEdges(fn, func(a core.Atom) (bool, bool) {
				if cc, idx, ok := core.CallResult(a.Base); ok && cc == callV && idx == 1 && core.IsNilConst(a.Other) {
					return true, a.Op.String() == "=="
				}
				return false, false
			})
			key := "pending-file:" + core.FuncKey(fn)
			pos := p.InstrPos(call.Instr)
			if n == 0 {
				r.Undecided("C14-D4", key, pos, "error check of NewPendingFile not recognised")
				continue
			}
			var starts []core.Point
			for e := range okEdges {
				starts = append(starts, core.AfterEdge(e))
			}
			found, tr, _ := core.Reach(core.Query{From: starts, Target: core.IsReturn, Avoid: isFinalCall})
			r.Check(!found, "C14-D4", key, pos,
				"after NewPendingFile succeeds every path to return passes (or defers) a finaliser that always calls CloseReplace or Cleanup",
				"a pending file can be left neither replaced nor cleaned up: a return is reachable without a finaliser", p.TraceString(tr))
		}
	}
	r.Floor("C14-D4", "pending-file-holders", holders, 1)
	r.Check(final[p.Fn("(*filtering.DNSFilter).finalizeUpdate")], "C14-D4", "finaliser:finalizeUpdate", "-",
		"finalizeUpdate calls CloseReplace or Cleanup on every path", "finalizeUpdate can return without CloseReplace or Cleanup")
	r.Check(final[p.Fn("aghrenameio.WithDeferredCleanup")], "C14-D4", "finaliser:WithDeferredCleanup", "-",
		"WithDeferredCleanup calls CloseReplace or Cleanup on every path", "WithDeferredCleanup can return without CloseReplace or Cleanup")
}

// onePendingFileOneParse: a pending file cannot be rewound or truncated, so
// whatever a parse wrote into it stays there: the list parser is run at most
// once per pending file — neither the Parse call that writes into a pending
// file nor, when it sits in a helper, the calls leading to it lie on a cycle of
// their function (a retry writes the second attempt after the remains of the
// first, and the replace step then installs the mixture).  Shared by C14-D5 and
// C15-D1.
func onePendingFileOneParse(c *Ctx, rule string) {
	p, r := c.P, c.R
	n := 0
	var bad []string
	// where a destination value comes from: a pending file made in this function, or a parameter of it
	classify := func(v ssa.Value) (pending bool, prm *ssa.Parameter) {
		for _, o := range core.Origins(v, core.ProvOpts{}) { // within this function only: the call chain is walked below
			switch {
			case o.Kind == "call" && o.Key == "aghrenameio.NewPendingFile":
				pending = true
			case o.Kind == "param":
				if pp, ok := o.Val.(*ssa.Parameter); ok {
					prm = pp
				}
			}
		}
		return pending, prm
	}
	var up func(in ssa.Instruction, fn *ssa.Function, dst ssa.Value, depth int) bool
	up = func(in ssa.Instruction, fn *ssa.Function, dst ssa.Value, depth int) (isPending bool) {
		pending, prm := classify(dst)
		if !pending && (prm == nil || depth > 3) {
			return false
		}
		if pending {
			if core.InCycle(in.Block()) {
				// a loop that also creates the pending file in each iteration is a loop over lists
				created := false
				for _, call := range core.CallsTo(fn, "aghrenameio.NewPendingFile") {
					if core.InCycle(call.Instr.Block()) {
						created = true
					}
				}
				if !created {
					bad = append(bad, "the parse into the pending file can run more than once: "+p.InstrPos(in)+" is inside a loop of "+core.FuncKey(fn))
				}
			}
			return true
		}
		// the destination is handed in: look at the call sites
		idx := -1
		for i, x := range fn.Params {
			if x == prm {
				idx = i
			}
		}
		any := false
		for _, cs := range p.StaticCallers(fn) {
			ci := p.CallInstr(cs)
			if ci == nil || idx < 0 || idx >= len(cs.Args) {
				continue
			}
			if up(ci, ci.Parent(), cs.Args[idx], depth+1) {
				any = true
				if core.InCycle(in.Block()) {
					bad = append(bad, "the parse into the pending file can run more than once: "+p.InstrPos(in)+" is inside a loop of "+core.FuncKey(fn))
				}
			}
		}
		return any
	}
	for _, fn := range p.ModFnsIn("filtering") {
		for _, call := range core.CallsTo(fn, "(*filtering/rulelist.Parser).Parse") {
			if up(call.Instr, fn, call.Arg(1), 0) {
				n++
			}
		}
	}
	sort.Strings(bad)
	r.Check(n > 0 && len(bad) == 0, rule, "one-pending-file-one-parse", "-",
		"a pending file receives the output of at most one parse",
		"a pending file can receive the output of more than one parse (a retry after an interrupted transfer): the file that replaces the list then holds the remains of the first attempt followed by the second", bad...)
}

// c14FreshEncoding: D6 — what the atomic writer publishes as the new
// configuration is the encoding of this save alone: the bytes handed to the
// writer come from a buffer made in this call, not from one that outlives it (a
// buffer kept between saves still holds the document of a save that failed, and
// the next save publishes both, one after the other).
func c14FreshEncoding(c *Ctx) {
	p, r := c.P, c.R
	fn := p.Fn("(*home.configuration).write")
	if fn == nil {
		r.Undecided("C14-D6", "configuration.write", "-", "anchor not found")
		return
	}
	n := 0
	var bad []string
	for _, call := range core.CallsToDeep(fn, "github.com/google/renameio/v2/maybe.WriteFile") {
		n++
		for _, o := range core.Origins(call.Arg(1), core.ProvOpts{Prog: p, Transparent: map[string]bool{"(*bytes.Buffer).Bytes": true, "(*bytes.Buffer).String": true}}) {
			switch o.Kind {
			case "alloc", "const":
			case "call":
				// what was written into the local buffer (the encoder's input) is not the buffer's identity
			case "field", "global", "freevar", "param":
				if strings.Contains(o.String(), "bytes.Buffer") || o.Kind == "global" {
					bad = append(bad, "the written bytes come from "+o.String()+", which outlives the save")
				}
			}
		}
		// the buffer itself: the receiver of Bytes()
		if bc, _, ok := core.CallResult(core.ResolveCellLoad(call.Arg(1))); ok && core.CalleeKey(bc.Common()) == "(*bytes.Buffer).Bytes" {
			recv := core.ResolveCellLoad(bc.Common().Args[0])
			if _, isAlloc := recv.(*ssa.Alloc); !isAlloc {
				bad = append(bad, "the buffer whose contents are written is not made in this call ("+recv.String()+")")
			}
		}
	}
	sort.Strings(bad)
	r.Check(n > 0 && len(bad) == 0, "C14-D6", "configuration-encoded-afresh-for-every-save", p.FnPos(fn),
		"the bytes that replace the configuration file are encoded into a buffer made by this very save",
		"the bytes that replace the configuration file come from a buffer that outlives the save: after a failed save the next one publishes the failed attempt's document followed by its own (a file that is neither version and does not load)", bad...)
}
