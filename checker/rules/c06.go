package rules

import (
	"fmt"
	"go/token"
	"go/types"
	"sort"
	"strings"

	"aghverif/core"

	"golang.org/x/tools/go/ssa"
)

func init() {
	register(&Rule{
		ID:  "C06",
		Run: runC06,
		Explanation: "Custom DNS rewrites. Decided: (D1) termination: the CNAME-chase loop has a visited-set variant — the set is created before the loop, the next host is tested with Has and, on the not-seen edge, added with Add as the very same value that becomes the loop's host and the argument of the next table lookup; every cycle of the loop passes that Add; a seen host leaves the loop; the table is not written inside and the whole evaluation runs under the configuration read lock; the helper loops are counted range loops; " +
			"(D2) address provenance: addresses are appended to the result only from the IP field of entries returned by the table lookup for the final host, and only for entries whose type equals the query type; every other writer of the address list is enumerated; (D3) response assembly: the original question is saved before the name is replaced, and restored (request and response) with the CNAME record prepended; the CNAME helper restores the name (by defer, or explicitly on every path to its return); " +
			"(D4) 'matched but no value' yields the Rewritten reason, which ends host checking before any other checker; entries enter the table only after normalisation and their fields are never edited in place. " +
			"(D5) precedence: the comparator the matched entries are sorted with, evaluated over the finite domain {is-CNAME} x {is-wildcard} x {sign of the pattern-length difference} of both arguments, puts CNAME before address entries, exact before wildcard within one kind and the longer wildcard first, antisymmetrically; the sorted list is cut at the first wildcard keeping at least one entry, and nothing else is returned. " +
			"Not decided: wildcard matching itself (suffix test), agreement with the documentation examples.",
		RuleText:    "Loop structure from SSA dominators/back edges, value identity for the variant, provenance slices, who-may-write enumeration, must-pass ordering.",
		Assumptions: []string{"container.MapSet Has/Add semantics (golibs)", "the set of table entries is finite"},
		Trusted:     commonTrusted,
	})
}

// loopHeaders returns blocks that are targets of a back edge.
func loopHeaders(fn *ssa.Function) []*ssa.BasicBlock {
	var out []*ssa.BasicBlock
	for _, b := range fn.Blocks {
		for _, pr := range b.Preds {
			if b.Dominates(pr) {
				out = append(out, b)
				break
			}
		}
	}
	return out
}

func runC06(c *Ctx) {
	p, r := c.P, c.R
	pr := p.Fn("(*filtering.DNSFilter).processRewrites")
	if pr == nil {
		r.Undecided("C06-D1", "processRewrites", "-", "anchor not found")
		return
	}
	var has, add *ssa.Call
	for _, call := range core.Calls(pr) {
		if strings.HasPrefix(call.Key, "(*github.com/AdguardTeam/golibs/container.MapSet") {
			switch {
			case strings.HasSuffix(call.Key, ".Has"):
				has, _ = call.Instr.(*ssa.Call)
			case strings.HasSuffix(call.Key, ".Add"):
				add, _ = call.Instr.(*ssa.Call)
			}
		}
	}
	hdrs := loopHeaders(pr)
	if has == nil || add == nil || len(hdrs) == 0 {
		r.Fail("C06-D1", "visited-set", p.FnPos(pr), "the CNAME-chase loop has no visited set (Has/Add on a set): a CNAME cycle in the table would never terminate")
	} else {
		set := has.Common().Args[0]
		v := has.Common().Args[1]
		r.Check(add.Common().Args[0] == set && add.Common().Args[1] == v, "C06-D1", "variant:same-value-tested-and-added", p.InstrPos(add),
			"the host tested with Has is the host added to the visited set", "the value added to the visited set is not the value tested against it: a cycle whose hosts never equal the added values is not detected")
		// the set is created outside the loop
		setOutside := true
		if si, ok := set.(ssa.Instruction); ok {
			for _, h := range hdrs {
				if h.Dominates(si.Block()) {
					setOutside = false
				}
			}
		}
		r.Check(setOutside, "C06-D1", "variant:set-outlives-loop", p.FnPos(pr), "the visited set is created before the loop", "the visited set is re-created inside the loop")
		// seen -> leaves the loop
		var seenStart []core.Point
		for _, u := range core.Users(has) {
			if ifi, ok := u.(*ssa.If); ok {
				seenStart = append(seenStart, core.Point{Block: ifi.Block().Succs[0], Idx: 0})
			}
		}
		leaves := len(seenStart) > 0
		for _, h := range hdrs {
			f, _, _ := core.Reach(core.Query{From: seenStart, Target: func(in ssa.Instruction) bool { return in.Block() == h }})
			if f {
				leaves = false
			}
		}
		r.Check(leaves, "C06-D1", "variant:seen-host-leaves-loop", p.InstrPos(has), "a host that was already visited ends the evaluation", "a host that was already visited does not end the loop")
		// every cycle passes Add
		var chase *ssa.BasicBlock
		for _, h := range hdrs {
			if h.Dominates(add.Block()) {
				chase = h
			}
		}
		if chase == nil {
			r.Fail("C06-D1", "variant:add-inside-loop", p.InstrPos(add), "the Add of the visited set is not inside the chase loop")
		} else {
			var succStarts []core.Point
			for _, s := range chase.Succs {
				succStarts = append(succStarts, core.Point{Block: s, Idx: 0})
			}
			cyc, tr, _ := core.Reach(core.Query{From: succStarts, Target: func(in ssa.Instruction) bool { return in.Block() == chase },
				Avoid: func(in ssa.Instruction) bool { return in == ssa.Instruction(add) }})
			r.Check(!cyc, "C06-D1", "variant:every-iteration-adds", p.FnPos(pr), "every iteration of the chase loop adds a new host to the visited set",
				"the chase loop can iterate without adding to the visited set (no ranking argument: it may not terminate)", p.TraceString(tr))
			// the loop's host is v on the back edge; the next lookup is for v
			okHost := false
			var hostPhi, rwPhi *ssa.Phi
			for _, in := range chase.Instrs {
				phi, ok := in.(*ssa.Phi)
				if !ok {
					continue
				}
				for i, e := range phi.Edges {
					if chase.Dominates(chase.Preds[i]) {
						if e == v {
							okHost = true
							hostPhi = phi
						}
						if core.IsCallResult(e, 0, "filtering.findRewrites") {
							rwPhi = phi
						}
					}
				}
			}
			r.Check(okHost, "C06-D1", "variant:added-host-is-next-host", p.FnPos(pr), "the host carried into the next iteration is the one just added", "the host carried into the next iteration is not the one added to the visited set")
			okLookup := false
			for _, call := range core.CallsTo(pr, "filtering.findRewrites") {
				if chase.Dominates(call.Instr.Block()) && call.Arg(1) == v {
					if fr, _, ok := core.LoadedField(call.Arg(0)); ok && fr.Type == "filtering.Config" && fr.Field == "Rewrites" {
						okLookup = true
					}
				}
			}
			r.Check(okLookup, "C06-D1", "variant:next-lookup-for-added-host", p.FnPos(pr), "the next table lookup is for the host just added, in the same table", "the next table lookup is not for the host just added to the visited set")
			// D2b: setRewriteResult gets the loop's (host, rewrites) pair
			for _, call := range core.CallsTo(pr, "filtering.setRewriteResult") {
				r.Check(hostPhi != nil && rwPhi != nil && call.Arg(1) == ssa.Value(hostPhi) && call.Arg(2) == ssa.Value(rwPhi), "C06-D2", "addresses-for-final-host", p.InstrPos(call.Instr),
					"addresses are selected from the entries found for the finally resolved host", "addresses are selected from entries that were not found for the finally resolved host")
			}
		}
	}
	// table not written; under confMu
	wr := false
	for _, b := range pr.Blocks {
		for _, in := range b.Instrs {
			if st, ok := in.(*ssa.Store); ok {
				if fr, ok := core.FieldOfAddr(st.Addr); ok && fr.Type == "filtering.Config" && fr.Field == "Rewrites" {
					wr = true
				}
			}
		}
	}
	isLock := func(in ssa.Instruction) bool {
		call, ok := in.(*ssa.Call)
		if !ok || (core.CalleeKey(call.Common()) != "(*sync.RWMutex).RLock" && core.CalleeKey(call.Common()) != "(*sync.RWMutex).Lock") {
			return false
		}
		fr, _, ok := core.LoadedField(call.Common().Args[0])
		return ok && fr.Field == "confMu"
	}
	unlocked, _, _ := core.Reach(core.Query{From: []core.Point{core.Entry(pr)}, Target: core.IsCallTo(false, "filtering.findRewrites"), Avoid: isLock})
	explicitUnlock := false
	for _, call := range core.Calls(pr) {
		if _, isDefer := call.Instr.(*ssa.Defer); !isDefer && (call.Key == "(*sync.RWMutex).RUnlock" || call.Key == "(*sync.RWMutex).Unlock") {
			explicitUnlock = true
		}
	}
	r.Check(!wr && !unlocked && !explicitUnlock, "C06-D1", "table-fixed-during-evaluation", p.FnPos(pr),
		"the table is read under the configuration lock for the whole evaluation and never written by it", "the rewrite table can change during an evaluation (lock released, not taken, or table written): the visited-set argument no longer bounds the loop")
	// helper loops are counted
	for _, fk := range []string{"filtering.findRewrites", "filtering.setRewriteResult"} {
		fn := p.Fn(fk)
		if fn == nil {
			r.Undecided("C06-D1", fk, "-", "anchor not found")
			continue
		}
		for _, h := range loopHeaders(fn) {
			if fn == pr && p.FnExact(fk) == nil && add != nil && h.Dominates(add.Block()) {
				continue // the helper was folded into the evaluation: this is the chase loop, argued above
			}
			r.Check(strings.HasPrefix(h.Comment, "rangeindex") || strings.HasPrefix(h.Comment, "rangeiter"), "C06-D1", fmt.Sprintf("counted-loop:%s:b%d", fk, h.Index), p.FnPos(fn),
				"range loop over a slice (counted)", "a loop in "+fk+" is not a range loop; no termination argument is recognised")
		}
	}

	c06Addresses(c)
	c06Assembly(c)
	c06Table(c)
	c06Precedence(c)
}

func c06Addresses(c *Ctx) {
	p, r := c.P, c.R
	writers := map[string][]*ssa.Store{}
	for _, fn := range p.ModFns {
		if fn.Blocks == nil || core.IsNextPkg(fn) {
			continue
		}
		for _, b := range fn.Blocks {
			for _, in := range b.Instrs {
				st, ok := in.(*ssa.Store)
				if !ok {
					continue
				}
				if fr, ok := core.FieldOfAddr(st.Addr); ok && fr.Type == "filtering.Result" && fr.Field == "IPList" {
					writers[core.FuncKey(fn)] = append(writers[core.FuncKey(fn)], st)
				}
			}
		}
	}
	var names []string
	for k := range writers {
		names = append(names, k)
	}
	sort.Strings(names)
	r.Info["IPList_writers"] = names
	// the entries found for the finally resolved host: the chase loop's own list in processRewrites
	var rwPhi *ssa.Phi
	if pr := p.Fn("(*filtering.DNSFilter).processRewrites"); pr != nil {
		for _, h := range loopHeaders(pr) {
			for _, in := range h.Instrs {
				phi, ok := in.(*ssa.Phi)
				if !ok {
					continue
				}
				for i, e := range phi.Edges {
					if i < len(h.Preds) && h.Dominates(h.Preds[i]) && core.IsCallResult(e, 0, "filtering.findRewrites") {
						rwPhi = phi
					}
				}
			}
		}
	}
	nSel := 0
	for _, fk := range names {
		fn := p.Fn(fk)
		switch {
		case core.PkgOf(fn) == "filtering":
			// the function that selects the addresses (setRewriteResult, or whoever took that over)
			for i, st := range writers[fk] {
				os := core.Origins(st.Val, core.ProvOpts{Prog: p})
				okO := false
				var bad []string
				for _, o := range os {
					switch {
					case o.Kind == "field" && o.Key == "filtering.LegacyRewrite.IP":
						okO = true
					case o.Kind == "field" && o.Key == "filtering.Result.IPList":
					case o.Kind == "alloc", o.Kind == "const":
					case o.Kind == "param" && strings.Contains(o.Key, "setRewriteResult#2"):
					default:
						bad = append(bad, o.String())
					}
				}
				r.Check(okO && len(bad) == 0, "C06-D2", fmt.Sprintf("address-origin:%s#%d", fk, i+1), p.InstrPos(st),
					"appended addresses are the IP fields of the entries handed in", fmt.Sprintf("an address is appended to the result that is not the IP of a table entry for this host: %v", bad))
			}
			// every place where an entry's IP is put into a list: under <same entry>.Type == <the query type>, and
			// the entry is an element of the list found for the final host
			nApp := 0
			for _, b := range fn.Blocks {
				for _, in := range b.Instrs {
					el, ok := in.(*ssa.Store)
					if !ok {
						continue
					}
					fr, owner, isF := core.LoadedField(el.Val)
					if !isF || fr.Type != "filtering.LegacyRewrite" || fr.Field != "IP" {
						continue
					}
					if _, isIdx := el.Addr.(*ssa.IndexAddr); !isIdx {
						continue
					}
					nApp++
					nSel++
					isQType := func(v ssa.Value) bool {
						prm, isPrm := v.(*ssa.Parameter)
						if !isPrm {
							return false
						}
						bt, isB := prm.Type().Underlying().(*types.Basic)
						return isB && bt.Kind() == types.Uint16
					}
					g, n := core.CondEdges(fn, func(at core.Atom) (bool, bool) {
						if at.Op == token.EQL || at.Op == token.NEQ {
							f1, o1, ok1 := core.LoadedField(at.Base)
							if ok1 && f1.Type == "filtering.LegacyRewrite" && f1.Field == "Type" && core.SameValue(o1, owner) && isQType(at.Other) {
								return true, at.Op == token.EQL
							}
							f2, o2, ok2 := core.LoadedField(at.Other)
							if ok2 && f2.Type == "filtering.LegacyRewrite" && f2.Field == "Type" && core.SameValue(o2, owner) && isQType(at.Base) {
								return true, at.Op == token.EQL
							}
						}
						return false, false
					})
					off, _ := core.UnguardedSinks(fn, func(x ssa.Instruction) bool { return x == ssa.Instruction(el) }, g)
					r.Check(n > 0 && len(off) == 0, "C06-D2", fmt.Sprintf("address-family:%s#%d", fk, nApp), p.InstrPos(el),
						"an address is appended only when the entry's type equals the query type", "an address of the wrong family can be appended", traceOf(p, off)...)
					// the entry is an element of the final host's list
					okList := false
					if ld, isLd := owner.(*ssa.UnOp); isLd && ld.Op == token.MUL {
						if ia, isIA := ld.X.(*ssa.IndexAddr); isIA && rwPhi != nil {
							list := ia.X
							if prm, isPrm := list.(*ssa.Parameter); isPrm {
								args := core.ArgsOfParam(prm)
								okList = len(args) > 0
								for _, a := range args {
									if a != ssa.Value(rwPhi) {
										okList = false
									}
								}
							} else {
								okList = list == ssa.Value(rwPhi)
							}
						}
					}
					r.Check(okList, "C06-D2", fmt.Sprintf("addresses-from-final-list:%s#%d", fk, nApp), p.InstrPos(el),
						"addresses are taken from the entries found for the finally resolved host", "addresses are selected from entries that were not found for the finally resolved host")
				}
			}
		case core.PkgOf(fn) == "querylog":
			r.Ok("C06-D2", "address-writer:"+fk, p.FnPos(fn), "query-log file decoder: restores a recorded result, not part of resolution")
		case strings.HasPrefix(fk, "(*filtering/safesearch.") || strings.HasPrefix(fk, "filtering/safesearch."):
			r.Ok("C06-D2", "address-writer:"+fk, p.FnPos(fn), "safe-search result (separate checker, reason FilteredSafeSearch)")
		default:
			r.Fail("C06-D2", "address-writer:"+fk, p.FnPos(fn), "an unclassified function writes the result's address list: addresses that are not in the rewrite table could be answered")
		}
	}
	r.Floor("C06-D2", "address-selection-sites", nSel, 1)
	r.Floor("C06-D2", "address-list-writers", len(names), 2)
}

func c06Assembly(c *Ctx) {
	p, r := c.P, c.R
	fq := p.Fn(kFilterReq)
	if fq == nil {
		r.Undecided("C06-D3", "filterDNSRequest", "-", "anchor not found")
		return
	}
	isStore := func(typ, field string) func(ssa.Instruction) bool {
		return func(in ssa.Instruction) bool {
			st, ok := in.(*ssa.Store)
			if !ok {
				return false
			}
			fr, ok := core.FieldOfAddr(st.Addr)
			return ok && fr.Type == typ && fr.Field == field
		}
	}
	nameStore := func(in ssa.Instruction) bool {
		if !isStore("github.com/miekg/dns.Question", "Name")(in) {
			return false
		}
		return true
	}
	found, tr, _ := core.Reach(core.Query{From: []core.Point{core.Entry(fq)}, Target: nameStore, Avoid: isStore("dnsforward.dnsContext", "origQuestion")})
	n := 0
	for _, b := range fq.Blocks {
		for _, in := range b.Instrs {
			if nameStore(in) {
				n++
			}
		}
	}
	r.Check(n > 0 && !found, "C06-D3", "original-question-saved-before-rename", p.FnPos(fq),
		"the original question is saved before the question name is replaced by the CNAME target", "the question name can be replaced without the original question having been saved", p.TraceString(tr))
	// only on the CNAME-only edge
	g, ng := core.CondEdges(fq, func(at core.Atom) (bool, bool) {
		if at.Op == token.ILLEGAL && core.IsCallResult(at.Base, -1, "dnsforward.isRewrittenCNAME") {
			return true, true
		}
		return false, false
	})
	off, _ := core.UnguardedSinksLocal(fq, nameStore, g) // the temporary rename in getCNAMEWithIPs is a different effect, decided below
	r.Check(ng > 0 && len(off) == 0, "C06-D3", "rename-only-for-cname-without-address", p.FnPos(fq), "the question is renamed only for a CNAME rewrite without addresses", "the question can be renamed outside the CNAME-only case", traceOf(p, off)...)

	pa := p.Fn("(*dnsforward.Server).processFilteringAfterResponse")
	if pa == nil {
		r.Undecided("C06-D3", "processFilteringAfterResponse", "-", "anchor not found")
	} else {
		// on the edge origQuestion.Name != "": both questions restored and CNAME prepended before return
		gN, nN := core.CondEdges(pa, func(at core.Atom) (bool, bool) {
			if at.Op == token.EQL || at.Op == token.NEQ {
				if s, ok := core.ConstString(at.Other); ok && s == "" {
					if fr, _, ok := core.LoadedField(at.Base); ok && fr.Type == "github.com/miekg/dns.Question" && fr.Field == "Name" {
						return true, at.Op == token.NEQ
					}
				}
			}
			return false, false
		})
		var starts []core.Point
		for e := range gN {
			starts = append(starts, core.AfterEdge(e))
		}
		questionRestore := func(base string) func(ssa.Instruction) bool {
			return func(in ssa.Instruction) bool {
				st, ok := in.(*ssa.Store)
				if !ok {
					return false
				}
				ia, ok := st.Addr.(*ssa.IndexAddr)
				if !ok {
					return false
				}
				fr, via, ok := core.LoadedField(ia.X)
				if !ok || fr.Type != "github.com/miekg/dns.Msg" || fr.Field != "Question" {
					return false
				}
				f2, _, ok := core.LoadedField(via)
				if !ok || f2.Field != base {
					return false
				}
				f3, _, ok := core.LoadedField(core.ResolveCellLoad(st.Val))
				return ok && f3.Field == "origQuestion"
			}
		}
		for _, which := range []string{"Req", "Res"} {
			found := true
			if len(starts) > 0 {
				found, _, _ = core.Reach(core.Query{From: starts, Target: core.IsReturn, Avoid: questionRestore(which)})
			}
			r.Check(nN > 0 && !found, "C06-D3", "question-restored:"+which, p.FnPos(pa), "the original question is restored in the "+which+" message", "the original question is not restored in the "+which+" message on every path")
		}
		foundC := true
		if len(starts) > 0 {
			foundC, _, _ = core.Reach(core.Query{From: starts, Target: core.IsReturn, Avoid: core.IsCallTo(false, "(*dnsforward.Server).genAnswerCNAME")})
		}
		r.Check(!foundC, "C06-D3", "cname-record-prepended", p.FnPos(pa), "the CNAME record is generated for the restored answer", "the CNAME record is not added to the restored answer on every path")
	}
	gc := p.Fn("(*dnsforward.Server).getCNAMEWithIPs")
	if gc == nil {
		r.Undecided("C06-D3", "getCNAMEWithIPs", "-", "anchor not found")
	} else {
		// every Name store in the function is followed by a deferred restore
		okDefer := false
		for _, an := range gc.AnonFuncs {
			for _, b := range an.Blocks {
				for _, in := range b.Instrs {
					if isStore("github.com/miekg/dns.Question", "Name")(in) {
						okDefer = true
					}
				}
			}
		}
		hasDefer := false
		for _, call := range core.Calls(gc) {
			if _, isD := call.Instr.(*ssa.Defer); isD {
				hasDefer = true
			}
		}
		okRestore := okDefer && hasDefer
		if !okRestore {
			// or explicitly: no way from the renaming store to a return goes around a store that puts the saved name back
			isSaved := func(v ssa.Value) bool {
				fr, _, ok := core.LoadedField(core.ResolveLocalLoad(v))
				return ok && fr.Type == "github.com/miekg/dns.Question" && fr.Field == "Name"
			}
			nameSt := isStore("github.com/miekg/dns.Question", "Name")
			var renames []core.Point
			nRestore := 0
			for _, b := range gc.Blocks {
				for i, in := range b.Instrs {
					if !nameSt(in) {
						continue
					}
					if isSaved(in.(*ssa.Store).Val) {
						nRestore++
					} else {
						renames = append(renames, core.Point{Block: b, Idx: i + 1})
					}
				}
			}
			if len(renames) > 0 && nRestore > 0 {
				found, _, _ := core.Reach(core.Query{From: renames, Target: core.IsReturn, Avoid: func(in ssa.Instruction) bool {
					return nameSt(in) && isSaved(in.(*ssa.Store).Val)
				}})
				okRestore = !found
			}
		}
		r.Check(okRestore, "C06-D3", "cname-helper-restores-name", p.FnPos(gc), "the CNAME helper restores the question name (by defer, or on every path to its return)", "the CNAME helper no longer restores the question name")
	}
}

func c06Table(c *Ctx) {
	p, r := c.P, c.R
	pr := p.Fn("(*filtering.DNSFilter).processRewrites")
	// matched => Reason Rewritten is stored before the loop; exception returns are whole-struct resets
	okReason := false
	for _, b := range pr.Blocks {
		for _, in := range b.Instrs {
			if st, ok := in.(*ssa.Store); ok {
				if fr, ok := core.FieldOfAddr(st.Addr); ok && fr.Type == "filtering.Result" && fr.Field == "Reason" {
					if cst, isC := st.Val.(*ssa.Const); isC && isConstNamed(p, cst, "filtering", "Rewritten") {
						// on the matched edge
						g, n := core.CondEdges(pr, func(at core.Atom) (bool, bool) {
							if at.Op == token.ILLEGAL && core.IsCallResult(at.Base, 1, "filtering.findRewrites") {
								return true, true
							}
							return false, false
						})
						off, _ := core.UnguardedSinks(pr, func(x ssa.Instruction) bool { return x == in }, g)
						okReason = n > 0 && len(off) == 0
					}
				}
			}
		}
	}
	r.Check(okReason, "C06-D4", "matched-yields-rewritten", p.FnPos(pr), "a table match sets the Rewritten reason (an empty answer set stays a successful local answer)", "a table match no longer sets the Rewritten reason: a name matched without a value for the type would be sent upstream")
	ch := p.Fn("(*filtering.DNSFilter).CheckHost")
	if ch != nil {
		g, n := core.CondEdges(ch, func(at core.Atom) (bool, bool) {
			if at.Op == token.EQL || at.Op == token.NEQ {
				if cst, ok := at.Other.(*ssa.Const); ok && isConstNamed(p, cst, "filtering", "Rewritten") && core.NamedKey(at.Base.Type()) == "filtering.Reason" {
					return true, at.Op == token.EQL
				}
			}
			return false, false
		})
		var starts []core.Point
		for e := range g {
			starts = append(starts, core.AfterEdge(e))
		}
		isCheckCall := func(in ssa.Instruction) bool {
			call, ok := in.(*ssa.Call)
			if !ok || core.Callee(call.Common()) != nil || call.Common().IsInvoke() {
				return false
			}
			fr, _, ok := core.LoadedField(call.Common().Value)
			return ok && fr.Type == "filtering.hostChecker"
		}
		found := true
		if len(starts) > 0 {
			found, _, _ = core.Reach(core.Query{From: starts, Target: isCheckCall})
		}
		r.Check(n > 0 && !found, "C06-D4", "rewritten-ends-host-checking", p.FnPos(ch), "a Rewritten result is returned before any other checker runs", "other checkers can run after a Rewritten result")
	}
	// field writers of LegacyRewrite on shared entries
	nW := 0
	for _, fn := range p.ModFnsIn("filtering") {
		for _, b := range fn.Blocks {
			for _, in := range b.Instrs {
				st, ok := in.(*ssa.Store)
				if !ok {
					continue
				}
				fr, ok := core.FieldOfAddr(st.Addr)
				if !ok || fr.Type != "filtering.LegacyRewrite" {
					continue
				}
				if fa, ok := st.Addr.(*ssa.FieldAddr); ok {
					if _, fresh := fa.X.(*ssa.Alloc); fresh {
						continue
					}
				}
				nW++
				r.Check(core.FuncKey(fn) == "(*filtering.LegacyRewrite).normalize", "C06-D4", fmt.Sprintf("entry-field-writer:%s.%s#%d", core.FuncKey(fn), fr.Field, nW), p.InstrPos(in),
					"entry fields are written only by normalize (domain, type and address stay consistent with the answer)",
					"a table entry's "+fr.Field+" is edited in place outside normalize: the derived type/address no longer match the answer the API shows, so DNS answers an address that is not in the table")
			}
		}
	}
	r.Floor("C06-D4", "entry-field-writes", nW, 5)
	// table writers: new elements are normalised first
	nT := 0
	for _, fn := range p.ModFnsIn("filtering") {
		outer := fn
		for outer.Parent() != nil {
			outer = outer.Parent()
		}
		for _, b := range fn.Blocks {
			for _, in := range b.Instrs {
				st, ok := in.(*ssa.Store)
				if !ok {
					continue
				}
				fr, ok := core.FieldOfAddr(st.Addr)
				if !ok || fr.Type != "filtering.Config" || fr.Field != "Rewrites" {
					continue
				}
				// only the live configuration (d.conf), not copies handed out
				if fa, isFA := st.Addr.(*ssa.FieldAddr); isFA {
					if f2, _, isF := core.LoadedField(fa.X); !isF || f2.Type != "filtering.DNSFilter" || f2.Field != "conf" {
						continue
					}
				}
				nT++
				ok2 := false
				why := ""
				switch core.FuncKey(outer) {
				case "(*filtering.DNSFilter).handleRewriteAdd", "(*filtering.DNSFilter).handleRewriteUpdate":
					// a normalize() == nil edge precedes (in the outer function)
					g, n := core.CondEdges(outer, func(at core.Atom) (bool, bool) {
						if (at.Op == token.EQL || at.Op == token.NEQ) && core.IsNilConst(at.Other) && core.IsCallResult(at.Base, -1, "(*filtering.LegacyRewrite).normalize") {
							return true, at.Op == token.EQL
						}
						return false, false
					})
					if fn == outer {
						off, _ := core.UnguardedSinks(outer, func(x ssa.Instruction) bool { return x == in }, g)
						ok2 = n > 0 && len(off) == 0
					} else {
						// the closure is invoked after the normalize check
						off, ns := core.UnguardedSinks(outer, func(x ssa.Instruction) bool {
							call, isCall := x.(*ssa.Call)
							if !isCall {
								return false
							}
							mc, isMC := call.Common().Value.(*ssa.MakeClosure)
							return isMC && mc.Fn == fn
						}, g)
						ok2 = n > 0 && ns > 0 && len(off) == 0
					}
					why = "the new entry is normalised (type and address derived from the answer) before it enters the table"
				case "(*filtering.DNSFilter).handleRewriteDelete":
					ok2 = true
					why = "deletion keeps existing (already normalised) entries"
				default:
					why = "unclassified table writer"
				}
				r.Check(ok2, "C06-D4", fmt.Sprintf("table-writer:%s#%d", core.FuncKey(fn), nT), p.InstrPos(in), why,
					"the rewrite table is written by "+core.FuncKey(fn)+" without the new entry having passed normalize")
			}
		}
	}
	r.Floor("C06-D4", "table-writes", nT, 2)
	// initial table is normalised
	pp := p.Fn("(*filtering.DNSFilter).prepareRewrites")
	if pp != nil {
		r.Check(len(core.CallsToDeep(pp, "(*filtering.LegacyRewrite).normalize")) > 0, "C06-D4", "configured-entries-normalised", p.FnPos(pp), "configured entries are normalised at start", "configured entries are no longer normalised at start")
	}
}

// c06Precedence: D5.
func c06Precedence(c *Ctx) {
	p, r := c.P, c.R
	fr := p.Fn("filtering.findRewrites")
	if fr == nil {
		r.Undecided("C06-D5", "findRewrites", "-", "anchor not found")
		return
	}
	var sortCall *ssa.Call
	for _, call := range core.Calls(fr) {
		if strings.HasPrefix(call.Key, "slices.SortFunc") || strings.HasPrefix(call.Key, "slices.SortStableFunc") {
			if sortCall != nil {
				r.Undecided("C06-D5", "one-sort", p.InstrPos(call.Instr), "more than one sort of the matched entries")
				return
			}
			sortCall, _ = call.Instr.(*ssa.Call)
		}
	}
	if sortCall == nil {
		r.Fail("C06-D5", "matched-entries-sorted", p.FnPos(fr), "the matched entries are no longer sorted by precedence before the cut")
		return
	}
	sorted := sortCall.Call.Args[0]
	cmpFn, _ := core.FnValue(sortCall.Call.Args[1])
	if cmpFn != nil && strings.HasSuffix(cmpFn.Name(), "$thunk") {
		for _, call := range core.Calls(cmpFn) {
			if sc := core.Callee(call.Common); sc != nil {
				cmpFn = sc
				break
			}
		}
	}
	if cmpFn == nil || len(cmpFn.Blocks) == 0 {
		r.Undecided("C06-D5", "comparator", p.InstrPos(sortCall), "the comparator passed to the sort could not be resolved")
		return
	}
	model := core.AbsModel{
		Project: func(op string, arg core.AbsVal) (string, bool) {
			switch {
			case op == ".Type" && arg.Kind == core.AbsParam:
				return "Type", true
			case op == ".Domain" && arg.Kind == core.AbsParam:
				return "Domain", true
			case op == "len" && arg.Kind == core.AbsProj && arg.Sym == "Domain":
				return "len(Domain)", true
			}
			return "", false
		},
		Predicate: func(op string, arg core.AbsVal) (string, bool) {
			switch {
			case op == "==const:5" && arg.Kind == core.AbsProj && arg.Sym == "Type": // dns.TypeCNAME
				return "isCNAME", true
			case op == "filtering.isWildcard" && arg.Kind == core.AbsProj && arg.Sym == "Domain":
				return "isWildcard", true
			}
			return "", false
		},
	}
	var bad []string
	res := map[[5]int]int{}
	b2i := func(b bool) int {
		if b {
			return 1
		}
		return 0
	}
	bools := []bool{false, true}
	for _, cx := range bools {
		for _, cy := range bools {
			for _, wx := range bools {
				for _, wy := range bools {
					for _, ln := range []int{-1, 0, 1} {
						f := core.AbsFacts{
							Rel:  map[string]int{"len(Domain)": ln},
							Pred: map[string][2]bool{"isCNAME": {cx, cy}, "isWildcard": {wx, wy}},
						}
						v, ok, why := core.AbsEval(cmpFn, model, f)
						r.Eval(1)
						if !ok || v.Kind != core.AbsInt {
							r.Undecided("C06-D5", "comparator", p.FnPos(cmpFn), fmt.Sprintf("%s could not be evaluated (cname %v/%v wildcard %v/%v len %+d): %s", core.FuncKey(cmpFn), cx, cy, wx, wy, ln, why))
							return
						}
						s := v.Sign
						res[[5]int{b2i(cx), b2i(cy), b2i(wx), b2i(wy), ln}] = s
						desc := fmt.Sprintf("x{cname:%v wildcard:%v} y{cname:%v wildcard:%v} len(x)-len(y) sign %+d -> result sign %+d", cx, wx, cy, wy, ln, s)
						switch {
						case cx != cy:
							if (cx && s >= 0) || (cy && s <= 0) {
								bad = append(bad, "CNAME entry not ordered before the address entry: "+desc)
							}
						case wx != wy:
							if (wy && s >= 0) || (wx && s <= 0) {
								bad = append(bad, "exact entry not ordered before the wildcard of the same kind: "+desc)
							}
						case wx && wy:
							if (ln > 0 && s >= 0) || (ln < 0 && s <= 0) {
								bad = append(bad, "longer (more specific) wildcard not ordered first: "+desc)
							}
						}
					}
				}
			}
		}
	}
	for k, v := range res {
		if res[[5]int{k[1], k[0], k[3], k[2], -k[4]}] != -v {
			bad = append(bad, fmt.Sprintf("not antisymmetric at %v", k))
		}
	}
	sort.Strings(bad)
	if len(bad) > 8 {
		bad = append(bad[:8], fmt.Sprintf("... and %d more cases", len(bad)-8))
	}
	r.Check(len(bad) == 0, "C06-D5", "comparator:cname-exact-specific", p.FnPos(cmpFn),
		fmt.Sprintf("%s puts CNAME before address entries, exact before wildcard and the longer wildcard first in all 48 abstract cases", core.FuncKey(cmpFn)),
		fmt.Sprintf("%s does not implement the documented precedence", core.FuncKey(cmpFn)), bad...)

	// the sorted list: the value handed to the sort, or (when the list lives in a local cell because the function has
	// a defer or closure) any load of that cell reached by the same stores, or one of those stored values
	sortedVals := map[ssa.Value]bool{sorted: true}
	if ld, ok := sorted.(*ssa.UnOp); ok {
		if cell, ok := ld.X.(*ssa.Alloc); ok {
			vals, _, _ := core.ReachingStores(cell, ld)
			for _, v := range vals {
				sortedVals[v] = true
			}
		}
	}
	isSorted := func(v ssa.Value) bool {
		if sortedVals[v] || core.SameValue(v, sorted) {
			return true
		}
		if ld, ok := v.(*ssa.UnOp); ok {
			if cell, ok := ld.X.(*ssa.Alloc); ok {
				vals, zero, clob := core.ReachingStores(cell, ld)
				if zero || clob || len(vals) == 0 {
					return false
				}
				for _, sv := range vals {
					if !sortedVals[sv] {
						return false
					}
				}
				return true
			}
		}
		return false
	}
	// the cut
	var cuts []*ssa.Slice
	for _, b := range fr.Blocks {
		for _, in := range b.Instrs {
			if sl, ok := in.(*ssa.Slice); ok && isSorted(sl.X) {
				cuts = append(cuts, sl)
			}
		}
	}
	if len(cuts) != 1 {
		r.Fail("C06-D5", "cut-at-first-wildcard", p.FnPos(fr), fmt.Sprintf("expected exactly one cut of the sorted list, found %d", len(cuts)))
		return
	}
	cut := cuts[0]
	okCut, whyCut := true, ""
	fail := func(w string) {
		if okCut {
			okCut, whyCut = false, w
		}
	}
	if cut.Low != nil {
		fail("the cut drops leading (highest-precedence) entries")
	}
	var idx ssa.Value
	if mc, ok := cut.High.(*ssa.Call); ok {
		if bi, ok := mc.Call.Value.(*ssa.Builtin); ok && bi.Name() == "max" && len(mc.Call.Args) == 2 {
			for i, a := range mc.Call.Args {
				if n, ok := core.ConstInt(a); ok && n == 1 {
					idx = mc.Call.Args[1-i]
				}
			}
		}
	}
	if idx == nil {
		fail("the cut length is not max(1, index of the first wildcard): it must keep at least one entry and everything before the first wildcard")
	}
	// the cut happens on the true edge of isWildcard(sorted[idx].Domain)
	blk := cut.Block()
	guarded := false
	if len(blk.Preds) == 1 {
		if iff, ok := blk.Preds[0].Instrs[len(blk.Preds[0].Instrs)-1].(*ssa.If); ok && blk.Preds[0].Succs[0] == blk {
			if wc, ok := iff.Cond.(*ssa.Call); ok && core.CalleeKey(wc.Common()) == "filtering.isWildcard" {
				if fr2, base, ok := core.LoadedField(wc.Call.Args[0]); ok && fr2.Field == "Domain" {
					if ld, ok := base.(*ssa.UnOp); ok {
						if ia, ok := ld.X.(*ssa.IndexAddr); ok && isSorted(ia.X) && (idx == nil || core.SameValue(ia.Index, idx)) {
							guarded = true
						}
					}
				}
			}
			// the loop is left after the cut
			if guarded {
				if found, _, _ := core.Reach(core.Query{From: []core.Point{{Block: blk, Idx: 0}}, Target: func(in ssa.Instruction) bool { return in == ssa.Instruction(iff) }}); found {
					fail("the scan goes on after the cut")
				}
			}
		}
	}
	if !guarded && idx != nil {
		// the other idiom: the index of the first wildcard comes from a library search over the sorted list
		if ic, ok := idx.(*ssa.Call); ok {
			k := core.CalleeKey(ic.Common())
			if i := strings.IndexByte(k, '['); i > 0 {
				k = k[:i]
			}
			if k == "slices.IndexFunc" && len(ic.Call.Args) == 2 && isSorted(ic.Call.Args[0]) {
				if cl, _ := core.FnValue(ic.Call.Args[1]); cl != nil && len(cl.Params) == 1 {
					predOK := false
					for _, cb := range cl.Blocks {
						if ret, isRet := core.AsReturn(cb.Instrs[len(cb.Instrs)-1]); isRet && len(ret.Results) == 1 {
							if wc, isCall := core.Res(ret, 0).(*ssa.Call); isCall && core.CalleeKey(wc.Common()) == "filtering.isWildcard" {
								if fr2, base, ok := core.LoadedField(wc.Call.Args[0]); ok && fr2.Field == "Domain" && base == ssa.Value(cl.Params[0]) {
									predOK = true
								}
							}
						}
					}
					// the cut happens only when a wildcard was found
					foundEdge, nf := core.CondEdges(fr, func(at core.Atom) (bool, bool) {
						if at.Base != ssa.Value(ic) {
							return false, false
						}
						kc, isC := core.ConstInt(at.Other)
						if !isC {
							return false, false
						}
						switch {
						case at.Op == token.GEQ && kc == 0, at.Op == token.GTR && kc == -1, at.Op == token.NEQ && kc == -1:
							return true, true
						case at.Op == token.LSS && kc == 0, at.Op == token.LEQ && kc == -1, at.Op == token.EQL && kc == -1:
							return true, false
						}
						return false, false
					})
					off, _ := core.UnguardedSinks(fr, func(in ssa.Instruction) bool { return in == ssa.Instruction(cut) }, foundEdge)
					if predOK && nf > 0 && len(off) == 0 {
						guarded = true
					}
				}
			}
		}
	}
	if !guarded {
		fail("the cut is not taken exactly when the entry at the cut index is a wildcard")
	}
	// nothing else is returned after the sort
	for _, b := range fr.Blocks {
		ret, ok := core.AsReturn(b.Instrs[len(b.Instrs)-1])
		if !ok || !sortCall.Block().Dominates(b) {
			continue
		}
		var leaves func(v ssa.Value, depth int)
		leaves = func(v ssa.Value, depth int) {
			if ph, ok := v.(*ssa.Phi); ok && !isSorted(v) && depth < 8 && sortCall.Block().Dominates(ph.Block()) {
				for _, e := range ph.Edges {
					leaves(e, depth+1)
				}
				return
			}
			if ld, ok := v.(*ssa.UnOp); ok && !isSorted(v) && depth < 8 {
				if cell, ok := ld.X.(*ssa.Alloc); ok {
					if vals, _, clob := core.ReachingStores(cell, ld); !clob && len(vals) > 0 {
						for _, sv := range vals {
							leaves(sv, depth+1)
						}
						return
					}
				}
			}
			if !isSorted(v) && v != ssa.Value(cut) {
				fail("a list other than the sorted one or its cut is returned")
			}
		}
		leaves(core.Res(ret, 0), 0)
	}
	r.Check(okCut, "C06-D5", "cut-at-first-wildcard", p.InstrPos(cut), "the sorted entries are cut at the first wildcard, keeping at least one entry, and only that list is returned", "the cut of the sorted entries changed: "+whyCut)
}
