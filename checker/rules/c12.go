package rules

import (
	"fmt"
	"go/token"
	"go/types"
	"strings"

	"aghverif/core"

	"golang.org/x/tools/go/ssa"
)

func init() {
	register(&Rule{
		ID:  "C12",
		Run: runC12,
		Explanation: "Login throttling and session lifetime. Decided: (D1) check before evaluate: the only path from the login route to the password evaluation (newCookie -> findUser/bcrypt) passes the rate limiter's check with no time left (or no limiter configured); (D2) one unspoofable key: the value given to check and the address given to newCookie (used for inc/remove) are the same value whose only origin is netutil.SplitHost(r.RemoteAddr) — never a request header; " +
			"(D3) a failed evaluation always increments the counter, a successful one removes it before the session is created, and success never increments; the limiter's map is touched only under its lock; (D4) a session authenticates only when found and not expired; the expired path deletes it from the map and from the file; logout deletes the map entry first and then the file record; on start only unexpired sessions are loaded; the session map is touched only under Auth.lock. " +
			"the database record of a session is addressed by the decoded token of the text that addresses the table entry; (D5) failure records are removed only by the expiry cleanup (on the time-is-up edge) and by the successful-login reset. " +
			"(D3 is decided from the password evaluation onwards along the edges consistent with its outcome, so the counting may come before or after the branch that returns.) " +
			"(D4, cont.) each stored session is loaded into an object of its own (made in the per-record code), so that tokens do not share user and expiry after a restart. " +
			"Not decided: attempt counting (off-by-one, window of the first failure), durations and clock behaviour, bbolt durability.",
		RuleText:    "CFG edge guards, provenance slices, must-pass ordering and lock-dominance on SSA.",
		Assumptions: []string{"golang.org/x/crypto/bcrypt and bbolt behave as documented"},
		Trusted:     commonTrusted,
	})
}

func runC12(c *Ctx) {
	p, r := c.P, c.R
	hl := p.Fn("home.handleLogin")
	if hl == nil {
		r.Undecided("C12-D1", "handleLogin", "-", "anchor not found")
		return
	}
	const kNewCookie = "(*home.Auth).newCookie"
	const kCheck = "(*home.authRateLimiter).check"
	isLimiterNil := func(at core.Atom) (bool, bool) {
		if (at.Op == token.EQL || at.Op == token.NEQ) && core.IsNilConst(at.Other) {
			if core.TypeKey(at.Base.Type()) == "*home.authRateLimiter" {
				return true, at.Op == token.EQL
			}
		}
		return false, false
	}
	g, n := core.CondEdges(hl, func(at core.Atom) (bool, bool) {
		if m, w := isLimiterNil(at); m {
			return m, w
		}
		// left > 0  -> pass on false ;  left <= 0 -> pass on true
		if core.IsCallResult(at.Base, -1, kCheck) {
			if k, ok := core.ConstInt(at.Other); ok && k == 0 {
				switch at.Op {
				case token.GTR:
					return true, false
				case token.LEQ:
					return true, true
				}
			}
		}
		return false, false
	})
	off, ns := core.UnguardedSinks(hl, core.IsCallTo(false, kNewCookie), g)
	r.Eval(n + ns)
	r.Check(n >= 2 && ns > 0 && len(off) == 0, "C12-D1", "check-before-password-evaluation", p.FnPos(hl),
		"the password is evaluated only after the rate limiter reported no block for this address (or no limiter is configured)",
		"a login attempt can reach the password evaluation without passing the rate limiter's check", traceOf(p, off)...)
	// the only caller of newCookie is the login handler
	nc := p.Fn(kNewCookie)
	if nc == nil {
		r.Undecided("C12-D1", "newCookie", "-", "anchor not found")
		return
	}
	var callers []string
	for _, fn := range p.ModFns {
		if len(core.CallsTo(fn, kNewCookie)) > 0 {
			callers = append(callers, core.FuncKey(fn))
		}
	}
	r.Check(len(callers) == 1 && callers[0] == "home.handleLogin", "C12-D1", "single-path-to-password-evaluation", p.FnPos(nc),
		"newCookie is reached only from the login handler", fmt.Sprintf("newCookie (password evaluation + session creation) is reachable from %v, bypassing the throttled login handler", callers))
	// findUser (bcrypt) callers: newCookie and the basic-auth path of optionalAuthThird only
	var fuCallers []string
	for _, fn := range p.ModFns {
		if len(core.CallsTo(fn, "(*home.Auth).findUser")) > 0 {
			fuCallers = append(fuCallers, core.FuncKey(fn))
		}
	}
	r.Info["findUser_callers"] = fuCallers

	// D2: same key, from RemoteAddr
	// (the calls may sit in a helper of the handler: their arguments are then read at the helper's call site)
	checks := core.CallsToDeep(hl, kCheck)
	cookies := core.CallsToDeep(hl, kNewCookie)
	var keyVs, addrVs []ssa.Value
	okK, okA := false, false
	if len(checks) == 1 && len(cookies) == 1 {
		keyVs, okK = core.InRoot(checks[0].Arg(1), hl)
		addrVs, okA = core.InRoot(cookies[0].Arg(2), hl)
	}
	if !okK || !okA || len(keyVs) != 1 || len(addrVs) != 1 {
		r.Undecided("C12-D2", "handleLogin-calls", p.FnPos(hl), "expected exactly one check and one newCookie call, with arguments that are values of the handler")
	} else {
		keyV := keyVs[0]
		addrV := addrVs[0]
		same := core.ResolveCellLoad(keyV) == core.ResolveCellLoad(addrV)
		r.Check(same, "C12-D2", "same-key-for-check-and-count", p.InstrPos(cookies[0].Instr),
			"the address checked is the address the failure is counted against",
			"the rate limiter is checked with one key but failures are counted against another value: an attacker who controls the second never gets blocked")
		for name, v := range map[string]ssa.Value{"check-key": keyV, "count-key": addrV} {
			os := core.Origins(v, core.ProvOpts{Prog: p})
			okO := false
			var bad []string
			for _, o := range os {
				switch {
				case o.Kind == "call" && o.Key == "github.com/AdguardTeam/golibs/netutil.SplitHost":
					okO = true
				case o.Kind == "field" && o.Key == "net/http.Request.RemoteAddr":
					okO = true
				case o.Kind == "const" && (o.Key == `""` || o.Key == "nil"):
				default:
					bad = append(bad, o.String())
				}
			}
			r.Check(okO && len(bad) == 0, "C12-D2", "key-origin:"+name, p.FnPos(hl),
				"the throttling key derives only from the TCP peer address (r.RemoteAddr)",
				fmt.Sprintf("the throttling key can derive from something other than the TCP peer address: %v (request headers are client controlled)", bad))
		}
	}

	// D3: newCookie
	if len(nc.Params) >= 3 {
		addr := nc.Params[2]
		isInc := func(in ssa.Instruction) bool {
			call, ok := in.(*ssa.Call)
			return ok && core.CalleeKey(call.Common()) == "(*home.authRateLimiter).inc" && call.Common().Args[1] == ssa.Value(addr)
		}
		isRemove := func(in ssa.Instruction) bool {
			call, ok := in.(*ssa.Call)
			return ok && core.CalleeKey(call.Common()) == "(*home.authRateLimiter).remove" && call.Common().Args[1] == ssa.Value(addr)
		}
		okEdges := func(want bool) map[core.Edge]bool {
			e, _ := core.CondEdges(nc, func(at core.Atom) (bool, bool) {
				if at.Op == token.ILLEGAL && core.IsCallResult(at.Base, 1, "(*home.Auth).findUser") {
					return true, want
				}
				return false, false
			})
			return e
		}
		limNil, _ := core.CondEdges(nc, isLimiterNil)
		union := func(ms ...map[core.Edge]bool) map[core.Edge]bool {
			out := map[core.Edge]bool{}
			for _, m := range ms {
				for e := range m {
					out[e] = true
				}
			}
			return out
		}
		// the searches start right after the password evaluation and follow only the edges that are consistent with
		// its outcome (the counting may come before or after the branch that returns)
		var starts []core.Point
		for _, call := range core.CallsTo(nc, "(*home.Auth).findUser") {
			pt := core.PointOf(call.Instr)
			pt.Idx++
			starts = append(starts, pt)
		}
		failEdges, okEdgesT := okEdges(false), okEdges(true)
		if len(starts) != 1 || len(failEdges) == 0 || len(okEdgesT) == 0 {
			r.Undecided("C12-D3", "newCookie-findUser-branch", p.FnPos(nc), "branch on findUser's ok result not found")
		} else {
			// failed evaluation: only the ok == false edges
			f1, tr1, _ := core.Reach(core.Query{From: starts, Target: core.IsReturn, Avoid: isInc, AvoidEdges: union(limNil, okEdgesT)})
			r.Check(!f1, "C12-D3", "failure-increments", p.FnPos(nc), "every failed evaluation increments the counter for the address",
				"a failed login can return without incrementing the failure counter", p.TraceString(tr1))
			f2, tr2, _ := core.Reach(core.Query{From: starts, Target: core.IsCallTo(false, "(*home.Auth).addSession"), Avoid: isRemove, AvoidEdges: union(limNil, failEdges)})
			r.Check(!f2, "C12-D3", "success-clears-before-session", p.FnPos(nc), "a successful login clears the failure record before the session is created",
				"a successful login can create a session without clearing the failure record", p.TraceString(tr2))
			f3, tr3, _ := core.Reach(core.Query{From: starts, Target: isInc, AvoidEdges: failEdges})
			r.Check(!f3, "C12-D3", "success-never-increments", p.FnPos(nc), "a successful login never increments the failure counter",
				"a successful login increments the failure counter", p.TraceString(tr3))
			// session is created only on the success edge
			f4, tr4, _ := core.Reach(core.Query{From: starts, Target: core.IsCallTo(false, "(*home.Auth).addSession"), AvoidEdges: okEdgesT})
			r.Check(!f4, "C12-D3", "no-session-on-failure", p.FnPos(nc), "no session is created after a failed evaluation", "a session can be created although the password evaluation failed", p.TraceString(tr4))
		}
	} else {
		r.Undecided("C12-D3", "newCookie", p.FnPos(nc), "signature changed")
	}
	// limiter map only under its lock
	c12UnderLock(c, "home.authRateLimiter", "failedAuths", "failedAuthsLock", []string{"home.newAuthRateLimiter"})

	c12Sessions(c)
}

// c12UnderLock: every access to T.field (map) happens in a function that
// holds T.lock itself or is called only from functions that do.
func c12UnderLock(c *Ctx, typ, field, lock string, constructors []string) {
	p, r := c.P, c.R
	locksIn := func(fn *ssa.Function) bool {
		for _, call := range core.Calls(fn) {
			if call.Key == "(*sync.Mutex).Lock" || call.Key == "(*sync.RWMutex).Lock" || call.Key == "(*sync.RWMutex).RLock" {
				if fr, ok := core.FieldOfAddr(call.Arg(0)); ok && fr.Type == typ && fr.Field == lock {
					return true
				}
			}
		}
		return false
	}
	var held func(fn *ssa.Function, depth int) bool
	held = func(fn *ssa.Function, depth int) bool {
		if locksIn(fn) {
			return true
		}
		if depth <= 0 {
			return false
		}
		callers := p.StaticCallers(fn)
		if len(callers) == 0 {
			return false
		}
		for _, cc := range callers {
			var parent *ssa.Function
			for _, f := range append(append([]*ssa.Function{}, p.ModFns...), p.Wrappers()...) {
				for _, b := range f.Blocks {
					for _, in := range b.Instrs {
						if ci, ok := in.(ssa.CallInstruction); ok && ci.Common() == cc {
							parent = f
						}
					}
				}
			}
			d := depth - 1
			if parent != nil && core.WrapperOf(fn) == parent {
				d = depth // the thin wrapper fn is known by: transparent
			}
			if parent == nil || !held(parent, d) {
				return false
			}
		}
		return true
	}
	n := 0
	for _, fn := range p.ModFnsIn("home") {
		if fn.Blocks == nil {
			continue
		}
		touches := false
		for _, b := range fn.Blocks {
			for _, in := range b.Instrs {
				if fa, ok := in.(*ssa.FieldAddr); ok {
					if fr, ok := core.FieldOfAddr(fa); ok && fr.Type == typ && fr.Field == field {
						if _, fresh := fa.X.(*ssa.Alloc); !fresh {
							touches = true
						}
					}
				}
			}
		}
		if !touches {
			continue
		}
		isCtor := false
		for _, k := range constructors {
			if core.FuncKey(fn) == k {
				isCtor = true
			}
		}
		if isCtor {
			continue
		}
		n++
		outer := fn
		for outer.Parent() != nil {
			outer = outer.Parent()
		}
		r.Check(held(outer, 3), "C12-lock", fmt.Sprintf("%s.%s@%s", typ, field, core.FuncKey(fn)), p.FnPos(fn),
			fmt.Sprintf("%s is accessed with %s held (in this function or in all its callers)", field, lock),
			fmt.Sprintf("%s.%s is accessed in a function that neither takes %s nor is called only by functions that do", typ, field, lock))
	}
	r.Floor("C12-lock", typ+"."+field+"-accessors", n, 2)
}

func c12Sessions(c *Ctx) { sessionValidity(c, "C12-D4") }

// sessionValidity: checkSession accepts a token only if it is in the table and
// unexpired (shared with C11); under C12-D4 also what happens to expired and
// logged-out sessions.
func sessionValidity(c *Ctx, rule string) {
	p, r := c.P, c.R
	cs := p.Fn("(*home.Auth).checkSession")
	if cs == nil {
		r.Undecided(rule, "checkSession", "-", "anchor not found")
		return
	}
	isSessionsMap := func(v ssa.Value) bool {
		fr, _, ok := core.LoadedField(v)
		return ok && fr.Type == "home.Auth" && fr.Field == "sessions"
	}
	okRet := func(in ssa.Instruction) bool {
		ret, ok := core.AsReturn(in)
		if !ok || len(ret.Results) != 1 {
			return false
		}
		v := core.ResolveLocalLoad(core.Res(ret, 0))
		cst, isC := v.(*ssa.Const)
		if !isC {
			return true
		}
		return isConstNamed(p, cst, "home", "checkSessionOK")
	}
	gFound, n1 := core.CondEdges(cs, func(at core.Atom) (bool, bool) {
		if at.Op == token.ILLEGAL {
			if e, ok := at.Base.(*ssa.Extract); ok && e.Index == 1 {
				if lk, ok := e.Tuple.(*ssa.Lookup); ok && isSessionsMap(lk.X) {
					return true, true
				}
			}
		}
		return false, false
	})
	off1, ns := core.UnguardedSinks(cs, okRet, gFound)
	r.Check(n1 > 0 && ns > 0 && len(off1) == 0, rule, "session-ok-only-if-found", p.FnPos(cs),
		"checkSession reports OK only for a token found in the session table", "checkSession can report OK for a token that is not in the session table", traceOf(p, off1)...)
	isExpire := func(v ssa.Value) bool {
		fr, _, ok := core.LoadedField(v)
		return ok && fr.Type == "home.session" && fr.Field == "expire"
	}
	gLive, n2 := core.CondEdges(cs, func(at core.Atom) (bool, bool) {
		// s.expire <= now : pass on false ; s.expire > now : pass on true ; now >= expire: pass false; now < expire: pass true
		switch {
		case isExpire(at.Base) && !isExpire(at.Other):
			switch at.Op {
			case token.LEQ, token.LSS:
				return true, false
			case token.GTR, token.GEQ:
				return true, true
			}
		case isExpire(at.Other) && !isExpire(at.Base):
			switch at.Op {
			case token.GEQ, token.GTR:
				return true, false
			case token.LSS, token.LEQ:
				return true, true
			}
		}
		return false, false
	})
	off2, _ := core.UnguardedSinks(cs, okRet, gLive)
	r.Check(n2 > 0 && len(off2) == 0, rule, "session-ok-only-if-unexpired", p.FnPos(cs),
		"checkSession reports OK only when the expiry lies in the future", "checkSession can report OK without the expiry having been compared with the current time", traceOf(p, off2)...)
	// ... the expiry that is compared is the stored one: it is moved forward only for a session already found unexpired
	isExpireStore := func(in ssa.Instruction) bool {
		st, ok := in.(*ssa.Store)
		if !ok {
			return false
		}
		fr, ok := core.FieldOfAddr(st.Addr)
		return ok && fr.Type == "home.session" && fr.Field == "expire"
	}
	off3, ns3 := core.UnguardedSinks(cs, isExpireStore, gLive)
	r.Check(n2 > 0 && ns3 > 0 && len(off3) == 0, rule, "expiry-extended-only-if-unexpired", p.FnPos(cs),
		"the expiry of a session is moved forward only after it was found to lie in the future",
		"the expiry of a session can be moved forward before (or without) being compared with the current time: an expired cookie is revived by the very request that presents it", traceOf(p, off3)...)
	if rule != "C12-D4" {
		return
	}
	// expired edge deletes from map and file
	gExp, _ := core.CondEdges(cs, func(at core.Atom) (bool, bool) {
		if isExpire(at.Base) && (at.Op == token.LEQ || at.Op == token.LSS) {
			return true, true
		}
		return false, false
	})
	var starts []core.Point
	for e := range gExp {
		starts = append(starts, core.AfterEdge(e))
	}
	isMapDelete := func(in ssa.Instruction) bool {
		call, ok := in.(*ssa.Call)
		if !ok {
			return false
		}
		b, ok := call.Common().Value.(*ssa.Builtin)
		return ok && b.Name() == "delete" && isSessionsMap(call.Common().Args[0])
	}
	isFileDelete := core.IsCallTo(false, "(*home.Auth).removeSessionFromFile")
	if len(starts) == 0 {
		r.Undecided("C12-D4", "expired-branch", p.FnPos(cs), "expiry comparison not recognised")
	} else {
		f1, _, _ := core.Reach(core.Query{From: starts, Target: core.IsReturn, Avoid: isMapDelete})
		f2, _, _ := core.Reach(core.Query{From: starts, Target: core.IsReturn, Avoid: isFileDelete})
		r.Check(!f1 && !f2, "C12-D4", "expired-session-deleted-everywhere", p.FnPos(cs),
			"an expired session is deleted from the table and from the file", "an expired session is not deleted from both the table and the file (it would be valid again after a restart or clock change)")
	}
	// logout
	rs := p.Fn("(*home.Auth).removeSession")
	if rs == nil {
		r.Undecided("C12-D4", "removeSession", "-", "anchor not found")
	} else {
		f1, _, _ := core.Reach(core.Query{From: []core.Point{core.Entry(rs)}, Target: core.IsReturn, Avoid: isMapDelete})
		f2, _, _ := core.Reach(core.Query{From: []core.Point{core.Entry(rs)}, Target: core.IsReturn, Avoid: isFileDelete})
		r.Check(!f1 && !f2, "C12-D4", "logout-deletes-everywhere", p.FnPos(rs), "logout deletes the session from the table and from the file", "logout does not delete the session from both the table and the file")
		f3, tr3, _ := core.Reach(core.Query{From: []core.Point{core.Entry(rs)}, Target: isFileDelete, Avoid: isMapDelete})
		r.Check(!f3, "C12-D4", "logout-table-before-file", p.FnPos(rs),
			"logout removes the table entry before the file record (a concurrent authenticated request cannot re-store the session afterwards)",
			"logout deletes the file record before the table entry: a concurrent request that refreshes the expiry re-stores the session, which authenticates again after a restart", p.TraceString(tr3))
	}
	// handleLogout calls removeSession
	hlo := p.Fn("home.handleLogout")
	if hlo != nil {
		r.Check(len(core.CallsToDeep(hlo, "(*home.Auth).removeSession")) > 0, "C12-D4", "logout-route-removes-session", p.FnPos(hlo), "the logout route removes the session", "the logout route no longer removes the session")
	}
	// loadSessions: insertion only when not expired and deserialised
	ls := p.Fn("(*home.Auth).loadSessions")
	if ls == nil {
		r.Undecided("C12-D4", "loadSessions", "-", "anchor not found")
	} else {
		nIns := 0
		// the loader and, when it was restructured, the new functions it calls; the table being filled is the
		// field itself or a map of that type that the loader builds and hands back
		loaders := core.WithAnon(ls)
		for _, call := range core.Calls(ls) {
			if h := core.Callee(call.Common); h != nil && core.Transparent(h) {
				loaders = append(loaders, core.WithAnon(h)...)
			}
		}
		isSessionTable := func(v ssa.Value) bool {
			if isSessionsMap(v) {
				return true
			}
			return core.TypeKey(core.ResolveCellLoad(v).Type()) == "map[string]*home.session"
		}
		for _, f := range loaders {
			gL, nL := core.CondEdges(f, func(at core.Atom) (bool, bool) {
				switch {
				case isExpire(at.Base):
					switch at.Op {
					case token.LEQ, token.LSS:
						return true, false
					case token.GTR, token.GEQ:
						return true, true
					}
				}
				return false, false
			})
			sink := func(in ssa.Instruction) bool {
				mu, ok := in.(*ssa.MapUpdate)
				return ok && isSessionTable(mu.Map)
			}
			// every record gets a session object of its own: what is put into the table is made in the function
			// (literal) that runs once per record, not a variable of the enclosing loader that all records share
			for _, b := range f.Blocks {
				for _, in := range b.Instrs {
					mu, ok := in.(*ssa.MapUpdate)
					if !ok || !isSessionTable(mu.Map) {
						continue
					}
					// made in this function; when the insertion sits in a loop, made in the loop as well (in a
					// per-record callback any allocation of the callback is per record)
					fresh, nLeaf := true, 0
					for _, v := range core.FlattenPhi(core.ResolveCellLoad(mu.Value)) {
						v = core.ResolveCellLoad(v)
						if core.IsNilConst(v) {
							continue
						}
						nLeaf++
						al, isAlloc := v.(*ssa.Alloc)
						if !(isAlloc && al.Parent() == f && (!core.InCycle(in.Block()) || core.InCycle(al.Block()))) {
							fresh = false
						}
					}
					fresh = fresh && nLeaf > 0
					r.Check(fresh, "C12-D4", "loaded-session-is-its-own-object:"+core.FuncKey(f), p.InstrPos(in),
						"each stored session is loaded into an object of its own", "the sessions loaded from the file share one object (a variable outside the per-record code): after a restart every token carries the user and expiry of the record read last — an expired token keeps authenticating, or authenticates as somebody else")
				}
			}
			off, ns := core.UnguardedSinksLocal(f, sink, gL) // helpers and literals are in the list themselves
			if ns == 0 {
				continue
			}
			nIns += ns
			r.Check(nL > 0 && len(off) == 0, "C12-D4", "load-only-unexpired:"+core.FuncKey(f), p.FnPos(f),
				"on start a stored session is loaded only if it has not expired", "on start an expired session can be loaded into the table", traceOf(p, off)...)
		}
		r.Floor("C12-D4", "session-load-insertions", nIns, 1)
	}
	c12UnderLock(c, "home.Auth", "sessions", "lock", []string{"home.InitAuth", "(*home.Auth).loadSessions", "(*home.Auth).loadSessions$1", "(*home.Auth).loadSessions$2"})
	_ = strings.TrimSpace
	sessionKeyForm(c, "C12-D4")
	c12FailureRecords(c)
}

// sessionKeyForm: a session lives in the table under the hex text of its
// token and in the database file under the raw token.  Everybody who goes
// from the cookie text to the file (refresh, expiry, logout) must therefore
// pass hex.DecodeString(text) of the very text it used for the table; passing
// the text itself addresses a record that does not exist, so a logged-out or
// expired session stays in the file and is valid again after a restart.
// Shared by C12-D4 and C11-D8.
func sessionKeyForm(c *Ctx, rule string) {
	p, r := c.P, c.R
	n := 0
	for _, fn := range p.ModFnsIn("home") {
		for _, call := range core.Calls(fn) {
			k := call.Key
			if k != "(*home.Auth).storeSession" && k != "(*home.Auth).removeSessionFromFile" {
				continue
			}
			// only where the session is in hand as text (a string parameter or map key)
			var text ssa.Value
			for _, prm := range fn.Params {
				if bt, ok := prm.Type().Underlying().(*types.Basic); ok && bt.Kind() == types.String {
					text = prm
				}
			}
			if text == nil {
				continue
			}
			n++
			key := call.Arg(1)
			okKey := false
			// the text itself may be handed over when the callee does the decoding: its database key is then
			// hex.DecodeString of that parameter
			if core.ResolveCellLoad(key) == text {
				if callee := core.Callee(call.Common); callee != nil && len(callee.Params) > 1 {
					for _, dc := range core.CallsTo(callee, "encoding/hex.DecodeString") {
						if core.ResolveCellLoad(dc.Arg(0)) == ssa.Value(callee.Params[1]) {
							// and the decoded value is what addresses the bucket
							for _, bc := range core.Calls(callee) {
								if strings.HasSuffix(bc.Key, "bbolt.Bucket).Delete") || strings.HasSuffix(bc.Key, "bbolt.Bucket).Put") {
									for _, o := range core.Origins(bc.Arg(1), core.ProvOpts{Prog: p}) {
										if o.Kind == "call" && o.Key == "encoding/hex.DecodeString" {
											okKey = true
										}
									}
								}
							}
						}
					}
				}
			}
			if ex, ok := core.ResolveCellLoad(key).(*ssa.Extract); ok && ex.Index == 0 {
				if dc, ok := ex.Tuple.(*ssa.Call); ok && core.CalleeKey(dc.Common()) == "encoding/hex.DecodeString" && dc.Call.Args[0] == text {
					okKey = true
				}
			}
			r.Check(okKey, rule, fmt.Sprintf("session-file-key:%s@%s", strings.TrimPrefix(k, "(*home.Auth)."), core.FuncKey(fn)), p.InstrPos(call.Instr),
				"the database record is addressed by the decoded token of the same session text that addresses the table entry",
				"the database record is not addressed by hex.DecodeString of the session text: the table entry and the file record of one session diverge (a logged-out or expired session survives in the file and authenticates again after a restart)")
		}
	}
	r.Floor(rule, "session-file-key-sites", n, 3)
}

// c12FailureRecords: D5.  The failure counters are what stops guessing; a
// record may disappear only when its time is up (cleanup) or through remove
// (successful login, checked by D3).  Any other deletion restarts somebody's
// count.
func c12FailureRecords(c *Ctx) {
	p, r := c.P, c.R
	n := 0
	for _, fn := range p.ModFnsIn("home") {
		fk := core.FuncKey(fn)
		for _, b := range fn.Blocks {
			for _, in := range b.Instrs {
				what := ""
				switch x := in.(type) {
				case *ssa.Call:
					if bi, ok := x.Call.Value.(*ssa.Builtin); ok && (bi.Name() == "delete" || bi.Name() == "clear") && len(x.Call.Args) > 0 {
						if fr, _, ok := core.LoadedField(x.Call.Args[0]); ok && fr.Type == "home.authRateLimiter" && fr.Field == "failedAuths" {
							what = bi.Name()
						}
					}
					if k := core.CalleeKey(x.Common()); (k == "maps.DeleteFunc" || strings.HasPrefix(k, "maps.DeleteFunc[")) && len(x.Call.Args) == 2 {
						if fr, _, ok := core.LoadedField(x.Call.Args[0]); ok && fr.Type == "home.authRateLimiter" && fr.Field == "failedAuths" {
							what = "deletefunc"
						}
					}
				case *ssa.Store:
					if fr, ok := core.FieldOfAddr(x.Addr); ok && fr.Type == "home.authRateLimiter" && fr.Field == "failedAuths" && fk != "home.newAuthRateLimiter" {
						what = "replace"
					}
				}
				if what == "" {
					continue
				}
				n++
				key := fmt.Sprintf("failure-record-removal:%s:%s", fk, what)
				switch {
				case fk == "(*home.authRateLimiter).remove" && what == "delete":
					r.Ok("C12-D5", key, p.InstrPos(in), "removal on successful login (its call site is checked by D3)")
				case fk == "(*home.authRateLimiter).cleanupLocked" && what == "delete":
					g, ng := core.CondEdges(fn, func(at core.Atom) (bool, bool) {
						if at.Op != token.ILLEGAL {
							return false, false
						}
						call, _, ok := core.CallResult(at.Base)
						return ok && core.CalleeKey(call.Common()) == "(time.Time).After", true
					})
					off, _ := core.UnguardedSinks(fn, func(i2 ssa.Instruction) bool { return i2 == in }, g)
					r.Check(ng > 0 && len(off) == 0, "C12-D5", key, p.InstrPos(in), "the cleanup removes a record only after its time is up", "the cleanup removes records whose time is not up: the count of an address below the limit restarts")
				case fk == "(*home.authRateLimiter).cleanupLocked" && what == "deletefunc":
					// maps.DeleteFunc(m, pred): a record goes when pred says so; pred may say so only when the time is up
					lit, _ := core.FnValue(in.(*ssa.Call).Call.Args[1])
					okPred := lit != nil && len(lit.Blocks) > 0
					if okPred {
						isAfter := func(at core.Atom) (bool, bool) {
							if at.Op != token.ILLEGAL {
								return false, false
							}
							call, _, ok := core.CallResult(at.Base)
							return ok && core.CalleeKey(call.Common()) == "(time.Time).After", true
						}
						g, _ := core.CondEdges(lit, isAfter)
						off, _ := core.UnguardedSinksLocal(lit, func(i2 ssa.Instruction) bool {
							ret, isRet := core.AsReturn(i2)
							if !isRet || len(ret.Results) != 1 {
								return false
							}
							v := core.ResolveLocalLoad(core.Res(ret, 0))
							if bv, isC := core.ConstBool(v); isC {
								return bv
							}
							m, _ := isAfter(core.Decompose(v))
							return !m // the After result itself may be returned
						}, g)
						okPred = len(off) == 0
					}
					r.Check(okPred, "C12-D5", fmt.Sprintf("failure-record-removal:%s:delete", fk), p.InstrPos(in), "the cleanup removes a record only after its time is up", "the cleanup removes records whose time is not up: the count of an address below the limit restarts")
				default:
					r.Fail("C12-D5", key, p.InstrPos(in), fk+" removes failure records outside the expiry cleanup and the successful-login reset: an address that is about to be blocked gets a fresh count")
				}
			}
		}
	}
	r.Floor("C12-D5", "failure-record-removals", n, 2)
	// every store of a failure record has been through the comparison of the count with the limit (also the
	// first failure: with a limit of one it is the one that must start the block)
	inc := p.Fn("(*home.authRateLimiter).incLocked")
	if inc == nil {
		r.Undecided("C12-D5", "incLocked", "-", "anchor not found")
		return
	}
	isLimitTest := func(in ssa.Instruction) bool {
		iff, ok := in.(*ssa.If)
		if !ok {
			return false
		}
		at := core.Decompose(iff.Cond)
		for _, v := range []ssa.Value{at.Base, at.Other} {
			if v == nil {
				continue
			}
			if fr, _, ok := core.LoadedField(core.ResolveCellLoad(v)); ok && fr.Type == "home.authRateLimiter" && fr.Field == "maxAttempts" {
				return true
			}
		}
		return false
	}
	nStores, bad := 0, false
	var det []string
	for _, b := range inc.Blocks {
		for _, in := range b.Instrs {
			mu, ok := in.(*ssa.MapUpdate)
			if !ok {
				continue
			}
			if fr, _, ok := core.LoadedField(mu.Map); !ok || fr.Field != "failedAuths" {
				continue
			}
			nStores++
			target := in
			if found, tr, _ := core.Reach(core.Query{From: []core.Point{core.Entry(inc)}, Target: func(x ssa.Instruction) bool { return x == target }, Avoid: isLimitTest}); found {
				bad = true
				det = append(det, p.TraceString(tr))
			}
		}
	}
	r.Check(nStores > 0 && !bad, "C12-D5", "every-failure-compared-with-limit", p.FnPos(inc),
		"every failure record is stored only after its count was compared with the attempt limit", "a failure record can be stored without comparing its count with the limit (e.g. the first failure): with a limit of one the address is never blocked for the block period", det...)
}
