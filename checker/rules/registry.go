// Package rules holds the per-property rule tables and their drivers.
package rules

import (
	"aghverif/core"
)

// Ctx is what a rule driver sees.
type Ctx struct {
	P    *core.Prog
	R    *core.Report
	Tier string
}

// Thorough reports whether the thorough tier is running.
func (c *Ctx) Thorough() bool { return c.Tier == "thorough" }

// Rule is one property's driver.
type Rule struct {
	ID string
	// Run is executed once per analysed GOOS build.
	Run func(c *Ctx)
	// ThoroughGOOS lists the additional GOOS builds analysed in the
	// thorough tier (linux is always analysed).
	ThoroughGOOS []string
	Explanation  string
	RuleText     string
	Assumptions  []string
	Trusted      []string
	Exhaustive   bool
}

// All is the registry, filled by init functions of the cNN.go files.
var All = map[string]*Rule{}

func register(r *Rule) { All[r.ID] = r }

var commonTrusted = []string{
	"go/packages + go/types (type-checked program of the current /repo working tree)",
	"golang.org/x/tools/go/ssa v0.50.0 (SSA construction, dominators)",
	"the frozen rule tables under /verif/checker/rules (each entry confirmed by reading the code)",
}
