// Command aghverif decides structural necessary conditions of the AdGuard
// Home properties from the source of the current /repo working tree.
package main

import (
	"encoding/json"
	"flag"
	"fmt"
	"os"
	"runtime"
	"runtime/debug"
	"sort"
	"strconv"
	"strings"

	"aghverif/core"
	"aghverif/rules"
)

func usage() {
	fmt.Fprintln(os.Stderr, "usage: aghverif check <id> [quick|thorough] | explain <replay.json> | dump <funckey> | list")
	os.Exit(2)
}

func main() {
	if len(os.Args) < 2 {
		usage()
	}
	if d := os.Getenv("AGHVERIF_REPO"); d != "" {
		core.RepoDir = d
	}
	if d := os.Getenv("AGHVERIF_DIR"); d != "" {
		core.VerifDir = d
	}
	switch os.Args[1] {
	case "check":
		if len(os.Args) < 3 {
			usage()
		}
		tier := "quick"
		if len(os.Args) > 3 {
			tier = os.Args[3]
		}
		if t := os.Getenv("VERIF_TIER"); t != "" && len(os.Args) <= 3 {
			tier = t
		}
		os.Exit(check(os.Args[2], tier))
	case "doc":
		var ids []string
		for id := range rules.All {
			ids = append(ids, id)
		}
		sort.Strings(ids)
		for _, id := range ids {
			r := rules.All[id]
			fmt.Printf("### %s\n\n%s\n\n*Engine:* %s\n\n*Assumptions:* %s\n\n", id, r.Explanation, r.RuleText, strings.Join(r.Assumptions, "; "))
		}
	case "explain":
		if len(os.Args) < 3 {
			usage()
		}
		os.Exit(explain(os.Args[2]))
	case "dump":
		fs := flag.NewFlagSet("dump", flag.ExitOnError)
		goos := fs.String("goos", "", "GOOS")
		_ = fs.Parse(os.Args[2:])
		p, err := core.Load(*goos)
		if err != nil {
			fmt.Println(err)
			os.Exit(2)
		}
		for _, k := range fs.Args() {
			fn := p.Fn(k)
			if fn == nil {
				fmt.Println("no such function:", k)
				for _, f := range p.ModFns {
					if strings.Contains(core.FuncKey(f), k) {
						fmt.Println("  candidate:", core.FuncKey(f))
					}
				}
				continue
			}
			fn.WriteTo(os.Stdout)
		}
	case "inventory":
		// writes the function inventory of the current tree (all builds) to stdout
		set := map[string]bool{}
		for _, goos := range []string{"", "darwin", "freebsd", "openbsd", "windows"} {
			p, err := core.Load(goos)
			if err != nil {
				fmt.Fprintln(os.Stderr, err)
				os.Exit(2)
			}
			for _, k := range p.Inventory() {
				set[k] = true
			}
		}
		var keys []string
		for k := range set {
			keys = append(keys, k)
		}
		sort.Strings(keys)
		fmt.Println("# Declared functions of the module in the verified tree (all builds); see checker/core/inventory.go.")
		fmt.Println(strings.Join(keys, "\n"))
	case "list":
		var ids []string
		for id := range rules.All {
			ids = append(ids, id)
		}
		sort.Strings(ids)
		fmt.Println(strings.Join(ids, " "))
	default:
		usage()
	}
}

func check(id, tier string) (code int) {
	rule, ok := rules.All[id]
	if !ok {
		fmt.Printf("unknown property %q\n", id)
		return 2
	}
	if tier != "quick" && tier != "thorough" {
		fmt.Printf("unknown tier %q\n", tier)
		return 2
	}
	seed, _ := strconv.Atoi(os.Getenv("VERIF_SEED"))
	rep := core.NewReport(id, tier, seed)
	rep.Explanation = rule.Explanation
	rep.RuleText = rule.RuleText
	rep.Assumptions = append(rep.Assumptions, rule.Assumptions...)
	rep.Trusted = append(rep.Trusted, rule.Trusted...)
	rep.Exhaustive = rule.Exhaustive

	gooses := []string{"linux"}
	if tier == "thorough" {
		extra := rule.ThoroughGOOS
		if extra == nil {
			// every rule is re-decided on the other release platforms' builds (build-tagged files differ)
			extra = []string{"darwin", "freebsd", "openbsd", "windows"}
		}
		gooses = append(gooses, extra...)
	}
	builds := []any{}
	for _, goos := range gooses {
		func() {
			rep.GOOS = goos
			defer func() {
				if r := recover(); r != nil {
					rep.Fail("checker", "panic:"+goos, "-", fmt.Sprintf("checker panicked: %v", r), string(debug.Stack()))
				}
			}()
			p, err := core.Load(goos)
			if err != nil {
				rep.Fail("load", "load:"+goos, "-", err.Error())
				return
			}
			nfn := 0
			for _, f := range p.ModFns {
				if f.Blocks != nil {
					nfn++
				}
			}
			builds = append(builds, map[string]any{
				"goos": goos, "root_packages": len(p.Pkgs), "all_packages": len(p.AllPkg),
				"module_functions_with_bodies": nfn, "all_functions": len(p.Fns), "load_s": p.LoadTime.Seconds(),
			})
			fmt.Printf("analysed build GOOS=%s: %d root packages, %d packages total, %d module functions, load %.1fs\n",
				goos, len(p.Pkgs), len(p.AllPkg), nfn, p.LoadTime.Seconds())
			if len(p.Pkgs) < 30 || nfn < 1000 {
				rep.Fail("load", "coverage:"+goos, "-", fmt.Sprintf("only %d packages / %d functions loaded; expected >= 30 / 1000", len(p.Pkgs), nfn))
			}
			rule.Run(&rules.Ctx{P: p, R: rep, Tier: tier})
		}()
		runtime.GC()
	}
	rep.Info["builds"] = builds
	rep.GOOS = ""
	return rep.Finish()
}

func explain(path string) int {
	b, err := os.ReadFile(path)
	if err != nil {
		fmt.Println(err)
		return 2
	}
	var v struct {
		Property string   `json:"property"`
		FullKey  string   `json:"full_key"`
		Pos      string   `json:"pos"`
		Msg      string   `json:"msg"`
		Detail   []string `json:"detail"`
		Tier     string   `json:"tier"`
	}
	if err = json.Unmarshal(b, &v); err != nil {
		fmt.Println(err)
		return 2
	}
	fmt.Printf("recorded: %s at %s\n  %s\n", v.FullKey, v.Pos, v.Msg)
	for _, d := range v.Detail {
		fmt.Printf("    %s\n", d)
	}
	fmt.Printf("re-running %s (%s) on the current tree:\n", v.Property, v.Tier)
	tier := v.Tier
	if tier == "" {
		tier = "quick"
	}
	// Re-run with evidence redirected so the committed evidence is not
	// overwritten by a replay.
	tmp, _ := os.MkdirTemp("", "aghverif-replay")
	defer os.RemoveAll(tmp)
	if kf, err := os.ReadFile(core.VerifDir + "/known_findings.txt"); err == nil {
		_ = os.WriteFile(tmp+"/known_findings.txt", kf, 0o644)
	}
	core.VerifDir = tmp
	code := check(v.Property, tier)
	return code
}
