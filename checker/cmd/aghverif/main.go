// Command aghverif decides structural necessary conditions of the AdGuard
// Home properties from the source of the current /repo working tree.
package main

import (
	"encoding/json"
	"flag"
	"fmt"
	"os"
	"runtime"
	"runtime/debug"
	"sort"
	"strconv"
	"strings"

	"aghverif/core"
	"aghverif/rules"
)

func usage() {
	fmt.Fprintln(os.Stderr, "usage: aghverif check <id> [quick|thorough] | explain <replay.json> | dump <funckey> | list")
	os.Exit(2)
}

func main() {
	if len(os.Args) < 2 {
		usage()
	}
	if d := os.Getenv("AGHVERIF_REPO"); d != "" {
		core.RepoDir = d
	}
	if d := os.Getenv("AGHVERIF_DIR"); d != "" {
		core.VerifDir = d
	}
	switch os.Args[1] {
	case "check":
		if len(os.Args) < 3 {
			usage()
		}
		tier := "quick"
		if len(os.Args) > 3 {
			tier = os.Args[3]
		}
		if t := os.Getenv("VERIF_TIER"); t != "" && len(os.Args) <= 3 {
			tier = t
		}
		os.Exit(check(os.Args[2], tier))
	case "doc":
		var ids []string
		for id := range rules.All {
			ids = append(ids, id)
		}
		sort.Strings(ids)
		for _, id := range ids {
			r := rules.All[id]
			fmt.Printf("### %s\n\n%s\n\n*Engine:* %s\n\n*Assumptions:* %s\n\n", id, r.Explanation, r.RuleText, strings.Join(r.Assumptions, "; "))
		}
	case "explain":
		if len(os.Args) < 3 {
			usage()
		}
		os.Exit(explain(os.Args[2]))
	case "dump":
		fs := flag.NewFlagSet("dump", flag.ExitOnError)
		goos := fs.String("goos", "", "GOOS")
		_ = fs.Parse(os.Args[2:])
		p, err := core.Load(*goos)
		if err != nil {
			fmt.Println(err)
			os.Exit(2)
		}
		for _, k := range fs.Args() {
			fn := p.Fn(k)
			if fn == nil {
				fmt.Println("no such function:", k)
				for _, f := range p.ModFns {
					if strings.Contains(core.FuncKey(f), k) {
						fmt.Println("  candidate:", core.FuncKey(f))
					}
				}
				continue
			}
			fn.WriteTo(os.Stdout)
		}
	case "inventory":
		// writes the function inventory of the current tree (all builds) to stdout
		set := map[string][]string{}
		callers := map[string]map[string]bool{}
		sigs := map[string]string{}
		for _, goos := range []string{"", "darwin", "freebsd", "openbsd", "windows"} {
			p, err := core.Load(goos)
			if err != nil {
				fmt.Fprintln(os.Stderr, err)
				os.Exit(2)
			}
			for _, k := range p.Inventory() {
				set[k] = append(set[k], p.GOOS)
			}
			for k, sg := range p.InventorySigs() {
				sigs[k] = sg
			}
			for k, cs := range p.InventoryCallers() {
				for _, c := range cs {
					if callers[k] == nil {
						callers[k] = map[string]bool{}
					}
					callers[k][c] = true
				}
			}
		}
		var keys []string
		for k := range set {
			keys = append(keys, k)
		}
		sort.Strings(keys)
		fmt.Println("# Declared functions of the module in the verified tree, with the builds they exist in; see checker/core/inventory.go.")
		for _, k := range keys {
			var cs []string
			for c := range callers[k] {
				cs = append(cs, c)
			}
			sort.Strings(cs)
			fmt.Println(k + "\t" + strings.Join(set[k], ",") + "\t" + strings.Join(cs, ";") + "\t" + sigs[k])
		}
	case "list":
		var ids []string
		for id := range rules.All {
			ids = append(ids, id)
		}
		sort.Strings(ids)
		fmt.Println(strings.Join(ids, " "))
	default:
		usage()
	}
}

func check(id, tier string) (code int) {
	rule, ok := rules.All[id]
	if !ok {
		fmt.Printf("unknown property %q\n", id)
		return 2
	}
	if tier != "quick" && tier != "thorough" {
		fmt.Printf("unknown tier %q\n", tier)
		return 2
	}
	seed, _ := strconv.Atoi(os.Getenv("VERIF_SEED"))
	rep := core.NewReport(id, tier, seed)
	rep.Explanation = rule.Explanation
	rep.RuleText = rule.RuleText
	rep.Assumptions = append(rep.Assumptions, rule.Assumptions...)
	rep.Trusted = append(rep.Trusted, rule.Trusted...)
	rep.Exhaustive = rule.Exhaustive

	gooses := []string{"linux"}
	if tier == "thorough" {
		extra := rule.ThoroughGOOS
		if extra == nil {
			// every rule is re-decided on the other release platforms' builds (build-tagged files differ)
			extra = []string{"darwin", "freebsd", "openbsd", "windows"}
		}
		gooses = append(gooses, extra...)
	}
	builds := []any{}
	for _, goos := range gooses {
		func() {
			rep.GOOS = goos
			defer func() {
				if r := recover(); r != nil {
					rep.Fail("checker", "panic:"+goos, "-", fmt.Sprintf("checker panicked: %v", r), string(debug.Stack()))
				}
			}()
			p, err := core.Load(goos)
			if err != nil {
				rep.Fail("load", "load:"+goos, "-", err.Error())
				return
			}
			nfn := 0
			for _, f := range p.ModFns {
				if f.Blocks != nil {
					nfn++
				}
			}
			builds = append(builds, map[string]any{
				"goos": goos, "root_packages": len(p.Pkgs), "all_packages": len(p.AllPkg),
				"module_functions_with_bodies": nfn, "all_functions": len(p.Fns), "load_s": p.LoadTime.Seconds(),
				"new_functions_expanded_into_callers": p.Inline.Callees, "expanded_call_sites": p.Inline.Calls,
				"new_functions_left_as_calls": p.Inline.Skipped, "callers_rewritten": p.Inline.Rewrites, "renamed": p.Renamed,
			})
			for _, b := range p.Inline.Broken {
				rep.Fail("checker", "expansion-sanity:"+goos, "-", "the expansion of a new function produced an inconsistent function body (checker defect): "+b)
			}
			if len(p.Renamed) > 0 {
				fmt.Printf("listed functions found under a new name: %v\n", p.Renamed)
			}
			if p.Inline.Calls > 0 || len(p.Inline.Skipped) > 0 {
				fmt.Printf("functions not in the inventory: %d call sites expanded into %d callers (%v); left as calls: %v\n",
					p.Inline.Calls, len(p.Inline.Rewrites), p.Inline.Callees, p.Inline.Skipped)
			}
			fmt.Printf("analysed build GOOS=%s: %d root packages, %d packages total, %d module functions, load %.1fs\n",
				goos, len(p.Pkgs), len(p.AllPkg), nfn, p.LoadTime.Seconds())
			if len(p.Pkgs) < 30 || nfn < 1000 {
				rep.Fail("load", "coverage:"+goos, "-", fmt.Sprintf("only %d packages / %d functions loaded; expected >= 30 / 1000", len(p.Pkgs), nfn))
			}
			first := len(rep.Obs)
			rule.Run(&rules.Ctx{P: p, R: rep, Tier: tier})
			if len(p.Folded) > 0 {
				builds[len(builds)-1].(map[string]any)["listed_functions_gone_analysed_in_their_former_caller"] = p.Folded
				fmt.Printf("listed functions that are gone, analysed in their only former caller: %v\n", p.Folded)
			}
			// Two views of new functions.  The rules have just been decided on the tree with the functions the
			// inventory does not list expanded into their callers.  An obligation that is not discharged on that
			// view is decided once more on the tree as written, where such functions are looked through by the
			// lifting mechanisms instead (guards in helpers, effects passed in helpers, values across frames).
			// Both views are the same program, so an obligation holds if either view proves it.
			if p.Inline.Calls > 0 && os.Getenv("AGHVERIF_NOINLINE") == "" {
				failed := false
				for _, ob := range rep.Obs[first:] {
					if !ob.OK {
						failed = true
					}
				}
				if failed {
					os.Setenv("AGHVERIF_NOINLINE", "1")
					p2, err := core.Load(goos)
					os.Unsetenv("AGHVERIF_NOINLINE")
					if err == nil {
						rep2 := core.NewReport(id, tier, seed)
						rep2.GOOS = goos
						func() {
							defer func() { _ = recover() }()
							rule.Run(&rules.Ctx{P: p2, R: rep2, Tier: tier})
						}()
						proved := map[string]bool{}
						refuted := map[string]bool{}
						for _, ob := range rep2.Obs {
							if ob.OK {
								proved[ob.FullKey()] = true
							} else {
								refuted[ob.FullKey()] = true
							}
						}
						n := 0
						for i := first; i < len(rep.Obs); i++ {
							ob := &rep.Obs[i]
							if !ob.OK && proved[ob.FullKey()] && !refuted[ob.FullKey()] {
								ob.OK = true
								ob.Msg = "decided on the tree as written (new functions looked through, not expanded): " + ob.Msg
								ob.Detail = nil
								n++
							}
						}
						fmt.Printf("second view (new functions not expanded): %d obligation(s) discharged there\n", n)
					}
				}
			}
		}()
		runtime.GC()
	}
	rep.Info["builds"] = builds
	rep.GOOS = ""
	return rep.Finish()
}

func explain(path string) int {
	b, err := os.ReadFile(path)
	if err != nil {
		fmt.Println(err)
		return 2
	}
	var v struct {
		Property string   `json:"property"`
		FullKey  string   `json:"full_key"`
		Pos      string   `json:"pos"`
		Msg      string   `json:"msg"`
		Detail   []string `json:"detail"`
		Tier     string   `json:"tier"`
	}
	if err = json.Unmarshal(b, &v); err != nil {
		fmt.Println(err)
		return 2
	}
	fmt.Printf("recorded: %s at %s\n  %s\n", v.FullKey, v.Pos, v.Msg)
	for _, d := range v.Detail {
		fmt.Printf("    %s\n", d)
	}
	fmt.Printf("re-running %s (%s) on the current tree:\n", v.Property, v.Tier)
	tier := v.Tier
	if tier == "" {
		tier = "quick"
	}
	// Re-run with evidence redirected so the committed evidence is not
	// overwritten by a replay.
	tmp, _ := os.MkdirTemp("", "aghverif-replay")
	defer os.RemoveAll(tmp)
	if kf, err := os.ReadFile(core.VerifDir + "/known_findings.txt"); err == nil {
		_ = os.WriteFile(tmp+"/known_findings.txt", kf, 0o644)
	}
	core.VerifDir = tmp
	code := check(v.Property, tier)
	return code
}
