package configmigrate_test

import (
	"fmt"
	"testing"

	"github.com/AdguardTeam/AdGuardHome/internal/configmigrate"
)

func TestNullDocs(t *testing.T) {
	inputs := []string{
		"null\n",
		"~\n",
		"",
		"schema_version: 6\ndhcp:\n",
		"schema_version: 11\ndns:\n",
		"schema_version: 11\ndns: ~\n",
		"schema_version: 16\ndns: null\n",
		"schema_version: 28\nfiltering: null\nfilters: []\n",
		"schema_version: 25\ndns:\n  safe_search: null\n",
		"schema_version: 20\ndns:\n  blocked_services: null\n",
		"schema_version: 0\ndns: null\ndhcp: null\nclients: null\ntls: null\nfiltering: null\nfilters: null\nquerylog: null\nstatistics: null\n",
	}
	for i, in := range inputs {
		t.Run(fmt.Sprint(i), func(t *testing.T) {
			defer func() {
				if r := recover(); r != nil {
					t.Errorf("input %q: PANIC: %v", in, r)
				}
			}()
			m := configmigrate.New(&configmigrate.Config{WorkingDir: t.TempDir(), DataDir: t.TempDir()})
			out, up, err := m.Migrate([]byte(in), configmigrate.LastSchemaVersion)
			t.Logf("in=%q up=%v err=%v out=%q", in, up, err, out)
		})
	}
}
