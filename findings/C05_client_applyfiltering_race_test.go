package client_test

import (
	"fmt"
	"net"
	"net/netip"
	"sync"
	"testing"
	"time"

	"github.com/AdguardTeam/AdGuardHome/internal/client"
	"github.com/AdguardTeam/AdGuardHome/internal/dhcpsvc"
	"github.com/AdguardTeam/AdGuardHome/internal/filtering"
	"github.com/AdguardTeam/golibs/logutil/slogutil"
	"github.com/AdguardTeam/golibs/testutil"
	"github.com/AdguardTeam/golibs/timeutil"
	"github.com/stretchr/testify/require"
)

// TestApplyClientFilteringWhileReconfiguring: the DNS-path callback must not
// read the client index while the admin API adds/removes clients.  Run with
// -race: the unfixed tree reports a data race (and can crash with "concurrent
// map read and map write").
func TestApplyClientFilteringWhileReconfiguring(t *testing.T) {
	ctx := testutil.ContextWithTimeout(t, 10*time.Second)
	s, err := client.NewStorage(ctx, &client.StorageConfig{
		Logger: slogutil.NewDiscardLogger(),
		Clock:  timeutil.SystemClock{},
		DHCP: &testDHCP{
			OnLeases: func() (ls []*dhcpsvc.Lease) { return nil },
			OnHostBy: func(_ netip.Addr) (h string) { return "" },
			OnMACBy:  func(_ netip.Addr) (m net.HardwareAddr) { return nil },
		},
	})
	require.NoError(t, err)

	stop := make(chan struct{})
	wg := sync.WaitGroup{}
	for g := 0; g < 4; g++ {
		wg.Add(1)
		go func() {
			defer wg.Done()
			for {
				select {
				case <-stop:
					return
				default:
				}
				setts := &filtering.Settings{}
				s.ApplyClientFiltering("cid-1", netip.MustParseAddr("10.0.0.7"), setts)
			}
		}()
	}

	for i := 0; i < 300; i++ {
		name := fmt.Sprintf("c%d", i)
		err = s.Add(ctx, &client.Persistent{
			Name:      name,
			UID:       client.MustNewUID(),
			ClientIDs: []string{"cid-1"},
			IPs:       []netip.Addr{netip.MustParseAddr("10.0.0.7")},
		})
		require.NoError(t, err)
		require.True(t, s.RemoveByName(ctx, name))
	}
	close(stop)
	wg.Wait()
}
