//go:build unix

package dhcpd

import (
	"net"
	"net/netip"
	"testing"

	"github.com/AdguardTeam/AdGuardHome/internal/dhcpsvc"
	"github.com/insomniacslk/dhcp/dhcpv4"
	"github.com/stretchr/testify/assert"
	"github.com/stretchr/testify/require"
)

// TestDeclineLeaseTable shows the two defects of handleDecline on the real
// code: the database-store notification fires before the lease table is
// changed, and the replacement lease is registered twice.
func TestDeclineLeaseTable(t *testing.T) {
	conf := defaultV4ServerConf()
	var s4 *v4Server
	var storedIPs [][]netip.Addr
	conf.notify = func(flags uint32) {
		if flags != LeaseChangedDBStore || s4 == nil {
			return
		}
		var ips []netip.Addr
		for _, l := range s4.getLeasesRef() {
			ips = append(ips, l.IP)
		}
		storedIPs = append(storedIPs, ips)
	}
	s, err := v4Create(conf)
	require.NoError(t, err)
	s4 = s

	mac := net.HardwareAddr{0xAA, 0xAA, 0xAA, 0xAA, 0xAA, 0xAA}
	dynamicIP := netip.MustParseAddr("192.168.10.200")
	require.NoError(t, s4.ResetLeases([]*dhcpsvc.Lease{{Hostname: "dynamic-client", HWAddr: mac, IP: dynamicIP}}))

	req, err := dhcpv4.New(dhcpv4.WithOption(dhcpv4.OptRequestedIPAddress(net.IP(dynamicIP.AsSlice()))))
	require.NoError(t, err)
	req.ClientIPAddr = net.IP(dynamicIP.AsSlice())
	req.ClientHWAddr = mac

	resp := &dhcpv4.DHCPv4{}
	require.NoError(t, s4.handleDecline(req, resp))

	// memory: exactly one lease, the new address, once.
	mem := s4.GetLeases(LeasesAll)
	var memIPs []netip.Addr
	for _, l := range mem {
		memIPs = append(memIPs, l.IP)
	}
	assert.Equal(t, []netip.Addr{netip.MustParseAddr("192.168.10.100")}, memIPs, "lease table in memory")

	// disk: the last store notification must have seen the table as it is now.
	require.NotEmpty(t, storedIPs)
	assert.Equal(t, memIPs, storedIPs[len(storedIPs)-1], "table seen by the last database store")

	// the hostname keeps resolving to the new address
	assert.Equal(t, netip.MustParseAddr("192.168.10.100"), s4.IPByHost("dynamic-client"))
}
