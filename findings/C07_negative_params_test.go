package querylog

import (
	"net"
	"net/http"
	"net/http/httptest"
	"testing"

	"github.com/AdguardTeam/AdGuardHome/internal/aghnet"
	"github.com/AdguardTeam/golibs/logutil/slogutil"
	"github.com/AdguardTeam/golibs/timeutil"
	"github.com/miekg/dns"
	"github.com/stretchr/testify/assert"
	"github.com/stretchr/testify/require"
)

// TestNegativeLimitOffset: no parameter value may make GET /control/querylog crash.
func TestNegativeLimitOffset(t *testing.T) {
	l, err := newQueryLog(Config{
		Logger:      slogutil.NewDiscardLogger(),
		Anonymizer:  aghnet.NewIPMut(nil),
		Enabled:     true,
		FileEnabled: false,
		RotationIvl: timeutil.Day,
		MemSize:     100,
		BaseDir:     t.TempDir(),
	})
	require.NoError(t, err)
	for i := 0; i < 3; i++ {
		req := &dns.Msg{Question: []dns.Question{{Name: "example.org.", Qtype: dns.TypeA, Qclass: dns.ClassINET}}}
		l.Add(&AddParams{Question: req, ClientIP: net.IPv4(1, 2, 3, 4)})
	}
	for _, q := range []string{"limit=-1", "offset=-1", "limit=-5&offset=2", "limit=1&offset=-2", "limit=9223372036854775807&offset=1", "offset=9223372036854775807&limit=10"} {
		t.Run(q, func(t *testing.T) {
			w := httptest.NewRecorder()
			r := httptest.NewRequest(http.MethodGet, "/control/querylog?"+q, nil)
			assert.NotPanics(t, func() { l.handleQueryLog(w, r) })
			t.Logf("%s -> %d", q, w.Code)
		})
	}
}
