package home

import (
	"bytes"
	"context"
	"net/http"
	"net/http/httptest"
	"path/filepath"
	"sync"
	"testing"
	"time"

	"github.com/AdguardTeam/AdGuardHome/internal/aghhttp"
	"github.com/AdguardTeam/AdGuardHome/internal/client"
	"github.com/AdguardTeam/AdGuardHome/internal/filtering"
	"github.com/AdguardTeam/golibs/logutil/slogutil"
	"github.com/AdguardTeam/golibs/timeutil"
	"github.com/stretchr/testify/require"
)

// TestC05_ConfigWriteWhileSettingRules: saving the configuration (which any
// subsystem's ConfigModified callback triggers, also from background workers)
// reads the filter lists and custom rules of the *filtering.Config it shares
// with the running filter, and DNSFilter.WriteDiskConfig writes them holding
// filtersMu for reading only, while POST /control/filtering/set_rules and the
// engine rebuild use them under filtersMu (go test -race).
func TestC05_ConfigWriteWhileSettingRules(t *testing.T) {
	dir := t.TempDir()
	prevCtx, prevConf := globalContext, config
	t.Cleanup(func() { globalContext, config = prevCtx, prevConf })

	globalContext = homeContext{}
	globalContext.confFilePath = filepath.Join(dir, "AdGuardHome.yaml")
	globalContext.workDir = dir
	config = &configuration{Filtering: &filtering.Config{}}

	var handlers = map[string]http.HandlerFunc{}
	config.Filtering.DataDir = dir
	config.Filtering.ConfigModified = func() {}
	config.Filtering.HTTPClient = &http.Client{Timeout: time.Second}
	config.Filtering.HTTPRegister = aghhttp.RegisterFunc(func(_, url string, h http.HandlerFunc) { handlers[url] = h })

	flt, err := filtering.New(config.Filtering, nil)
	require.NoError(t, err)
	flt.Start()
	t.Cleanup(flt.Close)
	globalContext.filters = flt

	globalContext.clients.storage, err = client.NewStorage(context.Background(), &client.StorageConfig{
		Logger: slogutil.NewDiscardLogger(),
		Clock:  timeutil.SystemClock{},
	})
	require.NoError(t, err)

	setRules := handlers["/control/filtering/set_rules"]
	require.NotNil(t, setRules)

	stop := make(chan struct{})
	wg := sync.WaitGroup{}
	wg.Add(1)
	go func() {
		defer wg.Done()
		for {
			select {
			case <-stop:
				return
			default:
				_ = config.write(nil)
			}
		}
	}()
	for i := 0; i < 100; i++ {
		r := httptest.NewRequest(http.MethodPost, "/control/filtering/set_rules", bytes.NewBufferString(`{"rules":["||a.example^","||b.example^"]}`))
		setRules(httptest.NewRecorder(), r)
	}
	close(stop)
	wg.Wait()
}
