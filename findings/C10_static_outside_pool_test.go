//go:build darwin || freebsd || linux || openbsd

package dhcpd

import (
	"net"
	"net/netip"
	"testing"

	"github.com/AdguardTeam/AdGuardHome/internal/dhcpsvc"
	"github.com/insomniacslk/dhcp/dhcpv4"
	"github.com/stretchr/testify/assert"
	"github.com/stretchr/testify/require"
)

// TestC10_StaticLeaseOutsidePoolDoesNotConsumePoolAddress: a static
// reservation for an address of the subnet that lies outside of the dynamic
// range must not take an address of the range away.  addLease marked pool
// offset 0 (the first address of the range) as leased for such a reservation,
// so that address was never offered again, and with a pool of N addresses only
// N-1 clients could be served.
func TestC10_StaticLeaseOutsidePoolDoesNotConsumePoolAddress(t *testing.T) {
	conf := defaultV4ServerConf()
	// a pool of exactly two addresses
	conf.RangeStart = netip.MustParseAddr("192.168.10.100")
	conf.RangeEnd = netip.MustParseAddr("192.168.10.101")
	s, err := v4Create(conf)
	require.NoError(t, err)

	// a reservation inside the subnet, outside the pool
	err = s.AddStaticLease(&dhcpsvc.Lease{
		Hostname: "printer",
		HWAddr:   net.HardwareAddr{0x02, 0, 0, 0, 0, 0x5A},
		IP:       netip.MustParseAddr("192.168.10.50"),
	})
	require.NoError(t, err)

	discover := func(mac net.HardwareAddr) (offered net.IP) {
		disc, dErr := dhcpv4.NewDiscovery(mac)
		require.NoError(t, dErr)

		resp, rErr := dhcpv4.NewReplyFromRequest(disc)
		require.NoError(t, rErr)

		if s.handle(disc, resp) != 1 || resp.MessageType() != dhcpv4.MessageTypeOffer {
			return nil
		}

		return resp.YourIPAddr
	}

	a := discover(net.HardwareAddr{0x02, 0, 0, 0, 0, 0x0A})
	b := discover(net.HardwareAddr{0x02, 0, 0, 0, 0, 0x0B})

	assert.NotNil(t, a, "first client: no offer although both pool addresses are free")
	assert.NotNil(t, b, "second client: no offer although one pool address is neither leased nor reserved")
	if a != nil && b != nil {
		assert.NotEqual(t, a.String(), b.String())
	}
	t.Logf("offers: %v %v", a, b)
}
