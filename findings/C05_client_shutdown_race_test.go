package client_test

import (
	"fmt"
	"net"
	"net/netip"
	"sync"
	"testing"
	"time"

	"github.com/AdguardTeam/AdGuardHome/internal/client"
	"github.com/AdguardTeam/AdGuardHome/internal/dhcpsvc"
	"github.com/AdguardTeam/golibs/logutil/slogutil"
	"github.com/AdguardTeam/golibs/testutil"
	"github.com/AdguardTeam/golibs/timeutil"
	"github.com/stretchr/testify/require"
)

// TestC05_ShutdownWhileAddingClients: Shutdown walks the per-client upstream
// configurations while the admin API still adds clients (go test -race).
func TestC05_ShutdownWhileAddingClients(t *testing.T) {
	ctx := testutil.ContextWithTimeout(t, 10*time.Second)
	s, err := client.NewStorage(ctx, &client.StorageConfig{
		Logger: slogutil.NewDiscardLogger(),
		Clock:  timeutil.SystemClock{},
		DHCP: &testDHCP{
			OnLeases: func() (ls []*dhcpsvc.Lease) { return nil },
			OnHostBy: func(_ netip.Addr) (h string) { return "" },
			OnMACBy:  func(_ netip.Addr) (m net.HardwareAddr) { return nil },
		},
	})
	require.NoError(t, err)

	wg := sync.WaitGroup{}
	wg.Add(1)
	go func() {
		defer wg.Done()
		time.Sleep(time.Millisecond)
		_ = s.Shutdown(ctx)
	}()
	for i := 0; i < 200; i++ {
		name := fmt.Sprintf("c%d", i)
		require.NoError(t, s.Add(ctx, &client.Persistent{
			Name: name, UID: client.MustNewUID(), ClientIDs: []string{"cid-" + name},
			Upstreams: []string{"1.1.1.1"},
		}))
		require.True(t, s.RemoveByName(ctx, name))
	}
	wg.Wait()
}
