package schedule

import (
	"testing"
	"time"

	"github.com/stretchr/testify/assert"
	"github.com/stretchr/testify/require"
)

// TestContainsDSTDays: the schedule follows the local wall-clock time of day,
// days with daylight-saving transitions included.
func TestContainsDSTDays(t *testing.T) {
	loc, err := time.LoadLocation("Europe/Berlin")
	require.NoError(t, err)

	// 2024-03-31 (Sunday): 02:00 -> 03:00, a 23-hour day.
	w := &Weekly{location: loc}
	w.days[time.Sunday] = dayRange{start: 3 * time.Hour, end: 4 * time.Hour}
	assert.True(t, w.Contains(time.Date(2024, 3, 31, 3, 30, 0, 0, loc)), "03:30 local on the spring-forward day lies in [03:00, 04:00)")
	assert.False(t, w.Contains(time.Date(2024, 3, 31, 4, 30, 0, 0, loc)), "04:30 local on the spring-forward day does not lie in [03:00, 04:00)")

	// 2024-10-27 (Sunday): 03:00 -> 02:00, a 25-hour day; a full-day range covers every instant of it.
	full := &Weekly{location: loc}
	full.days[time.Sunday] = dayRange{start: 0, end: maxDayRange}
	assert.True(t, full.Contains(time.Date(2024, 10, 27, 23, 30, 0, 0, loc)), "23:30 local on the fall-back day lies in the full-day range")
	late := &Weekly{location: loc}
	late.days[time.Sunday] = dayRange{start: 22 * time.Hour, end: 23 * time.Hour}
	assert.True(t, late.Contains(time.Date(2024, 10, 27, 22, 30, 0, 0, loc)), "22:30 local on the fall-back day lies in [22:00, 23:00)")
}
