package querylog

import (
	"encoding/json"
	"fmt"
	"net"
	"net/http"
	"net/http/httptest"
	"net/url"
	"testing"
	"time"

	"github.com/AdguardTeam/AdGuardHome/internal/aghnet"
	"github.com/AdguardTeam/golibs/logutil/slogutil"
	"github.com/AdguardTeam/golibs/testutil"
	"github.com/AdguardTeam/golibs/timeutil"
	"github.com/stretchr/testify/assert"
	"github.com/stretchr/testify/require"
)

// TestC07_CursorInsideMemoryBuffer: five queries are on disk and five newer
// ones are still in the memory buffer.  Paging with limit=2 and following the
// returned "oldest" cursor, as the web UI does, must return all ten, newest
// first, exactly once.  When the cursor is the time of an entry that is still
// in memory, it is newer than everything in the file: the reader seeks to the
// start of the file and then still skips "the record with that timestamp",
// which drops the newest record of the file.
func TestC07_CursorInsideMemoryBuffer(t *testing.T) {
	l, err := newQueryLog(Config{
		Logger:      slogutil.NewDiscardLogger(),
		Anonymizer:  aghnet.NewIPMut(nil),
		Enabled:     true,
		FileEnabled: true,
		RotationIvl: timeutil.Day,
		MemSize:     100,
		BaseDir:     t.TempDir(),
	})
	require.NoError(t, err)

	ctx := testutil.ContextWithTimeout(t, 10*time.Second)

	var want []string
	add := func(i int) {
		host := fmt.Sprintf("q%02d.example", i)
		addEntry(l, host, net.IPv4(1, 1, 1, byte(i)), net.IPv4(192, 168, 0, 1))
		want = append([]string{host}, want...)
		time.Sleep(2 * time.Millisecond)
	}
	for i := 0; i < 5; i++ {
		add(i)
	}
	require.NoError(t, l.flushLogBuffer(ctx))
	for i := 5; i < 10; i++ {
		add(i)
	}

	var got []string
	olderThan := ""
	for page := 0; page < 20; page++ {
		q := url.Values{"limit": {"2"}}
		if olderThan != "" {
			q.Set("older_than", olderThan)
		}

		r := httptest.NewRequest(http.MethodGet, "/control/querylog?"+q.Encode(), nil)
		w := httptest.NewRecorder()
		l.handleQueryLog(w, r)
		require.Equal(t, http.StatusOK, w.Code)

		resp := struct {
			Oldest string `json:"oldest"`
			Data   []struct {
				Question struct {
					Name string `json:"name"`
				} `json:"question"`
			} `json:"data"`
		}{}
		require.NoError(t, json.Unmarshal(w.Body.Bytes(), &resp))

		for _, d := range resp.Data {
			got = append(got, d.Question.Name)
		}

		if resp.Oldest == "" || len(resp.Data) == 0 {
			break
		}

		olderThan = resp.Oldest
	}

	assert.Equal(t, want, got, "every recorded query must be returned exactly once, newest first")
}
